"""C19 — generated parsers never crash and always terminate.
Theorem (LL, all inputs): ll_no_internal — under the checked table well-formedness `tablesInRangeB` the run
never reaches an internal outcome (index out of range, parse-tree-stack underflow, failed debug assertion).
Tie D: `llRun` / `lrRun` vs the real parsers on garbled inputs (character soup, mutated sentences), recovery
on and off. EXPLORATION (labelled): no real run panics or reports an internal/data/lexer error; a wall-clock
watchdog looks for non-termination — every run of the real LR parser on cyclic LALR(1) grammars (which parol
accepts with resolved conflicts) is executed in its own process under a time and memory limit."""
import os, resource, subprocess, time
from . import common

FILES = ["crates/parol_runtime/src/parser/parser_types.rs", "crates/parol_runtime/src/parser/recovery.rs",
         "crates/parol_runtime/src/lr_parser/parser_types.rs", "crates/parol_runtime/src/lexer/token_stream.rs"]

BAD = ("panic", "other:", "internal", "fuel-exhausted", "bad-op")


_seen = set()


def oracle_req(case, reply):
    w = case.split()
    if w[0] == "ll":
        key = " ".join(w[1:4])
        reqs = ["ll-tables-ok " + key]
        if key not in _seen:
            # hypothesis of ll_terminates_bound (no left recursion, certificate verified per production)
            _seen.add(key)
            reqs.append("ll-term-ok " + key)
        return reqs
    if w[0] == "lr" and len(w) >= 14:
        # hypothesis of lr_no_internal, evaluated on the real table
        reqs = ["lr-table-complete " + " ".join(w[1:4]) + " " + w[13]]
        key = " ".join(w[1:4])
        if key not in _seen:
            # hypothesis of lr_terminates_bound: no loop of reductions without consuming input
            _seen.add(key)
            reqs.append("lr-term-ok " + key + " " + w[13])
        return reqs
    return None


def attribute(case, reply, why):
    # signature of F24: the verified checker lrNoReduceLoopB rejects the real table
    return "F24" if why.startswith("fail reduce-loop") else None


def table_has_reduce_loop(case):
    w = case.split()
    if w[0] != "lr" or len(w) < 14:
        return False
    rep = common.model_lines(["lr-term-ok " + " ".join(w[1:4]) + " " + w[13]])
    return bool(rep) and rep[0].startswith("fail reduce-loop")


def nontrivial(case):
    w = case.split()
    return len(w) >= 13 and w[6] != "-"


def has_cycle(gstart, gprods):
    prods = []
    if gprods != "-":
        for p in gprods.split(";"):
            l, r = p.split(":")
            prods.append((l, [x for x in r.split(",") if x]))
    nullable = set()
    changed = True
    while changed:
        changed = False
        for l, r in prods:
            if l not in nullable and all(x.startswith("n") and x[1:] in nullable for x in r):
                nullable.add(l); changed = True
    edges = set()
    for l, r in prods:
        for i, x in enumerate(r):
            if x.startswith("n") and all(j == i or (y.startswith("n") and y[1:] in nullable) for j, y in enumerate(r)):
                edges.add((l, x[1:]))
    changed = True
    while changed:
        changed = False
        for a, b in list(edges):
            for c, d in list(edges):
                if b == c and (a, d) not in edges:
                    edges.add((a, d)); changed = True
    return any(a == b for a, b in edges)


def _limits():
    resource.setrlimit(resource.RLIMIT_AS, (3 * 1024 ** 3, 3 * 1024 ** 3))


def run_limited(lines, timeout):
    try:
        p = subprocess.run([common.PV, "prun", "run"], input="\n".join(lines) + "\n", capture_output=True, text=True,
                           timeout=timeout, preexec_fn=_limits)
        reps = [l[3:] for l in p.stdout.split("\n") if l.startswith("@@ ")]
        return p.returncode, reps
    except subprocess.TimeoutExpired:
        return "timeout", []


def extra(ctx, state):
    cases = common.read_lines(ctx.path("cases.txt"))
    impl = common.read_lines(ctx.path("impl.txt"))
    bad = [(c, r) for c, r in zip(cases, impl) if r.split(" ")[0].startswith(BAD) or r.startswith(BAD)]
    cov = {"explored_runs_without_crash": len(cases) - len(bad), "crashing_or_internal_replies": len(bad),
           "exploration_note": "absence of panics / non-termination beyond ll_no_internal is only observed on the explored inputs"}
    if bad:
        bad.sort(key=lambda t: len(t[0]))
        common.violation(ctx, "C19_crash.json", {"kind": "a real parser panicked or reported an internal error",
                                                 "case": bad[0][0], "impl_reply": bad[0][1], "count": len(bad)})
    # watchdog on cyclic LALR(1) grammars
    okg, _ = common.gen_cases("lrrun", ctx.seed, ctx.tier, ctx.path("cyclic.txt"), extra=["cyclic"])
    cyc = common.read_lines(ctx.path("cyclic.txt"))
    hangs, other = [], []
    t0 = time.time()
    budget = 600 if ctx.thorough else 45
    checked = 0
    for i in range(0, len(cyc), 40):
        if time.time() - t0 > budget:
            break
        chunk = cyc[i:i + 40]
        rc, reps = run_limited(chunk, 20)
        checked += len(chunk)
        if rc == 0 and len(reps) == len(chunk):
            other += [(c, r) for c, r in zip(chunk, reps) if r.split(" ")[0].startswith(BAD)]
            continue
        for c in chunk:       # find the runs that hang or blow up
            rc1, reps1 = run_limited([c], 4)
            if rc1 != 0 or len(reps1) != 1:
                hangs.append((c, rc1))
            elif reps1[0].split(" ")[0].startswith(BAD):
                other.append((c, reps1[0]))
    known = {k["id"]: k for k in common.load_known(ctx.pid)}
    f24 = [h for h in hangs if table_has_reduce_loop(h[0])]
    new = [h for h in hangs if h not in f24]
    cov.update({"cyclic_grammar_runs": checked, "non_terminating_or_memory_exhausting_runs": len(hangs),
                "attributed_to_F24": len(f24)})
    if f24 and "F24" in known:
        ctx.known.append(f"F24 {known['F24']['text']} (reproduced on {len(f24)} run(s), e.g. grammar `{f24[0][0].split()[8]}` input tokens `{f24[0][0].split()[6]}`)")
    elif f24:
        new += f24
    if new:
        common.violation(ctx, "C19_hang.json", {"kind": "a real parser did not terminate within 4 s / 3 GB", "case": new[0][0],
                                                "status": str(new[0][1]), "count": len(new)})
    if other:
        common.violation(ctx, "C19_crash_cyclic.json", {"kind": "a real parser panicked or reported an internal error",
                                                        "case": other[0][0], "impl_reply": other[0][1], "count": len(other)})
    state["coverage_extra"] = cov


SPEC = {
    "prop": "prun",
    "gen_extra": ["junk"],
    "mod": "ParolModel.Props.C19",
    "more_mods": ["ParolModel.Props.C19b", "ParolModel.Props.C19c", "ParolModel.Props.C19d", "ParolModel.Props.C19e"],
    "files": FILES,
    "oracle_req": oracle_req,
    "attribute": attribute,
    "nontrivial": nontrivial,
    "extra": extra,
    "level": "proof",
    "rule": "random LL and LALR(1) grammars through the real pipeline; inputs: short strings, sentences and mutants, two thirds of them garbled "
            "(insertions of arbitrary ASCII / control / multi-byte characters, deletions, duplications, pure character soup); recovery on and off, "
            "trim and depth limits cycled; non-trivial = non-empty token sequence; distinct = distinct request lines; plus the watchdog runs on "
            "cyclic LALR(1) grammars (coverage.cyclic_grammar_runs)",
    "assumptions": [
        "ll_no_internal / lr_no_internal are about the models `llRun` / `lrRun` (ties of C01 / C03); their hypotheses, the checkers tablesInRangeB and lrTableComplete, are evaluated by Lean on every real LL / LALR(1) table explored",
        "LL termination is a theorem about the model under tablesSoundB and noLeftRecB (both evaluated on every real table); the step bound is about loop iterations of llLoop, real time is not modelled",
        "LR termination is a theorem about the model under lrNoReduceLoopB, evaluated on every real table; tables that fail it are instances of finding F24 (the watchdog confirms the real parser hangs on them)",
        "the recovery machinery is NOT modelled; it is explored only (catch_unwind, watchdog)",
        "stack exhaustion, allocation failure and real time are runtime behaviour the model cannot exhibit",
    ],
}

CLAIM = {
    "category": "proof",
    "text": "Theorem ll_no_internal: for every LL table set accepted by the verified checker tablesInRangeB (start, left-hand sides, non-terminals and predictable productions in range; no end-of-production marker or T(0) inside a right-hand side; sorted automata; an accepting start state has no transitions) and EVERY input and option record, the model of LLKParser::parse_into never reaches an internal outcome — no index out of range, no parse-tree-stack underflow in process_item_stack (stack discipline invariant StackOK), no failing debug assertion in eval. The checker is evaluated on every real table. Theorem lr_no_internal (Props/C19b): the same for the LR parser model under the verified checker lrTableComplete (lrTableValid + all shift/goto targets in range + a goto on the left-hand side exists wherever a reduction can land), also evaluated on every real LALR(1) table. Theorem ll_terminates_bound (Props/C19c): for LL tables passing tablesSoundB and the verified certificate checker noLeftRecB (a nullable-closed set and weights w[lhs] >= 2 + weight of the nullable prefix and first non-nullable symbol of every right-hand side — exists iff there is no left recursion, also through nullable prefixes) the parser model terminates within llFuelBound T n = M*W*(n+1)+M+2 loop iterations on EVERY input of n tokens (potential argument); the checker is evaluated on every real LL table; exTLeftRec_not_terminates shows the hypothesis is needed; par_parsers_terminate (Props/C19d) evaluates it in the kernel on parol's own two PAR parser tables. Theorem lr_terminates_bound (Props/C19e): for every LR table accepted by the verified checker lrNoReduceLoopB (summaries of all reduce-only computations per (lookahead, state below, top state), verified against one unfolding of the parser step) the LR parser model terminates within (|toks|+1)(C^2+3C+1) iterations on every input; the checker is evaluated on every real LALR(1) table; f24_never_terminates / hlr_never_terminates prove non-termination for two real parol tables the checker rejects (finding F24). PARTIAL: that parol only generates tables passing the checker is false (F24) and recovery is not a theorem; they are explored — both real parsers on garbled inputs with recovery on and off under catch_unwind (no panic, no internal/data/lexer error), and a per-process watchdog on cyclic LALR(1) grammars.",
    "design_ref": "DESIGN.md §6 C19",
    "note": "Proofs for LL and LR index/stack safety and LL and LR termination under checked table hypotheses; recovery and real time are explored only. Known finding F24 (LR parser does not terminate on cyclic grammars accepted with resolved conflicts) is reproduced by the watchdog and reported as KNOWN-FINDING. Trusted: Lean kernel; faithfulness of the model as observed; harness, watchdog limits (4 s, 3 GB).",
    "technique": "Lean 4 proof (LL and LR index safety, LL and LR termination with explicit bounds under checked table hypotheses) over hand-written model + differential correspondence check on garbled inputs + watchdog exploration",
}


def run(ctx):
    return common.standard_flow(ctx, SPEC)


def replay(ctx, payload):
    case = payload.get("case")
    common.build_harness()
    rc, reps = run_limited([case], 6)
    print(f"case: {case}\nstatus: {rc}\nreply: {reps}")
    return 0 if (rc == 0 and reps and not reps[0].startswith(BAD)) else 1
