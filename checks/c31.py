"""C31 — recovery edit scripts are minimal and correct.
Tie D: real `Recovery::levenshtein_distance` (via cfg-guarded hook) vs Lean `lev`; oracle: verified
`applyOps`, `cost`, and the proved-minimal model distance."""
from . import common

FILES = ["crates/parol_runtime/src/parser/recovery.rs"]


def oracle_req(case, reply):
    w = case.split()
    if w[0] != "lev":
        return None
    r = reply.split()
    if len(r) != 2:
        return "lev-check " + w[1] + " " + w[2] + " 999999 -"   # panic / malformed reply: fails
    return f"lev-check {w[1]} {w[2]} {r[0]} {r[1]}"


def nontrivial(case):
    w = case.split()
    return w[1] != "-" and w[2] != "-" and w[1] != w[2]


SPEC = {
    "prop": "c31",
    "mod": "ParolModel.Props.C31",
    "files": FILES,
    "oracle_req": oracle_req,
    "nontrivial": nontrivial,
    "level": "proof",
    "rule": "exhaustive: all pairs of sequences over {0,1,2} of length <= 4 (quick) / <= 5 (thorough); "
            "random and near-equal pairs, alphabet 1..6, length <= 8; non-trivial = both non-empty and different; "
            "distinct = distinct request lines",
    "assumptions": [
        "the Lean function `lev` mirrors Recovery::levenshtein_distance; agreement is observed on the explored pairs (exact comparison of distance and script)",
        "TerminalIndex (u16) values are modelled as unbounded Nat; only equality of tokens matters to the algorithm",
    ],
}

CLAIM = {
        "category": "proof",
        "text": "Lean theorems lev_script_transforms, lev_cost_eq_distance, lev_minimal hold for ALL pairs of token sequences of the model `lev`, a line-by-line mirror of Recovery::levenshtein_distance (DP table with the code's tie order, backtracking, early returns). The model is tied to the code by an exact differential run (distance and script) over all pairs over {0,1,2} up to length 4/5 plus random pairs, and every implementation reply is also fed to the verified oracle (applyOps, cost, proved-minimal distance).",
        "design_ref": "DESIGN.md §6 C31",
        "note": "Trusted: Lean kernel (axioms propext, Quot.sound only), the hand-written model's faithfulness as observed by the differential run, the harness and orchestrator. u16 token types modelled as Nat.",
        "technique": "Lean 4 proof over hand-written model + differential correspondence check",
    }


def run(ctx):
    return common.standard_flow(ctx, SPEC)


def replay(ctx, payload):
    case = payload.get("case")
    common.build_harness()
    common.lake_build(["parol_model"])
    a = common.impl_lines("c31", [case])[0]
    b = common.model_lines([case])[0]
    o = common.model_lines([oracle_req(case, a)])[0]
    print(f"case: {case}\nimpl: {a}\nmodel: {b}\noracle: {o}")
    return 0 if (a == b and o == "ok") else 1
