"""C12 — LR augmentation preserves the language and isolates the start symbol.
Tie D: the real `augment_grammar` and `check_and_transform_grammar_with_ignored(_, LALR1, _)` vs the
Lean `augmentGrammar` / `lrTransform` (Model/Augment.lean), plus the naming rule `generate_name`
through the same public function on arbitrary names. Oracle: `augment-check` decides the property
on the implementation's output — structural isolation of the start symbol, and language equality
with the input grammar on all strings up to length 4 (verified recogniser `member`)."""
from . import common

FILES = [
    "crates/parol/src/transformation/lr_augmentation.rs",
    "crates/parol/src/utils/mod.rs",
    "crates/parol/src/generators/grammar_trans.rs",
]

WORD_LEN = 4


def oracle_req(case, reply):
    w = case.split()
    if w[0] == "augment-attr" and len(w) == 5:
        w = w[:4]            # decorated occurrences: the same oracle as for the plain grammar
    elif w[0] != "augment" or len(w) != 4:
        return None          # `augname` cases: differential tie only
    r = reply.split()
    if len(r) != 4:
        return "augment-check malformed-reply"      # wrong arity -> bad-op -> failure
    return f"augment-check {WORD_LEN} {w[2]} {w[3]} " + " ".join(r)


def nontrivial(case):
    w = case.split()
    if w[0] == "augname":
        return w[2] != "-"
    return len(w) == 4 and w[3] != "-"


def attribute(case, reply, why):
    """F1 (fixed by f0cd3f2) would show up as: isolation fails, and the pre-repair model
    `augment-old` reproduces the implementation's grammar."""
    w = case.split()
    r = reply.split()
    if w[0] != "augment" or len(r) != 4 or "not-isolated" not in why:
        return None
    old = common.model_lines([f"augment-old {w[2]} {w[3]}"])[0]
    return "F1" if old == f"{r[1]} {r[2]}" else None


def extra(ctx, state):
    cases = common.read_lines(ctx.path("cases.txt"))
    impl = common.read_lines(ctx.path("impl.txt"))
    st = {"augmented": 0, "kept": 0, "via_same": 0, "via_rejected": 0, "new_start_beyond_start_plus_1": 0, "augname": 0,
          "augname_counted_up": 0}
    for c, r in zip(cases, impl):
        w, x = c.split(), r.split()
        if w[0] == "augname":
            st["augname"] += 1
            if len(x) == 1 and x[0] not in (w[1] + "0",) and x[0] != w[1]:
                st["augname_counted_up"] += 1
            continue
        if len(x) != 4:
            continue
        if x[1] == w[2]:
            st["kept"] += 1
        else:
            st["augmented"] += 1
            if x[1] != str(int(w[2]) + 1):
                st["new_start_beyond_start_plus_1"] += 1
        st["via_" + x[3]] = st.get("via_" + x[3], 0) + 1
    state["coverage_extra"] = {"c12_distribution": st, "oracle_word_length": WORD_LEN}


SPEC = {
    "prop": "c12",
    "mod": "ParolModel.Props.C12",
    "files": FILES,
    "oracle_req": oracle_req,
    "nontrivial": nontrivial,
    "attribute": attribute,
    "extra": extra,
    "level": "proof",
    "rule": "exhaustive: every grammar (multiset of productions, start symbol N0) in the scopes (non-terminals, terminals, max "
            "productions, max rhs length) = quick (1,1,4,2) (2,1,3,2) (2,2,3,2) (3,1,2,2); thorough (1,1,4,2) (2,1,3,2) (2,2,3,2) (3,1,3,2); "
            "plus random grammars biased to the F1 shape (single start production, start symbol reachable from itself), isolated start "
            "symbols, directly recursive start symbols, renumbered/sparse non-terminal numbers so that the candidate names N<start>, "
            "N<start+1>, ... collide; every 7th with a random unreachable_to_ignore set; plus `augname` cases: generate_name on names from a "
            "pool with numeric suffixes, leading zeros, suffixes around 2^64; non-trivial = at least one production / one other name; "
            "distinct = distinct request lines",
    "assumptions": [
        "the Lean function augmentGrammar mirrors augment_grammar as repaired by the fix: commit f0cd3f2; agreement (grammar, name of the new start symbol, and identity with the result of check_and_transform_grammar) is observed on the explored grammars",
        "non-terminal i is named N<i> (decimal); generate_name's choice for the new start symbol is then the least number >= start that is not a non-terminal, which is what the theorems use; the string-level rule (generateNameS) is tied separately on arbitrary names and is not covered by a theorem",
        "usize arithmetic: a numeric suffix that does not fit into usize falls back to 1 (modelled); a suffix of exactly usize::MAX makes `num += 1` overflow (debug panic / release wrap) and is excluded from the generated names",
        "the oracle's language comparison is bounded: all strings of length <= 4 over the grammar's terminals plus one foreign terminal (the unbounded statement is theorem augmentGrammar_preserves_lang about the model)",
    ],
}

CLAIM = {
    "category": "proof",
    "text": "Theorems augmentGrammar_total, augmentGrammar_preserves_lang (Lang G' = Lang G, both branches), augment_isolates_start (the start symbol of the result has exactly one production and occurs on no right-hand side), augmentGrammar_shape (unchanged iff already isolated, else S' -> S in front with S' the first unused number from the start symbol's upwards) and lrTransform_eq (the grammar handed to the LALR(1) construction is augment_grammar's result exactly when the C11 checks pass) hold for ALL grammars of the model `augmentGrammar`, a mirror of the repaired augment_grammar. The pre-repair function is kept as augmentGrammarOld with the checked counterexample augmentOld_isolates_start_counterexample (S -> a SOpt; SOpt -> S | eps) and the partial result augmentOld_isolates_start_partial. Tied to the code by an exact differential run (grammar, generated name, agreement with check_and_transform_grammar(_, LALR1)) on an exhaustive small scope plus biased random grammars; every implementation reply is judged by the structural isolation check and by a language comparison with the verified recogniser `member` on all strings up to length 4.",
    "design_ref": "DESIGN.md §6 C12",
    "note": "Trusted: Lean kernel (propext, Quot.sound, Classical.choice), faithfulness of the hand-written model as observed by the differential run, harness and orchestrator. The string-level naming rule generate_name is modelled and differentially tied but has no theorem of its own (C33 is about names).",
    "technique": "Lean 4 proof over hand-written model + differential correspondence check",
}


def run(ctx):
    return common.standard_flow(ctx, SPEC)


def replay(ctx, payload):
    case = payload.get("case")
    common.build_harness()
    common.lake_build(["parol_model"])
    a = common.impl_lines("c12", [case])[0]
    b = common.model_lines([case])[0]
    req = oracle_req(case, a)
    o = common.model_lines([req])[0] if req else "ok"
    print(f"case: {case}\nimpl: {a}\nmodel: {b}\noracle: {o}")
    return 0 if (a == b and o == "ok") else 1
