"""C34 — parol and its language server accept the same grammar texts.

G: `pv_ls c34 dump` regenerates lean/ParolModel/Generated/ParTables.lean on every run: the COMPILED
   production tables and lookahead automata of both PAR parsers, their scanner definitions (read from
   the text of the generated sources, regexes lowered via regex-syntax), the options of their
   `parse_into`, and an isomorphism witness found by the harness. `lake build ParolModel.Props.C34`
   then re-proves (kernel evaluation of verified checkers) that the two tables denote the same
   language up to the terminal renaming, that the two scanner definitions tokenize every text alike,
   and — with `ll_sound` — that a text accepted by one table-driven parser is a sentence of the
   other parser's grammar. Completeness of the LL parsers is NOT proved.
D: both REAL parsers (`parol::parser::parse` with a fresh ParolGrammar; parol-ls's `parse`) and both
   Lean instances (spec tokenizer + LL model on the regenerated tables) answer the same request;
   replies must be identical. Oracle on the real parsers' replies: a syntax error is reported by both
   or by neither, and the two real scanners delivered corresponding token types."""
import os
from . import common

FILES = ["crates/parol/src/parser/parol_parser.rs", "crates/parol-ls/src/parol_ls_parser.rs",
         "crates/parol/src/parser/parol.par", "crates/parol-ls/parol_ls.par",
         "crates/parol_runtime/src/parser/parser_types.rs"]
GEN = os.path.join(common.LEAN, "ParolModel", "Generated", "ParTables.lean")
STATE = {}


def oracle_req(case, reply):
    w = reply.split()
    if len(w) != 4:
        return "c34-check malformed-reply - - -"
    return "c34-check " + " ".join(w)


def nontrivial(case):
    w = case.split()
    return len(w) == 2 and w[1].count(",") >= 8


def prepare(ctx):
    STATE.clear()
    ok, log = common.build_harness(("pv", "pv_ls"))
    if not ok:
        return
    rc, out, err = common.sh([common.PV_LS, "c34", "dump", GEN])
    STATE["dump"] = out.strip() or ("failed: " + err[-300:])
    common.lake_build(["parol_model"])
    STATE["static"] = (common.model_lines(["c34-static"]) or ["?"])[0]


def extra(ctx, state):
    static = STATE.get("static", "?")
    kv = dict(x.split("=", 1) for x in static.split() if "=" in x)
    for k in ("found", "tablesIso", "termMapOk", "tMapInverse", "tablesSound", "tablesInRange"):
        if kv.get(k) != "true":
            common.violation(ctx, f"C34_checker_{k}.json", {
                "kind": "a verified checker rejects the regenerated tables (the theorems of Props/C34 about them no longer hold)",
                "checker": k, "c34-static": static, "dump": STATE.get("dump")}, no_input=True)
    cases = common.read_lines(ctx.path("cases.txt"))
    impl = common.read_lines(ctx.path("impl.txt"))
    pairs, sem = {}, 0
    depth_note = None
    for c, r in zip(cases, impl):
        w = r.split()
        if c.startswith("par-sem"):
            sem += 1
        if len(w) >= 2:
            k = w[0] + "/" + w[1]
            pairs[k] = pairs.get(k, 0) + 1
            if w[0] != w[1] and depth_note is None and "other-depth" in (w[0], w[1]):
                depth_note = (c, w[0], w[1])
    if depth_note:
        c, a, b = depth_note
        text = "".join(chr(int(x)) for x in c.split()[1].split(",")) if c.split()[1] != "-" else ""
        ctx.notes.append(
            "outside the property's wording (not a SYNTAX error): parol-ls's parser is generated with max_parsing_depth(1500) "
            "(crates/parol-ls/build.rs), parol's own parser has no limit; a grammar text with >= 380 nested groups is accepted by parol and "
            f"rejected by parol-ls with MaxParsingDepthExceeded (verdicts {a}/{b}; the Lean instances reproduce both); e.g. `{text[:40]}…` ({len(text)} chars)")
    dump = STATE.get("dump", "?")
    if "parol_tables=fresh" not in dump or "ls_tables=fresh" not in dump:
        ctx.notes.append("a checked-in generated parser differs from a fresh generation from its .par file: " + dump)
    state["coverage_extra"] = {
        "programs": 2,
        "programs_explanation": "the two generated PAR parsers whose regenerated tables and scanner definitions are validated against each other by the verified checkers (tablesIso, termMapOk, tablesSoundB); `evaluations` counts the texts of the differential run",
        "disagreements_checked": len(state.get("oracle_fail", [])) + len(state.get("diffs", [])),
        "generated_file": "lean/ParolModel/Generated/ParTables.lean (" + dump + ")",
        "verified_checkers_on_regenerated_tables": static,
        "verdict_pairs_parol/ls": pairs,
        "cases_where_ParolGrammar_actions_aborted_the_parse (syntax verdict from the action-free real LLKParser)": sem,
    }


SPEC = {
    "prop": "c34",
    "mod": "ParolModel.Props.C34",
    "files": FILES,
    "bins": ("pv", "pv_ls"),
    "binary": "pv_ls",
    "oracle_req": oracle_req,
    "nontrivial": nontrivial,
    "extra": extra,
    "level": "translation_validation",
    "rule": "cases: every *.par below the repository (207); token-level mutants of those of <= 6 KB (delete / duplicate / swap / replace by / "
            "insert a token of the 42-token PAR vocabulary incl. a foreign character; 25 (quick) / 150 (thorough) per file); ALL token strings of "
            "<= 4 tokens in five contexts (bare text; declaration area; production area; inside a right-hand side; inside a %scanner block) over "
            "9..15 representative tokens each (thorough: <= 5 in the bare context); 3000 / 30000 random byte mutations (delete, insert, replace, "
            "bit flip; lossy UTF-8) of files <= 2.5 KB; corpus: nesting depth around parol-ls's depth limit. Texts containing U+10FFFF are left out "
            "(finding F21, scnr2). non-trivial = more than 8 characters; distinct = distinct texts",
    "assumptions": [
        "Generated/ParTables.lean is produced by the harness from the compiled statics PRODUCTIONS / LOOKAHEAD_AUTOMATA / TERMINAL_NAMES / NON_TERMINALS (pub consts of both generated parsers) and from the TEXT of the generated sources (scanner! block, start symbol index, trim_parse_tree, max parsing depth, MAX_K); the regex-syntax -> Re lowering (harness/src/relower.rs) is validated by the differential run, not proved",
        "completeness of the two LL(k) parsers (every sentence of the table's grammar is accepted) is NOT proved (LLComplete, Props/C01); `ParsersAgree` is stated and reduced to it (ParsersAgree_partial); the differential run covers it on the explored texts",
        "the Lean lexer + LL model instances are tied to the real parsers by exact comparison of verdict and significant token types on every case (tie D); error recovery is not modelled (after the first syntax error the real parser can only end with an error)",
        "when ParolGrammar's semantic actions abort parol's parse (UserError) the syntax verdict is taken from the real LLKParser run time over the tables rebuilt in-process from parol.par (checked identical to the compiled ones by `dump`: parol_tables=fresh) with no-op actions; on all other cases that run must agree with parol::parser::parse (else the reply is `inconsistent`)",
        "MaxParsingDepthExceeded (parol-ls only, limit 1500) is classified `other-depth`, not as a syntax error; such mismatches are reported as a note",
    ],
}

CLAIM = {
    "category": "translation_validation",
    "text": "PROVED in Lean (Props/C34, axioms propext/Quot.sound/Classical.choice only), re-checked on every run against tables REGENERATED from the working tree: "
            "(1) inline_preserves_lang, grammarIso_sound, tablesIso_sound: the checker for 'the two production tables are isomorphic after inlining single-production non-terminals' is sound, "
            "and par_tables_iso (kernel evaluation) shows the witness found by the harness (inline ProductionLHS of parol_ls.par; non-terminal and terminal bijections) passes it, hence "
            "par_same_language: for ALL token strings w, w is in the language of parol's production table iff tMap(w) is in the language of parol-ls's. "
            "(2) termMap_sound + par_termMap_ok give par_same_tokens: for EVERY text the specification tokenizer with parol-ls's scanner definition yields exactly parol's tokens renamed by tMap "
            "(all 46 regexes pairwise equivalent; for the 25 terminal pairs whose declaration order differs the regexes are proved disjoint by the verified product-automaton checker). "
            "(3) parol_accept_in_ls_language / ls_accept_in_parol_language: with ll_sound (C01) a text accepted by one table-driven parser (lexer + LL model, any lookahead automata, any options) is, as tokenized by the OTHER scanner, a sentence of the OTHER parser's grammar. "
            "NOT proved: completeness of each LL parser, hence not the full equivalence ParsersAgree (stated; ParsersAgree_partial reduces it to LLComplete). "
            "EXPLORED (tie D + oracle): both REAL parsers and both Lean instances give identical verdicts and token types on all repository grammars, token-level mutants, all token strings <= 4 (5) in five contexts and random byte mutations; "
            "the oracle requires 'syntax error in both or in neither' and corresponding token types from the two real scanners on every case.",
    "design_ref": "DESIGN.md §6 C34",
    "note": "Trusted: Lean kernel incl. kernel evaluation (decide +kernel) of the checkers on the generated tables; the harness's extraction of the tables/scanner definitions and the regex lowering (validated by the differential run); harness and orchestrator. "
            "Observation outside the wording (depth limit is not a syntax error): parol-ls rejects texts nested deeper than its max_parsing_depth(1500) (>= 380 nested groups) that parol accepts.",
    "technique": "Lean 4 proofs of checker soundness + kernel evaluation on regenerated tables (translation validation) + differential run of both real parsers against each other and against the Lean instances",
}


def run(ctx):
    prepare(ctx)
    return common.standard_flow(ctx, SPEC)


def replay(ctx, payload):
    case = payload.get("case")
    common.build_harness(("pv", "pv_ls"))
    common.sh([common.PV_LS, "c34", "dump", GEN])
    common.lake_build(["parol_model"])
    if not case:
        print(payload)
        return 1
    a = common.impl_lines("c34", [case], binary=common.PV_LS)[0]
    b = common.model_lines([case])[0]
    o = common.model_lines([oracle_req(case, a)])[0]
    w = case.split()
    text = "".join(chr(int(x)) for x in w[1].split(",")) if len(w) > 1 and w[1] != "-" else ""
    print(f"text: {text[:400]!r}\nimpl (parol ls types…): {a[:300]}\nmodel: {b[:300]}\noracle: {o}")
    return 0 if (a == b and o == "ok") else 1
