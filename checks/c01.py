"""C01 — LL(k) parsers accept exactly the language of the grammar.
Tie D: real LLKParser (tables from parol's real pipeline, built in-process) vs Lean `llRun` on the
same tables and the real token sequence — exact comparison of result, action trace, tree, comments.
Oracle: verified `tablesSoundB` on the real tables + verified membership recogniser on the ORIGINAL
grammar vs the real parser's verdict (recovery on and off)."""
from . import common

FILES = ["crates/parol_runtime/src/parser/parser_types.rs", "crates/parol_runtime/src/parser/lookahead_dfa.rs",
         "crates/parol_runtime/src/lexer/token_stream.rs", "crates/parol_runtime/src/lexer/token_buffer.rs"]


_seen_tables = set()


def oracle_req(case, reply):
    w = case.split()
    if w[0] != "ll" or len(w) < 13:
        return None
    reqs = []
    key = " ".join(w[1:4])
    if key not in _seen_tables:
        # hypothesis of ll_complete / ll_accepts_iff_checked, evaluated once per real table set
        _seen_tables.add(key)
        reqs.append("ll-tables-exact " + key)
        # C01c: the real tables are what the Lean generator `genTables` computes from the transformed grammar
        reqs.append("gen-tables-match " + w[1] + " " + w[13] + " " + w[10] + " " + key)
    if w[5] == "-":       # a depth limit may legitimately reject a sentence (C20 covers it)
        verdict = reply.split()[0] if reply.split() else "none"
        reqs.append("ll-verdict " + key + " " + w[7] + " " + w[8] + " " + w[9] + " " + verdict)
    return reqs or None


def nontrivial(case):
    w = case.split()
    return len(w) >= 13 and w[6] != "-" and w[3].count("+") >= 1


def c01c_tie(ctx, state):
    """C01c: tie D for the generator as a whole (`genTables`, Props/C01c.lean) + its property oracle."""
    cases_p, impl_p, model_p = ctx.path("c01c_cases.txt"), ctx.path("c01c_impl.txt"), ctx.path("c01c_model.txt")
    okg, errg = common.gen_cases("c01c", ctx.seed, ctx.tier, cases_p)
    cases = common.read_lines(cases_p) if okg else []
    oki, erri = common.run_impl("c01c", cases_p, impl_p)
    impl = common.read_lines(impl_p)
    common.run_model(cases_p, model_p)
    model = common.read_lines(model_p)
    if not okg or not oki or len(impl) != len(cases) or not cases:
        common.violation(ctx, "C01_c01c_impl_run.json", {
            "broken": "correspondence D:c01c (implementation driver crashed or produced too few replies)",
            "stderr": (errg if not okg else erri), "replies": len(impl), "cases": len(cases)}, no_input=True)
        return
    diffs = common.diff_streams(cases, impl, model)
    reqs = ["gen-tables-check " + " ".join(c.split()[1:4]) + " " + a for c, a in zip(cases, impl)]
    with open(ctx.path("c01c_oracle_req.txt"), "w") as f:
        f.write("\n".join(reqs) + "\n")
    common.run_model(ctx.path("c01c_oracle_req.txt"), ctx.path("c01c_oracle_rep.txt"))
    reps = common.read_lines(ctx.path("c01c_oracle_rep.txt"))
    fails = [(c, a, r) for c, a, r in zip(cases, impl, reps + ["<missing>"] * (len(cases) - len(reps))) if r != "ok"]
    if fails:
        fails.sort(key=lambda t: len(t[0]))
        common.violation(ctx, "C01_c01c_oracle.json", {
            "kind": "property fails on the implementation (oracle): real tables of a grammar of the class are not exact/sound",
            "case": fails[0][0], "impl_reply": fails[0][1], "oracle": fails[0][2], "count": len(fails)})
    elif diffs:
        diffs.sort(key=lambda t: len(t[1]))
        i, c, a, b = diffs[0]
        common.violation(ctx, "C01_c01c_tie.json", {
            "kind": "model generator and real generator disagree; the property oracle found no failing input",
            "broken": "correspondence D:c01c (theorems of ParolModel.Props.C01c no longer transfer to the code)",
            "case": c, "impl_reply": a, "model_reply": b, "disagreements": len(diffs)}, no_input=True)
    tables = [a for a in impl if not a.startswith("err")]
    state["coverage_extra"] = {"c01c_generator_tie": {
        "cases": len(cases), "disagreements": len(diffs), "real_table_sets": len(tables),
        "with_lookahead_ge_2": sum(1 for a in tables if any(d.split("/")[1] not in ("0", "1") for d in a.split()[2].split(";"))),
        "oracle_checked": len(reqs), "oracle_failures": len(fails)}}


def c01d_tie(ctx, state):
    """C01d: tie D for parol's whole LL(k) path (`parolLL`, Props/C01d.lean: EBNF grammar as written ->
    canonicalisation -> checks -> left factoring -> numbering -> tables) + the end-to-end property oracle."""
    cases_p, impl_p, model_p = ctx.path("c01d_cases.txt"), ctx.path("c01d_impl.txt"), ctx.path("c01d_model.txt")
    okg, errg = common.gen_cases("c01d", ctx.seed, ctx.tier, cases_p)
    cases = common.read_lines(cases_p) if okg else []
    oki, erri = common.run_impl("c01d", cases_p, impl_p)
    impl = common.read_lines(impl_p)
    common.run_model(cases_p, model_p)
    model = common.read_lines(model_p)
    if not okg or not oki or len(impl) != len(cases) or not cases:
        common.violation(ctx, "C01_c01d_impl_run.json", {
            "broken": "correspondence D:c01d (implementation driver crashed or produced too few replies)",
            "stderr": (errg if not okg else erri), "replies": len(impl), "cases": len(cases)}, no_input=True)
        return
    diffs = common.diff_streams(cases, impl, model)
    # oracle: the statement of parol_ll_end_to_end on the REAL tables, all words up to length n
    n = 4   # (n = 5 on 9000 cases takes 40 min; 4 keeps the thorough tier at about 5 min)
    reqs = ["parol-ll-check %d " % n + " ".join(c.split()[1:4]) + " " + a for c, a in zip(cases, impl)]
    with open(ctx.path("c01d_oracle_req.txt"), "w") as f:
        f.write("\n".join(reqs) + "\n")
    common.run_model(ctx.path("c01d_oracle_req.txt"), ctx.path("c01d_oracle_rep.txt"))
    reps = common.read_lines(ctx.path("c01d_oracle_rep.txt"))
    fails = [(c, a, r) for c, a, r in zip(cases, impl, reps + ["<missing>"] * (len(cases) - len(reps))) if r != "ok"]
    if fails:
        fails.sort(key=lambda t: len(t[0]))
        common.violation(ctx, "C01_c01d_oracle.json", {
            "kind": "property fails on the implementation (oracle): the parser tables parol really generates for an EBNF grammar "
                    "do not accept exactly the sentences of the grammar as written",
            "case": fails[0][0], "impl_reply": fails[0][1], "oracle": fails[0][2], "count": len(fails)})
    elif diffs:
        diffs.sort(key=lambda t: len(t[1]))
        i, c, a, b = diffs[0]
        common.violation(ctx, "C01_c01d_tie.json", {
            "kind": "model pipeline parolLL and the real LL(k) pipeline disagree; the property oracle found no failing input",
            "broken": "correspondence D:c01d (theorems of ParolModel.Props.C01d no longer transfer to the code)",
            "case": c, "impl_reply": a, "model_reply": b, "disagreements": len(diffs)}, no_input=True)
    tables = [a for a in impl if not a.startswith("err") and len(a.split()) == 3]
    state.setdefault("coverage_extra", {})["c01d_front_to_back_tie"] = {
        "cases": len(cases), "disagreements": len(diffs), "real_table_sets": len(tables),
        "rejected_by_checks": sum(1 for a in impl if a.startswith(("err np", "err ur", "err lr"))),
        "rejected_by_lookahead": sum(1 for a in impl if a.startswith(("err maxk", "err conflict"))),
        "with_lookahead_ge_2": sum(1 for a in tables if any(d.split("/")[1] not in ("0", "1") for d in a.split()[2].split(";"))),
        "oracle_checked": len(reqs), "oracle_failures": len(fails)}


def c01_extra(ctx, state):
    c01c_tie(ctx, state)
    c01d_tie(ctx, state)


SPEC = {
    "extra": c01_extra,
    "prop": "llrun",
    "gen_extra": ["plain"],
    "mod": "ParolModel.Props.C01",
    "more_mods": ["ParolModel.Props.C01b", "ParolModel.Props.C01c", "ParolModel.Props.C01d", "ParolModel.Props.C01e"],
    "files": FILES,
    "oracle_req": oracle_req,
    "nontrivial": nontrivial,
    "level": "proof",
    "rule": "random BNF grammars (<=4 non-terminals, <=3 terminals, rhs <=3) pushed through parol's real LL pipeline with K<=3 (quick) / 4 "
            "(thorough); per accepted grammar: all token strings up to length 4 (6) over its terminals plus one foreign word (capped), random "
            "sentences and 1-2-fold mutants; options cycle over trim/recovery/depth; non-trivial = non-empty input and an automaton with "
            ">= 2 transitions; distinct = distinct request lines",
    "assumptions": [
        "the Lean function `llRun` mirrors LLKParser::parse_into up to the first syntax error; agreement (result, action trace, tree events, comments) is observed on the explored runs",
        "error recovery is modelled abstractly (Props/C01e: rRun = parse_into's control flow with the recovery procedure as an ARBITRARY oracle): recovery_off_eq_llRun, recovery_changes_only_errors (if the plain run succeeds every recovery gives the same output) and recovery_never_ok / recovery_verdict_iff (a run with recovery succeeds only if the plain run does) under NoDrain — the recovery does not return through the two cannot-recover exits that move the error entries out of the parser (parser_types.rs l.640-653, l.729-737); recovery_drain_can_succeed shows that on hand-tampered tables (no terminal string restorable) that exit loses the error and parse_into returns Ok — reproduced on the real parser (harness/examples/c01e_drain_probe.rs), not reachable with tables parol generates as far as explored: with recovery on the verdict ok / not-ok of every explored run is compared with the model",
        "completeness is a theorem about the model under TablesExact (the automata predict the right production on every reference lookahead string); for the model generator genTables that hypothesis is a theorem (pipeline_tables_exact), and genTables is tied to the real generator byte for byte; independently it is DECIDED for every real table set explored by the verified checker tablesExactB (tablesExactB_sound), and the equality with the ORIGINAL grammar's language (through parol's transformations) is covered per explored grammar by the verified membership oracle",
        "the token sequence is the one the real TokenStream delivers for the rendered text (scanner behaviour is C13)",
        "front to back (Props/C01d): parolLL composes the models of canonicalisation, grammar checks, left factoring, parol's numbering and genTables; the composition is tied to the real pipeline (obtain_grammar_config_from_string, check_and_transform_grammar, calculate_lookahead_dfas, generate_parser_export_model) byte for byte on random EBNF grammars; in the EBNF model a terminal is one number (rendered as the string literal \"t<n>\"), i.e. terminals of different kinds with the same text (finding F11) are outside this tie",
    ],
}

CLAIM = {
    "category": "proof",
    "text": "FRONT-TO-BACK theorem (Props/C01d): parol_ll_end_to_end — for the executable composition parolLL of the models of the whole LL path (front-end checks, EBNF canonicalisation C09, grammar checks C11, left factoring C10, numbering of non-terminals and terminals C18, table generation C01c) and every EBNF grammar E, start symbol, K: if parolLL yields tables T then for every token sequence and every option record without depth limit the parser model accepts iff the significant token types are the image, under the (injective) terminal numbering, of a sentence of E AS WRITTEN (groups, optionals, repetitions) — no further hypothesis (the class hypotheses of C01c are theorems: left_factor_keeps_class, number_conventions). parolLL is tied to the real pipeline byte for byte on random EBNF grammars, plus an oracle comparing the real tables' language with the verified membership recogniser. End-to-end theorem for generator + runtime at model level (Props/C01c): pipeline_end_to_end — for every BNF grammar G passing the decidable class check (parol's own grammar checks pass, terminals numbered from 5, non-terminals dense) and every K, if the model generator genTables (decision C05 -> FIRST_k/FOLLOW_k C06 -> trie/unite/compile/minimise C07 -> table layout) yields tables T then the parser model accepts toks iff Lang G (sigTypes toks); pipeline_tables_exact, pipeline_no_false_conflict. genTables is tied to the real generator by byte-identical comparison of the table sets on random grammars fed untransformed to calculate_lookahead_dfas + export model, and reproduces every real table set of the full PAR pipeline from its transformed grammar (gen-tables-match). Both halves as theorems for all tables and inputs. Completeness: ll_complete / ll_complete_explicit (a sentence of the production table with a derivation of m production applications is accepted within |w|+2m steps with exactly m actions — no left-recursion or token hypothesis) and ll_accepts_iff_checked (tables passing the verified checkers tablesSoundB and tablesExactB accept EXACTLY the language of the production table); tablesExactB is evaluated by Lean on every real table set. Soundness half as a theorem for all tables and inputs: ll_sound — if the model of LLKParser::parse_into answers ok then the significant token types are in the language of the production table, for ARBITRARY lookahead automata, any trim/recovery/depth option (only hypothesis: TablesSound, decided per real table set by the verified checker tablesSoundB); foreign_token_rejected — a token type that occurs in no production can never be accepted. The model is tied to the code by exact differential runs on tables produced by parol's real pipeline (built in-process, scanner built with scnr2_generate) and the real token streams. The end-to-end equality with the ORIGINAL grammar's language are decided per explored grammar by the verified membership recogniser (member_iff) on all short token strings plus random sentences and mutants, with recovery on and off.",
    "design_ref": "DESIGN.md §6 C01",
    "note": "Trusted: Lean kernel; faithfulness of the hand-written model as observed by the differential run; harness (grammar rendering, table/token encoders, dynamic scanner construction) and orchestrator. Not proved: totality of the generator model (fuel / minimisation panic outcomes never occurred), language preservation of the PAR front end's transformations is C09/C10/C12's business, recovery internals. Grammars are sampled.",
    "technique": "Lean 4 proof (front-to-back: EBNF grammar as written -> tables -> runtime accepts exactly its language, for all grammars and inputs; component hypotheses also checked per real table) over hand-written model + differential correspondence check + verified membership oracle",
}


def run(ctx):
    return common.standard_flow(ctx, SPEC)


def replay(ctx, payload):
    case = payload.get("case")
    common.build_harness()
    common.lake_build(["parol_model"])
    a = common.impl_lines("llrun", [case])[0]
    b = common.model_lines([case])[0]
    req = oracle_req(case, a)
    o = common.model_lines([req])[0] if req else "n/a"
    print(f"case: {case}\nimpl: {a}\nmodel: {b}\noracle: {o}")
    return 0 if (a == b and o in ("ok", "n/a")) else 1
