"""C01 — LL(k) parsers accept exactly the language of the grammar.
Tie D: real LLKParser (tables from parol's real pipeline, built in-process) vs Lean `llRun` on the
same tables and the real token sequence — exact comparison of result, action trace, tree, comments.
Oracle: verified `tablesSoundB` on the real tables + verified membership recogniser on the ORIGINAL
grammar vs the real parser's verdict (recovery on and off)."""
from . import common

FILES = ["crates/parol_runtime/src/parser/parser_types.rs", "crates/parol_runtime/src/parser/lookahead_dfa.rs",
         "crates/parol_runtime/src/lexer/token_stream.rs", "crates/parol_runtime/src/lexer/token_buffer.rs"]


_seen_tables = set()


def oracle_req(case, reply):
    w = case.split()
    if w[0] != "ll" or len(w) < 13:
        return None
    reqs = []
    key = " ".join(w[1:4])
    if key not in _seen_tables:
        # hypothesis of ll_complete / ll_accepts_iff_checked, evaluated once per real table set
        _seen_tables.add(key)
        reqs.append("ll-tables-exact " + key)
    if w[5] == "-":       # a depth limit may legitimately reject a sentence (C20 covers it)
        verdict = reply.split()[0] if reply.split() else "none"
        reqs.append("ll-verdict " + key + " " + w[7] + " " + w[8] + " " + w[9] + " " + verdict)
    return reqs or None


def nontrivial(case):
    w = case.split()
    return len(w) >= 13 and w[6] != "-" and w[3].count("+") >= 1


SPEC = {
    "prop": "llrun",
    "gen_extra": ["plain"],
    "mod": "ParolModel.Props.C01",
    "more_mods": ["ParolModel.Props.C01b"],
    "files": FILES,
    "oracle_req": oracle_req,
    "nontrivial": nontrivial,
    "level": "proof",
    "rule": "random BNF grammars (<=4 non-terminals, <=3 terminals, rhs <=3) pushed through parol's real LL pipeline with K<=3 (quick) / 4 "
            "(thorough); per accepted grammar: all token strings up to length 4 (6) over its terminals plus one foreign word (capped), random "
            "sentences and 1-2-fold mutants; options cycle over trim/recovery/depth; non-trivial = non-empty input and an automaton with "
            ">= 2 transitions; distinct = distinct request lines",
    "assumptions": [
        "the Lean function `llRun` mirrors LLKParser::parse_into up to the first syntax error; agreement (result, action trace, tree events, comments) is observed on the explored runs",
        "error recovery is not modelled: with recovery on only the verdict ok / not-ok is compared; that recovery cannot turn an error into success rests on the drain-site analysis in DESIGN.md §6 C01 plus this tie",
        "completeness is a theorem about the model under TablesExact (the automata predict the right production on every reference lookahead string); that hypothesis is not proved for parol's table generator for all grammars — it is DECIDED for every real table set explored by the verified checker tablesExactB (tablesExactB_sound), and the equality with the ORIGINAL grammar's language (through parol's transformations) is covered per explored grammar by the verified membership oracle",
        "the token sequence is the one the real TokenStream delivers for the rendered text (scanner behaviour is C13)",
    ],
}

CLAIM = {
    "category": "proof",
    "text": "Both halves as theorems for all tables and inputs. Completeness: ll_complete / ll_complete_explicit (a sentence of the production table with a derivation of m production applications is accepted within |w|+2m steps with exactly m actions — no left-recursion or token hypothesis) and ll_accepts_iff_checked (tables passing the verified checkers tablesSoundB and tablesExactB accept EXACTLY the language of the production table); tablesExactB is evaluated by Lean on every real table set. Soundness half as a theorem for all tables and inputs: ll_sound — if the model of LLKParser::parse_into answers ok then the significant token types are in the language of the production table, for ARBITRARY lookahead automata, any trim/recovery/depth option (only hypothesis: TablesSound, decided per real table set by the verified checker tablesSoundB); foreign_token_rejected — a token type that occurs in no production can never be accepted. The model is tied to the code by exact differential runs on tables produced by parol's real pipeline (built in-process, scanner built with scnr2_generate) and the real token streams. The end-to-end equality with the ORIGINAL grammar's language are decided per explored grammar by the verified membership recogniser (member_iff) on all short token strings plus random sentences and mutants, with recovery on and off.",
    "design_ref": "DESIGN.md §6 C01",
    "note": "Trusted: Lean kernel; faithfulness of the hand-written model as observed by the differential run; harness (grammar rendering, table/token encoders, dynamic scanner construction) and orchestrator. Not proved: that parol's generator yields exact tables for every grammar (checked per table), recovery internals. Grammars are sampled.",
    "technique": "Lean 4 proof (soundness and completeness for all inputs, hypotheses checked per real table) over hand-written model + differential correspondence check + verified membership oracle",
}


def run(ctx):
    return common.standard_flow(ctx, SPEC)


def replay(ctx, payload):
    case = payload.get("case")
    common.build_harness()
    common.lake_build(["parol_model"])
    a = common.impl_lines("llrun", [case])[0]
    b = common.model_lines([case])[0]
    req = oracle_req(case, a)
    o = common.model_lines([req])[0] if req else "n/a"
    print(f"case: {case}\nimpl: {a}\nmodel: {b}\noracle: {o}")
    return 0 if (a == b and o in ("ok", "n/a")) else 1
