"""C04 — LALR(1) conflicts are always reported and resolution stays sound.
(a) parol's verdict (table without reported conflict / conflict reported or rejected / panic) vs the reference
LALR(1) construction `Lalr.isLALR1` (tie D on the verdict; oracle `lalr1-check` = clause (a)).
(b) soundness of tables with resolved conflicts: theorem resolved_table_sound (= lr_sound) + `lrTableValid`
on every such real table + membership oracle on every accepted input."""
from . import common
from . import c03

FILES = ["crates/parol/src/analysis/lalr1_parse_table.rs", "crates/parol_runtime/src/lr_parser/parser_types.rs"]


def oracle_req(case, reply):
    w = case.split()
    if w[0] == "lalr1":
        return f"lalr1-check {w[1]} {w[2]} {reply}"
    return c03.oracle_req(case, reply)


def nontrivial(case):
    w = case.split()
    if w[0] == "lalr1":
        return w[2].count(";") >= 2
    return c03.nontrivial(case)


def extra(ctx, state):
    cases = common.read_lines(ctx.path("cases.txt"))
    impl = common.read_lines(ctx.path("impl.txt"))
    hist = {}
    for c, r in zip(cases, impl):
        if c.startswith("lalr1 "):
            hist[r] = hist.get(r, 0) + 1
    state["coverage_extra"] = {"verdicts": hist,
                               "lr_runs_on_tables_with_resolved_conflicts": sum(1 for c in cases if c.startswith("lr "))}


SPEC = {
    "prop": "c04",
    "mod": "ParolModel.Props.C04",
    "files": FILES,
    "oracle_req": oracle_req,
    "nontrivial": nontrivial,
    "extra": extra,
    "level": "translation_validation",
    "rule": "lalr1 cases: BNF grammars typed LALR(1), half random, half perturbed textbook shapes (dangling else, ambiguous / unambiguous "
            "expressions, duplicated alternatives, LR(1)-but-not-LALR(1), nullable left-recursive lists, cycles, S: S S | a | eps, LALR-not-SLR, "
            "recursive single-production start); only grammars that pass parol's well-formedness stage; lr cases: the runs of C03's generator "
            "whose table has resolved conflicts; non-trivial = at least 3 productions resp. 2 tokens; distinct = distinct request lines",
    "assumptions": [
        "`Lalr.isLALR1` (canonical LR(1) collection merged by core, productions as a set) is taken as the definition of LALR(1); it is not proved against another definition",
        "a rejected grammar and a table with >= 1 reported resolved conflict both count as `reported`",
    ],
}

CLAIM = {
    "category": "translation_validation",
    "text": "(b) as a theorem for all tables and inputs: resolved_table_sound — a table that passes lrTableValid accepts only sentences, no matter which conflicts were resolved while building it; lrTableValid and the membership oracle are evaluated on every explored table with resolved conflicts and every accepted input. (a) per explored grammar: parol's verdict is compared exactly with the reference construction Lalr.isLALR1 and the decidable statement of clause (a) (conflict_reported_spec) is evaluated on the real verdict; the grammar population is biased to the LALR(1) border.",
    "design_ref": "DESIGN.md §6 C04",
    "note": "Trusted: Lean kernel; the reference LALR(1) definition; harness and orchestrator. Clause (a) is decided per explored grammar only (no theorem about lalry). Findings F12/F13 (lalry panic on accept conflicts, cyclic grammar silently accepted) were found here and repaired by a fix: commit.",
    "technique": "Lean 4 proof (soundness of resolved tables) + reference LALR(1) construction evaluated per grammar + differential correspondence check",
}


def run(ctx):
    return common.standard_flow(ctx, SPEC)


def replay(ctx, payload):
    case = payload.get("case")
    common.build_harness()
    common.lake_build(["parol_model"])
    a = common.impl_lines("c04", [case])[0]
    b = common.model_lines([case])[0]
    req = oracle_req(case, a)
    reqs = req if isinstance(req, list) else ([req] if req else [])
    os_ = common.model_lines(reqs) if reqs else []
    print(f"case: {case}\nimpl: {a}\nmodel: {b}\noracle: {os_}")
    return 0 if (a == b and all(o == "ok" for o in os_)) else 1
