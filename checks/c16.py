"""C16 — unmatched input is an error unless explicitly allowed (scanner-level part).
G: ERROR_TOKEN / NEW_LINE_TOKEN / WHITESPACE_TOKEN are regenerated into
   lean/ParolModel/Generated/ScannerConsts.lean on every run (`pv c15 dump`); Props/C16 states
   `ErrorReTotal` over the regenerated constant and proves its negation on '\\n' (F4) plus the
   partial statement for every other character.
D: grammars with every combination of %auto_newline_off / %auto_ws_off / %allow_unmatched (one or
   two scanner states) -> real parol -> real generate_build_information -> scnr2 scanner built at
   run time -> real TokenStream, against the model.
Oracle (scanner level): without allow_unmatched every state ends with the catch-all and no gap token
   is delivered; with allow_unmatched the unmatched stretches are gap tokens, delivered as skip
   tokens, and the delivered tokens cover the text without holes.
The parser-level part (a token of the error type makes LL/LR parses fail; gap tokens are in the
tree) is checked by the maintainer's parser runs; `tokenize` / `scan` are the reusable handlers."""
import os
from . import common
from . import c15

FILES = ["crates/parol_runtime/src/lexer/mod.rs", "crates/parol/src/generators/scanner_config.rs",
         "crates/parol_runtime/src/lexer/token_buffer.rs", "crates/parol_runtime/src/lexer/token.rs"]


def oracle_req(case, reply):
    w = case.split()
    if w[0] != "scan16":
        return None
    return f"c16-check {w[2]} {w[4]} {w[5]} {reply.replace(' ', '_')}"


def attribute(case, reply, why):
    w = case.split()
    if why == "fail differs-from-documented-rule" and w[0] == "scan16" and "1114111" in w[5].split(","):
        return "F21"
    if not why.startswith("fail gap-chars="):
        return None
    cs = set(why[len("fail gap-chars="):].split(","))
    if cs == {"1114111"}:
        return "F21"
    if "10" in cs and cs <= {"10", "1114111"}:
        return "F4"
    return None


def nontrivial(case):
    w = case.split()
    return w[0] == "scan16" and w[5] != "-"


def extra(ctx, state):
    cases = common.read_lines(ctx.path("cases.txt"))
    impl = common.read_lines(ctx.path("impl.txt"))
    st = {"allow=0": 0, "allow=1": 0, "replies_with_gap_token": 0, "grammars_rejected_by_parol": 0,
          "generated_file": "lean/ParolModel/Generated/ScannerConsts.lean (" + STATE.get("dump", "?") + ")"}
    for i, c in enumerate(cases):
        w = c.split()
        if w[0] == "scan16":
            st["allow=" + w[2]] = st.get("allow=" + w[2], 0) + 1
            if i < len(impl) and "65534:" in impl[i]:
                st["replies_with_gap_token"] += 1
        elif w[0].startswith("note:"):
            st["grammars_rejected_by_parol"] += 1
    state["coverage_extra"] = {"distribution": st}


STATE = {}

SPEC = {
    "prop": "c16",
    "mod": "ParolModel.Props.C16",
    "files": FILES,
    "oracle_req": oracle_req,
    "nontrivial": nontrivial,
    "attribute": attribute,
    "extra": extra,
    "level": "proof",
    "rule": "16 directive combinations (auto_newline_off x auto_ws_off x allow_unmatched x one/two scanner states) x 2 (quick) / 6 (thorough) "
            "grammar variants (random comment directives) x [7 documented witness texts (`a\\nb`, `a\\r\\nb`, `a\\rb`, `a ?? b`, `a ??`, `\\n`, empty) + "
            "25 / 500 random texts of sentence pieces and stray characters (LF, CR, CRLF, NUL, DEL, NEL, U+2028, VT, non-ASCII, comment "
            "fragments; U+10FFFF in one dedicated text per combination)], k = 1..3; non-trivial = non-empty text; distinct = distinct request lines",
    "assumptions": [
        "scanner-level part only: that a token of the error type (last terminal index, in no production) makes an LL or LR parse fail, and that gap tokens end up in the parse tree, is the parser-level part checked elsewhere",
        "all scanner states of a test grammar have the same allow_unmatched setting",
        "scnr2 (external crate) is observed, not proved; regex-syntax -> Re lowering is part of the tie",
    ],
}

CLAIM = {
    "category": "proof",
    "text": "Over the REGENERATED constant ERROR_TOKEN (as regex AST) Lean proves errorRe_total_partial (the catch-all matches every character "
            "except U+000A) and errorRe_one_char, hence mode_covers_every_char_partial / mode_with_newline_covers_every_char: in a scanner state "
            "that holds the catch-all (no allow_unmatched) no valid character other than a line feed (none at all if NEW_LINE_TOKEN is in the state) is "
            "ever skipped by the documented tokenizer; gap_iff_unmatched characterises when TokenBuffer::add creates a gap token and that it is a skip "
            "token. The full statement ErrorReTotal is REFUTED on the unchanged tree (errorRe_total_counterexample, mode_covers_counterexample, "
            "f4_gap_delivered: with %auto_newline_off a stray line feed becomes a silently skipped gap token — known finding F4), reproduced on the real "
            "scanner. Tie: differential runs of parol + generate_build_information + scnr2 + TokenStream against the model.",
    "design_ref": "DESIGN.md §6 C16",
    "note": "Parser-level consequences (parse fails on the error token; gap tokens kept in the tree) are not part of this check. Known findings "
            "reproduced: F4 (`.` does not match \\n), F21 (scnr2 never matches U+10FFFF).",
    "technique": "Lean 4 proof over regenerated constants and hand-written model + differential correspondence check",
}


def run(ctx):
    STATE.clear()
    ok, log = common.build_harness()
    if ok:
        rc, out, err = common.sh([common.PV, "c15", "dump", c15.GEN])
        STATE["dump"] = out.strip() or ("failed: " + err[-300:])
    return common.standard_flow(ctx, SPEC)


def replay(ctx, payload):
    case = payload.get("case")
    common.build_harness()
    common.lake_build(["parol_model"])
    a = common.impl_lines("c16", [case])[0]
    b = common.model_lines([case])[0]
    req = oracle_req(case, a)
    o = common.model_lines([req])[0] if req else "ok"
    print(f"case: {case}\nimpl: {a}\nmodel: {b}\noracle: {o}")
    return 0 if (a == b and o == "ok") else 1
