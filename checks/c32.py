"""C32 — the packed k-tuple representation behaves like a sequence.
Tie D: op programs on the real `parol::analysis::k_tuple::{Terminals, KTuple, KTupleBuilder}` (public
API, raw word read back from `Debug`) vs the Lean model on `BitVec 128`; oracle: the list-level
semantics of the program (`spec*` functions) judged on every state and value the implementation
printed — each printed word must be well-formed (`wfb`) and denote (`abs`) the specified sequence."""
import re
from . import common

FILES = [
    "crates/parol/src/analysis/k_tuple.rs",
    "crates/parol/src/analysis/compiled_terminal.rs",
    "crates/parol/src/lib.rs",
]

K_OPS = ("kb:", "kbk:", "keps:", "kend:", "kfs:", "kof:", "kpush:", "kext:", "kkcat:", "ksetk:", "K")


EXH = re.compile(r"^terminals-prog (new:t0:[012];ext:t0:[^;]+|eps:t0:[012]);(new:t1:[012];ext:t1:[^;]+|eps:t1:[012]);"
                 r"kcat:t2:t0:t1:\d+;iter:t2;kc:t2:\d+;get:t2:\d+;cmp:t0:t1;eq:t0:t1;of:t3:t1:\d+$")


def oracle_req(case, reply):
    w = case.split()
    if len(w) != 2 or w[0] != "terminals-prog":
        return None
    return "terminals-check " + w[1] + " " + reply


def _ops(case):
    w = case.split()
    return [o for o in w[1].split(";") if o] if len(w) == 2 else []


def nontrivial(case):
    """at least one mutating or combining op besides the constructors"""
    return any(o.split(":")[0] in ("push", "ext", "kcat", "of", "set", "kpush", "kext", "kkcat", "kb", "kfs", "kbk", "kof")
               for o in _ops(case))


def extra(ctx, state):
    """Coverage facts about the generated programs (the generator is deterministic given the seed)."""
    cases = common.read_lines(ctx.path("cases.txt"))
    impl = common.read_lines(ctx.path("impl.txt"))
    ms, ks, n_ops_max = set(), set(), 0
    exhaustive = 0
    ktuple_progs = 0
    for c in cases:
        ops = _ops(c)
        n_ops_max = max(n_ops_max, len(ops))
        if any(o.startswith(K_OPS) for o in ops):
            ktuple_progs += 1
        for o in ops:
            f = o.split(":")
            if f[0] in ("new", "eps", "end") and len(f) == 3 and f[2].isdigit():
                ms.add(int(f[2]))
            if f[0] in ("kcat",) and f[-1].isdigit():
                ks.add(int(f[-1]))
        if EXH.match(c):
            exhaustive += 1
    boundary = sorted(m for m in ms if any(m in (2 ** n - 2, 2 ** n - 1, 2 ** n) for n in range(1, 13)) or m in (4094, 4095, 4096))

    # (a) how much of the implementation's output did the list-level oracle really judge?
    n = min(len(cases), len(impl))
    reqs = ["terminals-judged " + cases[i].split()[1] + " " + impl[i] for i in range(n) if len(cases[i].split()) == 2]
    judged = total = fully = 0
    for rep in common.model_lines(reqs) if reqs else []:
        w = rep.split()
        if len(w) == 2 and w[0].isdigit() and w[1].isdigit():
            judged += int(w[0]); total += int(w[1]); fully += int(w[0] == w[1])

    # (b) is the oracle sensitive?  Corrupt one hex digit of the first rendered state of programs that start
    #     with a constructor inside the domain: the oracle must answer `fail` for every one of them.
    muts, k = [], 0
    for i in range(n):
        ops = _ops(cases[i])
        if not ops or impl[i] == "panic":
            continue
        f = ops[0].split(":")
        if f[0] not in ("new", "eps", "end") or not f[2].isdigit() or int(f[2]) > 4094:
            continue
        obs = impl[i].split()
        if not obs or len(obs[0]) < 32:
            continue
        pos = (i * 7 + ctx.seed) % 32
        d = obs[0][pos]
        obs[0] = obs[0][:pos] + ("0" if d != "0" else "f") + obs[0][pos + 1:]
        muts.append("terminals-check " + cases[i].split()[1] + " " + " ".join(obs))
        k += 1
        if k >= 2000:
            break
    undetected = [m for m, r in zip(muts, common.model_lines(muts) if muts else []) if not r.startswith("fail")]
    if undetected:
        common.violation(ctx, f"{ctx.pid}_oracle_insensitive.json", {
            "kind": "the property oracle accepted a corrupted implementation state (check-internal defect)",
            "broken": "oracle terminals-check", "request": undetected[0], "count": len(undetected)}, no_input=True)

    state["coverage_extra"] = {
        "exhaustive_small_scope": "every pair of operands (sequences over terminals 0..a-1 for a = 1,2,3 incl. end of input, "
                                  "length <= 4 (thorough: 5), or the epsilon word) x k = 0..3 (thorough: 4): k_concat, iter, "
                                  "is_k_complete, get, cmp, ==, of; KTuple wrappers: alphabet <= 2, length <= 3, k <= 3",
        "exhaustive_programs": exhaustive,
        "boundary_alphabet_sizes_exercised": boundary,
        "k_values_in_k_concat": sorted(ks),
        "max_ops_per_program": n_ops_max,
        "programs_with_ktuple_ops": ktuple_progs,
        "implementation_panics": sum(1 for r in impl if r == "panic"),
        "oracle_ops_judged_at_list_level": judged,
        "oracle_ops_total": total,
        "oracle_programs_judged_completely": fully,
        "oracle_mutation_test": {"corrupted_states": len(muts), "detected": len(muts) - len(undetected)},
        "bv_decide_axioms": "every theorem of Props.C32 that uses a bit-level lemma of Proofs/TerminalsBits.lean inherits an axiom "
                            "<lemma>._native.bv_decide.ax_* (LRAT certificate checked by compiled code); listed per theorem under 'theorems'",
    }


SPEC = {
    "prop": "c32",
    "mod": "ParolModel.Props.C32",
    "files": FILES,
    "oracle_req": oracle_req,
    "nontrivial": nontrivial,
    "level": "proof",
    "allow_axioms": [r".*\._native\.bv_decide\.ax_.*"],
    "extra": extra,
    "extra_trust": [
        "bv_decide for the bit-level lemmas of lean/ParolModel/Proofs/TerminalsBits.lean (+ six small ones in TerminalsOps.lean): "
        "bit-blasting, CaDiCaL, and the compiled LRAT checker (axioms <lemma>._native.bv_decide.ax_*)",
    ],
    "rule": "op programs (<= 12 ops) over registers t0..t3 (Terminals) and k0..k3 (KTuple): (1) constructors and a full 10-symbol "
            "word at max_terminal_index = 2^n-2, 2^n-1, 2^n (n = 1..12), 4094, 4095, 4096; (2) exhaustive small scope (see "
            "exhaustive_small_scope); (3) KTuple wrappers exhaustive small scope; (4) random programs at every boundary size and at "
            "random sizes, k = 0..10, 7/8 inside the specified domain (valid terminals or epsilon, one width, k <= 10), 1/8 outside "
            "(invalid terminal values incl. INVALID and the all-ones code, mixed widths, k up to 13, Terminals::default(), set beyond "
            "the length); non-trivial = has a mutating/combining op; distinct = distinct request lines",
    "assumptions": [
        "the Lean model (Model/Terminals.lean) mirrors k_tuple.rs as compiled with debug assertions and overflow checks "
        "(harness profile); agreement is observed on the explored programs by exact comparison of every rendered state and value",
        "the raw u128 is read back from the Debug rendering `0b<binary>, i:…` (the field is private)",
        "quantifier of the theorems: max_terminal_index + 1 < 4096 (exactly where Terminals::new does not panic, new_panics_iff), "
        "k <= MAX_K for k_concat, operands of one bit width, arguments valid terminals (<= max_terminal_index) or epsilon",
        "KTuples (the HashSet wrapper in k_tuples.rs) is not modelled here: it adds no packed representation; "
        "KTuple::with_terminal_indices (debugging only) and Terminals::set beyond the length are excluded, they can break WF",
    ],
}

CLAIM = {
    "category": "proof",
    "text": "For the Lean model of Terminals on BitVec 128 (same masks, shifts, u8 header arithmetic, panics = debug assertions/overflow "
            "checks) and the abstraction abs : word -> list of symbols, every public operation is proved, for ALL well-formed words, all "
            "alphabet sizes with max_terminal_index + 1 < 4096 and all k (k <= 10 for k_concat), to preserve the invariant WF (wf_*), "
            "not to panic (*_total) and to commute with abs (abs_new/eps/end/of/clear/len/isEmpty/kLen/get/iter/isEps/isKComplete/"
            "push/extend/set/kConcat), == is equality of (width, sequence) (eq_iff_abs_eq), Ord is length-then-reverse-lexicographic "
            "(cmp_eq_specCmp, cmp_eq_iff_eq), hashing respects == (hash_respects_eq), the capacity fits (capacity, "
            "u8_product_no_overflow), epsilon's code is no terminal (eps_not_a_terminal), Terminals::new panics iff "
            "max_terminal_index >= 4095 (new_panics_iff); the TerminalString/KTuple constructors set the Complete flag to "
            "is_k_complete (classify_is_kcomplete, abs_ktuple_*). Tied to the code by exact differential runs of op programs through "
            "the real public API (boundary sizes, exhaustive small scope, random), and every printed implementation state is judged "
            "by the list-level semantics (oracle terminals-check).",
    "design_ref": "DESIGN.md §6 C32",
    "note": "Trusted: Lean kernel (propext, Classical.choice, Quot.sound) PLUS, for C32 only, bv_decide's axioms "
            "<lemma>._native.bv_decide.ax_* — the LRAT checker (compiled Lean code) and CaDiCaL are trusted for the ~35 bit-level "
            "lemmas; faithfulness of the hand-written model as observed by the differential run; harness and orchestrator. "
            "Observations proved as theorems about the code as it is (no property violation inside the quantifier): "
            "push_onto_eps ([ε] then push gives [ε,x]), ktuple_extend_eps_k0_panics (Extend for KTuple underflows k - len for the "
            "ε-tuple with k = 0), kConcat_k11_panics (k > MAX_K), cmp_equal_but_ne_across_widths (Ord ignores the width, == does not).",
    "technique": "Lean 4 proof (bv_decide bit-level lemmas + induction) over hand-written model + differential correspondence check",
}


def run(ctx):
    return common.standard_flow(ctx, SPEC)


def replay(ctx, payload):
    case = payload.get("case")
    common.build_harness()
    common.lake_build(["parol_model"])
    a = common.impl_lines("c32", [case])[0]
    b = common.model_lines([case])[0]
    o = common.model_lines([oracle_req(case, a)])[0]
    print(f"case: {case}\nimpl: {a}\nmodel: {b}\noracle: {o}")
    return 0 if (a == b and o == "ok") else 1
