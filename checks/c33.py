"""C33 — generated identifiers are unique and valid.

Two parts:
 (a) tie D on the pure naming functions (`utils::generate_name`, `generate_terminal_name(s)`,
     `NamingHelper::*`) against the Lean model `Model/Names.lean`, whose ∀-theorems are in
     `Props/C33.lean`; every implementation reply is also judged by a Lean oracle;
 (b) per-grammar source checker: for grammars from a collision-biased generator the parser and
     user-trait sources are generated in-process, identifiers are extracted per scope by the
     harness and each scope / relation is decided by the Lean oracles `names-check` (valid
     identifier + pairwise distinct) and `pairs-check` (functional + injective). Type, member and
     method names come out of parol's symbol table, which is not modelled: for them the property is
     decided per explored grammar only.
Failures are attributed to listed findings by structural signatures of the grammar (computed with the
model's `camel`/`snake`/`tname`), everything else is a VIOLATION."""
import os, re, subprocess
from . import common

FILES = [
    "crates/parol/src/utils/mod.rs",
    "crates/parol/src/generators/terminal_name_generator.rs",
    "crates/parol/src/generators/naming_helper.rs",
    "crates/parol/src/generators/lexer_generator.rs",
    "crates/parol/src/generators/grammar_config.rs",
]

IDENT = re.compile(r"[A-Za-z_][A-Za-z0-9_]*\Z")
UNRAWABLE = {"Self", "r#self", "r#crate", "r#super", "r#Self"}
# names the generated trait module imports or defines itself (user type `Gr` in the harness)
MODULE_NAMES = {"Result", "ParserError", "ParseTreeType", "UserActionsTrait", "GrTrait", "GrAuto"}
# types the symbol table predefines in its global scope (GrammarTypeInfo::try_new("Gr"))
SYMTAB_BUILTINS = {"Token", "UserActionsTrait", "GrGrammarTrait", "GrGrammarAuto"}


def enc(s):
    if s == "":
        return "%."
    o = []
    for c in s:
        if re.match(r"[A-Za-z0-9_]", c):
            o.append(c)
        elif ord(c) < 256:
            o.append("%%%02X" % ord(c))
        else:
            o.append("%%{%X}" % ord(c))
    return "".join(o)


def dec(w):
    if w == "%.":
        return ""
    return re.sub(r"%\{([0-9A-Fa-f]+)\}|%([0-9A-Fa-f]{2})", lambda m: chr(int(m.group(1) or m.group(2), 16)), w)


def dec_list(w):
    return [] if w == "-" else [dec(x) for x in w.split(",")]


def all_underscores(s):
    return s != "" and set(s) == {"_"}


# ---------------------------------------------------------------------------------------------
# (a) differential tie: oracle request per case, attribution of oracle failures

def oracle_req(case, reply):
    w = case.split()
    if reply in ("out-of-scope", "bad-op"):
        return None
    if w[0] == "tname":
        # the terminal name is a string-table entry: `[A-Za-z_][A-Za-z0-9_]*` for non-empty text
        return None if w[1] == "%." else "names-check nm " + reply
    if w[0] in ("camel", "snake") and IDENT.match(dec(w[1])):
        # PAR identifiers (what parol accepts as non-terminal / member name) must become Rust identifiers
        return "names-check id " + reply
    if w[0] == "gname33":
        return f"fresh-check {w[1]} {reply}"
    if w[0] == "tnames":
        r = reply.split()
        if len(r) != 2:
            return "names-check nm %."
        return "names-check nm " + r[0]
    return None


def attribute(case, reply, why):
    w = case.split()
    m = re.match(r"fail invalid:(\S+)$", why)
    bad = dec(m.group(1)) if m else None
    if w[0] in ("camel", "snake") and bad is not None:
        if all_underscores(dec(w[1])) and bad in ("", "_"):
            return "F33a"
        if bad in UNRAWABLE:
            return "F33b"
    if w[0] == "tnames" and bad is not None:
        # a terminal named after its primary non-terminal `_` / `__` (camel-case form is empty)
        lhs_single = [dec(p.split("=")[0]) for p in w[2].split(";") if p.count("=") == 2]
        if any(all_underscores(n) for n in lhs_single) and (bad == "" or bad.isdigit()):
            return "F33a"
    return None


def nontrivial(case):
    w = case.split()
    if w[0] in ("camel", "snake", "esckw", "purge", "tname"):
        return w[1] != "%."
    if w[0] == "gname33":
        return "," in w[1]
    if w[0] == "tnames":
        return w[3] != "-"
    return True


# ---------------------------------------------------------------------------------------------
# (b) generated sources

def _pv(args, inp=None):
    p = subprocess.run([common.PV, "c33"] + args, input=inp, capture_output=True, text=True)
    return p.stdout.split("\n")[:-1]


def src_cases(ctx):
    p = os.path.join(common.VERIF, "corpus", "C33_src.txt")
    corpus = []
    if os.path.exists(p):
        corpus = [l for l in common.read_lines(p) if l.strip() and not l.startswith("#")]
    gen = _pv(["gensrc", str(ctx.seed), ctx.tier])
    return corpus, gen


def fact_requests(reply):
    """[(fact label, oracle request)] for one `ok …` reply of a `src` case."""
    reqs = []
    for f in reply.split()[1:]:
        p = f.split(":")
        if p[0] == "S" and len(p) == 4:
            reqs.append((f"{dec(p[2])}", f"names-check {p[1]} {p[3]}"))
        elif p[0] == "P" and len(p) == 3:
            reqs.append((f"rel.{dec(p[1])}", f"pairs-check {p[2]}"))
    return reqs


def grammar_info(case, reply):
    par = dec(case.split()[1])
    nts, terms = [], []
    for f in reply.split()[1:]:
        if f.startswith("N:"):
            nts = dec_list(f[2:])
        elif f.startswith("T:"):
            terms = dec_list(f[2:])
    members = re.findall(r"@([A-Za-z_][A-Za-z0-9_]*)", par)
    return par, nts, terms, members


def in_scope(s):
    return all(ord(c) < 128 or c == "§" for c in s)


def signatures(nts, terms, members):
    """Structural signatures of the listed findings, computed with the verified model functions."""
    names = [n for n in nts + members if in_scope(n)]
    ts = [t for t in terms if in_scope(t)]
    lines = [f"camel {enc(n)}" for n in names] + [f"snake {enc(n)}" for n in names] + [f"tname {enc(t)}" for t in ts]
    rep = common.model_lines(lines) if lines else []
    camel = {n: dec(rep[i]) for i, n in enumerate(names)}
    snake = {n: dec(rep[len(names) + i]) for i, n in enumerate(names)}
    tname = {t: dec(rep[2 * len(names) + i]) for i, t in enumerate(ts)}
    sig = set()
    cn = {}
    for n in nts:
        if n in camel and camel[n] != "":
            cn.setdefault(camel[n], set()).add(n)
    if any(len(v) > 1 for v in cn.values()):
        sig.add("F16")
    if any(camel.get(n) == "" for n in nts):
        sig.add("F33a")
    tnames_snake = []
    if tname:
        vals = sorted(set(tname.values()))
        r2 = common.model_lines([f"snake {enc(v)}" for v in vals])
        tnames_snake = [dec(x) for x in r2]
    if any(camel.get(x) == "Self" or snake.get(x) in UNRAWABLE for x in names) \
            or any(v in UNRAWABLE for v in tname.values()) or any(v in UNRAWABLE for v in tnames_snake):
        sig.add("F33b")
    if any(v in ("_", "") for v in tname.values()):
        sig.add("F33c")
    if any(camel.get(n) in MODULE_NAMES for n in nts):
        sig.add("F33d")
    if any(camel.get(n) in SYMTAB_BUILTINS for n in nts):
        sig.add("F33e")
    return sig


def explain(label, why, sig):
    """Known-finding id that explains one failed fact, or None."""
    m = re.match(r"fail (invalid|dup|not-functional|not-injective):(\S+)$", why)
    if not m:
        return None
    kind, x = m.group(1), dec(m.group(2))
    rel = label.startswith("rel.")
    if "F33a" in sig and (rel or x in ("", "_", "No") or x.isdigit()):
        return "F33a"
    if "F33b" in sig and not rel and kind == "invalid" and x in UNRAWABLE:
        return "F33b"
    if "F33c" in sig and not rel and kind == "invalid" and x in ("_", ""):
        return "F33c"
    if "F33d" in sig and label == "types" and kind == "dup" and x in MODULE_NAMES:
        return "F33d"
    if "F33e" in sig and rel:
        return "F33e"
    if "F16" in sig and rel:
        return "F16"
    return None


def check_sources(ctx, cases):
    """Runs the `src` cases. Returns dict with counts, known hits {id: [case]}, new failures [(case, label, why)]."""
    impl = [l[3:] for l in _pv(["runsrc"], "\n".join(cases) + "\n") if l.startswith("@@ ")] if cases else []
    impl += ["<missing>"] * (len(cases) - len(impl))
    reqs, owner = [], []
    stats = {"accepted": 0, "rejected": {}, "panic": 0, "facts": 0}
    for i, (c, r) in enumerate(zip(cases, impl)):
        if r.startswith("ok"):
            stats["accepted"] += 1
            for label, q in fact_requests(r):
                reqs.append(q)
                owner.append((i, label))
        elif r.startswith("reject"):
            k = r.split()[1] if len(r.split()) > 1 else "?"
            stats["rejected"][k] = stats["rejected"].get(k, 0) + 1
        else:
            stats["panic"] += 1
    stats["facts"] = len(reqs)
    reps = common.model_lines(reqs) if reqs else []
    failed = {}
    for (i, label), rep in zip(owner, reps):
        if rep != "ok":
            failed.setdefault(i, []).append((label, rep))
    known, new = {}, []
    for i, fs in sorted(failed.items()):
        _, nts, terms, members = grammar_info(cases[i], impl[i])
        sig = signatures(nts, terms, members)
        ids = set()
        unexplained = None
        for label, why in fs:
            fid = explain(label, why, sig)
            if fid is None:
                unexplained = (label, why)
                break
            ids.add(fid)
        if unexplained:
            new.append((cases[i], unexplained[0], unexplained[1]))
        else:
            for fid in ids:
                known.setdefault(fid, []).append(cases[i])
    # a crash of the generators on an accepted grammar is outside this property (C26) but would make the
    # check blind: report it
    crashed = [c for c, r in zip(cases, impl) if not (r.startswith("ok") or r.startswith("reject"))]
    return {"stats": stats, "known": known, "new": new, "crashed": crashed, "impl": impl,
            "failing_cases": len(failed)}


def extra(ctx, state):
    corpus, gen = src_cases(ctx)
    cases = corpus + gen
    res = check_sources(ctx, cases)
    listed = {k["id"]: k for k in common.load_known(ctx.pid)}
    for fid, cs in sorted(res["known"].items()):
        if fid in listed:
            cs = sorted(cs, key=len)
            line = f"{fid} {listed[fid]['text']} (reproduced on {len(cs)} grammar(s), e.g. `{' '.join(dec(cs[0].split()[1]).split())}`)"
            prev = [k for k in ctx.known if k.startswith(fid + " ")]
            if prev:   # also hit by the pure-function tie: one line per finding
                m = re.search(r"\(reproduced on (.*)\)$", prev[0])
                ctx.known.remove(prev[0])
                line = line[:-1] + "; pure functions: " + (m.group(1) if m else "") + ")"
            ctx.known.append(line)
        else:
            for c in cs:
                res["new"].append((c, "unlisted-finding", fid))
    if res["new"]:
        res["new"].sort(key=lambda t: len(t[0]))
        c, label, why = res["new"][0]
        common.violation(ctx, f"{ctx.pid}_source.json", {
            "kind": "generated source violates the property (oracle names-check / pairs-check)",
            "case": c, "grammar": dec(c.split()[1]), "scope": label, "oracle": why,
            "further_failing_cases": [t[0] for t in res["new"][1:10]], "count": len(res["new"])})
    if res["crashed"]:
        common.violation(ctx, f"{ctx.pid}_source_crash.json", {
            "kind": "the generators crashed on a grammar (no verdict possible for it)",
            "case": res["crashed"][0], "grammar": dec(res["crashed"][0].split()[1]),
            "count": len(res["crashed"])}, no_input=True)
    st = res["stats"]
    state["coverage_extra"] = {
        "source_check": {
            "grammars": len(cases), "from_corpus": len(corpus), "accepted_by_parol": st["accepted"],
            "rejected_by_parol": st["rejected"], "scopes_and_relations_decided_by_lean_oracle": st["facts"],
            "grammars_with_failures": res["failing_cases"],
            "attributed_to_known_findings": {k: len(v) for k, v in sorted(res["known"].items())},
            "new_failures": len(res["new"]),
            "rule": "collision-biased PAR grammars (pools: plain, numeric suffixes, generated-helper names, keywords, "
                    "framework names, camel-case collisions, all-underscore names, self/crate/super, imported names; terminals "
                    "with equal text in different quoting, `+` vs `\\+`, keywords, whitespace-only); LL(k) and LALR(1); "
                    "streams prone to a listed finding are capped",
        }
    }


SPEC = {
    "prop": "c33",
    "mod": "ParolModel.Props.C33",
    "files": FILES,
    "oracle_req": oracle_req,
    "nontrivial": nontrivial,
    "attribute": attribute,
    "extra": extra,
    "level": "proof",
    "rule": "pure naming functions: all strings over {a,B,1,_} up to length 4 (quick) / 5 (thorough) and over {r,#,Z,9} up to 3 for "
            "camel/snake; 61 (reserved) words in 8 spellings for camel/snake/escape/purge/unused; every single ASCII character and "
            "'§', all pairs over {a,Z,1,_,+,\\,space,-,.} and random ASCII strings (length <= 8) for the terminal-name table; "
            "generate_name via augment_grammar on name sets with numeric suffixes (leading zeros, overflow of usize parse); "
            "generate_terminal_names / GrammarConfig::generate_terminal_names on random Cfg values (primary-non-terminal "
            "shortcut, equal expansions of different terminal kinds, lookahead); non-trivial = non-empty argument; "
            "distinct = distinct request lines. Source checker: see source_check.rule",
    "assumptions": [
        "the Lean functions of Model/Names.lean mirror utils::generate_name, generate_terminal_name(s) and NamingHelper; agreement is observed on the explored cases (exact comparison)",
        "character scope ASCII plus '§': char::is_alphanumeric / to_uppercase / to_lowercase need Unicode tables that core Lean lacks; both sides answer `out-of-scope` otherwise. Non-ASCII terminal texts are not explored",
        "usize is 64 bit; the counter of generate_name is an unbounded Nat in the model (overflow needs a suffix of 2^64-1)",
        "TerminalKind::expand, Cfg::get_ordered_terminals and the lookahead comparison are not modelled: the summaries the model works on are produced by the real functions in the harness",
        "type, member, method and ASTType-variant names are allocated by parol's symbol table (not modelled): validity, per-scope distinctness and referential consistency are decided per explored grammar on the generated text, whose identifiers are extracted by the harness' tokenizer (trusted)",
        "identifier validity is the ASCII rule of rustc's lexer: [A-Za-z_][A-Za-z0-9_]*, not `_`, not a reserved word; r#k for k other than crate/self/super/Self/_",
    ],
}

CLAIM = {
    "category": "proof",
    "text": "Lean theorems, for ALL inputs of the models of utils::generate_name, generate_terminal_name(s) and NamingHelper (ASCII and '§'): "
            "generate_name_not_mem (result not among the exclusions, loop ends within |exclusions|+1 steps), names_nodup / "
            "lexer_terminal_names_nodup / node_kind_terminal_names_nodup (the terminal-name tables have no duplicates for every grammar, "
            "including terminals that map to the same name and numeric suffixes), termName_valid_ident / terminalName_valid_ident / "
            "terminalName_primary_valid_ident (terminal names match [A-Za-z_][A-Za-z0-9_]*), camel_valid_ident, snake_valid_ident "
            "(incl. keyword escaping), purge_ident_chars; names_check_decides / pairs_check_decides say what the per-grammar oracles decide. "
            "The models are tied to the code by an exact differential run. NOT proved for all grammars: type, member, trait-method and "
            "ASTType-variant names (parol's symbol table is not modelled) — these are decided per explored grammar by Lean oracles on "
            "identifiers extracted from the generated parser and trait text (validity, per-scope distinctness, consistent use of one type / "
            "method / variant per non-terminal). The full statements are false on the unchanged code (counterexample theorems "
            "camel_always_ident_counterexample, snake_always_rust_ident_counterexample, termName_rust_ident_counterexample); the listed "
            "findings F16, F33a-d are reproduced on every run.",
    "design_ref": "DESIGN.md §6 C33",
    "note": "Trusted: Lean kernel (propext, Quot.sound, Classical.choice), faithfulness of the hand-written models as observed by the "
            "differential run, the harness (case generators, Rust tokenizer that extracts identifiers from generated text) and orchestrator. "
            "Non-ASCII terminal texts are outside the model (a probe shows `\"²\"` yields the member name `_²`, which rustc rejects).",
    "technique": "Lean 4 proof over hand-written model + differential correspondence check + verified per-grammar checker on generated source",
}


def run(ctx):
    return common.standard_flow(ctx, SPEC)


def replay(ctx, payload):
    case = payload.get("case")
    common.build_harness()
    common.lake_build(["parol_model"])
    if case.split()[0] == "src":
        res = check_sources(ctx, [case])
        print(f"grammar:\n{dec(case.split()[1])}")
        print(f"impl: {res['impl'][0][:400]}")
        listed = {k["id"] for k in common.load_known(ctx.pid)}
        unlisted = [fid for fid in res["known"] if fid not in listed]
        for fid in res["known"]:
            print(f"{'known finding reproduced' if fid in listed else 'property violated (finding not listed in known_findings.txt)'}: {fid}")
        for c, label, why in res["new"]:
            print(f"oracle: scope {label}: {why}")
        return 1 if (res["new"] or res["crashed"] or unlisted) else 0
    a = common.impl_lines("c33", [case])[0]
    b = common.model_lines([case])[0]
    q = oracle_req(case, a)
    o = common.model_lines([q])[0] if q else "ok"
    print(f"case: {case}\nimpl: {a}\nmodel: {b}\noracle: {o}")
    if o != "ok" and attribute(case, a, o) in {k["id"] for k in common.load_known(ctx.pid)}:
        print(f"known finding: {attribute(case, a, o)}")
        o = "ok"
    return 0 if (a == b and o == "ok") else 1
