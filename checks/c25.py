"""C25 — rendering a grammar as PAR text round-trips.

G: the token regexes of the PAR lexer are regenerated on every run from the `scanner!` block parol
   generated for parser/parol.par (`pv c25 dump` -> lean/ParolModel/Generated/ParLiteralRes.lean);
   Props/C25 re-proves the literal round-trip theorems against them.
D: the printers — real `Terminal::format`, `Symbol::format`, `LookaheadExpression::to_par` vs the Lean
   model (`fmt-t`, `fmt-n`, `fmt-la`), byte for byte, on random symbols (all kinds, bodies with escapes
   and delimiter-like characters, decorations, lookahead, member names, user types with aliases /
   %nt_type / %t_type, scanner state lists).
V: the document level — REAL obtain_grammar_config_from_string -> render_par_string ->
   obtain_grammar_config_from_string (`rt`), and the same after check_and_transform_grammar +
   update_cfg (`rtx`); both GrammarConfigs are dumped field by field and compared by the Lean
   comparer `configEq` (theorem configEq_sound). Excluded from the comparison, exactly: production
   attributes and the symbol attributes RepetitionAnchor / Option (printed as comments, not PAR
   syntax); the number of documents that carried none of them is reported.
Oracle: `cfg-eq` (Lean) on the two dumps; `la-check` (Lean: the real printer's text is read back by
   the spec tokenizer over the regenerated PAR lexer as one literal token with the same body).

Attribution of failures to listed findings is by counterfactual input: the harness replaces exactly
the triggering construct (`pv c25 run`: `rts/rtxs <ids> <doc>`, see `sanitize` in harness/src/c25.rs)
and the sanitized configuration must round-trip. A failure no listed finding (alone or, if a document
contains several triggers, together) explains is a VIOLATION."""
import binascii, os, re
from . import common

FILES = [
    "crates/parol/src/conversions/par/grammar_to_par.rs",
    "crates/parol/src/grammar/symbol.rs",
    "crates/parol/src/grammar/production.rs",
    "crates/parol/src/grammar/attributes.rs",
    "crates/parol/src/parser/parol_grammar.rs",
    "crates/parol/src/parser/to_grammar_config.rs",
    "crates/parol/src/parser/parol.par",
    "crates/parol/src/parser/parol_parser.rs",
]
GEN = os.path.join(common.LEAN, "ParolModel", "Generated", "ParLiteralRes.lean")

# Findings of this property. `known_findings.txt` is the authority; until the maintainer has copied
# the lines there this table keeps the check at exit 0 on the unchanged tree (the lines are the
# `finding:` lines to add, verbatim).
FINDINGS = {
    "F25a": ("nonterminal-user-type-without-alias",
             "Symbol::format drops the user type of a non-terminal occurrence unless the type is the target of a %user_type alias "
             "(`S: \"a\" B : MyType; B: \"b\";` is rendered `S: \"a\" B;`; the repository's own crates/parol/tests/data/valid/typed4.par "
             "loses its type this way; a type equal to the %t_type is dropped too)"),
    "F25b": ("clipped-terminal-with-lookahead",
             "Terminal::format prints the clip operator before the lookahead (`S: 'a' ?= 'b'^;` is rendered `S: 'a'^ /* Clipped */ ?= 'b';`), "
             "which parol.par rejects (TokenExpression [ASTControl]): the rendered text is not readable"),
    "F25c": ("clipped-nonterminal-aliased-nt_type",
             "a clipped non-terminal whose %nt_type is also the target of a %user_type alias is rendered `B^ /* Clipped */ : A` "
             "(`%user_type A = x::Y %nt_type B = x::Y … S: B^ \"c\";`), which parol.par rejects (`^` excludes a type)"),
    "F25d": ("literal-body-ending-in-backslash",
             "a literal whose body ends in a backslash is not self-delimiting (String/RawString/Regex token regexes let `\\` also match `[^d]`, "
             "so the closing delimiter is taken as escaped and the token runs on to the next delimiter character); rendering re-quotes comment "
             "delimiters as \"…\", reorders declarations and adds /* … */ decorations, so `%title \"x\\\\\" %line_comment '//'` is rendered "
             "`%title \"x\\\\\"\\n%line_comment \"//\"` and no longer parses"),
    "F25e": ("t_type-vs-state-list",
             "%t_type is applied to `\"x\"` but not to `<INITIAL>\"x\"` (process_symbol), while Terminal::format omits the state list `<INITIAL>` "
             "and omits a type equal to the %t_type: `%t_type x::Y … S: <INITIAL>\"a\";` comes back with user type x::Y, and "
             "`<A, B>\"a\" : x::Y` comes back without"),
    "F25f": ("terminal-type-named-like-nt_type-nonterminal",
             "the user-type resolver maps the NAME of every non-terminal that has a %nt_type to the marker `%nt_type`; a terminal whose user type "
             "is spelled like such a non-terminal is rendered ` : %nt_type` (`%nt_type B = x::Y … S: \"a\" : B B;`), which is not PAR syntax"),
    "F25g": ("comment-delimiter-with-double-quote",
             "comment delimiters are stored expanded and rendered inside \"…\" without escaping: `%block_comment '\"\"\"' '\"\"\"'` is rendered "
             "`%block_comment \"\"\"\"\" \"\"\"\"\"`, which does not parse"),
    "F25h": ("single-terminal-alternative-as-token-name",
             "the primary-non-terminal finder used for `%on`/`%skip` takes ANY production with a single terminal on its right-hand side (the last "
             "one wins), also one alternative of a non-terminal with several productions: `%on T %enter INITIAL … T: 'a'; X: 'a' | 'b' 'c';` is "
             "rendered `%on X %enter INITIAL`, which check_transitions rejects (X is not a primary non-terminal)"),
    "F25i": ("several-on-directives-for-one-token",
             "parol accepts several `%on` directives for the same token in one scanner state (`%on T %push X %on T %enter X`); the transitions "
             "come back in the order of the rendered directives (sorted by text: `%enter` before `%push`), not in the declared order"),
}
ORDER = sorted(FINDINGS)


def unhex(h):
    try:
        return binascii.unhexlify(h).decode("utf8", "replace")
    except Exception:
        return h


def oracle_req(case, reply):
    w = case.split()
    if w[0] == "fmt-la" and reply not in ("bad-op", "panic", "err"):
        return f"la-check {w[1]} {reply}"
    return None


def nontrivial(case):
    w = case.split()
    if w[0] == "fmt-t":
        return w[2] != "-"
    return True


def known_table(ctx):
    listed = {k["id"]: k for k in common.load_known(ctx.pid)}
    tab = {}
    for fid, (key, text) in FINDINGS.items():
        tab[fid] = listed.get(fid, {"id": fid, "key": key, "text": text, "pending": True})
    return tab


def judge(ctx, cases, replies, tag):
    """cfg-eq verdicts for round-trip replies: list of 'skip:<why>' | 'ok' | 'fail <why>'."""
    reqs, idx, out = [], [], []
    for i, rep in enumerate(replies):
        w = rep.split(" ")
        if len(w) != 3:
            out.append("skip:" + rep)
        else:
            out.append(None)
            reqs.append(f"cfg-eq {w[0]} {w[1]}")
            idx.append(i)
    if reqs:
        p = ctx.path(f"rt_oracle_{tag}.txt")
        with open(p, "w") as f:
            f.write("\n".join(reqs) + "\n")
        common.run_model(p, p + ".rep")
        reps = common.read_lines(p + ".rep")
        for j, i in enumerate(idx):
            out[i] = reps[j] if j < len(reps) else "fail <oracle-missing>"
    return out


def run_rt(ctx, lines, tag):
    p = ctx.path(f"rt_cases_{tag}.txt")
    with open(p, "w") as f:
        f.write("\n".join(lines) + "\n")
    ok, err = common.run_impl("c25", p, ctx.path(f"rt_impl_{tag}.txt"))
    return common.read_lines(ctx.path(f"rt_impl_{tag}.txt")), ok, err


def sanitized(case, ids):
    op, h = case.split()
    return f"{op}s {','.join(ids)} {h}"


def attribute_failures(ctx, fails):
    """fails: [(case, verdict)] -> ({case: [ids]}, [unexplained (case, verdict, verdict_with_all)])."""
    explained, todo = {}, [c for c, _ in fails]
    # one finding alone
    for fid in ORDER:
        if not todo:
            break
        reps, _, _ = run_rt(ctx, [sanitized(c, [fid]) for c in todo], "attr")
        vs = judge(ctx, todo, reps, "attr")
        for c, v in zip(list(todo), vs):
            if v == "ok" and c not in explained:
                explained[c] = [fid]
        todo = [c for c in todo if c not in explained]
    unexplained = []
    if todo:
        # several triggers in one document: all together, then drop what is not needed
        reps, _, _ = run_rt(ctx, [sanitized(c, ORDER) for c in todo], "attr")
        vs = judge(ctx, todo, reps, "attr")
        cur = {}
        for c, v in zip(todo, vs):
            if v == "ok":
                cur[c] = list(ORDER)
            else:
                unexplained.append((c, dict(fails)[c], v))
        for fid in ORDER:
            cand = [c for c in cur if fid in cur[c] and len(cur[c]) > 1]
            if not cand:
                continue
            reps, _, _ = run_rt(ctx, [sanitized(c, [x for x in cur[c] if x != fid]) for c in cand], "attr")
            vs = judge(ctx, cand, reps, "attr")
            for c, v in zip(cand, vs):
                if v == "ok":
                    cur[c] = [x for x in cur[c] if x != fid]
        explained.update(cur)
    return explained, unexplained


def rt_corpus():
    p = os.path.join(common.VERIF, "corpus", "C25_rt.txt")
    if not os.path.exists(p):
        return []
    return [l for l in common.read_lines(p) if l.strip() and not l.startswith("#")]


def extra(ctx, state):
    binary = state["binary"]
    # the round-trip stream has its own generator subcommand (`pv c25 gen` is the printer tie)
    import subprocess
    with open(ctx.path("rt_gen.raw"), "w") as fo:
        p = subprocess.run([binary, "c25", "genrt", str(ctx.seed), ctx.tier], stdout=fo, stderr=subprocess.PIPE, text=True)
    gen = [l[3:] for l in open(ctx.path("rt_gen.raw"), errors="replace").read().split("\n") if l.startswith("@@ ")]
    corpus = rt_corpus()
    cases = corpus + gen
    replies, ok_run, err_run = run_rt(ctx, cases, "main")
    if p.returncode != 0 or not ok_run or len(replies) != len(cases):
        common.violation(ctx, "C25_rt_run.json", {
            "broken": "V:round-trip driver crashed or produced too few replies", "stderr": (p.stderr or err_run)[-2000:],
            "replies": len(replies), "cases": len(cases)}, no_input=True)
        return
    verdicts = judge(ctx, cases, replies, "main")
    stats = {"documents": len(cases) // 2, "from_corpus": len(corpus), "rt": {}, "rtx": {}}
    fails = []
    panics = []
    for c, r, v in zip(cases, replies, verdicts):
        op = c.split()[0]
        k = v if v in ("ok",) or v.startswith("skip:") else "fail"
        stats[op][k] = stats[op].get(k, 0) + 1
        if r == "panic":
            panics.append(c)
        if k == "fail":
            fails.append((c, v))
    # how many compared documents carried no derived annotation (nothing excluded from the comparison)
    dreq = [f"cfg-derived {r.split(' ')[0]}" for c, r, v in zip(cases, replies, verdicts) if v == "ok"]
    if dreq:
        pth = ctx.path("rt_derived.txt")
        with open(pth, "w") as f:
            f.write("\n".join(dreq) + "\n")
        common.run_model(pth, pth + ".rep")
        dr = common.read_lines(pth + ".rep")
        stats["round_trips_ok_compared_in_full_(no_annotation_excluded)"] = sum(1 for x in dr if x == "0")
        stats["round_trips_ok_with_derived_annotations_excluded"] = sum(1 for x in dr if x == "1")
    explained, unexplained = attribute_failures(ctx, fails) if fails else ({}, [])
    tab = known_table(ctx)
    hits = {}
    for c, ids in explained.items():
        for fid in ids:
            hits.setdefault(fid, []).append(c)
    for fid in sorted(hits):
        cs = sorted(set(unhex(c.split()[1]) for c in hits[fid]), key=len)
        k = tab[fid]
        pend = " [pending: line not yet in known_findings.txt]" if k.get("pending") else ""
        ctx.known.append(f"{fid} key={k['key']} {k['text']} (reproduced on {len(hits[fid])} round trip(s), e.g. `{' '.join(cs[0].split())}`){pend}")
    if unexplained:
        unexplained.sort(key=lambda t: len(t[0]))
        c, v, vall = unexplained[0]
        common.violation(ctx, "C25_roundtrip.json", {
            "kind": "render_par_string / obtain_grammar_config_from_string do not round-trip (oracle configEq); no listed finding explains it",
            "case": c, "grammar": unhex(c.split()[1]), "oracle": v, "oracle_after_removing_all_listed_triggers": vall,
            "further_failing_cases": [t[0] for t in unexplained[1:10]], "count": len(unexplained)})
    if panics:
        common.violation(ctx, "C25_panic.json", {
            "kind": "the round trip panicked (no verdict possible)", "case": panics[0], "grammar": unhex(panics[0].split()[1]),
            "count": len(panics)}, no_input=True)
    stats["failing_round_trips"] = len(fails)
    stats["attributed_to_listed_findings"] = {k: len(v) for k, v in sorted(hits.items())}
    stats["attributed_to_a_single_finding"] = sum(1 for v in explained.values() if len(v) == 1)
    stats["attributed_to_several_findings_together"] = sum(1 for v in explained.values() if len(v) > 1)
    stats["unexplained"] = len(unexplained)
    stats["generated_file"] = "lean/ParolModel/Generated/ParLiteralRes.lean (" + STATE.get("dump", "?") + ")"
    stats["rule"] = ("documents: 26 hand-written boundary documents (one witness per listed finding), every *.par under examples/, "
                     "crates/parol/data/valid, crates/parol/src/parser, crates/parol/tests/data, and 2400 (quick) / 40000 (thorough) random documents (3 of 4 avoid the triggers of the listed findings): "
                     "1..3 scanner states, 1..5 primary terminals + 0..2 further non-terminals, literals of all three kinds from pools with escapes and "
                     "delimiter-like characters, lookahead, ^, @member, : Type, %user_type/%nt_type/%t_type, <S1, S2> state lists, %line_comment/"
                     "%block_comment (all quotings)/%auto_newline_off/%auto_ws_off/%allow_unmatched/%skip/%on … %enter|%push|%pop per state, %title/"
                     "%comment, both grammar types, groups/optionals/repetitions, shuffled declarations and productions; each document as `rt` and `rtx`")
    state["coverage_extra"] = {
        "round_trip": stats,
        "evaluations": state["evaluations"] + len(cases),
        "round_trips_judged_by_lean_comparer": sum(1 for v in verdicts if not v.startswith("skip:")),
    }


STATE = {}

SPEC = {
    "prop": "c25",
    "mod": "ParolModel.Props.C25",
    "files": FILES,
    "oracle_req": oracle_req,
    "nontrivial": nontrivial,
    "attribute": lambda c, a, why: None,
    "extra": extra,
    "level": "translation_validation",
    "rule": "printer tie: 3000 (quick) / 60000 (thorough) random symbols: fmt-la (lookahead expressions of the three kinds), fmt-n (non-terminal occurrences), "
            "fmt-t (terminals: kind, body from pools or random over an alphabet of escapes and delimiters, attribute, lookahead, member, user type, "
            "state list, resolver tables); non-trivial = non-empty body; distinct = distinct request lines. Round trips: see coverage.round_trip.rule",
    "assumptions": [
        "the document-level printer (render_par_string) and parser (parol's own generated parser + ParolGrammar + GrammarConfig::try_from) are NOT modelled: "
        "their round trip is checked per explored document by the verified comparer, not proved for all grammars",
        "the dump of a GrammarConfig into the comparer encoding (harness/src/c25.rs dump_config) is trusted to be injective and complete on the listed fields; "
        "skip lists and transitions are dumped as terminal index AND the terminal the index denotes in the configuration's own grammar",
        "excluded from the comparison: production attributes and the symbol attributes RepetitionAnchor/Option (printed as comments; PAR has no syntax for them) — "
        "nothing else; obtain_grammar_config_from_string already canonicalises EBNF, so also untransformed grammars with {…}/[…] carry them",
        "regex-syntax -> Re lowering (harness/src/relower.rs) of the PAR token regexes is trusted as in C13/C15 (validated there against scnr2)",
        "the theorems speak about the documented tokenisation rule (tokenizeSpec) over the PAR lexer's regexes; that parol's own scnr2 scanner follows the rule is C13's subject",
    ],
}

CLAIM = {
    "category": "translation_validation",
    "text": "Proved for ALL literal bodies, against the PAR lexer's token regexes regenerated from the repository on every run: the text the literal printers "
            "emit for a \"…\", '…' or /…/ literal with body t is read back by the documented tokenisation rule as exactly one token of that kind spanning the "
            "whole text whose trimmed body is t — for every t in the language of the body regex (\\\\.|[^d])* that is not shadowed by an earlier terminal "
            "(literal_print_lex_roundtrip_string/_raw/_regex; the condition litOk is exact: literal_print_lex_exact / _iff; for \"…\" and '…' its side "
            "condition is vacuous: litOk_legacy_raw; for /…/ it excludes exactly the texts that are comments: regex_empty_is_line_comment, "
            "regex_stars_is_block_comment). In context (literal_first_token): for every body that does not end in a backslash (and, for /…/, is neither "
            "empty nor starts with `*`) and EVERY following text, the first token read is the literal's token ending at its own closing delimiter; a body "
            "ending in a backslash is proved NOT self-delimiting (backslash_body_overruns, finding F25d). The Lean printers are tied byte for byte to the real "
            "Terminal::format / Symbol::format / LookaheadExpression::to_par. The document level is translation validation: every explored real "
            "render_par_string -> obtain_grammar_config_from_string round trip (untransformed and transformed) is judged by the Lean comparer configEq, "
            "proved sound and complete (configEq_sound, configEq_complete, oracle_sound, normAttrs_id) over an encoding of start symbol, declarations, "
            "productions with every symbol annotation, and scanner configurations incl. allow_unmatched.",
    "design_ref": "DESIGN.md §6 C25",
    "note": "Level is translation_validation, not proof: the ∀ over grammars is covered per explored document. On the unchanged tree eight round-trip "
            "defects are reproduced every run and listed as findings F25a–F25h (non-aliased user types of non-terminals dropped; `^` printed before a "
            "lookahead; `^ : Alias`; literal bodies ending in a backslash; %t_type vs <INITIAL>; ` : %nt_type`; unescaped `\"` in comment delimiters; "
            "%on/%skip named after a non-primary non-terminal). F6 (%allow_unmatched not rendered) is fixed (44f84ce) and its witnesses are in the fixed documents.",
    "technique": "Lean 4 proof (literal printers vs regenerated token regexes; verified comparer) + differential correspondence check on the printers + "
                 "translation validation of real round trips",
}


def prepare(ctx):
    STATE.clear()
    ok, log = common.build_harness()
    if not ok:
        return
    rc, out, err = common.sh([common.PV, "c25", "dump", GEN])
    STATE["dump"] = out.strip() or ("failed: " + err[-300:])


def run(ctx):
    prepare(ctx)
    return common.standard_flow(ctx, SPEC)


def replay(ctx, payload):
    case = payload.get("case")
    common.build_harness()
    common.sh([common.PV, "c25", "dump", GEN])
    common.lake_build(["parol_model"])
    if not case:
        print(payload)
        return 1
    w = case.split()
    if w[0] in ("rt", "rtx"):
        a = common.impl_lines("c25", [case])[0]
        v = judge(ctx, [case], [a], "replay")[0]
        print(f"grammar:\n{unhex(w[1])}")
        ww = a.split(" ")
        if len(ww) == 3 and ww[2] != "-":
            print(f"rendered:\n{unhex(ww[2])}")
        print(f"oracle: {v}")
        if v == "ok" or v.startswith("skip:"):
            return 0
        explained, unexplained = attribute_failures(ctx, [(case, v)])
        if case in explained:
            print("known finding(s): " + ", ".join(explained[case]))
            return 0
        return 1
    a = common.impl_lines("c25", [case])[0]
    b = common.model_lines([case])[0]
    req = oracle_req(case, a)
    o = common.model_lines([req])[0] if req else "ok"
    print(f"case: {case}\nimpl: {a}\nmodel: {b}\noracle: {o}")
    return 0 if (a == b and o == "ok") else 1
