"""Shared machinery for every property check: building the harness against /repo's working tree,
building and auditing the Lean project, running the line protocol on both sides, diffing, known
findings, replay files and evidence."""
import json, os, re, subprocess, sys, time, hashlib, shutil

VERIF = os.path.dirname(os.path.dirname(os.path.abspath(__file__)))


def _resolve_repo():
    """PAROL_REPO, else a sibling checkout `../repo` (scratch worktrees used while developing), else /repo."""
    e = os.environ.get("PAROL_REPO")
    if e:
        return os.path.abspath(e)
    sib = os.path.abspath(os.path.join(VERIF, "..", "repo"))
    if os.path.isdir(os.path.join(sib, "crates", "parol")):
        return sib
    return "/repo"


REPO = _resolve_repo()
LEAN = os.path.join(VERIF, "lean")
HARNESS = os.path.join(VERIF, "harness")
WORK = os.path.join(VERIF, "work")
TARGET = os.environ.get("CARGO_TARGET_DIR") or os.path.join(HARNESS, "target")
PV = os.path.join(TARGET, "debug", "pv")
PV_LS = os.path.join(TARGET, "debug", "pv_ls")   # second harness binary (language-server modules)
MODEL = os.path.join(LEAN, ".lake", "build", "bin", "parol_model")
ALLOWED_AXIOMS = {"propext", "Classical.choice", "Quot.sound"}
BASE_TRUST = [
    "Lean 4.33.0 kernel (theorems in lean/ParolModel/Props; axioms audited per theorem)",
    "Lean compiler/runtime for evaluating model functions and verified checkers in the native driver",
    "Rust harness /verif/harness (case generators, encoders into the line protocol, canonicalisation)",
    "orchestrator /verif/bin/check + /verif/checks (diff, search, evidence)",
]


class Ctx:
    def __init__(self, pid, tier, seed):
        self.pid = pid
        self.tier = tier
        self.seed = seed
        self.t0 = time.time()
        self.violations = []      # (replay_path, suffix)
        self.known = []           # text lines
        self.notes = []
        self.workdir = os.path.join(WORK, pid)
        os.makedirs(self.workdir, exist_ok=True)
        os.makedirs(os.path.join(VERIF, "replays"), exist_ok=True)
        os.makedirs(os.path.join(VERIF, "evidence"), exist_ok=True)

    @property
    def thorough(self):
        return self.tier == "thorough"

    def path(self, name):
        return os.path.join(self.workdir, name)


def sh(cmd, cwd=None, inp=None, timeout=None, env=None):
    e = dict(os.environ)
    e["CARGO_NET_OFFLINE"] = "true"
    if env:
        e.update(env)
    p = subprocess.run(cmd, cwd=cwd, input=inp, capture_output=True, text=True, timeout=timeout, env=e)
    return p.returncode, p.stdout, p.stderr


# ---------------------------------------------------------------------------------------------
# builds

def gen_glue():
    subprocess.run([sys.executable, os.path.join(VERIF, "bin", "gen_glue")], capture_output=True)


def write_cargo_toml():
    """harness/Cargo.toml is generated from Cargo.toml.in with the resolved repository path."""
    tmpl = open(os.path.join(HARNESS, "Cargo.toml.in")).read().replace("@REPO@", REPO)
    p = os.path.join(HARNESS, "Cargo.toml")
    if not os.path.exists(p) or open(p).read() != tmpl:
        open(p, "w").write(tmpl)


def build_harness(bins=("pv",)):
    """Rebuilds the harness (and with it the parol crates) from /repo's current working tree,
    hooks on (--cfg parol_verif via harness/.cargo/config.toml). Returns (ok, log)."""
    gen_glue()
    write_cargo_toml()
    lock = os.path.join(HARNESS, "Cargo.lock")
    if not os.path.exists(lock):
        shutil.copy(os.path.join(REPO, "Cargo.lock"), lock)
    cmd = ["cargo", "build", "--offline"]
    for b in bins:
        cmd += ["--bin", b]
    rc, out, err = sh(cmd, cwd=HARNESS, timeout=3000)
    return rc == 0, (out + err)[-6000:]


def lake_build(targets):
    rc, out, err = sh(["lake", "build"] + list(targets), cwd=LEAN, timeout=3000)
    return rc == 0, (out + err)[-8000:]


AUDIT_TMPL = """import Lean
import {mod}
open Lean Elab Command
run_cmd do
  let env ← getEnv
  let some idx := env.getModuleIdx? `{mod} | throwError "no module"
  for (n, ci) in env.constants.toList do
    if env.getModuleIdxFor? n == some idx then
      match ci with
      | .thmInfo _ =>
        if !n.isInternalDetail then
          let ax ← collectAxioms n
          logInfo m!"THM {{n}} :: {{ax.toList}}"
      | _ => pure ()
"""

AUTO_THM = re.compile(r"\.(brecOn|binductionOn|eq_def|eq_\d+|induct|induct_unfolding|fun_cases|fun_cases_unfolding|below|rec|recOn|casesOn|sizeOf_spec|injEq|inj|congr_simp|noConfusion\w*|ctorIdx\w*|match_\d+\S*|proof_\d+|_\w+)(\.\S+)?$")
FORBIDDEN = re.compile(r"\bsorry\b|\badmit\b|^axiom\s|native_decide|implemented_by|\bunsafe\s|maxHeartbeats 0", re.M)


def strip_comments(src):
    src = re.sub(r"/-.*?-/", "", src, flags=re.S)
    src = re.sub(r"--.*", "", src)
    return src


def lean_sources_closure(mod):
    """All ParolModel source files reachable from module `mod` via imports."""
    seen, todo = set(), [mod]
    while todo:
        m = todo.pop()
        if m in seen or not m.startswith("ParolModel"):
            continue
        seen.add(m)
        p = os.path.join(LEAN, *m.split(".")) + ".lean"
        if not os.path.exists(p):
            continue
        for line in open(p):
            mm = re.match(r"\s*import\s+(\S+)", line)
            if mm:
                todo.append(mm.group(1))
    return sorted(seen)


def audit(mod, allow_extra=()):
    """Builds `mod`, lists every theorem declared in it with its axioms, greps the import closure
    for forbidden constructs. Returns dict(ok, theorems={name: [axioms]}, problems=[...])."""
    problems = []
    ok, log = lake_build([mod])
    if not ok:
        return {"ok": False, "theorems": {}, "problems": ["lake build failed: " + log[-3000:]], "build_failed": True}
    for m in lean_sources_closure(mod):
        p = os.path.join(LEAN, *m.split(".")) + ".lean"
        src = strip_comments(open(p).read())
        for hit in FORBIDDEN.finditer(src):
            problems.append(f"forbidden construct {hit.group(0)!r} in {m}")
    os.makedirs(WORK, exist_ok=True)
    f = os.path.join(WORK, "audit_" + mod.replace(".", "_") + ".lean")
    open(f, "w").write(AUDIT_TMPL.format(mod=mod))
    rc, out, err = sh(["lake", "env", "lean", f], cwd=LEAN, timeout=1200)
    thms = {}
    txt = out + err
    for m in re.finditer(r"THM (\S+) :: \[(.*?)\]", txt, flags=re.S):
        ax = [a.strip() for a in m.group(2).replace("\n", " ").split(",") if a.strip()]
        if AUTO_THM.search(m.group(1)):
            continue
        thms[m.group(1)] = ax
    if rc != 0:
        problems.append("audit script failed: " + txt[-2000:])
    for n, ax in thms.items():
        for a in ax:
            if a in ALLOWED_AXIOMS:
                continue
            if any(re.fullmatch(pat, a) for pat in allow_extra):
                continue
            problems.append(f"theorem {n} depends on non-standard axiom {a}")
    if not thms:
        problems.append("no theorems found in " + mod)
    return {"ok": not problems, "theorems": thms, "problems": problems, "build_failed": False}


# ---------------------------------------------------------------------------------------------
# line protocol

def _strip_replies(text):
    """Replies of `run` are the stdout lines starting with `@@ ` (the code under test may print noise)."""
    return [l[3:] for l in text.split("\n") if l.startswith("@@ ")]



def run_model(cases_path, out_path):
    with open(cases_path) as fi, open(out_path, "w") as fo:
        p = subprocess.run([MODEL], stdin=fi, stdout=fo, stderr=subprocess.PIPE, text=True)
    return p.returncode == 0, p.stderr[-2000:]


def run_impl(prop, cases_path, out_path, binary=None, timeout=3000):
    raw = out_path + ".raw"
    with open(cases_path) as fi, open(raw, "w") as fo:
        p = subprocess.run([binary or PV, prop, "run"], stdin=fi, stdout=fo, stderr=subprocess.PIPE, text=True, timeout=timeout)
    with open(raw, errors="replace") as f, open(out_path, "w") as fo:
        lines = _strip_replies(f.read())
        fo.write("\n".join(lines) + ("\n" if lines else ""))
    return p.returncode == 0, p.stderr[-2000:]


def gen_cases(prop, seed, tier, out_path, binary=None, extra=()):
    raw = out_path + ".raw"
    with open(raw, "w") as fo:
        p = subprocess.run([binary or PV, prop, "gen", str(seed), tier] + list(extra), stdout=fo, stderr=subprocess.PIPE, text=True)
    with open(raw, errors="replace") as f, open(out_path, "w") as fo:
        text = f.read()
        lines = _strip_replies(text)
        if not lines:       # generators with their own command line print unprefixed case lines
            lines = [l for l in text.split("\n") if l]
        fo.write("\n".join(lines) + ("\n" if lines else ""))
    return p.returncode == 0, p.stderr[-2000:]


def model_lines(lines):
    """Runs the model driver on a list of request lines, returns reply lines."""
    p = subprocess.run([MODEL], input="\n".join(lines) + "\n", capture_output=True, text=True)
    return p.stdout.split("\n")[: len(lines)]


def impl_lines(prop, lines, binary=None):
    p = subprocess.run([binary or PV, prop, "run"], input="\n".join(lines) + "\n", capture_output=True, text=True)
    return _strip_replies(p.stdout)[: len(lines)]


def read_lines(p):
    with open(p) as f:
        return f.read().split("\n")[:-1] if os.path.getsize(p) else []


def corpus_lines(pid):
    p = os.path.join(VERIF, "corpus", pid + ".txt")
    if not os.path.exists(p):
        return []
    return [l for l in read_lines(p) if l.strip() and not l.startswith("#")]


# ---------------------------------------------------------------------------------------------
# known findings

def load_known(pid):
    """known_findings.txt lines: `finding: property=<id> id=<Fn> key=<key> <text>` and
    `fixed: property=<id> <commit> <text>`. Returns the list of finding dicts for pid."""
    res = []
    p = os.path.join(VERIF, "known_findings.txt")
    if not os.path.exists(p):
        return res
    for line in open(p):
        line = line.strip()
        if not line.startswith("finding:"):
            continue
        m = re.match(r"finding:\s+property=(\S+)\s+id=(\S+)\s+key=(\S+)\s+(.*)", line)
        if m and m.group(1) == pid:
            res.append({"id": m.group(2), "key": m.group(3), "text": m.group(4)})
    return res


# ---------------------------------------------------------------------------------------------
# replay, evidence, exit

def write_replay(ctx, name, payload):
    payload = dict(payload)
    payload.setdefault("property", ctx.pid)
    payload.setdefault("replay_cmd", f"bin/check {ctx.pid} --replay replays/{name}")
    path = os.path.join(VERIF, "replays", name)
    with open(path, "w") as f:
        json.dump(payload, f, indent=1)
    return path


def violation(ctx, name, payload, no_input=False):
    path = write_replay(ctx, name, payload)
    ctx.violations.append((path, " no-failing-input-found" if no_input else ""))


def fingerprint(relpaths):
    h = hashlib.sha256()
    for rp in relpaths:
        p = os.path.join(REPO, rp)
        if os.path.exists(p):
            h.update(open(p, "rb").read())
    return h.hexdigest()[:16]


def finish(ctx, level, coverage, assumptions):
    ev = {
        "property_id": ctx.pid,
        "tier": ctx.tier,
        "seed": ctx.seed,
        "level": level,
        "coverage": coverage,
        "assumptions": assumptions,
        "wall_s": round(time.time() - ctx.t0, 2),
        "violations": len(ctx.violations),
        "known_findings_reproduced": ctx.known,
        "notes": ctx.notes,
    }
    with open(os.path.join(VERIF, "evidence", ctx.pid + ".json"), "w") as f:
        json.dump(ev, f, indent=1)
    for k in ctx.known:
        print(f"KNOWN-FINDING: property={ctx.pid} {k}")
    for path, suffix in ctx.violations:
        print(f"VIOLATION property={ctx.pid} replay={path}{suffix}")
    sys.stdout.flush()
    return 1 if ctx.violations else 0


def proof_coverage(aud, checker_cmd, extra_trust=()):
    thms = aud["theorems"]
    discharged = len(thms) if aud["ok"] else 0
    return {
        "obligations": max(len(thms), 1),
        "discharged": discharged,
        "checker_cmd": checker_cmd,
        "trusted_base": BASE_TRUST + list(extra_trust),
        "theorems": {k: v for k, v in sorted(thms.items())},
        "audit_problems": aud["problems"],
    }


def diff_streams(cases, impl, model):
    """Returns list of (index, case, impl, model) where the replies differ."""
    res = []
    n = max(len(cases), len(impl), len(model))
    for i in range(n):
        c = cases[i] if i < len(cases) else "<none>"
        a = impl[i] if i < len(impl) else "<missing>"
        b = model[i] if i < len(model) else "<missing>"
        if a != b and b != "no-model":
            res.append((i, c, a, b))
    return res


# ---------------------------------------------------------------------------------------------
# the standard flow for a differential tie plus a property oracle

def standard_flow(ctx, spec):
    """spec keys:
      prop            harness property name (pv <prop> gen/run)
      mod             Lean module with the property theorems
      files           repo-relative source files the model mirrors (fingerprint, informational)
      oracle_req      fn(case, impl_reply) -> request line for the Lean driver or None; the driver
                      answers `ok` or `fail <why>`; decides the PROPERTY on the implementation's output
      nontrivial      fn(case) -> bool
      attribute       fn(case, impl_reply, why) -> known-finding id or None
      level           evidence level
      assumptions     list of strings
      allow_axioms    regexes of additional accepted axioms
      bins            harness binaries to build
      binary          name of the harness binary that serves `<prop> gen|run` (default: pv)
      extra           fn(ctx, state) for property-specific additional steps (optional)
    """
    pid = ctx.pid
    prop = spec["prop"]
    binary = os.path.join(TARGET, "debug", spec["binary"]) if spec.get("binary") else None
    state = {"diffs": [], "oracle_fail": [], "evaluations": 0, "binary": binary or PV}
    ok, log = build_harness(spec.get("bins", ("pv",)))
    if not ok:
        violation(ctx, f"{pid}_harness_build.json", {
            "broken": "correspondence D:" + prop + " (harness no longer builds against /repo)",
            "log": log}, no_input=True)
        cov = {"obligations": 1, "discharged": 0, "checker_cmd": "cargo build (harness)", "trusted_base": BASE_TRUST,
               "explanation": "harness build failed", "evaluations": 0}
        return finish(ctx, spec.get("level", "proof"), cov, spec.get("assumptions", []))
    okd, logd = lake_build(["parol_model"])
    aud = audit(spec["mod"], spec.get("allow_axioms", ()))
    for extra_mod in spec.get("more_mods", ()):
        a2 = audit(extra_mod, spec.get("allow_axioms", ()))
        aud["theorems"].update(a2["theorems"])
        aud["problems"] += a2["problems"]
        aud["ok"] = aud["ok"] and a2["ok"]
        aud["build_failed"] = aud["build_failed"] or a2["build_failed"]
    proof_broken = not aud["ok"]
    if not okd:
        aud["problems"].append("driver build failed: " + logd[-2000:])
        proof_broken = True

    cases_p, impl_p, model_p = ctx.path("cases.txt"), ctx.path("impl.txt"), ctx.path("model.txt")
    okg, errg = gen_cases(prop, ctx.seed, ctx.tier, ctx.path("gen.txt"), binary=binary, extra=spec.get("gen_extra", ()))
    corpus = corpus_lines(pid)
    gen = read_lines(ctx.path("gen.txt")) if okg else []
    cases = corpus + gen
    with open(cases_p, "w") as f:
        f.write("\n".join(cases) + "\n")
    oki, erri = run_impl(prop, cases_p, impl_p, binary=binary)
    impl = read_lines(impl_p)
    model = []
    if okd:
        okm, errm = run_model(cases_p, model_p)
        model = read_lines(model_p)
    state["evaluations"] = len(cases)
    if not okg or not oki or len(impl) != len(cases):
        violation(ctx, f"{pid}_impl_run.json", {
            "broken": "correspondence D:" + prop + " (implementation driver crashed or produced too few replies)",
            "stderr": (errg if not okg else erri), "replies": len(impl), "cases": len(cases),
            "first_unanswered_case": cases[len(impl)] if len(impl) < len(cases) else None},
            no_input=len(impl) >= len(cases))
    diffs = diff_streams(cases, impl, model) if okd else []
    state["diffs"] = diffs

    # property oracle on the implementation's replies (always, not only on disagreement)
    reqs, idx = [], []
    for i, c in enumerate(cases):
        if i >= len(impl):
            break
        r = spec["oracle_req"](c, impl[i]) if spec.get("oracle_req") else None
        if r is None:
            continue
        for one in (r if isinstance(r, (list, tuple)) else [r]):   # several oracle requests per case are allowed
            reqs.append(one)
            idx.append(i)
    oracle_fail = []
    if reqs and okd:
        with open(ctx.path("oracle_req.txt"), "w") as f:
            f.write("\n".join(reqs) + "\n")
        run_model(ctx.path("oracle_req.txt"), ctx.path("oracle_rep.txt"))
        reps = read_lines(ctx.path("oracle_rep.txt"))
        for j, i in enumerate(idx):
            rep = reps[j] if j < len(reps) else "<missing>"
            if rep != "ok" and not rep.startswith("ok "):
                oracle_fail.append((i, cases[i], impl[i], rep))
    state["oracle_fail"] = oracle_fail
    state["oracle_checked"] = len(reqs)

    # attribute oracle failures
    known = {k["id"]: k for k in load_known(pid)}
    known_hits = {}
    new_fail = []
    # shortest cases first; once a violation is established, attribution (which may re-run model or
    # implementation per case) is cut off after a budget — the remaining failures are only counted
    t_attr = time.time()
    unexamined = 0
    for n_attr, (i, c, a, why) in enumerate(sorted(oracle_fail, key=lambda t: len(t[1]))):
        if new_fail and (n_attr >= 300 or time.time() - t_attr > 120):
            unexamined = len(oracle_fail) - n_attr
            break
        fid = spec["attribute"](c, a, why) if spec.get("attribute") else None
        if fid and fid in known:
            known_hits.setdefault(fid, []).append(c)
        else:
            new_fail.append((i, c, a, why))
    state["oracle_fail_unexamined"] = unexamined
    for fid, cs in known_hits.items():
        ctx.known.append(f"{fid} {known[fid]['text']} (reproduced on {len(cs)} case(s), e.g. `{cs[0]}`)")
    if new_fail:
        new_fail.sort(key=lambda t: len(t[1]))
        i, c, a, why = new_fail[0]
        violation(ctx, f"{pid}_oracle.json", {
            "kind": "property fails on the implementation (oracle)", "case": c, "impl_reply": a,
            "oracle": why, "model_reply": model[i] if i < len(model) else None,
            "further_failing_cases": [t[1] for t in new_fail[1:20]], "count": len(new_fail)})
    elif diffs:
        diffs_sorted = sorted(diffs, key=lambda t: len(t[1]))
        i, c, a, b = diffs_sorted[0]
        violation(ctx, f"{pid}_tie.json", {
            "kind": "model and implementation disagree; the property oracle found no failing input",
            "broken": "correspondence D:" + prop + " (theorems of " + spec["mod"] + " no longer transfer to the code)",
            "case": c, "impl_reply": a, "model_reply": b, "disagreements": len(diffs),
            "more": [t[1] for t in diffs_sorted[1:10]]}, no_input=True)
    elif proof_broken:
        violation(ctx, f"{pid}_proof.json", {
            "kind": "proof obligation no longer checks",
            "broken": spec["mod"], "problems": aud["problems"]}, no_input=True)

    if spec.get("extra"):
        spec["extra"](ctx, state)

    nontriv = set(c for c in cases if spec.get("nontrivial", lambda c: True)(c))
    cov = proof_coverage(aud, f"lake build {spec['mod']} && lake env lean work/audit_*.lean (axiom audit) ; bin/check {pid}",
                         spec.get("extra_trust", ()))
    cov.update({
        "evaluations": len(cases),
        "distinct_nontrivial": len(nontriv),
        "rule": spec.get("rule", ""),
        "samples": (cases[:2] + cases[len(corpus):len(corpus) + 3] + cases[-3:])[:8],
        "traces_validated_against_impl": len(cases) - len(diffs),
        "disagreements": len(diffs),
        "oracle_checked": state["oracle_checked"],
        "oracle_failures": len(oracle_fail),
        "oracle_failures_attributed_to_known_findings": {k: len(v) for k, v in known_hits.items()},
        "model_source_fingerprint": fingerprint(spec.get("files", [])),
        "modelled_files": spec.get("files", []),
    })
    if "coverage_extra" in state:
        cov.update(state["coverage_extra"])
    return finish(ctx, spec.get("level", "proof"), cov, spec.get("assumptions", []))
