"""C10 — left factoring preserves the language and removes shared prefixes.
Tie D: real `parol::left_factor(&Cfg)` vs Lean `leftFactor`, exact comparison of the production
list. Oracle `lf-check`: `member` both ways on all strings ≤ n, first-symbol clash detector, helper
name clash detector."""
from . import common

FILES = ["crates/parol/src/transformation/left_factoring.rs", "crates/parol/src/utils/mod.rs"]


def oracle_req(case, reply):
    w = case.split()
    if w[0] != "lf":
        return None
    start = w[1].split(":")[0]
    rules = reply.count(";") + 1
    n = 4 if rules <= 10 else 3
    return f"lf-check {n} {start} {w[1]} {reply}"


def nontrivial(case):
    # at least two rules of one non-terminal start with the same symbol
    seen = set()
    for r in case.split()[1].split(";"):
        l, _, rhs = r.partition(":")
        first = rhs.split("@")[0].split(",")[0]
        if first:
            if (l, first) in seen:
                return True
            seen.add((l, first))
    return False


SPEC = {
    "prop": "c10",
    "mod": "ParolModel.Props.C10",
    "more_mods": ["ParolModel.Props.C10b"],
    "files": FILES,
    "oracle_req": oracle_req,
    "nontrivial": nontrivial,
    "level": "proof",
    "rule": "random plain grammars (1..3 base non-terminals plus names shaped like generated suffix names — XSuffix, XSuffix0, "
            "XSuffix18446744073709551615, …; alternatives built from shared stems so that prefixes of length 1..3 are shared, "
            "with ties between equally large groups; empty and duplicate alternatives; undefined non-terminals; interleaved "
            "rules of different non-terminals; 1/5 with symbol and production attributes); non-trivial = some non-terminal has two "
            "alternatives with the same first symbol; distinct = distinct request lines",
    "assumptions": [
        "the Lean functions of Model/LeftFactor.lean mirror left_factor/find_prefix/find_longest_prefixes/mod_factor/apply_rule_transformation; agreement is observed on the explored grammars",
        "symbols are compared structurally, attributes included (as #[derive(PartialEq)] does): `B^` and `B` are different symbols for left factoring, so 'same first symbol' means the same symbol with the same attribute",
        "termination is a theorem (Props/C10b: left_factor_terminates_bound, fuel |rs|*total rhs length + 1 suffices; the driver fuel suffices) for every drain order that is a permutation of the map — which the HashMap drain is; for an arbitrary `ord` function it is false (left_factor_terminates_needs_perm)",
    ],
}

CLAIM = {
    "category": "proof",
    "text": "Lean theorems about the model `leftFactor` (mirror of left_factor with the repaired find_prefix: first-occurring largest group wins): factor_step_preserves_lang (one factor_out_prefix step preserves the language for every prefix shared or not), left_factor_preserves_lang, left_factor_no_common_first (on exit no two non-empty alternatives of a non-terminal start with the same symbol), helper names fresh; termination with fuel: one round never fails (factor_out_total, using that generate_name is total), results are fuel-independent once the fuel suffices (left_factor_terminates_partial); termination (Props/C10b): left_factor_terminates_bound — the measure (sum over pairs of same-lhs rules of their common-prefix length) strictly decreases with every modifying round, fuel |rs|*total rhs length + 1 suffices for every permutation drain order, and left_factor_total: the terminating run leaves no shared first symbol; the unrestricted statement over arbitrary order functions is refuted (left_factor_terminates_needs_perm). Tied to the code by exact differential runs on the public left_factor; every implementation reply is also judged by the oracle (member both ways on all strings ≤ n, first-symbol clash, name clash).",
    "design_ref": "DESIGN.md §6 C10",
    "note": "Trusted: Lean kernel, faithfulness of the hand-written model as observed by the differential run, harness and orchestrator.",
    "technique": "Lean 4 proof over hand-written model + differential correspondence check",
}


def run(ctx):
    return common.standard_flow(ctx, SPEC)


def replay(ctx, payload):
    case = payload.get("case")
    common.build_harness()
    common.lake_build(["parol_model"])
    a = common.impl_lines("c10", [case])[0]
    b = common.model_lines([case])[0]
    o = common.model_lines([oracle_req(case, a)])[0]
    print(f"case: {case}\nimpl: {a}\nmodel: {b}\noracle: {o}")
    return 0 if (a == b and o == "ok") else 1
