"""C27 — the language server's formatter preserves meaning and comments and is idempotent.

Translation validation (no model of the ~2 k lines of layout code):
 V: `pv_ls c27 fmtgen` produces (options, text) cases — hand-written probe grammars that use every PAR
    construct with a comment inserted at EVERY token boundary (line, block, multi-line block, two
    line comments; one at a time, everywhere at once, random subsets), CRLF variants, every *.par of
    the repository, and all 2 x 2 x 4 combinations of the formatter's settings. `pv_ls c27 run`
    calls the REAL formatter the way Server::handle_formatting does, formats the result again and
    lexes original and result with the REAL parol-ls scanner. The Lean checker `fmtCheck`
    (`fmt-check`, Props/C27: fmtCheck_ok_iff) decides: same significant tokens in order, same
    comments in order, idempotent. Props/C27.sameSignificant_sound: same significant tokens imply the
    same parse result and action trace of the LL model instantiated with the regenerated parol-ls tables.
 D: `par-ls` cases (standard flow): the Lean lexer + LL instance agrees with the real parol-ls scanner
    and parser on commented originals and on formatter outputs (verdict and token types).
Failures are attributed to listed findings by structural predicates evaluated on the case plus a
counterfactual re-run with only the trigger removed; anything else is a VIOLATION."""
import difflib, os, re, subprocess, time
from . import common
from .c34 import GEN as PAR_TABLES

FILES = ["crates/parol-ls/src/parol_ls_parser.rs", "crates/parol-ls/parol_ls.par"]
EXPLORED_FILES = ["crates/parol-ls/src/formatting/format/format_impl.rs", "crates/parol-ls/src/formatting/format/grammar_core_fmt.rs",
                  "crates/parol-ls/src/formatting/format/scanner_fmt.rs", "crates/parol-ls/src/formatting/format/declaration_fmt.rs",
                  "crates/parol-ls/src/formatting/format/production_fmt.rs", "crates/parol-ls/src/formatting/format/token_expr_fmt.rs",
                  "crates/parol-ls/src/formatting/comments.rs", "crates/parol-ls/src/formatting/fmt_options.rs",
                  "crates/parol-ls/src/formatting/settings.rs", "crates/parol-ls/src/parol_ls_grammar.rs", "crates/parol-ls/src/server.rs"]
STATE = {}


def unhex(h):
    return "" if h in ("-", "") else bytes.fromhex(h).decode("utf-8", errors="replace")


def tohex(s):
    return s.encode("utf-8").hex() if s else "-"


def toks(word):
    """`ty:hex,…` -> [(ty, bytes)]"""
    if word == "-":
        return []
    out = []
    for t in word.split(","):
        ty, h = t.split(":")
        out.append((int(ty), bytes.fromhex(h)))
    return out


def norm_comment(t):
    return (t[0], t[1].rstrip(b"\r\n")) if t[0] == 3 else t


def lost_comments(co, cf):
    """Indices of original comments missing from the formatted text, or None if the difference is
    not a pure loss (something was inserted or changed)."""
    a = [norm_comment(t) for t in co]
    b = [norm_comment(t) for t in cf]
    lost = []
    for op, i1, i2, j1, j2 in difflib.SequenceMatcher(None, a, b, autojunk=False).get_opcodes():
        if op == "delete":
            lost += list(range(i1, i2))
        elif op != "equal":
            return None
    return lost


def split_merged(cf):
    """Undoes finding F30 on the formatted comment list: a block-comment token that contains `*//*`
    is split back into the comments it was glued together from."""
    out = []
    for ty, text in cf:
        if ty == 4 and b"*//*" in text:
            parts = text.split(b"*//*")
            for k, part in enumerate(parts):
                out.append((4, (b"/*" if k > 0 else b"") + part + (b"*/" if k + 1 < len(parts) else b"")))
        else:
            out.append((ty, text))
    return out


class Judge:
    """Runs formatter cases, the Lean oracle on their replies, and the attribution."""

    def __init__(self, binary):
        self.binary = binary

    def impl(self, lines):
        p = subprocess.run([self.binary, "c27", "run"], input="\n".join(lines) + "\n", capture_output=True, text=True)
        return [l[3:] for l in p.stdout.split("\n") if l.startswith("@@ ")][: len(lines)]

    def oracle(self, replies):
        """reply -> verdict string (`ok`, `fail …`, or the non-ok reply class itself)"""
        reqs, idx = [], []
        for i, r in enumerate(replies):
            w = r.split()
            if w and w[0] == "ok" and len(w) >= 6:
                reqs.append("fmt-check " + " ".join(w[1:6]))
                idx.append(i)
        reps = common.model_lines(reqs) if reqs else []
        out = [None] * len(replies)
        for j, i in enumerate(idx):
            out[i] = reps[j] if j < len(reps) else "<missing>"
        for i, r in enumerate(replies):
            if out[i] is None:
                w = r.split()
                out[i] = "impl:" + " ".join(w[:2] + [x for x in w[2:3] if x.startswith("trailing=")])
        return out

    def judge(self, cases):
        impl = self.impl(cases)
        while len(impl) < len(cases):
            impl.append("<missing>")
        return impl, self.oracle(impl)

    # -- attribution -----------------------------------------------------------------------------
    @staticmethod
    def step(case, reply, verdict):
        """One explain-away step for a failing run: (finding id, detail, counterfactual case with only
        that finding's trigger removed) or (None, why, None) if no listed finding's signature fits."""
        w, r = case.split(), reply.split()
        opts = w[1] + " " + w[2]
        text = bytes.fromhex(w[3]) if w[3] != "-" else b""

        def flags_of(word):
            """[(flag bits, start, end)] per comment of the original"""
            if word in ("f:-", "f:"):
                return []
            out = []
            for item in word[2:].split(","):
                f, span = item.split("@")
                s0, e0 = span.split("-")
                out.append((int(f), int(s0), int(e0)))
            return out

        def without(flags, idx):
            """the case with the comments `idx` replaced by a blank (a line break for a line comment)"""
            nonlocal text
            t = text
            for i in sorted(set(idx), reverse=True):
                _, s0, e0 = flags[i]
                piece = t[s0:e0]
                t = t[:s0] + (b"\n" if piece.endswith((b"\n", b"\r")) else b" ") + t[e0:]
            return f"fmt {opts} {t.hex() if t else '-'}"

        if verdict.startswith("impl:panic"):
            flags = flags_of(r[3]) if len(r) > 3 else []
            at = r[1] if len(r) > 1 else "?"
            t_idx = [i for i, f in enumerate(flags) if f[0] & 1]
            if at.startswith("format_impl.rs:") and t_idx:
                return "F17", f"panic at {at}; {len(t_idx)} comment(s) after the last `;`", without(flags, t_idx)
            return None, f"panic at {at}, flags={[f[0] for f in flags]}", None
        unparsable = verdict.startswith("impl:reparse-failed") and len(r) > 6 and r[1] == "Unparsable"
        if verdict.startswith("fail comments-merged") or verdict.startswith("fail comment-changed") or unparsable:
            if unparsable:
                co, cf0, flags = toks(r[3]), toks(r[5]), flags_of(r[6])
            else:
                co, cf0 = toks(r[2]), toks(r[4])
                flags = flags_of(r[6]) if len(r) > 6 else []
            a = [norm_comment(t) for t in co]
            if len(flags) != len(a):
                return None, "comment flags do not match the comment list", None
            # F30: block comments glued together (`*//*`): remove all but the first comment of each glued group
            glued = []
            for ty, tx in cf0:
                if ty == 4 and b"*//*" in tx:
                    parts = split_merged([(ty, tx)])
                    glued += [a.index(norm_comment(p)) for p in parts[1:] if norm_comment(p) in a]
            if glued:
                return "F30", f"{len(glued)} block comment(s) glued to their predecessor as `*//*`", without(flags, glued)
            # F31 within one run: a comment directly behind a trailing line comment is appended to its line
            behind = [i for i, f in enumerate(flags) if f[0] & 8]
            if behind and cf0 != co and any(norm_comment(t) not in a for t in cf0):
                return "F31", f"{len(behind)} comment(s) directly behind a trailing line comment (appended to its line)", without(flags, behind)
            if verdict.startswith("fail comments-merged"):
                return None, "comments split differently, but neither `*//*` nor a glued line comment", None
            b = [norm_comment(t) for t in cf0]
            ops = difflib.SequenceMatcher(None, a, b, autojunk=False).get_opcodes()
            deleted = [i for op, i1, i2, j1, j2 in ops if op in ("delete", "replace") for i in range(i1, i2)]
            inserted = [j for op, i1, i2, j1, j2 in ops if op in ("insert", "replace") for j in range(j1, j2)]
            moved = [i for i in deleted if a[i] in [b[j] for j in inserted]]
            foreign = [j for j in inserted if b[j] not in [a[i] for i in deleted]]
            appended = {}
            for j in foreign:
                # a line comment `A B` made of a trailing original A and another original B
                if b[j][0] != 3:
                    continue
                for ia, ca in enumerate(a):
                    if ca[0] == 3 and flags[ia][0] & 4 and b[j][1].startswith(ca[1] + b" "):
                        rest = b[j][1][len(ca[1]) + 1:]
                        for ib, cb in enumerate(a):
                            # B itself, or the first line of a multi-line block comment B (its remainder is then
                            # no longer inside a comment: the formatted text does not parse)
                            if cb[1] == rest or (cb[0] == 4 and cb[1].split(b"\n")[0].rstrip(b"\r") == rest) \
                                    or (cb[0] == 4 and rest.startswith(cb[1])):
                                appended.setdefault("F34" if ib < ia else "F31", []).append(ib)
            for fid in ("F34", "F31"):
                if fid in appended:
                    why = (f"{len(appended[fid])} pending comment(s) overtaken by a trailing line comment and appended to its line" if fid == "F34"
                           else f"{len(appended[fid])} comment(s) appended to the line of the trailing line comment in front of them")
                    return fid, why, without(flags, appended[fid])
            if unparsable and not foreign:
                return None, "the formatted text does not parse (no comment appended to a line comment's line found)", None
            if foreign:
                return None, f"the formatted text has comments the original has not: {[b[j] for j in foreign][:3]}", None
            if moved:
                # F34: a trailing comment was emitted ahead of comments that were still pending
                pos = {c: k for k, c in enumerate(b)}
                trailing = [i for i in range(len(a)) if flags[i][0] & 4 and a[i] in pos]
                overtaken = sorted({k for i in trailing for k in range(i) if a[k] in pos and pos[a[k]] > pos[a[i]]})
                if overtaken:
                    return "F34", f"trailing comment(s) emitted ahead of {len(overtaken)} pending comment(s)", without(flags, overtaken)
                return None, f"comments reordered: {[a[i] for i in moved][:3]} (flags {[flags[i][0] for i in moved]})", None
            lost = deleted
            if lost and all(flags[i][0] & 2 for i in lost):
                return "F32", f"{len(lost)} comment(s) lost, each in front of a `|` inside a group/option/repetition", without(flags, lost)
            return None, f"lost comments {[a[i] for i in lost][:3]} with flags {[flags[i][0] for i in lost]}", None
        if verdict.startswith("impl:reparse-failed"):
            return None, "the formatted text does not parse: " + " ".join(r[:3]), None
        if verdict.startswith("fail not-idempotent"):
            f1w = [x for x in r if x.startswith("f1=")]
            gw = [x for x in r if x.startswith("g:")]
            if f1w and gw:
                text = bytes.fromhex(f1w[0][3:]) if f1w[0][3:] != "-" else b""     # `without` works on the once-formatted text
                flags = flags_of("f" + gw[0][1:])
                behind = [i for i, f in enumerate(flags) if f[0] & 8]
                if behind:
                    return "F31", f"the once-formatted text has {len(behind)} comment(s) directly behind a trailing line comment", without(flags, behind)
            return None, "not idempotent, and the once-formatted text has no comment directly behind a trailing line comment", None
        return None, verdict[:160], None

    def explain_all(self, items):
        """items: [(case, reply, verdict)] of failing runs. Explains each away finding by finding, in
        batched rounds: returns [(finding ids or None, details)]. A run is explained iff after removing
        the triggers of listed findings — one per step, each confirmed by its structural signature —
        the run satisfies the property."""
        res = [([], []) for _ in items]
        cur = {i: it for i, it in enumerate(items)}
        for _ in range(40):
            nxt = {}
            for i, (case, reply, verdict) in cur.items():
                fid, detail, cf = self.step(case, reply, verdict)
                if fid is None:
                    res[i] = (None, res[i][1] + [detail])
                else:
                    res[i] = (res[i][0] + [fid], res[i][1] + [f"{fid}: {detail}"])
                    nxt[i] = cf
            if not nxt:
                break
            keys = list(nxt)
            impl, verdicts = self.judge([nxt[i] for i in keys])
            cur = {}
            for i, r, v in zip(keys, impl, verdicts):
                if v != "ok":
                    cur[i] = (nxt[i], r, v)
            if not cur:
                break
        for i in cur:
            if res[i][0] is not None:
                res[i] = (None, res[i][1] + ["more than 40 explain-away steps"])
        return res


def formatter_validation(ctx, state):
    binary = state["binary"]
    t0 = time.time()
    gen_p = ctx.path("fmt_cases.txt")
    p = subprocess.run([binary, "c27", "fmtgen", str(ctx.seed), ctx.tier], capture_output=True, text=True)
    gen = [l[3:] for l in p.stdout.split("\n") if l.startswith("@@ ")]
    corpus = common.corpus_lines("C27_fmt")
    cases = corpus + gen
    with open(gen_p, "w") as f:
        f.write("\n".join(cases) + "\n")
    j = Judge(binary)
    impl, verdicts = j.judge(cases)
    with open(ctx.path("fmt_impl.txt"), "w") as f:
        f.write("\n".join(impl) + "\n")
    with open(ctx.path("fmt_verdicts.txt"), "w") as f:
        f.write("\n".join(verdicts) + "\n")
    known = {k["id"]: k for k in common.load_known(ctx.pid)}
    classes, hits, new = {}, {}, []
    unparsable = 0
    failing = []
    for c, r, v in zip(cases, impl, verdicts):
        cls = v.split(" index")[0] if v.startswith("fail") else v
        classes[cls] = classes.get(cls, 0) + 1
        if v == "ok":
            continue
        if v.startswith("impl:unparsable"):
            unparsable += 1          # the ORIGINAL does not parse: not a formatter case
            continue
        failing.append((c, r, v))
    for (c, r, v), (fids, details) in zip(failing, j.explain_all(failing)):
        if fids and all(f in known for f in fids):
            for f in sorted(set(fids)):
                hits.setdefault(f, []).append((c, "; ".join(details) + "; with these triggers removed the run satisfies the property"))
        else:
            new.append((c, r, v, "; ".join(details)))
    for fid, hs in sorted(hits.items()):
        hs.sort(key=lambda t: len(t[0]))
        c, detail = hs[0]
        w = c.split()
        ctx.known.append(f"{fid} key={known[fid]['key']} {known[fid]['text']} (reproduced on {len(hs)} case(s); smallest: options "
                         f"{w[1]}/{w[2]} text {unhex(w[3])[:160]!r}: {detail})")
    if new:
        new.sort(key=lambda t: len(t[0]))
        c, r, v, detail = new[0]
        w = c.split()
        common.violation(ctx, "C27_formatter.json", {
            "kind": "the formatter's output fails the property (Lean checker fmtCheck on the real scanner's view of original and result) and no listed finding explains it",
            "case": c, "options": {"empty_line_after_prod": w[1][0] == "1", "prod_semicolon_on_nl": w[1][1] == "1", "max_line_length": int(w[2])},
            "text": unhex(w[3]), "impl_reply": r[:2000], "oracle": v, "attribution_attempt": detail,
            "further": [t[0][:400] for t in new[1:8]], "count": len(new)})
    # the direct call used above (parse_document + DocumentState::format with the server's settings written into the
    # options) against a real Server (didOpen + textDocument/formatting, default settings) on the corpus and the probes
    probe = [c for c in cases if c.split()[1:3] == ["11", "100"]][:40]
    a = j.impl([f"fmt-show 11 100 {c.split()[3]}" for c in probe])
    b = j.impl([f"fmt-server {c.split()[3]}" for c in probe])
    server_diff = [c for c, x, y in zip(probe, a, b) if x != y and not (x.startswith("panic") or y.startswith("panic") or x == "" or y == "")]
    server_same = sum(1 for x, y in zip(a, b) if x == y and x.startswith("ok "))
    if server_diff:
        common.violation(ctx, "C27_server_path.json", {
            "kind": "the harness's direct formatter call and the server's textDocument/formatting handler return different texts (the harness no longer mirrors Server::handle_formatting)",
            "case": server_diff[0], "count": len(server_diff)}, no_input=True)
    judged = len(cases) - unparsable
    state["coverage_extra"] = {
        "programs": judged,
        "disagreements_checked": sum(len(v) for v in hits.values()) + len(new),
        "formatter_validation": {
            "level": "translation_validation (every formatter run is judged by the verified checker; the quantifier over texts/options is explored)",
            "formatter_runs_judged": judged, "originals_that_do_not_parse": unparsable,
            "verdict_classes": classes,
            "attributed_to_known_findings": {k: len(v) for k, v in hits.items()},
            "unattributed": len(new),
            "direct_call_vs_real_Server_request_same_text": f"{server_same} of {len(probe)} (the rest panics on both paths: F17)",
            "option_combinations": "empty_line_after_prod x prod_semicolon_on_nl x max_line_length in {1, 30, 100, 1000} = 16",
            "rule": "4 probe grammars (together every PAR construct) x every token boundary (start and end of every significant token, start and end of text) x "
                    "{line comment, block comment} (+ multi-line block / two line comments at every third boundary; thorough: everywhere) with the option combination rotating, "
                    "comments everywhere at once x all 16 combinations, 10 (40) random subsets, CRLF variants, probes x 16 combinations (LF and CRLF), "
                    "every *.par of the repository x 2 (16) combinations + CRLF for every fifth (every) file; corpus/C27_fmt.txt first",
            "samples": [c[:300] for c in (cases[:2] + cases[len(corpus) + 200:len(corpus) + 202])],
            "explored_files": EXPLORED_FILES,
            "explored_source_fingerprint": common.fingerprint(EXPLORED_FILES),
            "wall_s": round(time.time() - t0, 1),
        },
    }


def nontrivial(case):
    w = case.split()
    return len(w) == 2 and w[1].count(",") >= 20


def prepare(ctx):
    STATE.clear()
    ok, log = common.build_harness(("pv", "pv_ls"))
    if not ok:
        return
    rc, out, err = common.sh([common.PV_LS, "c34", "dump", PAR_TABLES])
    STATE["dump"] = out.strip() or ("failed: " + err[-300:])
    common.lake_build(["parol_model"])


SPEC = {
    "prop": "c27",
    "mod": "ParolModel.Props.C27",
    "files": FILES,
    "bins": ("pv", "pv_ls"),
    "binary": "pv_ls",
    "nontrivial": nontrivial,
    "extra": formatter_validation,
    "level": "translation_validation",
    "rule": "tie D (`par-ls`): every 6th (thorough: every) commented probe text, its formatter output, CRLF variants, and the formatter output of every 4th (every) "
            "repository grammar — real parol-ls scanner + parser vs the Lean lexer + LL instance on the regenerated tables (verdict and significant token types); "
            "non-trivial = more than 20 characters; distinct = distinct texts. The formatter runs themselves are counted under coverage.formatter_validation",
    "assumptions": [
        "NO model of the formatter: 'for every text and option combination' is explored, not proved; each explored run is judged by the verified checker fmtCheck (fmtCheck_ok_iff) on what the REAL parol-ls scanner delivers for the original and the formatted text",
        "'describes the same grammar' is decided as 'same significant tokens (type and text) in the same order'; sameSignificant_sound shows that this implies the same result and action trace of the LL model instantiated with the regenerated parol-ls tables; that model is tied to the real parser by the differential run (this check's par-ls cases and C34)",
        "line comments are compared without their terminating line break; block comments and all significant tokens byte for byte",
        "idempotence is computed by the harness as text equality of the first and the second formatter output (same options)",
        "the harness is a debug build: finding F17 shows as the debug assertion's panic (format_impl.rs), not as the dropped comment of a release build",
        "attribution of a failing run to a listed finding is a structural predicate on the case plus a counterfactual re-run (python, not verified); the verdict 'fails the property' itself is the Lean checker's",
    ],
}

CLAIM = {
    "category": "translation_validation",
    "text": "PROVED in Lean (Props/C27): fmtCheck_ok_iff — the checker accepts a formatter run exactly when original and formatted text have the same significant tokens (type + text) in the same order, "
            "the same comments in the same order (line comments modulo their line break) and the second run reproduced the first; sameSignificant_sound / sameSignificant_ls — for ALL token sequences, equal significant "
            "tokens give the same result and action trace of the LL parser model on the parol-ls tables REGENERATED from the working tree (via llCoreRun_skip_irrelevant), whatever whitespace and comments lie between them, "
            "hence the same ParolLs AST. NOT proved: the quantifier over grammar texts and option combinations — the formatter is not modelled. "
            "EXPLORED: the REAL formatter (called as Server::handle_formatting does) on probe grammars covering every PAR construct with comments at every token boundary (line/block/multi-line, single, all at once, random), CRLF variants, "
            "every *.par of the repository, all 16 combinations of empty_line_after_prod x prod_semicolon_on_nl x max_line_length; every run is judged by the verified checker on the REAL scanner's tokens. "
            "The unchanged tree violates the property in four listed ways (reproduced on every run, reported as KNOWN-FINDING): F17 comment after the last production (debug assertion / dropped), F30 adjacent block comments emitted as `*//*` lex as one comment, "
            "F31 second run joins two line comments behind a declaration (not idempotent), F32 comment before `|` inside a group/option/repetition is dropped (default options). Any other changed token, lost/reordered comment or non-idempotence is a VIOLATION with text+options as replay.",
    "design_ref": "DESIGN.md §6 C27",
    "note": "Trusted: Lean kernel; the real parol-ls scanner as the definition of 'tokens/comments of a text' (its block-comment regex has finding F3a, which is what makes F30 visible); harness and orchestrator; attribution predicates (python). "
            "The LL model's faithfulness to the real parol-ls parser is observed by the differential run (par-ls cases; C34).",
    "technique": "translation validation: verified Lean checker on the real formatter's output as lexed by the real scanner + Lean proof that equal significant tokens give equal parses on regenerated tables; differential tie of the lexer/parser instance",
}


def run(ctx):
    prepare(ctx)
    return common.standard_flow(ctx, SPEC)


def replay(ctx, payload):
    case = payload.get("case")
    prepare(ctx)
    if not case:
        print(payload)
        return 1
    if case.startswith("fmt"):
        j = Judge(common.PV_LS)
        impl, verdicts = j.judge([case])
        w = case.split()
        fid, detail = ([], []) if verdicts[0] == "ok" else j.explain_all([(case, impl[0], verdicts[0])])[0]
        print(f"options: {w[1]} {w[2]}\ntext: {unhex(w[3])!r}\nimpl: {impl[0][:300]}\noracle: {verdicts[0]}\nattribution: {fid} {detail}")
        shown = j.impl([f"fmt-show {w[1]} {w[2]} {w[3]}"])[0].split()
        if len(shown) > 1 and shown[0] == "ok":
            print(f"formatted: {unhex(shown[1])!r}")
        return 0 if verdicts[0] == "ok" else 1
    a = common.impl_lines("c27", [case], binary=common.PV_LS)[0]
    b = common.model_lines([case])[0]
    print(f"case: {case[:200]}\nimpl: {a[:300]}\nmodel: {b[:300]}")
    return 0 if a == b else 1
