"""C28 — renaming a symbol in the language server is a consistent renaming.

Translation validation (tie V), no model of the rename code itself:
 * `pv_ls c28` sends prepare-rename and rename to the REAL server at positions inside every
   occurrence of a renameable symbol (non-terminal other than the start symbol, scanner state other
   than INITIAL) of grammar texts, with a fresh name; it reports the original text's tokens (real
   parol-ls scanner; roles of identifier tokens from the untrimmed parse tree of the real parser, by
   grammar context), every prepare-rename answer, every distinct rename answer, the text that
   results from applying the edits under LSP (UTF-16) semantics and that text's tokens;
 * the Lean oracle `ls28-check` (`renameCheck` of `Model/LsEdits.lean`) decides the property for
   each answer: the edits, applied with the verified `applyEdits`, give exactly `renameSpec` (every
   identifier token denoting the symbol replaced, everything else unit-identical), this is the text
   that was lexed, and its token sequence is the original one with exactly those tokens renamed;
   `Props/C28.lean`: `applyEdits_order_indep`, `applyEdits_spec`, `renameCheck_sound`.
Failures are attributed to a listed finding only by its structural signature (F18: an occurrence of
the symbol has a character above U+FFFF earlier on its line; F39: a lone CR precedes an occurrence)
AND a counterfactual re-run (the same rename on the text with only the trigger removed — astral
characters replaced by a BMP character, lone CRs by LF — must pass); everything else is a VIOLATION
with text + symbol + new name as replay."""
import os, re, time
from . import common

FILES = ["crates/parol-ls/src/parol_ls_grammar.rs", "crates/parol-ls/src/symbol_def.rs",
         "crates/parol-ls/src/rng.rs", "crates/parol-ls/src/utils.rs", "crates/parol-ls/src/server.rs"]
MOD = "ParolModel.Props.C28"
LINE_END = re.compile(r"\r\n|\n|\r")


def unhex(h):
    return "" if h == "-" else bytes.fromhex(h).decode("utf-8")


def tohex(s):
    return s.encode("utf-8").hex() if s else "-"


def answers(reply):
    """(toks, preps, [(count, line, char, edits, res, rtoks)]) of an `ok …` reply, else None."""
    r = reply.split(" ")
    if len(r) < 4 or r[0] != "ok" or not r[3].isdigit():
        return None
    n = int(r[3])
    if len(r) != 4 + 6 * n:
        return None
    return r[1], r[2], [tuple(r[4 + 6 * i: 10 + 6 * i]) for i in range(n)]


def oracle_reqs(case, reply):
    """One oracle request per distinct rename answer (the prepare-rename answers ride on the first)."""
    w = case.split(" ")
    a = answers(reply)
    if a is None:
        return None
    toks, preps, ans = a
    return [f"ls28-check {w[1]} {w[2]} {w[3]} {w[4]} {toks} {preps if i == 0 else '-'} {e} {res} {rt}"
            for i, (_, _, _, e, res, rt) in enumerate(ans)]


def utf16_prefix(line, units):
    """The prefix of `line` that is `units` UTF-16 code units long."""
    out, n = [], 0
    for ch in line:
        if n >= units:
            break
        out.append(ch)
        n += 2 if ord(ch) > 0xFFFF else 1
    return "".join(out)


def astral_before_occurrence(case, reply):
    """Structural signature of finding F18, evaluated on the case: some identifier token that denotes
    the symbol (role and name as reported with the tokens) has a character above U+FFFF earlier on
    its line."""
    w = case.split(" ")
    a = answers(reply)
    if a is None:
        return False
    text = unhex(w[1])
    lines = LINE_END.split(text)
    role = "n" if w[2] == "nt" else "s"
    for t in a[0].split(","):
        f = t.split(":")
        if len(f) != 6 or f[5] != role:
            continue
        sl, sc, el, ec = int(f[1]), int(f[2]), int(f[3]), int(f[4])
        if sl != el or sl >= len(lines):
            continue
        pre = utf16_prefix(lines[sl], sc)
        name = lines[sl][len(pre):len(pre) + (ec - sc)]
        if name == w[3] and any(ord(c) > 0xFFFF for c in pre):
            return True
    return False


def without_astral(case):
    """The counterfactual case: every character above U+FFFF replaced by U+00DC (same number of
    characters, so the server's character-based ranges are then also UTF-16 ranges)."""
    w = case.split(" ")
    text = "".join("Ü" if ord(c) > 0xFFFF else c for c in unhex(w[1]))
    return " ".join([w[0], tohex(text)] + w[2:])


LONE_CR = re.compile(r"\r(?!\n)")


def lone_cr_before_occurrence(case, reply):
    """Structural signature of finding F39: a CR that is not followed by LF occurs in the text before
    the last occurrence of the symbol (from there on the server's line numbers differ from the
    protocol's)."""
    w = case.split(" ")
    a = answers(reply)
    if a is None:
        return False
    text = unhex(w[1])
    m = LONE_CR.search(text)
    if not m:
        return False
    first_cr_line = len(LINE_END.findall(text[:m.start()]))
    role = "n" if w[2] == "nt" else "s"
    lines = LINE_END.split(text)
    for t in a[0].split(","):
        f = t.split(":")
        if len(f) == 6 and f[5] == role and int(f[1]) > first_cr_line:
            sl, sc, ec = int(f[1]), int(f[2]), int(f[4])
            pre = utf16_prefix(lines[sl], sc)
            if lines[sl][len(pre):len(pre) + (ec - sc)] == w[3]:
                return True
    return False


def without_lone_cr(case):
    """The counterfactual case for F39: every lone CR replaced by LF."""
    w = case.split(" ")
    return " ".join([w[0], tohex(LONE_CR.sub("\n", unhex(w[1])))] + w[2:])


# listed findings: id -> (structural signature on (case, reply), counterfactual case transformation)
SIGNATURES = {
    "F18": (astral_before_occurrence, without_astral),
    "F39": (lone_cr_before_occurrence, without_lone_cr),
}


def judge(cases, replies, binary):
    """Runs the oracle on all answers. Returns (per-case list of failure strings, #oracle requests)."""
    reqs, owner = [], []
    fails = [[] for _ in cases]
    for i, (c, r) in enumerate(zip(cases, replies)):
        rs = oracle_reqs(c, r)
        if rs is None:
            fails[i].append("impl: " + r[:120])
            continue
        if not rs:
            fails[i].append("impl: no rename answer")
        for q in rs:
            reqs.append(q)
            owner.append(i)
    reps = []
    if reqs:
        reps = common.model_lines(reqs)
    for j, i in enumerate(owner):
        rep = reps[j] if j < len(reps) else "<missing>"
        if rep != "ok":
            fails[i].append(rep)
    return fails, len(reqs)


def run(ctx):
    pid = ctx.pid
    binary = common.PV_LS
    ok, log = common.build_harness(("pv", "pv_ls"))
    if not ok:
        common.violation(ctx, f"{pid}_harness_build.json", {
            "broken": "tie V:c28 (harness no longer builds against the repository)", "log": log}, no_input=True)
        cov = {"obligations": 1, "discharged": 0, "checker_cmd": "cargo build (harness)", "trusted_base": common.BASE_TRUST,
               "explanation": "harness build failed", "evaluations": 0}
        return common.finish(ctx, "translation_validation", cov, ASSUMPTIONS)
    okd, logd = common.lake_build(["parol_model"])
    aud = common.audit(MOD)
    if not okd:
        aud["problems"].append("driver build failed: " + logd[-2000:])
        aud["ok"] = False

    t0 = time.time()
    okg, errg = common.gen_cases("c28", ctx.seed, ctx.tier, ctx.path("gen.txt"), binary=binary)
    corpus = common.corpus_lines(pid)
    cases = corpus + (common.read_lines(ctx.path("gen.txt")) if okg else [])
    with open(ctx.path("cases.txt"), "w") as f:
        f.write("\n".join(cases) + "\n")
    oki, erri = common.run_impl("c28", ctx.path("cases.txt"), ctx.path("impl.txt"), binary=binary)
    impl = common.read_lines(ctx.path("impl.txt"))
    if not okg or not oki or len(impl) != len(cases):
        common.violation(ctx, f"{pid}_impl_run.json", {
            "broken": "tie V:c28 (implementation driver crashed or produced too few replies)",
            "stderr": (errg if not okg else erri), "replies": len(impl), "cases": len(cases),
            "first_unanswered_case": cases[len(impl)][:300] if len(impl) < len(cases) else None},
            no_input=len(impl) >= len(cases))
    n = min(len(cases), len(impl))
    cases, impl = cases[:n], impl[:n]
    fails, nreq = judge(cases, impl, binary) if okd else ([[] for _ in cases], 0)

    known = {k["id"]: k for k in common.load_known(pid)}
    failing = [i for i in range(n) if fails[i]]
    cand, new = {}, []
    for i in failing:
        fid = next((k for k, (sig, _) in SIGNATURES.items() if k in known and sig(cases[i], impl[i])), None)
        if fid:
            cand.setdefault(fid, []).append(i)
        else:
            new.append((i, None))
    # counterfactual: the same rename on the text with only the finding's trigger removed must pass
    confirmed = {}
    for fid, idx in cand.items():
        cf_cases = [SIGNATURES[fid][1](cases[i]) for i in idx]
        cf_impl = common.impl_lines("c28", cf_cases, binary=binary)
        cf_impl += ["<missing>"] * (len(cf_cases) - len(cf_impl))
        cf_fails, _ = judge(cf_cases, cf_impl, binary)
        for i, cc, cf in zip(idx, cf_cases, cf_fails):
            if cf:
                new.append((i, {"signature_of": fid, "counterfactual_case": cc[:2000], "counterfactual_failures": cf[:3]}))
            else:
                confirmed.setdefault(fid, []).append(i)
    for fid, idx in confirmed.items():
        idx.sort(key=lambda i: len(cases[i]))
        w = cases[idx[0]].split(" ")
        ctx.known.append(f"{fid} key={known[fid]['key']} {known[fid]['text']} (reproduced on {len(idx)} case(s); smallest: "
                         f"rename {w[2]} {w[3]} -> {w[4]} in {unhex(w[1])!r}: {fails[idx[0]][0][:200]})")
    if new:
        new.sort(key=lambda t: len(cases[t[0]]))
        i, cf = new[0]
        w = cases[i].split(" ")
        common.violation(ctx, f"{pid}_oracle.json", {
            "kind": "rename answer of the server is not the specified renaming (oracle renameCheck)",
            "case": cases[i], "text": unhex(w[1]), "symbol": [w[2], w[3]], "new_name": w[4],
            "failures": fails[i][:5], "impl_reply": impl[i][:4000], "counterfactual": cf,
            "further_failing_cases": [cases[j][:600] for j, _ in new[1:10]], "count": len(new)})
    elif not aud["ok"]:
        common.violation(ctx, f"{pid}_proof.json", {
            "kind": "proof obligation no longer checks", "broken": MOD, "problems": aud["problems"]}, no_input=True)

    # statistics
    texts = {}
    for c in cases:
        w = c.split(" ")
        texts.setdefault(w[1], []).append(w)
    kinds = {"nt": 0, "st": 0}
    positions = answers_total = multi = 0
    for c, r in zip(cases, impl):
        kinds[c.split(" ")[2]] += 1
        a = answers(r)
        if a:
            positions += sum(int(x[0]) for x in a[2])
            answers_total += len(a[2])
            multi += len(a[2]) > 1

    def klass(t):
        s = unhex(t)
        return ("astral" if any(ord(ch) > 0xFFFF for ch in s) else "bmp" if any(ord(ch) > 127 for ch in s) else "ascii",
                "crlf" if "\r\n" in s else "cr" if "\r" in s else "lf")
    dist = {}
    for t in texts:
        k = "/".join(klass(t))
        dist[k] = dist.get(k, 0) + 1
    rc, stale, _ = common.sh([binary, "stale"])
    cov = common.proof_coverage(aud, f"lake build {MOD} && lake env lean work/audit_*.lean (axiom audit) ; bin/check {pid}")
    cov.update({
        "evaluations": len(cases),
        "distinct_nontrivial": len(set(cases)),
        "rule": RULE,
        "samples": [c[:300] for c in (cases[:2] + cases[len(corpus):len(corpus) + 2] + cases[-2:])],
        "texts": len(texts), "texts_by_class": dist, "symbols": kinds,
        "rename_positions_requested": positions, "distinct_rename_answers_judged": answers_total,
        "cases_with_position_dependent_answers": multi,
        "oracle_checked": nreq, "oracle_failures": len(failing),
        "oracle_failures_attributed_to_known_findings": {k: len(v) for k, v in confirmed.items()},
        "unattributed_failures": len(new),
        "explored_files": FILES, "explored_source_fingerprint": common.fingerprint(FILES),
        "generated_parser": stale.strip(),
        "explore_wall_s": round(time.time() - t0, 1),
    })
    return common.finish(ctx, "translation_validation", cov, ASSUMPTIONS)


RULE = ("texts: hand-written boundary documents (F18 witness, BMP-only twin, scanner states with name clashes, user types, CRLF, CR-only, "
        "no final line end, tabs), every *.par under examples/, crates/parol/data/valid and parol's own grammar (thorough: + parol_ls.par, "
        "crates/parol/tests/data/valid), per repository text one (quick) / all three (thorough) of the variants CRLF, a BMP non-ASCII block comment "
        "at the start of every line, an astral block comment at the start of every line; 60 (quick) / 400 (thorough) generated texts that use "
        "every identifier context of the PAR grammar with name clashes between non-terminals, scanner states, user-type aliases and member "
        "names (some with CRLF / BMP / astral variants). Only texts the server's parser accepts. Per text: quick 6 seeded renameable symbols, "
        "thorough all; per symbol prepare-rename and rename at the first, middle and last character of EVERY occurrence (UTF-16 positions), "
        "fresh new name (not an identifier of the text; shorter, longer and derived names). Every distinct rename answer is judged. "
        "non-trivial = every case (a symbol with at least one occurrence); distinct = distinct (text, symbol, new name)")

ASSUMPTIONS = [
    "no model of prepare_rename/rename/symbol tables: the property is decided per explored (text, symbol) by the Lean oracle renameCheck; the forall over grammar texts is NOT proved",
    "LSP semantics as the protocol defines them without negotiated position encoding (UTF-16 code units, lines ended by LF, CRLF or CR), formalised in Model/LsEdits.lean (posToOff strict, edits refer to the original text, non-overlapping, no two edits at the same offset)",
    "tokens of the original and of the edited text come from the real parol-ls scanner (TokenStream over ParolLsGrammarScanner); byte offsets are converted to UTF-16 positions by the harness; the oracle re-derives every token text from the positions and compares texts, so a wrong conversion cannot make a wrong rename pass unnoticed unless it is wrong in the same way for both texts",
    "roles of identifier tokens (non-terminal / scanner state / other) are computed by the harness from the untrimmed parse tree of the real LL(k) parser by grammar context (parent non-terminal and leading keyword), independent of the server's symbol tables; an identifier in an unknown context makes the case fail",
    "'valid grammar text' = accepted by the language server's parser (the document has a parse tree); semantic validity for parol is not required",
]

CLAIM = {
    "category": "translation_validation",
    "text": "Translation validation: for every explored (grammar text, renameable symbol, fresh name) the real server's prepare-rename answers and every "
            "distinct rename answer (requested at three positions inside EVERY occurrence of the symbol) are judged by the Lean oracle renameCheck: the "
            "returned edits, applied under LSP/UTF-16 semantics by the verified applyEdits, must give exactly renameSpec (the span of every identifier "
            "token that denotes the symbol replaced by the new name, every other code unit unchanged), that text must be the one the real scanner "
            "lexed, and its token sequence must be the original one with exactly those tokens renamed. Lean theorems (Props/C28.lean): "
            "applyEdits_order_indep (the result does not depend on the order of the edits; overlapping edits are rejected in every order), "
            "applyEdits_spec (applying exactly the ranges of a set of tokens gives renameSpec), renameCheck_sound (the oracle accepts only if the "
            "edited text is the specified one and its token sequence is the original's with exactly the tokens of that symbol renamed). Roles of "
            "identifier tokens come from the parse tree by grammar context, independently of the server's symbol tables.",
    "design_ref": "DESIGN.md §6 C28",
    "note": "Partial: the forall over grammar texts is covered per explored text only (no model of the rename code). The unchanged server violates the property "
            "after characters above U+FFFF (known finding F18: ranges are in characters, the protocol's default is UTF-16; reproduced on every run and "
            "confirmed counterfactually). Trusted: Lean kernel and compiler (native oracle), the real scanner as the definition of 'token', the "
            "harness's byte-offset to UTF-16 conversion and role computation, orchestrator.",
    "technique": "verified checker (Lean) on the real server's answers; exploration over repository and generated grammar texts",
}


def replay(ctx, payload):
    case = payload.get("case")
    common.build_harness(("pv", "pv_ls"))
    common.lake_build(["parol_model"])
    a = common.impl_lines("c28", [case], binary=common.PV_LS)
    a = a[0] if a else "<missing>"
    fails, _ = judge([case], [a], common.PV_LS)
    w = case.split(" ")
    print(f"text: {unhex(w[1])!r}\nsymbol: {w[2]} {w[3]} -> {w[4]}\nimpl: {a[:1500]}\noracle: {fails[0] or 'ok'}")
    if fails[0]:
        print("signatures of listed findings:", {k: sig(case, a) for k, (sig, _) in SIGNATURES.items()})
    return 1 if fails[0] else 0
