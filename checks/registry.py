"""Registry of claimed checks; bin/mkmanifest renders MANIFEST.json from it."""

HOOK_COMMITS = []   # filled by bin/mkmanifest from `git -C /repo log --grep '^verif hook'`

import glob, importlib, os

CLAIMED = {}
for _f in sorted(glob.glob(os.path.join(os.path.dirname(__file__), "c[0-9][0-9].py"))):
    _m = importlib.import_module("checks." + os.path.basename(_f)[:-3])
    if getattr(_m, "CLAIM", None):
        CLAIMED[os.path.basename(_f)[:-3].upper()] = _m.CLAIM


NOT_YET = "machinery for this property is not built yet in this snapshot (planned in DESIGN.md §10); no claim is made"

NOT_APPLICABLE = {
    "C22": "statement about rustc accepting generated text (name resolution, type/borrow checking, derive macro expansion); no executable Lean model can express rustc's verdict — see DESIGN.md §7",
}
