"""Registry of claimed checks; bin/mkmanifest renders MANIFEST.json from it."""

HOOK_COMMITS = []   # filled by bin/mkmanifest from `git -C /repo log --grep '^verif hook'`

CLAIMED = {
    "C31": {
        "category": "proof",
        "text": "Lean theorems lev_script_transforms, lev_cost_eq_distance, lev_minimal hold for ALL pairs of token sequences of the model `lev`, a line-by-line mirror of Recovery::levenshtein_distance (DP table with the code's tie order, backtracking, early returns). The model is tied to the code by an exact differential run (distance and script) over all pairs over {0,1,2} up to length 4/5 plus random pairs, and every implementation reply is also fed to the verified oracle (applyOps, cost, proved-minimal distance).",
        "design_ref": "DESIGN.md §6 C31",
        "note": "Trusted: Lean kernel (axioms propext, Quot.sound only), the hand-written model's faithfulness as observed by the differential run, the harness and orchestrator. u16 token types modelled as Nat.",
        "technique": "Lean 4 proof over hand-written model + differential correspondence check",
    },
}

NOT_YET = "machinery for this property is not built yet in this snapshot (planned in DESIGN.md §10); no claim is made"

NOT_APPLICABLE = {
    "C22": "statement about rustc accepting generated text (name resolution, type/borrow checking, derive macro expansion); no executable Lean model can express rustc's verdict — see DESIGN.md §7",
}
