import ParolModel.Spec.Cfg
import ParolModel.Model.Lev
import ParolModel.Proofs.Lev
