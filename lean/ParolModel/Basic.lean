def hello := "world"
