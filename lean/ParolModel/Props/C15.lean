import ParolModel.Generated.ScannerConsts
import ParolModel.Proofs.Comments
import ParolModel.Proofs.Kmp
/-! # C15 — Comment tokens end exactly at the first end delimiter

"For every comment delimiter pair parol accepts and every input, a block comment token runs from
its start delimiter to the first subsequent occurrence of its end delimiter, and no further. A
line comment runs to the end of its line, including the line break."

The regexes judged here are the REAL outputs of `ScannerConfig::format_block_comment` and of the
line comment format in `generate_build_information`, regenerated into
`Generated/ScannerConsts.lean` on every run (text → regex-syntax → `Re`). A block comment regex is
right iff its language is that of the specification automaton `firstEndDfa s e` (literal `s`, then
the KMP automaton of `e`, accepting when `e` is completed for the first time): then, by
`longest_unique`, the longest match is the only match and ends at the first end delimiter.
Per delimiter pattern the verified checker `reEquivDfa` is evaluated by the kernel. Patterns on
which the unchanged code is wrong carry the NEGATION, with the distinguishing string recomputed by
the checker (findings F3a–F3g, F15 in known_findings.txt). -/
namespace ParolModel.C15
open ParolModel ParolModel.Generated

/-- The real regex of a delimiter instance accepts exactly the block comments of the specification. -/
def BlockOk (c : BlockCase) : Prop := ∀ w, matchesRe c.re w = (firstEndDfa c.s c.e).accepts w

/-- The real line comment regex accepts exactly `s (non-line-break)* (\r\n|\r|\n)?`. -/
def LineOk (c : LineCase) : Prop := ∀ w, matchesRe c.re w = matchesRe (lineSpecRe c.s) w

def checkCase (c : BlockCase) : Bool := reEquivDfa c.re (firstEndDfa c.s c.e)

/-- The checker's distinguishing string really distinguishes. -/
def refuteCase (c : BlockCase) : Bool :=
  match reDfaWitness c.re (firstEndDfa c.s c.e) with
  | some w => matchesRe c.re w != (firstEndDfa c.s c.e).accepts w
  | none => false

def refuteLine (c : LineCase) : Bool :=
  match autWitness reAut reAut c.re (lineSpecRe c.s) with
  | some w => matchesRe c.re w != matchesRe (lineSpecRe c.s) w
  | none => false

/-- Soundness of the equivalence checker (L9): if the derivative bisimulation over the
    representative alphabet closes, regex and automaton agree on ALL strings of code points. -/
theorem re_equiv_sound (r : Re) (D : SpecDfa) (hD : D.aut.Respects) (fuel : Nat)
    (h : reEquivDfa r D fuel = true) : ∀ w, matchesRe r w = D.accepts w :=
  ParolModel.re_equiv_sound r D hD fuel h

/-- Class abstraction: two characters that no class atom of `r` distinguishes (they lie on the same
    side of every range boundary) have the same derivative, so they can be exchanged in any input. -/
theorem class_abstraction_sound (r : Re) {x y : Nat} (h : SameSide (cutsOf r) x y) :
    deriv r x = deriv r y := ParolModel.class_abstraction_sound r h

/-- "…to the first subsequent occurrence of its end delimiter, and no further": if the regex has the
    language of the specification automaton then among the prefixes of any input at most one matches,
    i.e. the longest match is the unique match (the specification language is prefix-free: after the
    first completed end delimiter nothing can follow). -/
theorem longest_unique (r : Re) (s e : List Nat)
    (h : ∀ w, matchesRe r w = (firstEndDfa s e).accepts w)
    (w : List Nat) (n m : Nat) (hn : n ≤ w.length) (hm : m ≤ w.length)
    (h1 : matchesRe r (w.take n) = true) (h2 : matchesRe r (w.take m) = true) : n = m := by
  have key : ∀ a b : Nat, a ≤ b → b ≤ w.length → matchesRe r (w.take a) = true →
      matchesRe r (w.take b) = true → a = b := by
    intro a b hab hb ha hb'
    rw [h] at ha hb'
    have hsplit : w.take b = w.take a ++ (w.take b).drop a := by
      have : w.take a = (w.take b).take a := by rw [List.take_take]; congr 1; omega
      rw [this, List.take_append_drop]
    rw [hsplit] at hb'
    have hnil := firstEndDfa_prefix_free s e _ _ ha hb'
    have hlen := congrArg List.length hnil
    simp only [List.length_drop, List.length_take, List.length_nil] at hlen
    omega
  rcases Nat.le_total n m with hle | hle
  · exact key n m hle hm h1 h2
  · exact (key m n hle hn h2 h1).symm

/-- The specification automaton means what the property says: it accepts exactly the valid texts
    `s ++ z` in which `e` is a suffix of `z` and of no proper prefix of `z` — the first occurrence of
    the end delimiter after the start delimiter (not overlapping it) is at the very end. -/
theorem firstEnd_spec (s e : List Nat) (he : e ≠ []) (w : List Nat) :
    (firstEndDfa s e).accepts w = true ↔ FirstEnd s e w := Kmp.firstEndDfa_accepts_iff s e he w

/-- "…runs from its start delimiter to the first subsequent occurrence of its end delimiter": if the
    regex has the language of the specification automaton, then whatever prefix of the input it
    matches is a block comment in the sense of `FirstEnd`, and (by `longest_unique`) no other
    prefix matches. -/
theorem match_is_first_end (r : Re) (s e : List Nat) (he : e ≠ [])
    (h : ∀ w, matchesRe r w = (firstEndDfa s e).accepts w) (w : List Nat) (n : Nat)
    (hm : matchesRe r (w.take n) = true) : FirstEnd s e (w.take n) := by
  rw [h] at hm; exact (Kmp.firstEndDfa_accepts_iff s e he _).mp hm

theorem checkCase_sound (c : BlockCase) (h : checkCase c = true) : BlockOk c :=
  ParolModel.re_equiv_sound c.re _ (firstEndDfa_respects c.s c.e) _ h

theorem refuteCase_sound (c : BlockCase) (h : refuteCase c = true) : ¬ BlockOk c := by
  intro hok
  unfold refuteCase at h
  split at h
  · rename_i w _
    rw [hok w] at h
    simp at h
  · cases h

theorem refuteLine_sound (c : LineCase) (h : refuteLine c = true) : ¬ LineOk c := by
  intro hok
  unfold refuteLine at h
  split at h
  · rename_i w _
    rw [hok w] at h
    simp at h
  · cases h

/-! ## Per delimiter pattern: equality patterns among the ≤ 3 end characters, each with every
coincidence pattern with ≤ 2 start characters (letters) and over the other character pools. -/

/-- one-character end delimiter (`#…#`, `{…}`): correct. -/
theorem blockRe_eq_firstEnd_a : ∀ c ∈ blockCases_a, BlockOk c := fun c hc =>
  checkCase_sound c (List.all_eq_true.mp (by decide +kernel : blockCases_a.all checkCase = true) c hc)

/-- two equal end characters (`{{…}}`, `--…--`): correct. -/
theorem blockRe_eq_firstEnd_aa : ∀ c ∈ blockCases_aa, BlockOk c := fun c hc =>
  checkCase_sound c (List.all_eq_true.mp (by decide +kernel : blockCases_aa.all checkCase = true) c hc)

/-- two different end characters (`(*…*)`, `{-…-}`, and `\/\*…\*\/`): correct. -/
theorem blockRe_eq_firstEnd_ab : ∀ c ∈ blockCases_ab, BlockOk c := fun c hc =>
  checkCase_sound c (List.all_eq_true.mp (by decide +kernel : blockCases_ab.all checkCase = true) c hc)

/-- three equal end characters (`"""…"""`, `(((…)))`): correct. -/
theorem blockRe_eq_firstEnd_aaa : ∀ c ∈ blockCases_aaa, BlockOk c := fun c hc =>
  checkCase_sound c (List.all_eq_true.mp (by decide +kernel : blockCases_aaa.all checkCase = true) c hc)

/-- F3a: the dedicated C-style expression `/\*/?([^/]|[^*]/)*\*/` also accepts `/**//*/`, which
    contains an earlier `*/`: the token over-consumes. -/
theorem blockRe_ne_firstEnd_cstyle : ∀ c ∈ blockCases_cstyle, ¬ BlockOk c := fun c hc =>
  refuteCase_sound c (List.all_eq_true.mp (by decide +kernel : blockCases_cstyle.all refuteCase = true) c hc)

/-- What does hold for the C-style expression (F3a is over-consumption only): every block comment of
    the specification is matched, so a comment is never missed — but the longest match may run on. -/
def checkSpecSubRe (c : BlockCase) : Bool :=
  autIncl (firstEndDfa c.s c.e).aut reAut (firstEndDfa c.s c.e).start c.re

theorem specSubRe_sound (c : BlockCase) (h : checkSpecSubRe c = true) :
    ∀ w, (firstEndDfa c.s c.e).accepts w = true → matchesRe c.re w = true := fun w hw => by
  have := autIncl_sound _ _ (firstEndDfa_respects c.s c.e) reAut_respects _ _ _ h w hw
  simpa [reAut_accepts] using this

theorem blockRe_cstyle_partial : ∀ c ∈ blockCases_cstyle,
    ∀ w, (firstEndDfa c.s c.e).accepts w = true → matchesRe c.re w = true := fun c hc =>
  specSubRe_sound c (List.all_eq_true.mp (by decide +kernel : blockCases_cstyle.all checkSpecSubRe = true) c hc)

/-- The same for F3f (`\--`). For the three-character ends (F3b–F3e) and for escape sequences (F3g)
    neither inclusion holds: those regexes both miss comments and over-consume (`s a abc abc`). -/
theorem blockRe_aa_mixedesc_partial : ∀ c ∈ blockCases_aa_mixedesc,
    ∀ w, (firstEndDfa c.s c.e).accepts w = true → matchesRe c.re w = true := fun c hc =>
  specSubRe_sound c (List.all_eq_true.mp (by decide +kernel : blockCases_aa_mixedesc.all checkSpecSubRe = true) c hc)

/-- F3b: end `aab` (`-->`, `**)`): `s([^a]|a[^a]|aa[^b])*aab` rejects `s a aab` (`<!----->`). -/
theorem blockRe_ne_firstEnd_aab : ∀ c ∈ blockCases_aab, ¬ BlockOk c := fun c hc =>
  refuteCase_sound c (List.all_eq_true.mp (by decide +kernel : blockCases_aab.all refuteCase = true) c hc)

/-- F3c: end `aba`: `s([^a]|a[^b]|ab[^a])*aba` rejects `s a aba`. -/
theorem blockRe_ne_firstEnd_aba : ∀ c ∈ blockCases_aba, ¬ BlockOk c := fun c hc =>
  refuteCase_sound c (List.all_eq_true.mp (by decide +kernel : blockCases_aba.all refuteCase = true) c hc)

/-- F3d: end `abb`: rejects `s a abb`. -/
theorem blockRe_ne_firstEnd_abb : ∀ c ∈ blockCases_abb, ¬ BlockOk c := fun c hc =>
  refuteCase_sound c (List.all_eq_true.mp (by decide +kernel : blockCases_abb.all refuteCase = true) c hc)

/-- F3e: three different end characters `abc`: rejects `s a abc`. -/
theorem blockRe_ne_firstEnd_abc : ∀ c ∈ blockCases_abc, ¬ BlockOk c := fun c hc =>
  refuteCase_sound c (List.all_eq_true.mp (by decide +kernel : blockCases_abc.all refuteCase = true) c hc)

/-- F3f: two equal end characters written differently (`\--`): the code compares the atoms' texts,
    takes the "different characters" construction and over-consumes `{---`. -/
theorem blockRe_ne_firstEnd_aa_mixedesc : ∀ c ∈ blockCases_aa_mixedesc, ¬ BlockOk c := fun c hc =>
  refuteCase_sound c (List.all_eq_true.mp (by decide +kernel : blockCases_aa_mixedesc.all refuteCase = true) c hc)

/-- F3g: an end delimiter containing an escape such as `\n`, `\r`, `\t`: the excluded class is built from
    the letter after the backslash (`[^n]`), so a comment body containing `n` is not recognised. -/
theorem blockRe_ne_firstEnd_a_escclass : ∀ c ∈ blockCases_a_escclass, ¬ BlockOk c := fun c hc =>
  refuteCase_sound c (List.all_eq_true.mp (by decide +kernel : blockCases_a_escclass.all refuteCase = true) c hc)

theorem blockRe_ne_firstEnd_ab_escclass : ∀ c ∈ blockCases_ab_escclass, ¬ BlockOk c := fun c hc =>
  refuteCase_sound c (List.all_eq_true.mp (by decide +kernel : blockCases_ab_escclass.all refuteCase = true) c hc)

/-- F15: `{s}.*(\r\n|\r|\n)?` — `.` matches `\r`, so `s \r s` is one token although the line ended at `\r`. -/
theorem lineRe_ne_spec : ∀ c ∈ lineCases, ¬ LineOk c := fun c hc =>
  refuteLine_sound c (List.all_eq_true.mp (by decide +kernel : lineCases.all refuteLine = true) c hc)

/-- What does hold for line comments: on every text without a CR-only line end (each carriage
    return is immediately followed by a line feed) the real regex and the specification agree — the
    token then runs to the end of its line, including the line break (`\n` or `\r\n`). -/
def checkLineCrlf (c : LineCase) : Bool :=
  autEquiv (crlfGuard reAut) (crlfGuard reAut) (some (c.re, false)) (some (lineSpecRe c.s, false))

theorem lineRe_eq_spec_partial : ∀ c ∈ lineCases, ∀ w, crOk w = true →
    matchesRe c.re w = matchesRe (lineSpecRe c.s) w := by
  intro c hc w hw
  have hall : lineCases.all checkLineCrlf = true := by decide +kernel
  have h := List.all_eq_true.mp hall c hc
  have := autEquiv_sound (crlfGuard reAut) (crlfGuard reAut) (crlfGuard_respects _ reAut_respects)
    (crlfGuard_respects _ reAut_respects) _ _ _ h w
  rw [crlfGuard_accepts, crlfGuard_accepts] at this
  simp only [crOk] at hw
  simpa [hw, reAut_accepts] using this

/-! ## Non-vacuity and the concrete witnesses of DESIGN.md §8 -/

example : blockCases_a.length = 12 ∧ blockCases_ab.length = 19 ∧ blockCases_abc.length ≥ 10 := by decide

/-- F3a on the documented input: the regex accepts all of `/* *// */`, the specification does not. -/
example : ∀ c ∈ blockCases_cstyle,
    matchesRe c.re [47, 42, 32, 42, 47, 47, 32, 42, 47] = true ∧
    (firstEndDfa c.s c.e).accepts [47, 42, 32, 42, 47, 47, 32, 42, 47] = false ∧
    (firstEndDfa c.s c.e).accepts [47, 42, 32, 42, 47] = true := by decide +kernel

/-- F15 on the documented input `// a\rb`. -/
example : matchesRe (lineCommentRe [47, 47]) [47, 47, 32, 97, 13, 98] = true ∧
    matchesRe (lineSpecRe [47, 47]) [47, 47, 32, 97, 13, 98] = false ∧
    matchesRe (lineSpecRe [47, 47]) [47, 47, 32, 97, 13] = true := by decide +kernel

end ParolModel.C15
