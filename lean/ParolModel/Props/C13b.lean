import ParolModel.Proofs.BuildInfo
/-! # C13b — the regexes parol generates from the grammar as written

C13: "For every generated scanner and every input text, the token sequence equals the one obtained
by repeatedly taking the longest match among the terminals of the current scanner state, preferring
the terminal declared first on equal length, honouring positive/negative lookahead …"; C15: "line
comments run to the end of the line".

`Props/C13.lean` is about a scanner description (a list of regexes per scanner state). This module
is about where that description comes from: `buildInfo` (Model/BuildInfo.lean) is the model of
`ScannerConfig::generate_build_information`, `TermKind.expand` of `TerminalKind::expand`. The
theorems say that the description generated from the grammar AS WRITTEN is the documented one: a
raw terminal denotes exactly its text, a regex terminal is taken verbatim, a lookahead is expanded
with its OWN kind, every line-comment style carries its own "rest of the line" tail, and the
terminals of a scanner state come in the documented priority order. The model is tied to the code
byte for byte (`binfo` / `rawlit` requests of checks/c13.py) and the real scanner's token
sequences are judged against the model's mappings (`binfo-scan-check`). -/
namespace ParolModel.C13b
open ParolModel

/-! ## `TerminalKind::expand` -/

/-- A regex (`/…/`) or legacy (`"…"`) terminal is handed to the scanner generator verbatim. -/
theorem expand_regex_id (t : List Char) : TermKind.regex.expand t = t ∧ TermKind.legacy.expand t = t :=
  ⟨rfl, rfl⟩

/-- "Regex meta characters need not to be escaped by the user": the regex generated for a raw
    terminal `'…'` is a LITERAL regex — every character is itself, a backslash-escaped meta
    character, or a preserved `\u{…}` — and read as such (`readLiteralRx`) it denotes `rawMeaning t`. -/
theorem expand_raw_matches_literal (t : List Char) :
    readLiteralRx (TermKind.raw.expand t) = some (rawMeaning t) :=
  readLiteral_escapeRaw t

/-- … and `rawMeaning t` is the terminal's own text whenever it contains no backslash (the only way
    to get anything else is a `\u{hex}` escape, which stands for the code point it names). -/
theorem raw_meaning_is_text (t : List Char) (h : '\\' ∉ t) : rawMeaning t = t.map Char.toNat :=
  rawMeaning_plain t h

/-- The literal regex for a string matches exactly that string (`Re` semantics of C13): with the two
    theorems above, a raw terminal without backslash matches exactly its text. -/
theorem literal_matches_exactly (l w : List Nat) : matchesRe (Re.lit l) w = true ↔ w = l := by
  rw [matchesRe_iff]; exact lit_matches_iff l w

/-- Escaping is character-wise outside preserved escapes: a text without backslash is expanded by
    escaping each character on its own. -/
theorem expand_raw_charwise (t : List Char) (h : '\\' ∉ t) :
    TermKind.raw.expand t = t.flatMap regexEscapeChar := by
  show escapeRawGo 0 t = _
  induction t with
  | nil => rfl
  | cons c r ih =>
    have hc : c ≠ '\\' := fun e => h (by simp [e])
    have hr : '\\' ∉ r := fun e => h (List.mem_cons_of_mem _ e)
    simp [escapeRawGo, hc, ih hr]

/-! ## `generate_build_information` -/

/-- "exact order and exact strings": if the function succeeds, its mappings are — as pure data
    (regex, token number, lookahead) — the newline entry (if `auto_newline`), the whitespace entry (if
    `auto_ws`), the line-comment entry, the block-comment entry (the `|`-join of the
    `format_block_comment` results), the user terminals that list this scanner state in index order
    (`k.expand(t)`, `i + 5`, the expanded lookahead) and, unless `allow_unmatched`, the error token. -/
theorem mappings_exact (names : List String) (terms : List TermSrc) (sc : ScannerSrc) (ms : List TermMapping)
    (h : buildInfo names terms sc = .ok ms) :
    ∃ alts, (sc.blockComments.isEmpty = false → blockCommentAlts sc.blockComments = .ok alts) ∧
      ms.map TermMapping.triple = expectedTriples names.length terms sc alts :=
  buildInfo_ok h

/-- "the documented priority order": newline, whitespace, line comment, block comment, user
    terminals in index order restricted to the state, error token last unless `allow_unmatched` —
    the token numbers of the mappings are `buildOrder` (Model/Tokens.lean; strictly increasing by
    `C13.mode_order_is_documented`). -/
theorem mappings_order (names : List String) (terms : List TermSrc) (sc : ScannerSrc) (ms : List TermMapping)
    (h : buildInfo names terms sc = .ok ms) :
    ms.map (·.tok) = buildOrder sc.modeCfg (terms.map (·.states)) names.length := by
  obtain ⟨alts, _, he⟩ := buildInfo_ok h
  have := congrArg (List.map (·.2.1)) he
  rw [expectedTriples_tok, List.map_map] at this
  exact this

/-- Every ordered terminal that lists the scanner state gets a mapping whose regex is the
    expansion of ITS text with ITS kind and whose lookahead is the expansion of the lookahead's
    pattern with the LOOKAHEAD's kind (`'<' ?= /[a-z]/` is "followed by a lower-case letter", not
    "followed by the text [a-z]"). -/
theorem lookahead_uses_own_kind (names : List String) (terms : List TermSrc) (sc : ScannerSrc)
    (ms : List TermMapping) (h : buildInfo names terms sc = .ok ms)
    (i : Nat) (t : TermSrc) (ht : terms[i]? = some t) (hs : t.states.contains sc.state = true) :
    ∃ m ∈ ms, m.tok = i + firstUserTy ∧ m.rx = t.kind.expand t.text ∧
      m.la = t.la.map fun l => (l.positive, l.kind.expand l.pattern) := by
  obtain ⟨alts, _, he⟩ := buildInfo_ok h
  have hmem : ∀ (ts : List TermSrc) (k j : Nat), ts[j]? = some t →
      (t.kind.expand t.text, j + k + firstUserTy, expandLookahead t.la) ∈ userTriples sc.state k ts := by
    intro ts
    induction ts with
    | nil => intro k j hj; simp at hj
    | cons x xs ih =>
      intro k j hj
      cases j with
      | zero =>
        simp at hj; subst hj
        have hs' : sc.state ∈ x.states := by simpa using hs
        simp [userTriples, hs']
      | succ j =>
        have := ih (k + 1) j (by simpa using hj)
        have e : j + (k + 1) + firstUserTy = j + 1 + k + firstUserTy := by omega
        rw [e] at this
        simp only [userTriples]
        split
        · exact List.mem_cons_of_mem _ this
        · exact this
  have hin : (t.kind.expand t.text, i + firstUserTy, expandLookahead t.la) ∈ ms.map TermMapping.triple := by
    rw [he]
    unfold expectedTriples
    have := hmem terms 0 i ht
    simp only [Nat.add_zero] at this
    simp only [List.mem_append]
    exact Or.inl (Or.inr this)
  obtain ⟨m, hm, hmt⟩ := List.mem_map.mp hin
  simp only [TermMapping.triple, Prod.mk.injEq] at hmt
  exact ⟨m, hm, hmt.2.1, hmt.1, hmt.2.2⟩

/-- The lookahead regexes of a scanner state depend only on the lookaheads (sign, kind, pattern) and
    on which terminals list the state — not on the kind or text of the terminal they are attached to. -/
theorem lookahead_indep_of_terminal (names : List String) (terms terms' : List TermSrc) (sc : ScannerSrc)
    (ms ms' : List TermMapping)
    (hsame : terms.map (fun t => (t.la, t.states)) = terms'.map (fun t => (t.la, t.states)))
    (h : buildInfo names terms sc = .ok ms) (h' : buildInfo names terms' sc = .ok ms') :
    ms.map (·.la) = ms'.map (·.la) := by
  obtain ⟨alts, _, he⟩ := buildInfo_ok h
  obtain ⟨alts', _, he'⟩ := buildInfo_ok h'
  have hu : ∀ (ts ts' : List TermSrc) (k : Nat),
      ts.map (fun t => (t.la, t.states)) = ts'.map (fun t => (t.la, t.states)) →
      (userTriples sc.state k ts).map (·.2.2) = (userTriples sc.state k ts').map (·.2.2) := by
    intro ts
    induction ts with
    | nil =>
      intro ts' k hh
      cases ts' with
      | nil => rfl
      | cons _ _ => simp at hh
    | cons x xs ih =>
      intro ts' k hh
      cases ts' with
      | nil => simp at hh
      | cons y ys =>
        simp only [List.map_cons, List.cons.injEq, Prod.mk.injEq] at hh
        obtain ⟨⟨hla, hst⟩, hrest⟩ := hh
        simp only [userTriples, hst, hla]
        split
        · simp [ih ys (k + 1) hrest]
        · exact ih ys (k + 1) hrest
  have e1 := congrArg (List.map (·.2.2)) he
  have e2 := congrArg (List.map (·.2.2)) he'
  rw [List.map_map] at e1 e2
  have : (expectedTriples names.length terms sc alts).map (·.2.2) =
      (expectedTriples names.length terms' sc alts').map (·.2.2) := by
    unfold expectedTriples
    simp only [List.map_append, hu terms terms' 0 hsame]
    cases sc.autoNewline <;> cases sc.autoWs <;> cases sc.lineComments.isEmpty <;>
      cases sc.blockComments.isEmpty <;> cases sc.allowUnmatched <;> simp
  exact e1.trans (this.trans e2.symm)

/-- "line comments run to the end of the line", for EVERY style: the generated line-comment regex is
    the alternation of one `start.*(\r\n|\r|\n)?` per style — each alternative carries its own tail. -/
theorem line_comment_rx_alternatives (s : List Char) (rest : List (List Char)) :
    lineCommentsRx [s] = s ++ lineCommentTail ∧
    lineCommentsRx (s :: rest) = joinBar ((s ++ lineCommentTail) :: rest.map (· ++ lineCommentTail)) ∧
    ∀ s' r, lineCommentsRx (s :: s' :: r) = (s ++ lineCommentTail) ++ '|' :: lineCommentsRx (s' :: r) :=
  ⟨rfl, rfl, fun _ _ => rfl⟩

/-- Meaning of that alternation for literal start strings (`lineCommentRe`, Model/Comments.lean, is
    the `Re` of one alternative): a text is a line-comment token iff it is one of SOME style. -/
theorem line_comment_alternation_meaning (s : List Nat) (starts : List (List Nat)) (w : List Nat) :
    ReMatches (Re.alts ((s :: starts).map lineCommentRe)) w ↔ ∃ s' ∈ s :: starts, ReMatches (lineCommentRe s') w := by
  induction starts generalizing s with
  | nil => simp [Re.alts]
  | cons s2 rest ih =>
    simp only [List.map_cons, Re.alts] at ih ⊢
    rw [ReMatches.alt_iff, ih s2]
    simp

/-- The function cannot hit its index panics when `terminal_names` has the length
    `generate_terminal_names` gives it (5 built-in names, one per terminal, the error token): the only
    failure left is a block comment end `format_block_comment` rejects. -/
theorem build_info_no_panic (names : List String) (terms : List TermSrc) (sc : ScannerSrc)
    (hn : firstUserTy + terms.length < names.length) : buildInfo names terms sc ≠ .error .panic :=
  buildInfo_no_panic hn

/-! ## Non-vacuity -/

/-- `'a+b'` → `a\+b` (repository test `raw_term_expansion_keeps_escaping_meta_characters`). -/
example : TermKind.raw.expand ['a', '+', 'b'] = ['a', '\\', '+', 'b'] := by decide

/-- `'\u{0027}'` is preserved (repository test), `'\u{zz}'` is not. -/
example : TermKind.raw.expand ['\\', 'u', '{', '2', '7', '}'] = ['\\', 'u', '{', '2', '7', '}'] := by decide
example : TermKind.raw.expand ['\\', 'u', '{', 'z', '}'] = ['\\', '\\', 'u', '\\', '{', 'z', '\\', '}'] := by decide
example : rawMeaning ['\\', 'u', '{', '2', '7', '}', 'x'] = [39, 120] := by decide

/-- The lookahead of `'<' ?= /[a-z]/` stays `[a-z]`; with the terminal's kind it would be
    `\[a\-z\]`. -/
example : expandLookahead (some ⟨true, .regex, ['[', 'a', '-', 'z', ']']⟩) = some (true, ['[', 'a', '-', 'z', ']']) := by
  decide
example : TermKind.raw.expand ['[', 'a', '-', 'z', ']'] = ['\\', '[', 'a', '\\', '-', 'z', '\\', ']'] := by decide

/-- Two line-comment styles: `//.*(\r\n|\r|\n)?|\#.*(\r\n|\r|\n)?`. -/
example : lineCommentsRx [['/', '/'], ['\\', '#']] =
    ['/', '/'] ++ lineCommentTail ++ ['|'] ++ ['\\', '#'] ++ lineCommentTail := by decide

/-- A whole scanner state: token numbers 1, 2, 3, 5 (`'<' ?= /[a-z]/`), 7 (error token; terminal 6
    belongs to another state). -/
example : (buildInfo ["", "", "", "", "", "", "", ""]
      [⟨['<'], .raw, some ⟨true, .regex, ['[', 'a', '-', 'z', ']']⟩, [0]⟩, ⟨['b'], .regex, none, [1]⟩]
      ⟨0, true, true, [['/', '/'], ['\\', '#']], [], false⟩).toOption.map (·.map fun m => (m.tok, m.la)) =
    some [(1, none), (2, none), (3, none), (5, some (true, ['[', 'a', '-', 'z', ']'])), (7, none)] := by decide

/-- A short `terminal_names` slice is an index panic. -/
example : (buildInfo [] [] ⟨0, false, false, [], [], false⟩).toOption.isNone = true := by decide

end ParolModel.C13b
