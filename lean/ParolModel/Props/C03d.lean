import ParolModel.Proofs.FrontToBackLR
import ParolModel.Props.C03b
import ParolModel.Props.C03c
import ParolModel.Props.C09
import ParolModel.Props.C12
/-! # C03 (fourth part) — front to back: the grammar AS WRITTEN and the LALR(1) parser, with the table as a validated input

Property text (C03): *For every grammar that parol accepts as LALR(1) without reporting any resolved
conflict, … the generated LR parser succeeds on an input exactly when it is a sentence of the
grammar.*

`Props/C03.lean`, `C03b.lean`, `C03c.lean` prove this relative to the plain, already transformed and
augmented BNF grammar in parol's numbering (`gprods`), for every table that passes the verified
validators `lrTableValid` (soundness) and `lrCompleteCertB` (completeness). C09 (canonicalisation,
LALR(1) flavour), C11 (grammar checks) and C12 (augmentation) prove the transformations in front of
it separately. This module closes the chain: ONE executable function `parolLRGrammar E st fuel`
(`Model/FrontToBackLR.lean`) composes the existing models in the order parol composes the real
functions for `%grammar_type 'LALR(1)'` (`obtain_grammar_config` → `check_and_transform_grammar`
(non-productive, unreachable; NO left-recursion check, NO left factoring) → `augment_grammar` →
`GrammarLalr::from(&Cfg)`, i.e. parol's numbering `numberG` of C01d) and yields the numbered,
augmented grammar `G` that is handed to lalry. The table generator (external crate lalry) is NOT
modelled: the table `T` is an INPUT of the theorem, constrained only by the two validators evaluated
against `G.prods` — which is what the check does with every real table (oracle `parol-lr-check`).

`parol_lr_end_to_end`: for every EBNF grammar `E` and EVERY table `T` with `T.start = G.start` that
passes `lrTableValid T G.prods` and `lrCompleteCertB T G.prods`, the model of
`LRParser::parse_into` running on `T` succeeds iff the significant token types are the image, under
the parser's terminal numbering, of a sentence of `E` **as the user wrote it** — groups, optionals
and repetitions included (`LangE`, `YieldE` of Model/Ebnf.lean).

Hypotheses:

* `parolLRGrammar E st fuel = .ok G` — the model pipeline succeeded: the front end did not refuse the
  grammar (in particular the start symbol has a production, hence `st ∈ variableNames E`, the
  hypothesis of C09 — finding F23), canonicalisation finished, the two grammar checks passed.
* `T.start = G.start`, `lrTableValid T G.prods = true`, `lrCompleteCertB T G.prods = true` — decidable,
  evaluated per real table; soundness alone (`parol_lr_sound`) needs only the first two and holds for
  tables with resolved conflicts as well (C04), completeness alone (`parol_lr_complete`) only the
  certificate.
* `o.maxDepth = none` (completeness direction; with a depth limit the parser refuses deep sentences
  by design) and "no significant token carries the end-of-input type 0" (soundness direction; the
  scanner never produces one).

No hypothesis on names (helper-name freshness and the fresh start symbol are C09's and
`generateName_not_mem`'s business and are used through their theorems), on the terminal numbering
(`lang_numberG` needs no injectivity; `parol_lr_numbering_injective` proves it anyway), on the fuel
of the pipeline, on LALR(1)-ness of the grammar (a table passing both validators exists only for
conflict-free constructions) or on how the table was built.

Tie D `c03d`: the real transformed grammar, numbered by the two index functions
`GrammarLalr::from(&Cfg)` uses, is byte-identical with the model's `G` on random EBNF grammars; the
oracle evaluates the validators on the real lalry table against the MODEL's `G`. -/
namespace ParolModel
open KS

/-- `u` is a sentence of the EBNF grammar `E` (start symbol `st`) as written, in the terminal
    numbering of the LALR(1) parser generated for it. -/
def ParolLRSentence (E : List EProd) (st : Name) (fuel : Nat) (u : List Nat) : Prop :=
  ∃ w, LangE E st w ∧ u = w.map (parolLRTermNum E st fuel)

/-- What a successful run of `parolLRGrammar` went through (the stages of the real pipeline). -/
theorem parol_lr_stages {E : List EProd} {st : Name} {fuel : Nat} {G : Grammar}
    (h : parolLRGrammar E st fuel = .ok G) :
    ∃ B0 B st', frontEndRejects E = false ∧ st ∈ variableNames E ∧
      canon .lr fuel E = .ok B0 ∧
      checkGrammar (numberG B0 st) false [] = .ok .passed ∧
      augmentN B0 st = some (B, st') ∧
      parolLRNamed E st fuel = .ok (B, st') ∧ G = numberG B st' := by
  obtain ⟨B, st', hn, rfl⟩ := parolLRGrammar_inv h
  obtain ⟨B0, h0, h1⟩ := parolLRNamed_inv hn
  obtain ⟨hc, hst, hrej⟩ := fbFrontLR_inv h0
  obtain ⟨hchk, ha⟩ := fbTransformLR_inv h1
  exact ⟨B0, B, st', hrej, hst, hc, hchk, ha, hn, rfl⟩

/-- `augment_grammar` on names (`augmentN`) has the shape C12 proves for the numbered model
    `augmentGrammar`: under every numbering `ν` of the names that is injective on the name table of
    the result, the result is either the grammar itself (start symbol already isolated) or
    `augment G s'` (Spec/Cfg) with `s'` not a non-terminal of `G`. -/
theorem augmentN_matches_c12 {B B' : List RuleN} {st st' : Name} (h : augmentN B st = some (B', st'))
    (ν : Name → Nat) (hinj : InjOn ν (ntNames B' st')) :
    (toGrammar ν st' B' = toGrammar ν st B ∧ isolatedB (toGrammar ν st B) = true) ∨
    (toGrammar ν st' B' = augment (toGrammar ν st B) (ν st') ∧ ν st' ∉ nts (toGrammar ν st B)) := by
  have hV : ∀ x ∈ namesN B', x ∈ ntNames B' st' := fun _ hx => mem_ntNames.2 (.inr hx)
  have hstV : st' ∈ ntNames B' st' := mem_ntNames.2 (.inl rfl)
  rcases augmentN_shape h with ⟨rfl, rfl, h1, h2⟩ | ⟨_, hn, rfl⟩
  · exact .inl ⟨rfl, isolatedB_toGrammar_kept hinj hV hstV h1 h2⟩
  · refine .inr ⟨rfl, ?_⟩
    rw [← usesNT_iff_mem_nts]
    apply fresh_of_not_mem_ntNames hinj _ hstV hn
    intro x hx
    apply hV
    rcases mem_ntNames.1 hx with rfl | hx
    · exact namesN_cons_start.2 (.inr (.inl rfl))
    · exact namesN_cons_start.2 (.inr (.inr hx))

/-- **The grammar handed to lalry generates the language of the grammar as written** (C09 ∘ C12 ∘
    numbering): the canonicalised, augmented plain grammar in parol's numbering — the grammar against
    which the real table is validated — generates exactly the images of `E`'s sentences. -/
theorem parol_lr_grammar_lang {E : List EProd} {st : Name} {fuel : Nat} {G : Grammar}
    (h : parolLRGrammar E st fuel = .ok G) (u : List Nat) :
    Lang G u ↔ ParolLRSentence E st fuel u := by
  obtain ⟨B0, B, st', _, hst, hc, _, ha, hn, rfl⟩ := parol_lr_stages h
  have hτ : parolLRTermNum E st fuel = termNum (termOrder B) := by
    funext a
    simp [parolLRTermNum, hn]
  have hst0 : st ∈ namesN B0 := variableNames_toEProd.1 (canon_keeps_names hc st hst)
  have hinj := indexIn_injOn (ntNames B st')
  have hV : ∀ x ∈ namesN B, x ∈ ntNames B st' := fun _ hx => mem_ntNames.2 (.inr hx)
  have hstV : st' ∈ ntNames B st' := mem_ntNames.2 (.inl rfl)
  have hsub : ∀ x ∈ namesN B0, x ∈ namesN B := by
    intro x hx
    rcases augmentN_shape ha with ⟨rfl, _, _⟩ | ⟨_, _, rfl⟩
    · exact hx
    · exact namesN_cons_start.2 (.inr (.inr hx))
  have hstV0 : st ∈ ntNames B st' := hV st (hsub st hst0)
  have key : ∀ w, Lang (toGrammar (indexIn (ntNames B st')) st' B) w ↔ LangE E st w := fun w =>
    (augmentN_lang ha _ _ hinj hV hstV hstV0 w).trans
      (canon_preserves_lang hc hst _ _ hinj (fun x hx => hV x (hsub x hx)) hstV0 w)
  rw [lang_numberG, ParolLRSentence, hτ]
  constructor
  · rintro ⟨w, rfl, hw⟩; exact ⟨w, (key w).1 hw, rfl⟩
  · rintro ⟨w, hw, rfl⟩; exact ⟨w, rfl, (key w).2 hw⟩

/-- **… and its start symbol is isolated** (exactly one production, on no right-hand side): the
    clause of C12 for the grammar in parol's numbering, as the completeness validator requires it. -/
theorem parol_lr_start_isolated {E : List EProd} {st : Name} {fuel : Nat} {G : Grammar}
    (h : parolLRGrammar E st fuel = .ok G) :
    (G.prods.filter (fun p => p.lhs = G.start)).length = 1 ∧ ∀ p ∈ G.prods, Sym.n G.start ∉ p.rhs := by
  obtain ⟨_, _, _, _, _, _, _, ha, _, rfl⟩ := parol_lr_stages h
  exact isolatedB_iff.1 (augmentN_isolated ha)

/-- … and it satisfies parol's numbering conventions: no terminal is numbered 0 (the end-of-input
    type), the non-terminal numbers are `0..n-1`. -/
theorem parol_lr_numbering_conventions {E : List EProd} {st : Name} {fuel : Nat} {G : Grammar}
    (h : parolLRGrammar E st fuel = .ok G) : noEoiB G = true ∧ ntsDenseB G = true := by
  obtain ⟨_, B, st', _, _, _, _, _, _, rfl⟩ := parol_lr_stages h
  exact ⟨noEoiB_numberG B st', ntsDenseB_numberG B st'⟩

theorem gOfLR_eq {T : LRTables} {G : Grammar} (hs : T.start = G.start) : gOfLR T G.prods = G := by
  cases G
  simp only [gOfLR] at hs ⊢
  rw [hs]

/-- **C03, front to back** — *"the generated LR parser succeeds on an input exactly when it is a
    sentence of the grammar"*, for the grammar as the user wrote it and EVERY validated table:
    whenever the model of parol's LALR(1) path (front-end checks, canonicalisation, grammar checks,
    augmentation, numbering) produces the grammar `G` for the EBNF grammar `E`, then for every table
    `T` for `G`'s start symbol that passes the soundness validator `lrTableValid` and the
    completeness validator `lrCompleteCertB` against `G.prods`, every token sequence (whatever skip
    tokens and comments are interleaved; no significant token of the end-of-input type 0) and all
    parser options without a depth limit, the model of `LRParser::parse_into` running on `T`
    succeeds iff the significant token types are the image, under the parser's terminal numbering,
    of a sentence of `E` as written. -/
theorem parol_lr_end_to_end (E : List EProd) (st : Name) (fuel : Nat) (G : Grammar)
    (h : parolLRGrammar E st fuel = .ok G)
    (T : LRTables) (hs : T.start = G.start)
    (hv : lrTableValid T G.prods = true) (hc : lrCompleteCertB T G.prods = true)
    (toks : List MTok) (o : Opts) (ho : o.maxDepth = none)
    (hne : ∀ t ∈ toks, t.skip = false → t.ty ≠ 0) :
    (∃ fuel', (lrRun T o fuel' toks).res = .ok) ↔ ParolLRSentence E st fuel (sigTypes toks) := by
  have := lr_accepts_iff T G.prods hv hc o toks ho hne
  rw [gOfLR_eq hs] at this
  exact this.trans (parol_lr_grammar_lang h _)

/-- Soundness needs neither the completeness certificate nor an option hypothesis: with ANY table that
    passes `lrTableValid` — tables with resolved conflicts (C04) included — and any depth limit or
    trimming, the parser accepts only sentences of the grammar as written. -/
theorem parol_lr_sound (E : List EProd) (st : Name) (fuel : Nat) (G : Grammar)
    (h : parolLRGrammar E st fuel = .ok G)
    (T : LRTables) (hs : T.start = G.start) (hv : lrTableValid T G.prods = true)
    (toks : List MTok) (o : Opts) (hne : ∀ t ∈ toks, t.skip = false → t.ty ≠ 0)
    (fuel' : Nat) (hok : (lrRun T o fuel' toks).res = .ok) :
    ParolLRSentence E st fuel (sigTypes toks) := by
  have := lr_sound T G.prods o fuel' toks hv hne hok
  rw [gOfLR_eq hs] at this
  exact (parol_lr_grammar_lang h _).1 this

/-- Completeness needs only the certificate: every token sequence that spells a sentence of the
    grammar as written is accepted. -/
theorem parol_lr_complete (E : List EProd) (st : Name) (fuel : Nat) (G : Grammar)
    (h : parolLRGrammar E st fuel = .ok G)
    (T : LRTables) (hs : T.start = G.start) (hc : lrCompleteCertB T G.prods = true)
    (toks : List MTok) (o : Opts) (ho : o.maxDepth = none)
    (hw : ParolLRSentence E st fuel (sigTypes toks)) :
    ∃ fuel', (lrRun T o fuel' toks).res = .ok := by
  apply lr_complete T G.prods hc o toks ho
  rw [gOfLR_eq hs]
  exact (parol_lr_grammar_lang h _).2 hw

/-- **Decision procedure with explicit fuel**: if the table also passes the termination checker
    `lrNoReduceLoopB` (C19e), the ONE run with `lrSummFuel T toks` iterations (linear in the number
    of tokens) decides whether the input is a sentence of the grammar as written. -/
theorem parol_lr_decides (E : List EProd) (st : Name) (fuel : Nat) (G : Grammar)
    (h : parolLRGrammar E st fuel = .ok G)
    (T : LRTables) (hs : T.start = G.start)
    (hv : lrTableValid T G.prods = true) (hc : lrCompleteCertB T G.prods = true)
    (ht : lrNoReduceLoopB T = true)
    (toks : List MTok) (o : Opts) (ho : o.maxDepth = none)
    (hne : ∀ t ∈ toks, t.skip = false → t.ty ≠ 0) :
    (lrRun T o (lrSummFuel T toks) toks).res = .ok ↔ ParolLRSentence E st fuel (sigTypes toks) := by
  have := lr_accepts_iff_bound T G.prods hv hc ht o toks ho hne
  rw [gOfLR_eq hs] at this
  exact this.trans (parol_lr_grammar_lang h _)

/-- … and under the same checkers a rejected input is rejected for good: the run with the explicit
    fuel does not end in `fuel` (C19e), so "not ok" is a definite verdict, never a timeout. -/
theorem parol_lr_verdict_definite (T : LRTables) (ht : lrNoReduceLoopB T = true)
    (toks : List MTok) (o : Opts) :
    (lrRun T o (lrSummFuel T toks) toks).res ≠ .fuel :=
  lr_terminates_bound T ht o toks _ (Nat.le_refl _)

/-- The parser's terminal numbering is injective on the terminals that occur in sentences: two
    sentences of `E` with the same token-type sequence are the same word. -/
theorem parol_lr_numbering_injective {E : List EProd} {st : Name} {fuel : Nat} {G : Grammar}
    (h : parolLRGrammar E st fuel = .ok G) {w w' : List Nat} (hw' : LangE E st w')
    (e : w.map (parolLRTermNum E st fuel) = w'.map (parolLRTermNum E st fuel)) : w = w' := by
  obtain ⟨_, B, st', _, _, _, _, _, hn, rfl⟩ := parol_lr_stages h
  have hτ : parolLRTermNum E st fuel = termNum (termOrder B) := by
    funext a; simp [parolLRTermNum, hn]
  have hB : Lang (numberG B st') (w'.map (termNum (termOrder B))) :=
    (parol_lr_grammar_lang h _).2 ⟨w', hw', by rw [hτ]⟩
  rw [hτ] at e
  have hB' := (lang_numberG_map B st' w').1 hB
  apply map_termNum_inj (tt := termOrder B) _ e
  intro b hb
  rcases yield_terms hB' b hb with h1 | h1
  · simp at h1
  · exact toGrammar_terms h1

/-- The same, sentence by sentence: a token sequence that spells the word `w` (over `E`'s own
    terminal numbers) is accepted iff `w` is a sentence of `E`. No side condition on `w`: terminals
    foreign to the grammar are mapped to a number no production carries. -/
theorem parol_lr_accepts_word (E : List EProd) (st : Name) (fuel : Nat) (G : Grammar)
    (h : parolLRGrammar E st fuel = .ok G)
    (T : LRTables) (hs : T.start = G.start)
    (hv : lrTableValid T G.prods = true) (hc : lrCompleteCertB T G.prods = true)
    (w : List Nat) (toks : List MTok) (hw : sigTypes toks = w.map (parolLRTermNum E st fuel))
    (hskip : ∀ t ∈ toks, t.skip = false → t.ty ≠ 0)
    (o : Opts) (ho : o.maxDepth = none) :
    (∃ fuel', (lrRun T o fuel' toks).res = .ok) ↔ LangE E st w := by
  rw [parol_lr_end_to_end E st fuel G h T hs hv hc toks o ho hskip, hw]
  constructor
  · rintro ⟨w', hw', e⟩
    rw [parol_lr_numbering_injective h hw' e]
    exact hw'
  · intro hw'
    exact ⟨w, hw', rfl⟩

/-- **Derivation-tree clause, front to back** — *"on success every reduction is reported once, the
    reductions form a rightmost derivation in reverse, and the final tree is rooted at the start
    symbol and covers every token"*: a successful run on a table that passes `lrTableValid` against
    the model's grammar has a derivation tree `d` of that grammar (root = its start symbol, every
    inner node one production with its right-hand side as counting children) whose frontier is the
    input, whose post-order action list IS the recorded action trace, whose leaves (after the leading
    skipped tokens) are the delivered tokens, whose rendering is the recorded tree, the reductions
    read backwards are a rightmost derivation — and the frontier spells a sentence of the grammar
    as written. -/
theorem parol_lr_tree (E : List EProd) (st : Name) (fuel : Nat) (G : Grammar)
    (h : parolLRGrammar E st fuel = .ok G)
    (T : LRTables) (hs : T.start = G.start) (hv : lrTableValid T G.prods = true)
    (toks : List MTok) (o : Opts) (hne : ∀ t ∈ toks, t.skip = false → t.ty ≠ 0)
    (fuel' : Nat) (hok : (lrRun T o fuel' toks).res = .ok) :
    ∃ (d : DTree) (pre : List MTok),
      (∃ p kids, d = .node p G.start kids) ∧ d.wf G.prods = true ∧
      d.frontier = sigTypes toks ∧ ParolLRSentence E st fuel d.frontier ∧
      (lrRun T o fuel' toks).actions = d.postActs ∧
      RmDeriv G.prods ((lrRun T o fuel' toks).actions.map (·.1)).reverse [.n G.start]
        (d.frontier.map Sym.t) ∧
      (∀ t ∈ pre, t.skip = true) ∧ pre ++ d.leaves = toks.filter (keepTok o.trim) ∧
      (o.trim = false →
        (lrRun T o fuel' toks).tree = .open_ none :: pre.map tokEvOf ++ d.events ++ [.close]) := by
  obtain ⟨d, pre, hroot, hwf, hfr, hacts, hpre, hleaves, htree⟩ :=
    lr_tree_actions T G.prods hv o fuel' toks hne hok
  have hrm := lr_reductions_rev_rightmost T G.prods hv o fuel' toks hne hok
  rw [hs] at hroot hrm
  refine ⟨d, pre, hroot, hwf, hfr, ?_, hacts, ?_, hpre, hleaves, htree⟩
  · rw [hfr]
    exact parol_lr_sound E st fuel G h T hs hv toks o hne fuel' hok
  · rw [hfr]
    exact hrm

/-! ## non-vacuity

`%start S %grammar_type 'LALR(1)' %% S: {"a"} "b" | "c";` with the terminals written 5, 6, 7. -/

def eRepAlt : List EProd :=
  [⟨"S".toList, [⟨[.rep [[.t 5]], .t 6], .none⟩, ⟨[.t 7], .none⟩]⟩]

/-- the canonicalised, augmented productions with names: the repetition helper `SList` is
    LEFT-recursive (LALR(1) flavour of C09), the start symbol has two productions, so
    `augment_grammar` puts `S0: S` in front and makes `S0` the start symbol -/
example : parolLRNamed eRepAlt "S".toList 30 = .ok
    ([⟨"S0".toList, [.n "S".toList .none], .none⟩,
      ⟨"S".toList, [.n "SList".toList .repAnchor, .t 6], .none⟩,
      ⟨"SList".toList, [.n "SList".toList .none, .t 5], .addToColl⟩,
      ⟨"SList".toList, [], .collStart⟩,
      ⟨"S".toList, [.t 7], .none⟩], "S0".toList) := by decide

/-- the grammar handed to lalry: `S`=0, `S0`=1, `SList`=2 (alphabetical); "b"=5, "a"=6, "c"=7 (order
    of first occurrence in the transformed grammar) -/
def gRepAlt : Grammar :=
  ⟨1, [⟨1, [.n 0]⟩, ⟨0, [.n 2, .t 5]⟩, ⟨2, [.n 2, .t 6]⟩, ⟨2, []⟩, ⟨0, [.t 7]⟩]⟩

theorem eRepAlt_grammar : parolLRGrammar eRepAlt "S".toList 30 = .ok gRepAlt := by
  have h : (parolLRGrammar eRepAlt "S".toList 30).map (fun G => (G.start, G.prods)) =
      .ok (gRepAlt.start, gRepAlt.prods) := by decide
  cases hG : parolLRGrammar eRepAlt "S".toList 30 with
  | error e => rw [hG] at h; cases h
  | ok G =>
    rw [hG] at h
    cases G
    simp only [Except.map, Except.ok.injEq, Prod.mk.injEq] at h
    obtain ⟨rfl, rfl⟩ := h
    rfl

/-- the numbering: "a" ↦ 6, "b" ↦ 5, "c" ↦ 7 -/
example : [5, 6, 7].map (parolLRTermNum eRepAlt "S".toList 30) = [6, 5, 7] := by decide

/-- the LALR(1) table lalry builds for it: the reply of the harness (`pv c03d run`) to the request
    `parol-lr-table S S:{5},6|7`, rows in lalry's state numbering -/
def tRepAlt : LRTables :=
  ⟨1, [⟨1, 1, false⟩, ⟨0, 2, false⟩, ⟨2, 2, true⟩, ⟨2, 0, false⟩, ⟨0, 1, false⟩],
   [⟨[(5, .reduce 2 3), (6, .reduce 2 3), (7, .shift 1)], [(0, 2), (2, 3)]⟩,
    ⟨[(0, .reduce 0 4)], []⟩,
    ⟨[(0, .accept)], []⟩,
    ⟨[(5, .shift 4), (6, .shift 5)], []⟩,
    ⟨[(0, .reduce 0 1)], []⟩,
    ⟨[(5, .reduce 2 2), (6, .reduce 2 2)], []⟩]⟩

/-- it passes the three validators against the MODEL's grammar -/
theorem tRepAlt_valid : lrTableValid tRepAlt gRepAlt.prods = true := by decide
theorem tRepAlt_cert : lrCompleteCertB tRepAlt gRepAlt.prods = true := by decide
theorem tRepAlt_noloop : lrNoReduceLoopB tRepAlt = true := by decide

/-- the theorem applies: the parser accepts exactly `a* b | c` -/
example (l : List Nat) (o : Opts) (ho : o.maxDepth = none)
    (hne : ∀ t ∈ exLRToks l, t.skip = false → t.ty ≠ 0) :
    (∃ fuel, (lrRun tRepAlt o fuel (exLRToks l)).res = .ok) ↔
      ParolLRSentence eRepAlt "S".toList 30 (sigTypes (exLRToks l)) :=
  parol_lr_end_to_end eRepAlt "S".toList 30 gRepAlt eRepAlt_grammar tRepAlt rfl tRepAlt_valid
    tRepAlt_cert _ o ho hne

/-- … and the run with the explicit fuel decides it -/
example (l : List Nat) (o : Opts) (ho : o.maxDepth = none)
    (hne : ∀ t ∈ exLRToks l, t.skip = false → t.ty ≠ 0) :
    (lrRun tRepAlt o (lrSummFuel tRepAlt (exLRToks l)) (exLRToks l)).res = .ok ↔
      ParolLRSentence eRepAlt "S".toList 30 (sigTypes (exLRToks l)) :=
  parol_lr_decides eRepAlt "S".toList 30 gRepAlt eRepAlt_grammar tRepAlt rfl tRepAlt_valid
    tRepAlt_cert tRepAlt_noloop _ o ho hne

/-- `a a b` (token types 6 6 5), `b` and `c` are accepted, `a`, `a c` and `b b` are not -/
example : (lrRun tRepAlt ⟨false, false, none⟩ 100 (exLRToks [6, 6, 5])).res = .ok ∧
    (lrRun tRepAlt ⟨false, false, none⟩ 100 (exLRToks [5])).res = .ok ∧
    (lrRun tRepAlt ⟨false, false, none⟩ 100 (exLRToks [7])).res = .ok ∧
    (lrRun tRepAlt ⟨false, false, none⟩ 100 (exLRToks [6])).res ≠ .ok ∧
    (lrRun tRepAlt ⟨false, false, none⟩ 100 (exLRToks [6, 7])).res ≠ .ok ∧
    (lrRun tRepAlt ⟨false, false, none⟩ 100 (exLRToks [5, 5])).res ≠ .ok := by decide

/-- … and `a a b` is a sentence of the grammar as written -/
example : LangE eRepAlt "S".toList [5, 5, 6] := by
  refine (YieldE.nonterm (G := eRepAlt) ⟨"S".toList, _⟩ ⟨_, .none⟩ .none (fs := []) (v := [])
    (u := [5, 5, 6]) (List.mem_singleton.2 rfl) List.mem_cons_self ?_ .nil)
  refine YieldE.repStep (G := eRepAlt) [[.t 5]] [.t 5] (u := [5]) (v := [5, 6])
    (List.mem_singleton.2 rfl) (.term 5 .nil) ?_
  refine YieldE.repStep (G := eRepAlt) [[.t 5]] [.t 5] (u := [5]) (v := [6])
    (List.mem_singleton.2 rfl) (.term 5 .nil) ?_
  exact YieldE.repStop _ (.term 6 .nil)

/-- a valid table that is NOT complete is rejected by the certificate and the theorem does not
    apply: the same table without the reduction of `SList: SList "a"` on "a" (as a conflict
    resolution might delete it) still passes `lrTableValid` — `parol_lr_sound` holds for it — but
    refuses the sentence `a a b` -/
def tRepAltCut : LRTables :=
  { tRepAlt with rows := tRepAlt.rows.set 5 ⟨[(5, .reduce 2 2)], []⟩ }

example : lrTableValid tRepAltCut gRepAlt.prods = true ∧ lrCompleteCertB tRepAltCut gRepAlt.prods = false ∧
    (lrRun tRepAltCut ⟨false, false, none⟩ 100 (exLRToks [6, 6, 5])).res ≠ .ok := by decide

/-- the stages report their errors: an unreachable non-terminal, a non-productive one, an undefined
    start symbol; left recursion is NOT an error on this path -/
example : (parolLRGrammar [⟨"S".toList, [⟨[.t 5], .none⟩]⟩, ⟨"T".toList, [⟨[.t 6], .none⟩]⟩] "S".toList 30).map
    (fun G => (G.start, G.prods)) = .error (.check (.unreachable [1])) := by decide
example : (parolLRGrammar [⟨"S".toList, [⟨[.t 5, .n "T".toList .none], .none⟩]⟩,
      ⟨"T".toList, [⟨[.n "T".toList .none, .t 6], .none⟩]⟩] "S".toList 30).map
    (fun G => (G.start, G.prods)) = .error (.check (.nonProductive [0, 1])) := by decide
example : (parolLRGrammar [⟨"T".toList, [⟨[.t 5], .none⟩]⟩] "S".toList 30).map
    (fun G => (G.start, G.prods)) = .error .rejected := by decide
example : (parolLRGrammar [⟨"S".toList, [⟨[.n "S".toList .none, .t 5], .none⟩, ⟨[.t 6], .none⟩]⟩] "S".toList 30).map
    (fun G => (G.start, G.prods)) = .ok (1, [⟨1, [.n 0]⟩, ⟨0, [.n 0, .t 5]⟩, ⟨0, [.t 6]⟩]) := by decide

/-- the numeric-suffix rule of `generate_name`: the start symbol `N00` is augmented by `N0` (which
    sorts in front of it), `S9` with `S10` taken by `S11` -/
example : (parolLRNamed [⟨"N00".toList, [⟨[.t 5], .none⟩, ⟨[.t 6], .none⟩]⟩] "N00".toList 30).map (·.2)
    = .ok "N0".toList := by decide
example : (parolLRNamed [⟨"S9".toList, [⟨[.t 5], .none⟩, ⟨[.n "S10".toList .none], .none⟩]⟩,
      ⟨"S10".toList, [⟨[.t 6], .none⟩]⟩] "S9".toList 30).map (·.2) = .ok "S11".toList := by decide

end ParolModel
