import ParolModel.Proofs.LRCertCheck
import ParolModel.Props.C03
import ParolModel.Props.C19e
/-! # C03 (completeness half) — LALR(1) parsers accept exactly the language

Property text: *… the generated LR parser succeeds on an input exactly when it is a sentence of the
grammar.*

`Props/C03.lean` proves the "only if" direction (`lr_sound`) for every table that passes the local
checker `lrTableValid`, and leaves the "if" direction as the unproved statement `LRComplete`. The
table is built by the external crate `lalry`, which is not modelled; the only sound route is
TRANSLATION VALIDATION (Jourdan, Pottier & Leroy, *Validating LR(1) Parsers*, ESOP 2012): the
executable validator `lrCompleteCertB T gprods` (Model/LRCert.lean) computes LR(1) item sets for the
states of the given table, verifies them against the table, and

* `lr_complete` — a table that passes the validator accepts EVERY sentence of the grammar
  `⟨T.start, gprods⟩` (for every option record without depth limit and every token sequence,
  skipped tokens included); `lrComplete_of_cert` closes `LRComplete`;
* `lr_accepts_iff` — with both checkers, success ⇔ membership;
* `lr_accepts_iff_bound` — with the reduce-loop checker of C19 in addition, the run with the explicit
  amount of fuel `lrSummFuel T toks` DECIDES membership.

The validator is evaluated on every table parol produces in the check (handler `lr-cert-ok`): all
tables built without resolved conflicts pass; tables with resolved conflicts (actions deleted) are
rejected. No hypothesis about lalry remains. -/
namespace ParolModel

/-- **C03 completeness**: with a table that passes the completeness validator, every sentence of the
    grammar `gprods` with start symbol `T.start` is accepted (given enough fuel; no depth limit). -/
theorem lr_complete (T : LRTables) (gprods : List Rule) (hc : lrCompleteCertB T gprods = true)
    (o : Opts) (toks : List MTok) (hd : o.maxDepth = none)
    (hl : Lang (gOfLR T gprods) (sigTypes toks)) : ∃ fuel, (lrRun T o fuel toks).res = .ok :=
  lc_run_complete (lcCert_of_check hc) o toks hd hl

/-- The statement left open in Props/C03.lean holds for every validated table. -/
theorem lrComplete_of_cert (T : LRTables) (gprods : List Rule)
    (hc : lrCompleteCertB T gprods = true) : LRComplete T gprods :=
  fun o toks hd _ hl => lr_complete T gprods hc o toks hd hl

/-- **C03, "exactly when"**: for a table that passes both checkers, the parser (without depth limit)
    succeeds on an input iff its significant token types form a sentence of the grammar. -/
theorem lr_accepts_iff (T : LRTables) (gprods : List Rule) (hv : lrTableValid T gprods = true)
    (hc : lrCompleteCertB T gprods = true) (o : Opts) (toks : List MTok) (hd : o.maxDepth = none)
    (hne : ∀ t ∈ toks, t.skip = false → t.ty ≠ 0) :
    (∃ fuel, (lrRun T o fuel toks).res = .ok) ↔ Lang (gOfLR T gprods) (sigTypes toks) :=
  ⟨fun ⟨fuel, h⟩ => lr_sound T gprods o fuel toks hv hne h, lr_complete T gprods hc o toks hd⟩

/-- With the reduce-loop checker of C19 in addition, the amount of fuel is explicit: the run with
    `lrSummFuel T toks` fuel (linear in the number of tokens) decides membership. -/
theorem lr_accepts_iff_bound (T : LRTables) (gprods : List Rule) (hv : lrTableValid T gprods = true)
    (hc : lrCompleteCertB T gprods = true) (ht : lrNoReduceLoopB T = true)
    (o : Opts) (toks : List MTok) (hd : o.maxDepth = none)
    (hne : ∀ t ∈ toks, t.skip = false → t.ty ≠ 0) :
    (lrRun T o (lrSummFuel T toks) toks).res = .ok ↔ Lang (gOfLR T gprods) (sigTypes toks) := by
  constructor
  · exact fun h => lr_sound T gprods o _ toks hv hne h
  · intro hl
    obtain ⟨fuel, hf⟩ := lr_complete T gprods hc o toks hd hl
    have h1 := lr_terminates_bound T ht o toks _ (Nat.le_refl _)
    rw [lrRun_res_stable T o toks h1 (by rw [hf]; exact Res.noConfusion)]
    exact hf

-- ---------------------------------------------------------------------------------------------
-- non-vacuity

/-- The example table of Props/C03.lean (`S: '(' L ')'; L: S | ;`, augmented) has a certificate. -/
example : lrCompleteCertB exLR exLRg = true := by decide

/-- The same table with ONE reduce action deleted (state 5, the state after `'(' L ')'`, no longer
    reduces `S: '(' L ')'` on `')'`): still sound — it passes `lrTableValid` —, but … -/
def exLRbad : LRTables :=
  ⟨2, [⟨0, 1, false⟩, ⟨0, 0, false⟩, ⟨1, 3, false⟩, ⟨2, 1, false⟩],
   [⟨[(5, .shift 1)], [(1, 2)]⟩,
    ⟨[(5, .shift 1), (6, .reduce 0 1)], [(0, 3), (1, 4)]⟩,
    ⟨[(0, .accept)], []⟩,
    ⟨[(6, .shift 5)], []⟩,
    ⟨[(6, .reduce 0 0)], []⟩,
    ⟨[(0, .reduce 1 2)], []⟩]⟩

example : lrTableValid exLRbad exLRg = true := by decide

/-- … the validator rejects it, … -/
example : lrCompleteCertB exLRbad exLRg = false := by decide

/-- … and rightly so: `(())` is a sentence (the intact table accepts it, and that table is sound) which
    the damaged table rejects with a syntax error at the last token, whatever the fuel. -/
theorem exLRbad_incomplete : ¬ LRComplete exLRbad exLRg := by
  intro h
  have hl : Lang (gOfLR exLRbad exLRg) (sigTypes (exLRToks [5, 5, 6, 6])) :=
    lr_sound exLR exLRg ⟨false, false, none⟩ 100 (exLRToks [5, 5, 6, 6]) (by decide) (by decide) (by decide)
  obtain ⟨fuel, hf⟩ := h ⟨false, false, none⟩ (exLRToks [5, 5, 6, 6]) rfl (by decide) hl
  have h100 : (lrRun exLRbad ⟨false, false, none⟩ 100 (exLRToks [5, 5, 6, 6])).res = .syntax (some 3) := by
    decide
  have := lrRun_res_stable exLRbad ⟨false, false, none⟩ (exLRToks [5, 5, 6, 6])
    (f1 := fuel) (f2 := 100) (by rw [hf]; exact Res.noConfusion) (by rw [h100]; exact Res.noConfusion)
  rw [hf, h100] at this
  cases this

end ParolModel
