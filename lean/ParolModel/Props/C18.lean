import ParolModel.Proofs.TermId
/-! # C18 — All generated parts agree on terminal identity

Property text: *For every accepted grammar, each terminal occurrence is assigned the same token
number by the scanner, the lookahead automata or LR table, the production tables, the
terminal-name table, and the skip and scanner-transition lists. In particular, terminals with
equal text but different quoting style are never confused with each other.*

All of these parts obtain the number from ONE function: `Cfg::get_terminal_index_function`, a
lookup in `Cfg::get_ordered_terminals` (the scanner entries and the terminal names are the
enumeration of that list itself, `i + FIRST_USER_TOKEN`). `termIdx` / `orderedTerminals`
(Model/Tables.lean) mirror the two functions; tie D compares them with the real functions on
random occurrence lists. Proved here, for ALL lists of terminal occurrences:

* `termIdx_total_on_occurrences` — the `.unwrap()` of the lookup cannot fail for a terminal that
  occurs in the grammar;
* `termIdx_inj_on_behaviour` — two occurrences get the same number iff they have the same text,
  kinds that behave alike (`".."` ≡ `/../`, `'..'` distinct) and the same lookahead: terminals with
  equal text but different quoting style are never confused, and nothing else is told apart;
* `termIdx_range` — numbers are `5 ≤ i < 5 + #terminals ≤ 5 + #occurrences`;
* `scanner_number_eq_termIdx` — the number the scanner / terminal-name table give to the i-th
  ordered terminal (`i + 5`) is the number `termIdx` gives to every occurrence it represents;
* `orderedTerminals_distinct` — no two scanner entries behave alike;
* `checkProds_sound`, `table_numbers_inj` — what the production-table part of the per-grammar
  oracle establishes: in a description it accepts, every terminal occurrence of the grammar carries
  the number `termIdx` gives it, hence two occurrences carry the same number in the generated
  production table iff they behave alike.

That each generated PART really uses this function (the production table did not before the `fix:`
for finding F11) is decided per explored grammar by the oracle `tid-check` (translation
validation, see checks/c18.py); `tablesAgree_sound` (Props/C21) says what agreement of the parts
implies. -/
namespace ParolModel.Tbl

theorem orderedTerminals_covers (occs : List TOcc) (q : TOcc) (hq : q ∈ occs) :
    ∃ e ∈ orderedTerminals occs, sameTerm e q = true :=
  foldl_insertOcc_covers occs [] q hq

/-- No two entries of the ordered terminal list behave alike. -/
theorem orderedTerminals_distinct (occs : List TOcc) :
    (orderedTerminals occs).Pairwise fun a b => sameTerm a b = false :=
  foldl_insertOcc_pairwise occs [] List.Pairwise.nil

theorem orderedTerminals_length (occs : List TOcc) : (orderedTerminals occs).length ≤ occs.length := by
  have := foldl_insertOcc_length occs []
  simpa [orderedTerminals] using this

/-- **C18**: the `.unwrap()` in `get_terminal_index_function` cannot fail for a terminal that
    occurs in the grammar. -/
theorem termIdx_total_on_occurrences (occs : List TOcc) (q : TOcc) (hq : q ∈ occs) :
    (termIdx occs q).isSome = true := by
  obtain ⟨e, he, hs⟩ := orderedTerminals_covers occs q hq
  unfold termIdx
  rw [Option.isSome_map, List.findIdx?_isSome]
  exact List.any_eq_true.2 ⟨e, he, sameTerm_symm hs⟩

/-- **C18**: numbers are user token numbers and bounded by the number of distinct terminals. -/
theorem termIdx_range (occs : List TOcc) (q : TOcc) (i : Nat) (h : termIdx occs q = some i) :
    5 ≤ i ∧ i < 5 + (orderedTerminals occs).length ∧ (orderedTerminals occs).length ≤ occs.length := by
  unfold termIdx at h
  simp only [Option.map_eq_some_iff] at h
  obtain ⟨j, hj, rfl⟩ := h
  have := (List.findIdx?_eq_some_iff_getElem.1 hj).1
  exact ⟨by omega, by omega, orderedTerminals_length occs⟩

/-- **C18, "never confused"**: two occurrences of the grammar get the same token number if and
    only if they have equal text, kinds that behave alike and equal lookahead expressions. -/
theorem termIdx_inj_on_behaviour (occs : List TOcc) (a b : TOcc) (ha : a ∈ occs) (_hb : b ∈ occs) :
    termIdx occs a = termIdx occs b ↔
      a.text = b.text ∧ a.kind.behavesLike b.kind = true ∧ a.la = b.la := by
  rw [← sameTerm_iff]
  constructor
  · intro h
    have hsa := termIdx_total_on_occurrences occs a ha
    obtain ⟨i, hi⟩ := Option.isSome_iff_exists.1 hsa
    have hi' := hi
    rw [h] at hi'
    unfold termIdx at hi hi'
    simp only [Option.map_eq_some_iff] at hi hi'
    obtain ⟨j, hj, rfl⟩ := hi
    obtain ⟨j', hj', hjj⟩ := hi'
    have : j' = j := by omega
    subst this
    obtain ⟨_, hpa, _⟩ := List.findIdx?_eq_some_iff_getElem.1 hj
    obtain ⟨_, hpb, _⟩ := List.findIdx?_eq_some_iff_getElem.1 hj'
    exact sameTerm_trans hpa (sameTerm_symm hpb)
  · intro h
    unfold termIdx
    have : (fun e => sameTerm a e) = (fun e => sameTerm b e) := funext (sameTerm_congr_left h)
    rw [this]

/-- Corollary in the words of the property: equal text in different quoting style — a raw `'..'`
    against a `".."` or `/../` terminal — never gets the same number. -/
theorem termIdx_raw_vs_regex (occs : List TOcc) (a b : TOcc) (ha : a ∈ occs) (hb : b ∈ occs)
    (hka : a.kind = .raw) (hkb : b.kind ≠ .raw) : termIdx occs a ≠ termIdx occs b := by
  intro h
  have := ((termIdx_inj_on_behaviour occs a b ha hb).1 h).2.1
  rw [hka] at this
  cases hk : b.kind <;> simp_all [TKind.behavesLike]

/-- **C18, scanner and terminal names**: `generate_build_information` and
    `generate_terminal_names` number the i-th ordered terminal `i + 5`; that is the number the
    index function gives to every occurrence the entry represents. -/
theorem scanner_number_eq_termIdx (occs : List TOcc) (i : Nat) (e q : TOcc)
    (he : (orderedTerminals occs)[i]? = some e) (hq : sameTerm e q = true) :
    termIdx occs q = some (i + 5) := by
  unfold termIdx
  simp only [Option.map_eq_some_iff, Nat.add_right_cancel_iff, exists_eq_right]
  rw [List.findIdx?_eq_some_iff_getElem]
  obtain ⟨hlt, hget⟩ := List.getElem?_eq_some_iff.1 he
  refine ⟨hlt, by rw [hget]; exact sameTerm_symm hq, ?_⟩
  intro j hji hp
  have hpw := orderedTerminals_distinct occs
  rw [List.pairwise_iff_getElem] at hpw
  have := hpw j i (by omega) hlt hji
  rw [hget] at this
  have h2 : sameTerm (orderedTerminals occs)[j] e = true :=
    sameTerm_symm (sameTerm_trans hq hp)
  rw [this] at h2
  cases h2

/-- Every entry of the ordered list represents an occurrence of the grammar (no phantom tokens). -/
theorem orderedTerminals_from_occurrence (occs : List TOcc) (e : TOcc) (he : e ∈ orderedTerminals occs) :
    ∃ o ∈ occs, sameTerm e o = true := by
  rcases foldl_insertOcc_from occs [] e he with ⟨y, hy, _⟩ | ⟨y, hy, hz⟩
  · cases hy
  · refine ⟨y, hy, ?_⟩
    have := hz y
    rw [sameTerm_refl] at this
    exact sameTerm_symm this

/-- **Oracle, production table**: if `checkProds` (part 1 of `tid-check`) accepts a description for
    the transformed grammar `g`, the description has one production per grammar production with the
    same left-hand side, push flag and length, and every terminal occurrence carries the number the
    index function gives it (LR descriptions from source text may leave the symbol unstated). -/
theorem checkProds_sound (g : List GProd) (d : ParserDesc) (h : checkProds g d = none) :
    g.length = d.prods.length ∧
    ∀ (p : Nat) (gp : GProd) (dp : DProd), g[p]? = some gp → d.prods[p]? = some dp →
      gp.lhs = dp.lhs ∧ gp.push = dp.push ∧ gp.rhs.length = dp.rhs.length ∧
      ∀ (j : Nat) (o : XOcc), gp.rhs[j]? = some (.t o) →
        ∃ i, termIdx (allOcc g) o.occ = some i ∧
          (dp.rhs[j]? = some (.t i) ∨ (d.kind = .lr ∧ dp.rhs[j]? = some .unk)) := by
  unfold checkProds at h
  simp only at h
  split at h
  · cases h
  · rename_i hlen
    refine ⟨by simpa using hlen, ?_⟩
    intro p gp dp hg hd
    rw [firstSome_none] at h
    have hmem : ((gp, dp), p) ∈ (g.zip d.prods).zipIdx := by
      rw [List.mem_zipIdx_iff_getElem?]
      simp [List.getElem?_zip_eq_some, hg, hd]
    have := h _ (List.mem_map.2 ⟨_, hmem, rfl⟩)
    simp only at this
    split at this
    · cases this
    · rename_i h1
      split at this
      · cases this
      · rename_i h2
        split at this
        · cases this
        · rename_i h3
          refine ⟨by simpa using h1, by simpa using h2, by simpa using h3, ?_⟩
          intro j o hj
          rw [firstSome_none] at this
          have hjlt : j < dp.rhs.length := by
            have := (List.getElem?_eq_some_iff.1 hj).1
            simp at h3; omega
          have hmem2 : ((GSym.t o, dp.rhs[j]), j) ∈ (gp.rhs.zip dp.rhs).zipIdx := by
            rw [List.mem_zipIdx_iff_getElem?]
            simp [List.getElem?_zip_eq_some, hj, hjlt]
          have := this _ (List.mem_map.2 ⟨_, hmem2, rfl⟩)
          simp only at this
          split at this
          · cases this
          · rename_i i hi
            refine ⟨i, hi, ?_⟩
            rw [chk_none, Bool.and_eq_true] at this
            obtain ⟨ha, hb⟩ := this
            rcases symAgree_t ha with h | h
            · left; rw [List.getElem?_eq_getElem hjlt, h]
            · right
              rw [h] at hb
              simp at hb
              exact ⟨hb, by rw [List.getElem?_eq_getElem hjlt, h]⟩

/-- **C18 on an accepted description**: two terminal occurrences of the grammar carry the same
    number in the production table if and only if they have equal text, kinds that behave alike
    and equal lookahead — "terminals with equal text but different quoting style are never
    confused with each other", and nothing else is told apart. -/
theorem table_numbers_inj (g : List GProd) (d : ParserDesc) (h : checkProds g d = none)
    (p j p' j' : Nat) (o o' : XOcc) (i i' : Nat)
    (ho : occAt g p j = some o) (ho' : occAt g p' j' = some o')
    (ht : tableSym d p j = some (.t i)) (ht' : tableSym d p' j' = some (.t i')) :
    i = i' ↔ o.occ.text = o'.occ.text ∧ o.occ.kind.behavesLike o'.occ.kind = true ∧ o.occ.la = o'.occ.la := by
  obtain ⟨gp, hg, hr⟩ := occAt_spec ho
  obtain ⟨gp', hg', hr'⟩ := occAt_spec ho'
  obtain ⟨hlen, hall⟩ := checkProds_sound g d h
  have key : ∀ (p j : Nat) (gp : GProd) (o : XOcc) (i : Nat), g[p]? = some gp → gp.rhs[j]? = some (.t o) →
      tableSym d p j = some (.t i) → termIdx (allOcc g) o.occ = some i := by
    intro p j gp o i hg hr ht
    have hp : p < d.prods.length := by
      have := (List.getElem?_eq_some_iff.1 hg).1; omega
    obtain ⟨-, -, -, hs⟩ := hall p gp d.prods[p] hg (List.getElem?_eq_getElem hp)
    obtain ⟨n, hn, hsym⟩ := hs j o hr
    unfold tableSym at ht
    rw [List.getElem?_eq_getElem hp, Option.bind_some] at ht
    rcases hsym with h1 | ⟨-, h1⟩
    · rw [h1] at ht; cases ht; exact hn
    · rw [h1] at ht; cases ht
  have h1 := key p j gp o i hg hr ht
  have h2 := key p' j' gp' o' i' hg' hr' ht'
  rw [← termIdx_inj_on_behaviour (allOcc g) o.occ o'.occ (occ_mem_allOcc hg hr) (occ_mem_allOcc hg' hr'), h1, h2]
  simp

-- Non-vacuity: `"a" 'a' /a/ "a" ?= "b"` gives three numbers — legacy ≡ regex, raw distinct,
-- lookahead distinct — and a terminal that does not occur makes the unwrap fail.
def exOccs : List TOcc :=
  [⟨"a", .legacy, none, [0]⟩, ⟨"a", .raw, none, [0]⟩, ⟨"a", .regex, none, [1]⟩,
   ⟨"a", .legacy, some ⟨true, "b", .legacy⟩, [0]⟩]
example : exOccs.map (termIdx exOccs) = [some 5, some 6, some 5, some 7] := by decide
example : (orderedTerminals exOccs).map (·.states) = [[0, 1], [0], [0]] := by decide
example : termIdx exOccs ⟨"b", .legacy, none, [0]⟩ = none := by decide
-- the lookahead kind is compared exactly (derived `PartialEq` of `LookaheadExpression`)
example : termIdx exOccs ⟨"a", .legacy, some ⟨true, "b", .regex⟩, [0]⟩ = none := by decide

end ParolModel.Tbl
