import ParolModel.Proofs.LL
import ParolModel.Model.LLOracle
import ParolModel.Proofs.Member
/-! # C01 — LL(k) parsers accept exactly the language of the grammar

Property text: *For every grammar parol accepts for LL(k) generation and every input token
sequence, the generated parser reports success if and only if the sequence is a sentence of the
grammar. Error recovery never turns a non-sentence into a success.* (see properties.jsonl)

What is proved here, for the model `llRun` of `LLKParser::parse_into` (tie D: exact comparison of
result, action trace, tree and comments with the real parser on real generated tables):

* `ll_sound` — acceptance implies membership in the language of the grammar the tables denote,
  for ARBITRARY lookahead automata (so a wrong prediction can never make a non-sentence succeed);
  the only table hypothesis, `TablesSound`, is decided per table set by the verified checker
  `tablesSoundB` (`tablesSoundB_sound`) on every table parol produces in the check.
* The run is independent of `recovery` as far as success goes: the model stops at the first syntax
  error; the tie shows that with recovery ON the real parser's verdict is still `ok` exactly when
  the model's is.
* Completeness (`every sentence is accepted`) needs exact lookahead automata and is stated as
  `LLComplete`; it is NOT proved yet — it is covered per explored grammar by the membership oracle
  (`member`, verified in Proofs/Member.lean) against the ORIGINAL grammar on all short strings.
-/
namespace ParolModel

theorem tablesSoundB_sound (T : LLTables) (h : tablesSoundB T = true) : TablesSound T := by
  simp only [tablesSoundB, Bool.and_eq_true, List.all_eq_true] at h
  obtain ⟨h1, h2⟩ := h
  constructor
  · intro a d hd p hp hgt pr hpr
    have hmem : (d, a) ∈ T.dfas.zipIdx := by
      rw [List.mem_zipIdx_iff_getElem?]; simpa using hd
    have := h1 (d, a) hmem
    simp only [List.all_eq_true] at this
    have hpm : p ∈ dfaProds d := by
      rcases hp with rfl | ⟨tr, htr, rfl⟩
      · simp [dfaProds]
      · simp only [dfaProds, List.mem_cons, List.mem_map]
        exact Or.inr ⟨tr, htr, rfl⟩
    have := this p hpm
    simp only [Bool.or_eq_true, decide_eq_true_eq, hpr, beq_iff_eq] at this
    rcases this with h | h
    · omega
    · exact h
  · intro pr hpr hm
    have := h2 pr hpr
    simp only [Bool.not_eq_true', List.contains_eq_mem, decide_eq_false_iff_not] at this
    exact this hm

/-- **C01 soundness**: if the LL(k) parser reports success, the significant tokens of the input form
    a sentence of the grammar encoded by the production table — whatever the lookahead automata
    predict, with or without parse-tree trimming, depth limit or recovery flag. -/
theorem ll_sound (T : LLTables) (o : Opts) (fuel : Nat) (toks : List MTok) (hT : TablesSound T)
    (h : (llRun T o fuel toks).res = .ok) : Lang (gOf T) (sigTypes toks) := by
  unfold llRun at h
  simp only at h
  split at h
  · rename_i p hp
    split at h
    · exact absurd h (abort_not_ok _ _ _ (by simp))
    · split at h
      · rename_i s hpush
        obtain ⟨pr, hpr, hst, hin, _⟩ := pushProduction_spec hpush
        simp only [List.append_nil] at hst hin
        have hmemp : pr ∈ T.prods := List.mem_of_getElem? hpr
        have hno : PT.t 0 ∉ s.stack := by
          rw [hst]
          intro hm
          rcases List.mem_append.1 hm with hm | hm
          · exact hT.no_eoi pr hmemp (by simpa using hm)
          · simp at hm
        have hy := llLoop_sound T o hT fuel s 0 hno h
        rw [hst, hin, stackSyms_append] at hy
        simp only [stackSyms_e, stackSyms_nil, List.append_nil] at hy
        unfold predict at hp
        cases hd : T.dfas[T.start]? with
        | none => simp [hd] at hp
        | some d =>
          simp only [hd, Option.some.injEq] at hp
          obtain ⟨hfrom, hgt⟩ := eval_ok_from d true _ p hp
          have hlhs := hT.lhs_ok T.start d hd p hfrom hgt pr hpr
          have hmem : ruleOf pr ∈ (gOf T).prods := by
            simp only [gOf, List.mem_map]; exact ⟨pr, hmemp, rfl⟩
          have := Yield.nonterm (ruleOf pr) hmem hy .nil
          simpa [Lang, gOf, ruleOf, hlhs] using this
      · rename_i s r hpush
        obtain ⟨_, _, _, _, hr⟩ := pushProduction_spec hpush
        exact absurd h (abort_not_ok _ _ _ (fun e => hr (by rw [e])))
      · exact absurd h (abort_not_ok _ _ _ (by simp))
  · exact absurd h (abort_not_ok _ _ _ (by simp))
  · exact absurd h (abort_not_ok _ _ _ (by simp))

/-- Corollary in the form the check uses: a table set accepted by the verified checker never lets
    the parser accept a token string outside the language of its production table. -/
theorem ll_sound_checked (T : LLTables) (o : Opts) (fuel : Nat) (toks : List MTok)
    (hT : tablesSoundB T = true) (h : (llRun T o fuel toks).res = .ok) :
    Lang (gOf T) (sigTypes toks) :=
  ll_sound T o fuel toks (tablesSoundB_sound T hT) h

/-- A token of a type that occurs in no production (the scanner's error token, a gap token, any
    foreign type) makes success impossible (C16's parser-level clause follows from soundness). -/
theorem foreign_token_rejected (T : LLTables) (o : Opts) (fuel : Nat) (toks : List MTok)
    (hT : TablesSound T) (x : Nat) (hx : x ∈ sigTypes toks)
    (hforeign : ∀ pr ∈ T.prods, PT.t x ∉ pr.rhsRev) :
    (llRun T o fuel toks).res ≠ .ok := by
  intro h
  have hy := ll_sound T o fuel toks hT h
  -- every terminal of a derived string occurs in some production
  have key : ∀ (ss : List Sym) (w : List Nat), Yield (gOf T) ss w → ∀ y ∈ w,
      Sym.t y ∈ ss ∨ ∃ r ∈ (gOf T).prods, Sym.t y ∈ r.rhs := by
    intro ss w hyield
    induction hyield with
    | nil => intro y hy; cases hy
    | term a _ ih =>
      intro y hy
      rcases List.mem_cons.1 hy with rfl | hy
      · exact Or.inl List.mem_cons_self
      · rcases ih y hy with h | h
        · exact Or.inl (List.mem_cons_of_mem _ h)
        · exact Or.inr h
    | nonterm p hp _ _ ih1 ih2 =>
      intro y hy
      rcases List.mem_append.1 hy with hy | hy
      · rcases ih1 y hy with h | h
        · exact Or.inr ⟨p, hp, h⟩
        · exact Or.inr h
      · rcases ih2 y hy with h | h
        · exact Or.inl (List.mem_cons_of_mem _ h)
        · exact Or.inr h
  rcases key _ _ hy x hx with h | ⟨r, hr, hm⟩
  · simp at h
  · simp only [gOf, List.mem_map] at hr
    obtain ⟨pr, hpr, rfl⟩ := hr
    apply hforeign pr hpr
    simp only [ruleOf, stackSyms, List.mem_filterMap] at hm
    obtain ⟨s, hs, hsym⟩ := hm
    cases s <;> simp [ptSym] at hsym
    subst hsym
    simpa using hs

/-- Full statement of completeness (NOT proved; see the module comment): with lookahead automata
    that predict exactly by FIRST_k·FOLLOW_k of a left-recursion-free grammar, every sentence is
    accepted. Recorded so that the gap stays visible. -/
def LLComplete (T : LLTables) : Prop :=
  ∀ (o : Opts) (toks : List MTok), o.maxDepth = none → Lang (gOf T) (sigTypes toks) →
    ∃ fuel, (llRun T o fuel toks).res = .ok

/-- Non-vacuity: the tables parol generates for `S: "a" {"b"} ["c"];` pass the checker, and the
    model accepts `a b b c` and rejects `a c c`. -/
def exT : LLTables :=
  ⟨0,
   [⟨0, [.n 2, .n 1, .t 5], false⟩, ⟨1, [.n 1, .t 6], true⟩, ⟨1, [], false⟩, ⟨2, [.t 7], false⟩, ⟨2, [], false⟩],
   [⟨0, [], 0⟩, ⟨-1, [⟨0, 0, 2, 2⟩, ⟨0, 6, 1, 1⟩, ⟨0, 7, 2, 2⟩], 1⟩, ⟨-1, [⟨0, 0, 2, 4⟩, ⟨0, 7, 1, 3⟩], 1⟩]⟩
def exToks (l : List Nat) : List MTok := l.zipIdx.map fun (t, i) => ⟨t, false, false, i⟩
example : tablesSoundB exT = true := by decide
example : (llRun exT ⟨false, false, none⟩ 100 (exToks [5, 6, 6, 7])).res = .ok := by decide
example : (llRun exT ⟨false, false, none⟩ 100 (exToks [5, 7, 7])).res = .unprocessed := by decide

end ParolModel
