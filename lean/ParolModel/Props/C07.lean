import ParolModel.Proofs.LaMain
import ParolModel.Proofs.LaOrder3
import ParolModel.Proofs.LaTotal
/-! # C07 — Lookahead automata encode exactly the lookahead sets

Property text: *For every non-terminal of an accepted LL(k) grammar, the compiled (minimized)
lookahead automaton, read as a deterministic automaton from its start state, reaches a state
predicting production p on a token string w exactly when w is one of p's lookahead strings.
Minimization never changes which production any token string predicts.*

Formalisation. The lookahead strings of the productions of one non-terminal are a list
`sets : List (Nat × List Tuple)` (production number, its k-tuples; the ε-tuple is `[]`). For an
accepted LL(k) grammar they are non-empty, pairwise disjoint and prefix-free (`SetsOk`; tuples
have length k or end in the end-of-input terminal, which nothing can follow). "Read as a
deterministic automaton" is C08's reference run `runRef`; `setsLookup sets w` is the production
whose tuple set contains `w`. The model (`Model/LaBuild.lean`) mirrors, step by step,
`LookaheadDFA::from_k_tuples` (`fromKTuples`), `unite` (`unite true`; `unite false` is the code
before the repair of its `k`), the loop of `calculate_lookahead_dfas` for one non-terminal
(`uniteAll`), `CompiledDFA::from_lookahead_dfa` (`compileDfa` = `compileRaw` then `minimizeC`, i.e.
`AdjacencyList::minimize`, `renumber_states`, `as_compiled_dfa`). The hash-map iteration orders of
`group_by` are the explicit parameter `ch`; every theorem below holds for all `ch`. The model
functions return `none`/`.error` where the Rust code would panic or report a conflict; the theorems
are about the successful results. That `unite` succeeds on such sets (up to the model's fuel) is
`unite_no_false_conflict`; that the minimisation succeeds is shown on examples here and observed on
every explored case by the differential tie (the model's reply equals the implementation's). -/
namespace ParolModel

/-- **Tries** (`from_k_tuples`): *"reaches a state predicting production p on a token string w
    exactly when w is one of p's lookahead strings"* for the automaton of a single production:
    the compiled, not yet minimised trie of a non-empty tuple set `S` predicts `p` on exactly the
    members of `S`, and nothing else. -/
theorem trie_accepts_iff_tuple (k : Nat) (S : List Tuple) (p : Nat) (hS : S ≠ []) (w : List Nat) :
    runRef (compileRaw (fromKTuples k S p)) 0 (compileRaw (fromKTuples k S p)).prod0 w =
      if w ∈ S then some (p : Int) else none := by
  obtain ⟨l, h, _, _⟩ := fromKTuples_inv k S p hS
  rw [h.runRef_eq (by intro w; split <;> omega) w]
  unfold accOf
  by_cases hw : w ∈ S
  · simp only [hw, if_true]
    have : (p : Int) > -1 := by omega
    simp [this]
  · simp [hw]

/-- **`unite`**: uniting the trie of a further production into the automaton built for the
    productions `P` yields an automaton that predicts, for every token string, the production whose
    tuple set contains it — provided the sets are non-empty, pairwise disjoint and prefix-free. -/
theorem unite_accepts (k : Nat) {P : List (Nat × List Tuple)} {p : Nat} {S : List Tuple} {d0 d d' : LDfa}
    (ok : SetsOk (P ++ [(p, S)])) (hd : uniteAll true k P = some (.ok d0)) (hd0 : d = d0)
    (h : unite true d (fromKTuples k S p) = .ok d') (w : List Nat) :
    runRef (compileRaw d') 0 (compileRaw d').prod0 w = setsLookup (P ++ [(p, S)]) w := by
  subst hd0
  have okP : SetsOk P := ok.subset (fun q hq => List.mem_append_left _ hq)
  have hP : P ≠ [] := by intro he; subst he; simp [uniteAll] at hd
  exact (built_step k ok hP (built_all okP hd) h).runRef w

/-- **No false conflict**: for non-empty, pairwise disjoint, prefix-free tuple sets the uniting
    loop never reports `Conflict in union operation` and never reaches a panic path; it yields an
    automaton (the only other outcome of the *model* is exhausted fuel, which the driver would print
    as `fuel-exhausted` and which was never observed). -/
theorem unite_no_false_conflict (k : Nat) {sets : List (Nat × List Tuple)} (ok : SetsOk sets) (hne : sets ≠ []) :
    (∃ d, uniteAll true k sets = some (.ok d)) ∨ uniteAll true k sets = some (.error .fuel) :=
  uniteAll_ok_or_fuel k ok hne

/-- Without prefix-freeness `unite_accepts` is false: `coin_state` is unconditional, so the
    accepting mark of `5` (production 0) is erased when `5 6` (production 1) is united into it. -/
theorem unite_not_prefix_free_counterexample :
    (match uniteAll true 2 [(0, [[5]]), (1, [[5, 6]])] with
     | some (.ok d) => runRef (compileRaw d) 0 (compileRaw d).prod0 [5]
     | _ => some 99) = none ∧ setsLookup [(0, [[5]]), (1, [[5, 6]])] [5] = some 0 := by decide

/-- **Minimisation preserves every prediction** (*"Minimization never changes which production any
    token string predicts"*), for every iteration order `ch`, on automata whose accepting states
    are leaves (`CompiledOk`). -/
theorem minimize_preserves_run {c c' : LaDfa} {ch : List Nat} (hc : CompiledOk c)
    (h : minimizeC c ch = some c') (w : List Nat) :
    runRef c' 0 c'.prod0 w = runRef c 0 c.prod0 w := by
  obtain ⟨hs, _, hrun⟩ := minimizeC_spec hc h
  exact runRef_eq_of_RunC_iff hs hc.sorted w (hrun w)

/-- **Well-formedness of the output** (the precondition `sortedTrans` of C08's theorems): the
    minimised automaton's transition list is strictly sorted by (from-state, terminal), hence
    deterministic; `k` is unchanged. -/
theorem compiled_wf {c c' : LaDfa} {ch : List Nat} (hc : CompiledOk c) (h : minimizeC c ch = some c') :
    sortedTrans c'.trans = true ∧ c'.k = c.k := by
  obtain ⟨hs, hk, _⟩ := minimizeC_spec hc h
  exact ⟨hs, hk⟩

/-- The un-minimised automaton of non-empty, pairwise disjoint, prefix-free tuple sets satisfies
    the hypotheses of the two theorems above. -/
theorem compiledOk_of_sets {k : Nat} {sets : List (Nat × List Tuple)} {d : LDfa} (ok : SetsOk sets)
    (hd : uniteAll true k sets = some (.ok d)) : CompiledOk (compileRaw d) :=
  (built_all ok hd).compiledOk ok

/-- **C07, main statement**: the compiled, minimised automaton of a non-terminal predicts `p` on
    `w` exactly when `w` is one of `p`'s lookahead strings (for all `w`, not only up to depth `k`),
    and it is strictly sorted. -/
theorem compiled_accepts_iff_tuple {k : Nat} {sets : List (Nat × List Tuple)} {d : LDfa} {c : LaDfa}
    {ch : List Nat} (ok : SetsOk sets) (hd : uniteAll true k sets = some (.ok d))
    (hc : compileDfa d ch = some c) :
    sortedTrans c.trans = true ∧ ∀ w, runRef c 0 c.prod0 w = setsLookup sets w := by
  have hb := built_all ok hd
  have hok := hb.compiledOk ok
  refine ⟨(compiled_wf hok hc).1, ?_⟩
  intro w
  rw [minimize_preserves_run hok hc w, hb.runRef w]

/-- The executable test `setsOk` used by the oracle handlers is sound for `SetsOk`. -/
theorem setsOk_implies_SetsOk {sets : List (Nat × List Tuple)} (h : setsOk sets = true) : SetsOk sets :=
  setsOk_sound h

/-- **The `k` field covers every lookahead string** (so that C08's `eval`, which reads `k` tokens,
    reaches the accepting state): for all tuple sets, without any hypothesis. This is the statement
    that was false before the repair of `unite`. -/
theorem compiled_k_ge_tuple_length {k : Nat} {sets : List (Nat × List Tuple)} {d : LDfa} {c : LaDfa}
    {ch : List Nat} (hd : uniteAll true k sets = some (.ok d)) (hc : compileDfa d ch = some c) :
    ∀ q ∈ sets, ∀ t ∈ q.2, t.length ≤ c.k := by
  intro q hq t ht
  have h1 := uniteAll_k hd q hq t ht
  have h2 : c.k = d.k := minimizeC_k hc
  omega

/-- The tuple sets of non-terminal `A` of `S: A; A: ; A: B "b"; A: C "c"; B: "a"; C: "a";`
    (`$` = 0, `a` = 7, `b` = 5, `c` = 6). -/
def f19Sets : List (Nat × List Tuple) := [(1, [[0]]), (2, [[7, 5]]), (3, [[7, 6]])]

/-- Before the repair (`unite false`: the result keeps `self.k`) the compiled automaton of `A` had
    `k = 1` although the lookahead string `7 5` has length 2, and C08's `eval` then reports a
    prediction error on it. -/
theorem unite_k_unfixed_counterexample :
    (match uniteAll false 2 f19Sets with
     | some (.ok d) => (compileDfa d []).map (fun c => (c.k, eval c true [7, 5]))
     | _ => none) = some (1, EvalRes.predictError) := by decide

/-- With the repair the same automaton has `k = 2` and predicts production 2. -/
theorem unite_k_fixed_example :
    (match uniteAll true 2 f19Sets with
     | some (.ok d) => (compileDfa d []).map (fun c => (c.k, eval c true [7, 5]))
     | _ => none) = some (2, EvalRes.ok 2) := by decide

/-- **Order independence (C24 part)**: the minimised automaton — transitions, state numbering, `k` —
    does not depend on the hash-map iteration orders of the two `group_by` calls (on automata whose
    accepting states are leaves). Both merging phases compute the quotient by a fixed equivalence
    (accepting states of one production; the least equivalence closed under "equal neighbour lists"),
    every class keeps its smallest member, and renumbering is deterministic. -/
theorem minimize_order_indep {c c1 c2 : LaDfa} {ch1 ch2 : List Nat} (hc : CompiledOk c)
    (h1 : minimizeC c ch1 = some c1) (h2 : minimizeC c ch2 = some c2) : c1 = c2 :=
  minimizeC_unique hc h1 h2

/-- Consequence for a non-terminal's automaton: for non-empty, pairwise disjoint, prefix-free tuple
    sets the compiled automaton is the same under all iteration orders. -/
theorem compiled_order_indep {k : Nat} {sets : List (Nat × List Tuple)} {d : LDfa} {c1 c2 : LaDfa}
    {ch1 ch2 : List Nat} (ok : SetsOk sets) (hd : uniteAll true k sets = some (.ok d))
    (h1 : compileDfa d ch1 = some c1) (h2 : compileDfa d ch2 = some c2) : c1 = c2 :=
  minimize_order_indep (compiledOk_of_sets ok hd) h1 h2

/-- Weaker, semantic form (kept because it needs none of the quotient machinery): whatever the
    iteration orders, the results predict the same production on every token string. -/
theorem minimize_order_indep_semantic {c c1 c2 : LaDfa} {ch1 ch2 : List Nat} (hc : CompiledOk c)
    (h1 : minimizeC c ch1 = some c1) (h2 : minimizeC c ch2 = some c2) (w : List Nat) :
    runRef c1 0 c1.prod0 w = runRef c2 0 c2.prod0 w := by
  rw [minimize_preserves_run hc h1 w, minimize_preserves_run hc h2 w]

/-! Non-vacuity: the hypotheses are satisfiable and the model succeeds. `exSets` are the tuple
sets of `ItemsList`-like productions: 4 ↦ {`5 6`}, 5 ↦ {`0`, `5 0`}. -/
def exSets : List (Nat × List Tuple) := [(4, [[5, 6]]), (5, [[0], [5, 0]])]

example : setsOk exSets = true := by decide
example : SetsOk exSets := setsOk_sound (by decide)
example : (match uniteAll true 2 exSets with
    | some (.ok d) => compileDfa d []
    | _ => none) = some ⟨-1, [⟨0, 0, 3, 5⟩, ⟨0, 5, 1, -1⟩, ⟨1, 0, 3, 5⟩, ⟨1, 6, 2, 4⟩], 2⟩ := by decide
/-- The two accepting leaves of production 5 were merged (state 3), under another order too. -/
example : (match uniteAll true 2 exSets with
    | some (.ok d) => compileDfa d [1, 1, 1]
    | _ => none) = some ⟨-1, [⟨0, 0, 3, 5⟩, ⟨0, 5, 1, -1⟩, ⟨1, 0, 3, 5⟩, ⟨1, 6, 2, 4⟩], 2⟩ := by decide
example : (match uniteAll true 2 exSets with
    | some (.ok d) => (compileDfa d []).map (fun c => [runRef c 0 c.prod0 [5, 6], runRef c 0 c.prod0 [5, 0],
        runRef c 0 c.prod0 [0], runRef c 0 c.prod0 [5], runRef c 0 c.prod0 [6, 5]])
    | _ => none) = some [some 4, some 5, some 5, none, none] := by decide
/-- A conflict (the same tuple under two productions) is reported. -/
example : (match uniteAll true 1 [(1, [[5]]), (2, [[5]])] with
    | some (.error .conflict) => true
    | _ => false) = true := by decide

end ParolModel
