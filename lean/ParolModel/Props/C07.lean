import ParolModel.Proofs.LaBuild
/-! # C07 — Lookahead automata encode exactly the lookahead sets -/
namespace ParolModel

/-- The tuple sets of non-terminal `A` of `S: A; A: ; A: B "b"; A: C "c"; B: "a"; C: "a";`. -/
def f19Sets : List (Nat × List Tuple) := [(1, [[0]]), (2, [[7, 5]]), (3, [[7, 6]])]

/-- Before the repair of `unite` the compiled automaton of `A` had `k = 1` although the tuple
    `7 5` has length 2. -/
theorem unite_k_unfixed_counterexample :
    (match uniteAll false 2 f19Sets with
     | some (.ok d) => (compileDfa d []).map (·.k)
     | _ => none) = some 1 := by decide

end ParolModel
