import ParolModel.Proofs.LLSafe
import ParolModel.Model.LR
import ParolModel.Props.C01
/-! # C19 — Generated parsers never crash and always terminate

Property text: *For every accepted grammar and every input text, the generated LL(k) or LR parser
returns a success or an error value without panicking, overflowing indices, or looping forever, with
error recovery enabled or disabled. Error recovery stops after a bounded amount of work.*

What is proved (LL(k) parser model `llRun`, tied to `LLKParser::parse_into` by the exact differential
run, here on garbled inputs): `ll_no_internal` — for every table set that passes the checker
`tablesInRangeB` (evaluated on every real table) and EVERY input and option record, the run never
reaches an `internal` outcome: no array index out of range (automata, productions), no
parse-tree-stack underflow in `process_item_stack`, no failing `debug_assert` in `eval`. What is NOT
proved and only explored (labelled so in the evidence): termination (the model takes fuel;
`fuel-exhausted` never occurred for LL tables), the LR parser's index safety, and the recovery
machinery (not modelled) — real runs on random character soup and garbled sentences under
`catch_unwind`, with a wall-clock watchdog per run. Known genuine defect F24: on cyclic grammars
that parol accepts for LALR(1) with resolved conflicts the real LR parser does not terminate. -/
namespace ParolModel

/-- **No crash (LL)**: index safety and stack discipline of `parse_into` for all inputs. -/
theorem ll_no_internal (T : LLTables) (o : Opts) (fuel : Nat) (toks : List MTok)
    (hT : tablesInRangeB T = true) : (llRun T o fuel toks).res ≠ .internal := by
  have hR := tablesInRangeB_sound T hT
  generalize hout : llRun T o fuel toks = out
  unfold llRun at hout
  simp only at hout
  have hstart := hR.start
  have hd : ∃ d, T.dfas[T.start]? = some d := ⟨T.dfas[T.start], List.getElem?_eq_getElem hstart⟩
  obtain ⟨d, hd⟩ := hd
  have hdmem : d ∈ T.dfas := List.mem_of_getElem? hd
  have hpred : predict T T.start toks = some (eval d true (laTypes toks d.k)) := by simp [predict, hd]
  rw [hpred] at hout
  cases hev : eval d true (laTypes toks d.k) with
  | ok p =>
    simp only [hev] at hout
    obtain ⟨hfrom, hgt⟩ := eval_ok_from d true _ p hev
    split at hout
    · omega
    · have hpm : p ∈ dfaProds d := by
        rcases hfrom with rfl | ⟨tr, htr, rfl⟩
        · simp [dfaProds]
        · simp only [dfaProds, List.mem_cons, List.mem_map]; exact Or.inr ⟨tr, htr, rfl⟩
      have hlt : p.toNat < T.prods.length := by
        rcases hR.prods d hdmem p hpm with h1 | h1
        · omega
        · exact h1
      have hpr : T.prods[p.toNat]? = some T.prods[p.toNat] := List.getElem?_eq_getElem hlt
      obtain ⟨s', r, hpush, hr⟩ := pushProduction_some (T := T) (o := o)
        (s := ⟨[], toks, [], 0, [], [.open_ none], []⟩) hpr
      rw [hpush] at hout
      cases r with
      | none =>
        simp only at hout
        obtain ⟨pr, hpr', hst', _, _⟩ := pushProduction_spec hpush
        obtain ⟨hf1, _, _, _⟩ := pushProduction_fields hpr' hpush
        simp only at hst' hf1
        apply llLoop_no_internal T o hR fuel s' 0 out _ hout
        rw [hst', hf1]
        exact StackOK_push hR hpr' (by simp [StackOK])
      | some r =>
        simp only at hout
        rw [← hout]; simp only [abort_res]
        intro he; exact hr (by rw [he])
  | predictError => simp only [hev] at hout; rw [← hout]; simp [abort_res]
  | assertFail => exact absurd hev (eval_not_assertFail d (hR.acc0 d hdmem) _)

/-- Full statements that are NOT proved (see the module comment). -/
def LLTerminates (T : LLTables) : Prop :=
  ∀ (o : Opts) (toks : List MTok), ∃ fuel, (llRun T o fuel toks).res ≠ .fuel

def LRNoInternal (T : LRTables) : Prop :=
  ∀ (o : Opts) (fuel : Nat) (toks : List MTok), (lrRun T o fuel toks).res ≠ .internal

-- Non-vacuity: the tables of Props/C01 pass the checker.
example : tablesInRangeB exT = true := by decide

end ParolModel
