import ParolModel.Proofs.LRSim
import ParolModel.Props.C03
import ParolModel.Props.C20
import ParolModel.Props.C17b
/-! # C20 (LR half) — Parser options do not change parse outcomes

Property text: *Trimming the parse tree, disabling recovery, and setting a depth limit that the input
does not reach never change whether an input is accepted or the sequence of semantic actions
performed. An input that exceeds the depth limit yields the depth-limit error rather than a crash.*

LR(1) parser model `lrRun`; `LROut.core` is (result, action trace, comment trace, step count). With
trimming the skipped tokens are not pushed on the parse-tree stack and the tree events are dummies;
both runs have the same tree-free core `lrCoreRun` (`lrRun_core`), which only depends on the depth
limit. The LR model never reads the recovery flag (the LR runtime has no recovery). The depth check
is `parser_stack.len() > max` at the top of each iteration (`coreStep_depth`). Closes
`LRTrimIrrelevant` of Props/C20. -/
namespace ParolModel

/-- **Trimming and the recovery flag (LR)**: two option records that agree on the depth limit give
    the same result, the same action trace, the same comment trace and the same step count — for
    every table, fuel and input. -/
theorem lr_trim_recovery_irrelevant (T : LRTables) (o o' : Opts) (fuel : Nat) (toks : List MTok)
    (h : o.maxDepth = o'.maxDepth) :
    (lrRun T o fuel toks).core = (lrRun T o' fuel toks).core := by
  rw [lrRun_core, lrRun_core, h]

theorem lr_trim_irrelevant (T : LRTables) (o : Opts) (fuel : Nat) (toks : List MTok) (b : Bool) :
    (lrRun T { o with trim := b } fuel toks).core = (lrRun T o fuel toks).core :=
  lr_trim_recovery_irrelevant T _ _ fuel toks rfl

theorem lr_recovery_flag_irrelevant (T : LRTables) (o : Opts) (fuel : Nat) (toks : List MTok) (b : Bool) :
    (lrRun T { o with recovery := b } fuel toks).core = (lrRun T o fuel toks).core :=
  lr_trim_recovery_irrelevant T _ _ fuel toks rfl

/-- The statement left open in Props/C20 holds. -/
theorem lrTrimIrrelevant_holds : LRTrimIrrelevant := fun T o fuel toks b =>
  ⟨congrArg CoreOut.res (lr_trim_irrelevant T o fuel toks b),
   congrArg CoreOut.actions (lr_trim_irrelevant T o fuel toks b)⟩

/-- **Depth limit (LR)**: a run with depth limit `m` either coincides with the unlimited run in
    result, actions, comments and steps (the limit was not reached), or it ends with the
    depth-limit error for a depth (state-stack length) exceeding the limit — never with anything
    else. -/
theorem lr_depth_limit (T : LRTables) (o : Opts) (fuel : Nat) (toks : List MTok) (m : Nat) :
    (lrRun T { o with maxDepth := some m } fuel toks).core = (lrRun T { o with maxDepth := none } fuel toks).core ∨
    ∃ d, d > m ∧ (lrRun T { o with maxDepth := some m } fuel toks).res = .depth d := by
  rw [lrRun_core, lrRun_core]
  rcases lrCore_depth T m fuel ⟨[0], toks, [], [], []⟩ 0 with h | ⟨d, hd, h⟩
  · exact Or.inl h
  · refine Or.inr ⟨d, hd, ?_⟩
    have hc := lrRun_core T { o with maxDepth := some m } fuel toks
    have hres : (lrRun T { o with maxDepth := some m } fuel toks).res =
        (lrRun T { o with maxDepth := some m } fuel toks).core.res := rfl
    rw [hres, hc]; exact h

/-- A depth limit that is not exceeded changes nothing. -/
theorem lr_depth_unreached_irrelevant (T : LRTables) (o : Opts) (fuel : Nat) (toks : List MTok) (m : Nat)
    (h : ∀ d, (lrRun T { o with maxDepth := some m } fuel toks).res ≠ .depth d) :
    (lrRun T { o with maxDepth := some m } fuel toks).core = (lrRun T { o with maxDepth := none } fuel toks).core := by
  rcases lr_depth_limit T o fuel toks m with h1 | ⟨d, _, h2⟩
  · exact h1
  · exact absurd h2 (h d)

-- Non-vacuity on the table of Props/C03 with interleaved skipped tokens.
example : (lrRun exLR ⟨true, false, none⟩ 100 exLRSkips).res = .ok := by decide
example : (lrRun exLR ⟨true, false, none⟩ 100 exLRSkips).tree = [] := by decide
example : (lrRun exLR ⟨true, false, none⟩ 100 exLRSkips).comments = [3] := by decide
example : (lrRun exLR ⟨false, false, some 2⟩ 100 exLRSkips).res = .depth 3 := by decide
example : (lrRun exLR ⟨false, false, some 5⟩ 100 exLRSkips).res = .ok := by decide

end ParolModel
