import Lean
import ParolModel.Model.PanicSites
import ParolModel.Proofs.PanicFree
import ParolModel.Props.C05
import ParolModel.Props.C06
import ParolModel.Props.C07
import ParolModel.Props.C09
import ParolModel.Props.C10
import ParolModel.Props.C11
import ParolModel.Props.C12
import ParolModel.Props.C32
/-! # C26 — parol never panics on any grammar text

Property text: *For every input text given to parol as a grammar, reading, checking, transforming,
analysing and generating either succeed or return an error; no stage panics, for either grammar type
and any lookahead limit.*

**What is proved here, and what is not.** The statement quantifies over all byte strings and the
whole pipeline. Only the MODELLED stages can be reasoned about: canonicalisation, `generate_name`,
the four well-formedness computations and `check_and_transform_grammar`, one round of left
factoring, LR augmentation, the packed k-tuples (`Terminals`), FIRST/FOLLOW/`decidable`, the
lookahead tries and their union. For these

* `Model/PanicSites.lean` lists every panic-capable construct of their sixteen source files
  (`panicSites`, regenerated from `/repo` and compared on every run) and says how each one is
  discharged — by a theorem, by a guard a few lines above (inspection), or not at all;
* the theorems below restate and compose the totality results of C05–C12 and C32 into the chain
  "the previous stage's `Ok` establishes this stage's precondition" (`chain`); the links that are
  NOT proved are listed there with `none`.

The full statement is `NeverPanics` at the end; it is NOT proved and is FALSE on the unchanged code
(findings F10, F35–F37, reproduced by the exploration harness on every run; F1 and F13 — lalry's
`unreachable!()` — were of this kind and have been repaired in parol). The PAR front
end (`parol_parser`, `ParolGrammar` actions, `GrammarConfig::try_from`), type deduction, symbol
table, source rendering and the external crates lalry / scnr2_generate are not modelled: for them
`harness/src/c26.rs` only EXPLORES (mutated and generated grammar texts through the real pipeline
under `catch_unwind`). Termination is not covered either: the models take fuel, "no panic" does not
exclude an endless loop. -/
namespace ParolModel.Panic
open ParolModel

/-! ## stage: canonicalisation (`transform_productions`) -/

/-- **"transforming … no stage panics"** for EBNF canonicalisation: for every production list,
    both grammar types and every fuel, the model of `transform_productions` never reaches its panic
    branch (the out-of-range `Vec::remove` of `eliminate_single_opt`, case 2); it ends with the
    plain productions, with `finalize`'s error, or out of fuel. No precondition. -/
theorem stage_total_canon (ty : GType) (fuel : Nat) (ps : List EProd) :
    canon ty fuel ps ≠ .panic ∧
    ((∃ rs, canon ty fuel ps = .ok rs) ∨ canon ty fuel ps = .finalizeError ∨ canon ty fuel ps = .fuel) := by
  refine ⟨canon_ne_panic ty fuel ps, ?_⟩
  cases h : canon ty fuel ps with
  | ok rs => exact .inl ⟨rs, rfl⟩
  | fuel => exact .inr (.inr rfl)
  | panic => exact absurd h (canon_ne_panic ty fuel ps)
  | finalizeError => exact .inr (.inl rfl)

/-- `utils::generate_name` (used by canonicalisation, left factoring and augmentation): the search
    always ends with a name outside the exclusions. (The counter is an unbounded `Nat` here; the
    `usize` counter of the code overflows for a numeric suffix of 2^64 − 1 — finding F35.) -/
theorem stage_total_generate_name (excl : List Name) (pref : Name) :
    ∃ X, generateName excl pref = some X ∧ X ∉ excl := by
  obtain ⟨X, hX⟩ := generate_name_total excl pref
  exact ⟨X, hX, canon_generate_name_not_mem hX⟩

/-! ## stage: well-formedness checks (`check_and_transform_grammar_with_ignored`) -/

/-- **"checking … either succeed or return an error"**: for every grammar, both grammar types and
    every set of tolerated non-terminals the check yields a verdict — never the panic outcome,
    never exhausted fuel. No precondition. -/
theorem stage_total_check (G : Grammar) (ll : Bool) (ign : List Nat) :
    ∃ r, checkGrammar G ll ign = .ok r := by
  obtain ⟨r, hr, _⟩ := check_rejects_iff G ll ign
  exact ⟨r, hr⟩

/-- `pre_established` for the one explicit panic of cfg.rs (`get_non_terminal_ordering`:
    "Start symbol not found in any production", reached through
    `detect_left_recursive_non_terminals` / `calculate_nullable_non_terminals`): once the
    productivity check — which `check_and_transform_grammar` runs first — has found no
    non-productive non-terminal, the start symbol has a production and neither function panics. -/
theorem pre_established_ordering (G : Grammar) (h : nonProductiveSet G = some []) :
    nullableCode G ≠ .panic ∧ leftRecCode G ≠ .panic := by
  obtain ⟨l, hl, _, hs⟩ := productive_eq G
  rw [h] at hl
  injection hl with hl
  have hprod : Productive G G.start := by
    apply Classical.byContradiction
    intro hn
    have hm := (hs G.start).2 ⟨start_mem_nts G, hn⟩
    rw [← hl] at hm
    cases hm
  have hp : ∃ p ∈ G.prods, p.lhs = G.start := by
    obtain ⟨w, hw⟩ := hprod
    obtain ⟨p, hp, hlhs, _⟩ := yield_nt_inv hw
    exact ⟨p, hp, hlhs⟩
  obtain ⟨h1, h2, _⟩ := code_panics_iff G
  exact ⟨fun e => (h1.1 e) hp, fun e => (h2.1 e) hp⟩

/-! ## stages: left factoring (LL(k)) and augmentation (LALR(1)) -/

/-- One round of `left_factor` (`factor_out`) yields a result for every grammar, every prefix list
    and every hash-map drain order: `generate_name` finds a suffix name and the "empty production
    list" panic of `mod_factor` is not reached. (That the number of rounds is finite is C10's
    unproved `LeftFactorTerminates`.) -/
theorem stage_total_left_factor_round (ord : GroupOrd) (rs : List RuleN) :
    ∃ rs' m, factorOut ord rs = some (rs', m) := factor_out_total ord rs

/-- `augment_grammar` yields a grammar for every input. -/
theorem stage_total_augment (G : Grammar) : ∃ G', augmentGrammar G = some G' := augmentGrammar_total G

/-! ## the chain: `check_and_transform_grammar` Ok ⇒ the class of C06/C05 -/

/-- **`pre_established` for FIRST_k / FOLLOW_k / `decidable`**: a grammar that passes
    `check_and_transform_grammar` for LL(k) (verdict `passed` of the model, C11) lies in the class in
    which C06 proves the computed sets exact and C05 proves the decision exact: every non-terminal
    used is productive, every production has a terminating right context, and the left-corner
    relation (through nullable prefixes) has a rank function. (C05/C06 need in addition that no
    terminal is numbered 0 — parol numbers user terminals from 5 — see `pre_established_c05`.) -/
theorem pre_established_analysis (G : Grammar)
    (hpass : checkGrammar G true [] = .ok .passed) :
    KS.Productive G ∧ KS.Reachable G ∧ KS.NoLeftRec G := by
  obtain ⟨r, hr, hiff⟩ := check_rejects_iff G true []
  rw [hpass] at hr
  injection hr with hr
  obtain ⟨hprod, hreach, hnlr⟩ := hiff.1 hr.symm
  have hreach' : ∀ A ∈ nts G, Reachable G A := fun A hA => hreach A hA (by simp)
  exact ⟨ks_productive_of hprod, ks_reachable_of hprod hreach', noLeftRec_of_not_leftRec G (hnlr rfl)⟩

/-- Composition with C05/C06: under the same verdict, for every production's left-hand side the
    hypothesis bundle of C05's theorems (`C05Hyp`: the computed FIRST_k/FOLLOW_k sets are the
    declarative ones for all k ≤ K, FOLLOW is inhabited) holds whenever the fixpoint computations
    finish within the fuel. -/
theorem pre_established_c05 (G : Grammar) (fuel K : Nat)
    (hpass : checkGrammar G true [] = .ok .passed) (hno : KS.NoEoi G)
    (hcomp : ∀ k, 1 ≤ k → k ≤ K → (KS.firstCode G fuel k).isSome ∧ (KS.followCode G fuel k).isSome)
    (p : Rule) (hp : p ∈ G.prods) : KS.C05Hyp G fuel K p.lhs := by
  obtain ⟨h1, h2, h3⟩ := pre_established_analysis G hpass
  exact KS.c05Hyp_of_class hno h1 h2 h3 hcomp hp

/-! ## stage: packed k-tuples (`Terminals`) -/

/-- `Terminals::new(m)` (reached from every `KTupleBuilder`/`KTuplesBuilder` call of
    `first_k`/`follow_k`) is total exactly below the 12-bit limit: for `m + 1 < 4096` it returns a
    word (well-formed: C32's `wf_new`), otherwise it panics. -/
theorem stage_total_terminals (m : Nat) :
    (m + 1 < 4096 → ∃ t, Tm.new m = some t) ∧ (4096 ≤ m + 1 → Tm.new m = none) := by
  constructor
  · intro h
    cases hn : Tm.new m with
    | none => exact absurd ((Tm.new_panics_iff m).1 hn) (by omega)
    | some t => exact ⟨t, rfl⟩
  · exact (Tm.new_panics_iff m).2

/-- `max_terminal_index` is the number of terminals of the grammar plus the five built-in ones:
    up to 4089 user terminals `Terminals::new` is total. -/
theorem pre_established_terminals (n : Nat) (h : n ≤ 4089) : ∃ t, Tm.new (n + 5) = some t :=
  (stage_total_terminals (n + 5)).1 (by omega)

/-- **Finding F10 (witness)**: with 4090 user terminals the constructor panics, and no earlier stage
    rejects such a grammar (reproduced through the real pipeline by the exploration harness). -/
theorem f10_witness : Tm.new (4090 + 5) = none := (stage_total_terminals (4090 + 5)).2 (by omega)

/-! ## stage: lookahead tries and their union (`lookahead_dfa.rs`) -/

/-- On non-empty, pairwise disjoint, prefix-free tuple sets the uniting loop of
    `calculate_lookahead_dfas` reaches neither a panic path nor a false conflict. -/
theorem stage_total_unite (k : Nat) {sets : List (Nat × List Tuple)} (ok : SetsOk sets) (hne : sets ≠ []) :
    (∃ d, uniteAll true k sets = some (.ok d)) ∨ uniteAll true k sets = some (.error .fuel) :=
  unite_no_false_conflict k ok hne

/-! ## the table -/

/-- Shape of the table: an entry is discharged by theorems iff it names at least one; the totals
    per way of discharging. These numbers are what the evidence reports. -/
theorem table_shape :
    panicSites.all (fun s => (s.how == .theorem) == !s.dischargedBy.isEmpty) = true ∧
    ((panicSites.map (·.count)).foldl (· + ·) 0 = 191) ∧
    (((panicSites.filter (·.how == .theorem)).map (·.count)).foldl (· + ·) 0 = 111) ∧
    (((panicSites.filter (·.how == .localguard)).map (·.count)).foldl (· + ·) 0 = 39) ∧
    (((panicSites.filter (·.how == .constant)).map (·.count)).foldl (· + ·) 0 = 3) ∧
    (((panicSites.filter (·.how == .offpath)).map (·.count)).foldl (· + ·) 0 = 9) ∧
    (((panicSites.filter (·.how == .open)).map (·.count)).foldl (· + ·) 0 = 29) := by
  decide

/-! ## the full statement (not proved; false on the unchanged code) -/

/-- Outcome of running the generation pipeline on a grammar text. -/
inductive PipelineOutcome | ok | err | panic

/-- **C26, full statement**: for every function `run` that *is* parol's pipeline (text, grammar
    type override, lookahead limit ↦ outcome), no input makes it panic. `run` is a parameter
    because the front end, the generators and the external crates have no Lean model: the statement
    cannot even be instantiated, let alone proved. What is proved is the chain above for the
    modelled stages; what is explored is `run` itself (the real code). -/
def NeverPanics (run : List UInt8 → Bool → Nat → PipelineOutcome) : Prop :=
  ∀ text ll k, run text ll k ≠ .panic

/-! ## non-vacuity -/

/-- canonicalisation runs and ends normally on the F7 grammar of C09 -/
example : canon .ll 20 f7E ≠ .fuel ∧ canon .ll 20 f7E ≠ .finalizeError := by decide

/-- the well-formedness chain applies to `S: A "b"; A: ; A: "a";` -/
example : checkGrammar ⟨0, [⟨0, [.n 1, .t 6]⟩, ⟨1, []⟩, ⟨1, [.t 5]⟩]⟩ true [] = .ok .passed := by decide

example : KS.NoLeftRec ⟨0, [⟨0, [.n 1, .t 6]⟩, ⟨1, []⟩, ⟨1, [.t 5]⟩]⟩ :=
  (pre_established_analysis _ (by decide)).2.2

/-- a left-recursive grammar does not pass for LL (so the hypothesis is not vacuous the other way) -/
example : checkGrammar ⟨0, [⟨0, [.n 0, .t 5]⟩, ⟨0, [.t 5]⟩]⟩ true [] = .ok (.leftRecursion [0]) := by decide

/-- the start symbol without production: the direct calls panic, the chain's hypothesis fails -/
example : nullableCode ⟨0, [⟨1, [.t 5]⟩]⟩ = .panic ∧ nonProductiveSet ⟨0, [⟨1, [.t 5]⟩]⟩ ≠ some [] := by decide

/-! ## every theorem named by the table and the chain exists (checked when this file is compiled) -/

open Lean Elab Command in
run_cmd do
  let env ← getEnv
  let names := (panicSites.flatMap (·.dischargedBy)) ++ chain.filterMap (·.totalBy) ++
    chain.filterMap (·.preEstablishedBy)
  for s in names do
    match env.find? s.toName with
    | some (.thmInfo _) => pure ()
    | _ => throwError "C26: the panic-site table names `{s}`, which is not a theorem of the project"

end ParolModel.Panic
