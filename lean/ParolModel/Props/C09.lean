import ParolModel.Proofs.Canon
import ParolModel.Proofs.Bnf
import ParolModel.Proofs.GenName
/-! # C09 — EBNF canonicalisation preserves the language

Property text: *For every grammar text parol accepts, the plain productions it derives from groups,
alternations, optionals and repetitions generate exactly the same token sequences as the grammar as
written, for both LL(k) and LALR(1) grammar types. Helper non-terminals it introduces never
coincide with names already used in the grammar.*

Formalisation. `E : List EProd` is the production list the front end built (`ParolGrammar.productions`),
`YieldE`/`LangE` its semantics (Model/Ebnf.lean). `canon ty fuel E` mirrors
`transform_productions(E, ty)` (Model/Canon.lean): `extract_options`, then the loop
`separate_alternatives ; eliminate_repetitions ; eliminate_options ; eliminate_groups`, `finalize`.
Names are texts; `generateName` mirrors `utils::generate_name`. "Names already used in the grammar"
are `variableNames E` (left-hand sides and all non-terminals of right-hand sides, nested ones
included — `variable_names` as repaired for finding F7).

All theorems hold for both grammar types (`ty` is universally quantified; the LL(k) and LALR(1)
variants of repetition elimination have their own step theorems).

**Necessary hypothesis `st ∈ variableNames E`.** `variable_names` does not contain the start
symbol. If the start symbol is neither defined nor used, a helper may take its name; the real
pipeline accepts such a grammar (finding F23, `canon_start_clash_counterexample`). -/
namespace ParolModel

/-! ## one theorem per step (`step_preserves_lang`) -/

/-- **extract_options** (one optional, found depth-first, becomes `XOpt: (alts)` / `XOpt: ;`):
    every factor string over the old names derives the same token sequences before and after. -/
theorem extract_step_preserves_lang {ps ps' : List EProd} (h : extractStep ps = .changed ps')
    (fs : List Factor) (w : List Nat) (hfs : ∀ x ∈ altVars fs, x ∈ variableNames ps) :
    YieldE ps fs w ↔ YieldE ps' fs w := (extractStep_ok h).equiv fs w hfs

/-- **separate_alternatives** (one production with several alternations becomes one production
    per alternation). -/
theorem sep_step_preserves_lang {ps ps' : List EProd} (h : sepStep ps = .changed ps')
    (fs : List Factor) (w : List Nat) (hfs : ∀ x ∈ altVars fs, x ∈ variableNames ps) :
    YieldE ps fs w ↔ YieldE ps' fs w := (sepStep_ok h).equiv fs w hfs

/-- **eliminate_repetitions, LL(k)**: `R → x {a} y` becomes `R → x R' y; R' → a R'; R' → ε`
    (or `R' → (a) R'` when the repetition has several alternatives). -/
theorem rep_step_preserves_lang_ll {ps ps' : List EProd} (h : repStep .ll ps = .changed ps')
    (fs : List Factor) (w : List Nat) (hfs : ∀ x ∈ altVars fs, x ∈ variableNames ps) :
    YieldE ps fs w ↔ YieldE ps' fs w := (repStep_ok h).equiv fs w hfs

/-- **eliminate_repetitions, LALR(1)**: `R → x {a} y` becomes `R → x R' y; R' → R' a; R' → ε`
    (left-recursive helper). -/
theorem rep_step_preserves_lang_lr {ps ps' : List EProd} (h : repStep .lr ps = .changed ps')
    (fs : List Factor) (w : List Nat) (hfs : ∀ x ∈ altVars fs, x ∈ variableNames ps) :
    YieldE ps fs w ↔ YieldE ps' fs w := (repStep_ok h).equiv fs w hfs

/-- **eliminate_options** (`R → x [a] y` becomes `R → x a y; R → x y`, or with a helper for
    several alternatives). The Rust code removes the optional from alternation `0` of the copied
    production (`rhs.0[0]`), which is the located alternation when every production has one
    alternation — the state `separate_alternatives` leaves; hence the hypothesis. In the pipeline
    this step never fires (`optStep_noOpt`: `extract_options` has removed every optional). -/
theorem opt_step_preserves_lang {ps ps' : List EProd} (hs : SingleAlts ps)
    (h : optStep ps = .changed ps')
    (fs : List Factor) (w : List Nat) (hfs : ∀ x ∈ altVars fs, x ∈ variableNames ps) :
    YieldE ps fs w ↔ YieldE ps' fs w := (optStep_ok hs h).equiv fs w hfs

/-- **eliminate_groups** (`R → x (g) y` becomes `R → x g y`, or `R → x G y; G → g₁ | g₂ …`). -/
theorem group_step_preserves_lang {ps ps' : List EProd} (h : groupStep ps = .changed ps')
    (fs : List Factor) (w : List Nat) (hfs : ∀ x ∈ altVars fs, x ∈ variableNames ps) :
    YieldE ps fs w ↔ YieldE ps' fs w := (groupStep_ok h).equiv fs w hfs

/-! ## the whole transformation -/

/-- **C09, language**: whenever the modelled `transform_productions` succeeds on `E` (any grammar
    type, any fuel that sufficed) with the plain productions `B`, then `B` generates from the start
    symbol exactly the token sequences of the grammar as written. Stated on the EBNF semantics of
    the plain productions. -/
theorem canon_preserves_langE {ty : GType} {fuel : Nat} {E : List EProd} {B : List RuleN}
    (h : canon ty fuel E = .ok B) {st : Name} (hst : st ∈ variableNames E) (w : List Nat) :
    LangE (B.map RuleN.toEProd) st w ↔ LangE E st w :=
  ((canon_ok h).equiv [.n st .none] w (by simpa [altVars, Factor.vars] using hst)).symm

/-- **C09, language**, on the shared context-free semantics `Lang` of `Spec/Cfg` (the one the
    membership oracle `member` decides): for every numbering `ν` of the names that is injective on
    the names of `B` and the start symbol. -/
theorem canon_preserves_lang {ty : GType} {fuel : Nat} {E : List EProd} {B : List RuleN}
    (h : canon ty fuel E = .ok B) {st : Name} (hst : st ∈ variableNames E)
    (ν : Name → Nat) (V : List Name) (hinj : InjOn ν V) (hV : ∀ x ∈ namesN B, x ∈ V)
    (hstV : st ∈ V) (w : List Nat) :
    Lang (toGrammar ν st B) w ↔ LangE E st w :=
  (lang_toGrammar ν st B V hinj hV hstV w).trans (canon_preserves_langE h hst w)

/-- **C09, `generate_name`**: the generated name is not in the exclusion list. -/
theorem canon_generate_name_not_mem {excl : List Name} {pref X : Name}
    (h : generateName excl pref = some X) : X ∉ excl := generateName_not_mem h

/-- **C09, `generate_name` always finds a name**: the model's search budget of
    `|exclusions| + 1` numbered candidates suffices (pigeonhole; the decimal rendering of the
    counter is injective), so the Rust `while` loop terminates for every input. -/
theorem generate_name_total (excl : List Name) (pref : Name) :
    ∃ X, generateName excl pref = some X := generateName_total excl pref

/-- **C09, helper names**: every left-hand side of the result is a left-hand side of the grammar
    as written, or it is none of the names used in it (no hypothesis on defined-ness is needed any
    more: `variable_names` descends into groups, optionals and repetitions). -/
theorem helper_fresh {ty : GType} {fuel : Nat} {E : List EProd} {B : List RuleN}
    (h : canon ty fuel E = .ok B) :
    ∀ r ∈ B, r.lhs ∈ E.map (·.lhs) ∨ r.lhs ∉ variableNames E := by
  intro r hr
  have := (canon_ok h).lhs r.toEProd (List.mem_map.2 ⟨r, hr, rfl⟩)
  simpa [RuleN.toEProd] using this

/-- names are never lost: every name of the grammar as written is a name of the result -/
theorem canon_keeps_names {ty : GType} {fuel : Nat} {E : List EProd} {B : List RuleN}
    (h : canon ty fuel E = .ok B) :
    ∀ x ∈ variableNames E, x ∈ variableNames (B.map RuleN.toEProd) := (canon_ok h).names

/-! ## the excluded point: the start symbol is not a "used name" for `variable_names` (F23) -/

/-- `%start NList %% N: { "t5" N "t6" };` — the start symbol is neither defined nor used. -/
def startClashE : List EProd :=
  [⟨"N".toList, [⟨[.rep [[.t 5, .n "N".toList .none, .t 6]]], .none⟩]⟩]

/-- **C09 fails without `st ∈ variableNames E`**: the repetition helper of `N` takes the name of the
    undefined start symbol `NList`; the result generates the empty word from `NList`, the grammar
    as written generates nothing. The real pipeline accepts this grammar text (checked on every
    run by `checks/c09.py`). -/
theorem canon_start_clash_counterexample :
    ∃ B, canon .ll 20 startClashE = .ok B ∧
      (∃ r ∈ B, r.lhs = "NList".toList) ∧ "NList".toList ∉ startClashE.map (·.lhs) ∧
      LangE (B.map RuleN.toEProd) "NList".toList [] ∧ ¬ LangE startClashE "NList".toList [] := by
  refine ⟨[⟨"N".toList, [.n "NList".toList .repAnchor], .none⟩,
           ⟨"NList".toList, [.t 5, .n "N".toList .none, .t 6, .n "NList".toList .none], .addToColl⟩,
           ⟨"NList".toList, [], .collStart⟩], by decide,
           ⟨⟨"NList".toList, [], .collStart⟩, by simp, rfl⟩, by decide, ?_, ?_⟩
  · exact (Der.yield ⟨(⟨"NList".toList, [], .collStart⟩ : RuleN).toEProd, by simp, rfl,
      ⟨[], .collStart⟩, by simp [RuleN.toEProd], .nil⟩ _)
  · intro h
    obtain ⟨p, hp, hl, _⟩ := yieldE_nt_inv h
    simp only [startClashE, List.mem_singleton] at hp
    subst hp
    revert hl
    decide

/-! ## non-vacuity -/

/-- the grammar of finding F7, `S: {"a"} ("b" | "c" SList);` with `SList` undefined: the helper is
    now `SList0` (both grammar types), and the theorems apply (`S` is a used name). -/
def f7E : List EProd :=
  [⟨"S".toList, [⟨[.rep [[.t 5]], .group [[.t 6], [.t 7, .n "SList".toList .none]]], .none⟩]⟩]

example : canon .ll 20 f7E = .ok
    [⟨"S".toList, [.n "SList0".toList .repAnchor, .n "SGroup".toList .none], .none⟩,
     ⟨"SGroup".toList, [.t 6], .none⟩,
     ⟨"SGroup".toList, [.t 7, .n "SList".toList .none], .none⟩,
     ⟨"SList0".toList, [.t 5, .n "SList0".toList .none], .addToColl⟩,
     ⟨"SList0".toList, [], .collStart⟩] := by decide

example : canon .lr 20 f7E = .ok
    [⟨"S".toList, [.n "SList0".toList .repAnchor, .n "SGroup".toList .none], .none⟩,
     ⟨"SGroup".toList, [.t 6], .none⟩,
     ⟨"SGroup".toList, [.t 7, .n "SList".toList .none], .none⟩,
     ⟨"SList0".toList, [.n "SList0".toList .none, .t 5], .addToColl⟩,
     ⟨"SList0".toList, [], .collStart⟩] := by decide

example : "S".toList ∈ variableNames f7E := by decide

/-- nested optional inside a repetition, optional name rule `Opt[0-9]*$` -/
example : canon .ll 40
    [⟨"AOpt".toList, [⟨[.rep [[.opt [[.t 5], [.t 6]], .n "AOpt".toList .none]]], .none⟩]⟩] = .ok
    [⟨"AOpt".toList, [.n "AOptList".toList .repAnchor], .none⟩,
     ⟨"AOptList".toList, [.n "AOpt0".toList .option, .n "AOpt".toList .none, .n "AOptList".toList .none], .addToColl⟩,
     ⟨"AOptList".toList, [], .collStart⟩,
     ⟨"AOpt0".toList, [.n "AOpt0Group".toList .none], .optSome⟩,
     ⟨"AOpt0Group".toList, [.t 5], .none⟩,
     ⟨"AOpt0Group".toList, [.t 6], .none⟩,
     ⟨"AOpt0".toList, [], .optNone⟩] := by decide

end ParolModel
