import ParolModel.Proofs.KFollow
/-! # C06 — FIRST_k and FOLLOW_k sets match their definitions

Property text: *For every grammar parol accepts and every k up to the maximum lookahead, the FIRST_k
set computed for each production and non-terminal, and the FOLLOW_k set computed for each
non-terminal, equal the sets defined by k-truncated concatenation over all derivations (end of input
included in FOLLOW of the start symbol). This holds regardless of the order in which the sets for
different k are requested.*

Formalisation. Tuples are token lists, end of input is token `0`.
`FirstK G k α t` :⇔ `∃ w, α ⇒* w ∧ t = w.take k`;
`FollowK G k A t` :⇔ `∃ α β v, start ⇒* α A β ∧ β ⇒* v ∧ t = (v ++ [0]).take k`
(sentential forms `Derives`, terminal yields `Yield`).
`firstK_lfp` / `followK_lfp` are the reference computations used as oracle; `firstCode`,
`followCode`, `firstGet`, `followGet`, `followDirect` are the faithful models of `first_k`,
`follow_k`, `FirstCache::get`, `FollowCache::get` and of a direct `follow_k` call on shared caches
(`Model/KSets.lean`). -/
namespace ParolModel.KS

/-- **Reference = definition (FIRST)**: *"the FIRST_k set … for each production and non-terminal
    … equal the sets defined by k-truncated concatenation over all derivations"* — for EVERY grammar
    and k the Kleene iteration from ⊥, once it reports stabilisation, holds exactly the declarative
    set of every non-terminal, and `firstSeqRef` over it gives exactly the declarative set of every
    symbol string (in particular of every production's right-hand side). -/
theorem firstK_lfp_eq_spec (G : Grammar) (k fuel : Nat) (E : Env) (h : firstK_lfp G k fuel = some E) :
    (∀ A t, t ∈ envGet E A ↔ FirstK G k [.n A] t) ∧
    (∀ α t, t ∈ firstSeqRef k (envGet E) α ↔ FirstK G k α t) :=
  firstK_lfp_correct h

/-- **Reference = definition (FOLLOW)**: *"the FOLLOW_k set computed for each non-terminal equal[s]
    the set defined by k-truncated concatenation over all derivations (end of input included in
    FOLLOW of the start symbol)"* — for EVERY grammar and k. -/
theorem followK_lfp_eq_spec (G : Grammar) (k fuel : Nat) (E : Env) (h : followK_lfp G k fuel = some E) :
    ∀ A t, t ∈ envGet E A ↔ FollowK G k A t := by
  intro A t
  rw [followK_iff_ctx]
  exact followK_lfp_correct h A t

/-- **Cache order**: *"This holds regardless of the order in which the sets for different k are
    requested."* — whatever sequence of `FirstCache::get(k)`, `FollowCache::get(k)` and direct
    `follow_k(k)` calls is issued against initially empty caches, every answer is the value of the
    pure function of (G, k). -/
theorem cache_order_irrelevant (G : Grammar) (fuel : Nat) (reqs : List Req) (rs : List Reply)
    (h : runReqs G fuel reqs Caches.empty = some rs) :
    reqs.mapM (pureReply G fuel) = some rs :=
  runReqs_spec reqs Caches.empty rs (cacheOK_empty G fuel) h

/-- **Seeding never loses a tuple**: for EVERY grammar (left-recursive or not) and k ≥ 1, every
    fixpoint of the step function of `first_k` — in particular whatever the seeded iteration stops
    at — contains the declarative FIRST_k set in every non-terminal slot and every production slot. -/
theorem first_any_fixpoint_superset (G : Grammar) (k : Nat) (V : FirstVec) (hk : 1 ≤ k) (hno : NoEoi G)
    (hkeys : V.nts.map (·.1) = ntsOf G) (hfix : vecSame (stepFirst G k V) V = true) :
    (∀ A t, FirstK G k [.n A] t → t ∈ envGet V.nts A) ∧
    (∀ i p, G.prods[i]? = some p → ∀ t, FirstK G k p.rhs t → t ∈ V.prods.getD i []) :=
  fixpoint_superset hk hno hkeys hfix

/-- **Uniqueness of the fixpoint without left recursion** (the hard lemma): in a productive grammar
    whose left-corner relation (through nullable prefixes, i.e. including hidden left recursion) is
    well-founded, every well-formed fixpoint of the step function of `first_k` holds EXACTLY the
    declarative FIRST_k sets. Hence the seed (FIRST_{k−1} re-tagged) cannot influence the result. -/
theorem first_fixpoint_unique_noLeftRec (G : Grammar) (k : Nat) (V : FirstVec) (hk : 1 ≤ k)
    (hno : NoEoi G) (hprod : Productive G) (hnlr : NoLeftRec G) (hwf : VecWf G k V)
    (hfix : vecSame (stepFirst G k V) V = true) :
    (∀ A t, t ∈ envGet V.nts A ↔ FirstK G k [.n A] t) ∧
    (∀ i p, G.prods[i]? = some p → ∀ t, t ∈ V.prods.getD i [] ↔ FirstK G k p.rhs t) :=
  fixpoint_eq_spec hk hno hprod hnlr hwf hfix

/-- **`first_k` = definition**: *"For every grammar parol accepts and every k …, the FIRST_k set
    computed for each production and non-terminal … equal[s] the set defined by k-truncated
    concatenation over all derivations"* — for productive grammars without (hidden) left recursion
    and every k ≥ 1, whatever the faithful model of the public `first_k` (seeded with its own result
    for k − 1, recursively) returns is exactly the declarative set, slot by slot. -/
theorem first_k_eq_spec (G : Grammar) (fuel k : Nat) (V : FirstVec) (hk : 1 ≤ k)
    (hno : NoEoi G) (hprod : Productive G) (hnlr : NoLeftRec G)
    (h : firstCode G fuel k = some V) :
    (∀ A t, t ∈ envGet V.nts A ↔ FirstK G k [.n A] t) ∧
    (∀ i p, G.prods[i]? = some p → ∀ t, t ∈ V.prods.getD i [] ↔ FirstK G k p.rhs t) := by
  obtain ⟨hwf, hfix⟩ := firstCode_fix hno k V h
  exact fixpoint_eq_spec hk hno hprod hnlr hwf hfix

/-- **`follow_k` = definition**: *"the FOLLOW_k set computed for each non-terminal … equal[s] the
    set defined by k-truncated concatenation over all derivations (end of input included in FOLLOW of
    the start symbol)"* — for productive, reachable grammars without (hidden) left recursion and
    every k ≥ 1, the faithful model of the public `follow_k` (Gauss–Seidel sweeps over fresh
    accumulators, stopped when the position map repeats, first compared with the map of k − 1 — a
    stop at that first comparison is covered) returns exactly the declarative FOLLOW_k for every
    non-terminal. (k = 0 is excluded: there the code returns `[EOI]` for the start symbol, see the
    check's K0-EOI observation.) -/
theorem followK_eq_spec (G : Grammar) (fuel k : Nat) (r : List TSet × Env) (hk : 1 ≤ k)
    (hno : NoEoi G) (hprod : Productive G) (hreach : Reachable G) (hnlr : NoLeftRec G)
    (h : followCode G fuel k = some r) :
    ∀ A t, t ∈ envGet r.2 A ↔ FollowK G k A t := by
  intro A t
  rw [followK_iff_ctx]
  exact (followCode_ok hno hprod hreach hnlr k hk r h).acc A t

/-- The hypothesis is needed: with hidden left recursion (`A: B A | ; B: | "b" "c";`, which parol
    rejects) the seeded iteration keeps stale tuples of the k = 1 seed at k = 2 and ends in a
    fixpoint that is NOT the least one. -/
theorem first_unique_needs_noLeftRec :
    seededAgrees ⟨0, [⟨0, [.n 1, .n 0]⟩, ⟨0, []⟩, ⟨1, []⟩, ⟨1, [.t 5, .t 6]⟩]⟩ 2 50 = some false := by
  decide

/-! ## non-vacuity -/

/-- `S: A "b"; A: ; A: "a";` — FIRST_2(S) = {b, ab} and the reference computes it. -/
example : (firstK_lfp ⟨0, [⟨0, [.n 1, .t 6]⟩, ⟨1, []⟩, ⟨1, [.t 5]⟩]⟩ 2 10).map (fun E => envGet E 0)
    = some [[6], [5, 6]] := by decide

example : FirstK ⟨0, [⟨0, [.n 1, .t 6]⟩, ⟨1, []⟩, ⟨1, [.t 5]⟩]⟩ 2 [.n 0] [5, 6] :=
  ⟨[5, 6], by
    have h1 : Yield ⟨0, [⟨0, [.n 1, .t 6]⟩, ⟨1, []⟩, ⟨1, [.t 5]⟩]⟩ [.t 5] [5] := .term 5 .nil
    have h2 : Yield ⟨0, [⟨0, [.n 1, .t 6]⟩, ⟨1, []⟩, ⟨1, [.t 5]⟩]⟩ [.n 1, .t 6] ([5] ++ [6]) :=
      .nonterm ⟨1, [.t 5]⟩ (by simp) h1 (.term 6 .nil)
    exact yield_single (p := ⟨0, [.n 1, .t 6]⟩) (by simp) h2, rfl⟩

/-- the faithful models run and agree with the reference on this grammar -/
example : (followCode ⟨0, [⟨0, [.n 1, .t 6]⟩, ⟨1, []⟩, ⟨1, [.t 5]⟩]⟩ 10 2).map (fun r => envGet r.2 1)
    = some [[6, 0]] := by decide

example : (followK_lfp ⟨0, [⟨0, [.n 1, .t 6]⟩, ⟨1, []⟩, ⟨1, [.t 5]⟩]⟩ 2 10).map (fun E => envGet E 1)
    = some [[6, 0]] := by decide

/-- the class hypotheses are jointly satisfiable, and the end-to-end theorems apply: on
    `S: A "b"; A: ; A: "a";` whatever `first_k` / `follow_k` return at k = 2 is the declarative set -/
example (V : FirstVec) (h : firstCode Gex 50 2 = some V) (t : Tup) :
    t ∈ envGet V.nts 0 ↔ FirstK Gex 2 [.n 0] t :=
  (first_k_eq_spec Gex 50 2 V (by omega) gex_noEoi gex_productive gex_noLeftRec h).1 0 t

example (r : List TSet × Env) (h : followCode Gex 50 2 = some r) (t : Tup) :
    t ∈ envGet r.2 1 ↔ FollowK Gex 2 1 t :=
  followK_eq_spec Gex 50 2 r (by omega) gex_noEoi gex_productive gex_reachable gex_noLeftRec h 1 t

example : (firstCode Gex 50 2).isSome = true ∧ (followCode Gex 50 2).isSome = true := by decide

end ParolModel.KS
