import ParolModel.Proofs.LRTreeRun
import ParolModel.Props.C03
import ParolModel.Props.C17b
/-! # C03 (tree / action half) — LALR(1) parsers build a derivation and report it in post-order

Property text: *On success every reduction is reported once, the reductions form a rightmost
derivation in reverse, and the final tree is rooted at the start symbol and covers every token* —
i.e. the sequence of semantic-action calls (each with the children of that production application as
arguments) is the post-order of a derivation tree, and the parse tree is that derivation tree:
root = start symbol, every inner node one production with its right-hand side as children in order,
leaves = the tokens.

Formalisation. `DTree` (Model/LRTree.lean) is a derivation tree with the skipped tokens attached: a
token leaf (significant or skipped) or a production application `node p lhs kids`; skipped-token leaves
are children that do not count as grammar symbols (`DTree.sig`). `d.wf gprods` says every inner node
`node p lhs kids` is production `p` of `gprods`: `lhs` is its left-hand side and the counting children
are exactly its right-hand side, in order. `d.nodes` lists the production applications in post-order,
`d.postActs` their action calls `(p, counting children)` — terminals as `tok id type`, non-terminals
as `nt lhs`, the form in which `lrRun` records arguments —, `d.events` is the pre-order event
rendering, `d.leaves` all token leaves and `d.frontier` the significant token types.

* `lr_tree_actions` — for EVERY table that passes `lrTableValid` and EVERY token sequence, a successful
  run of the model `lrRun` of `LRParser::parse_into` has a derivation tree `d` of the start symbol
  whose frontier is the input, whose post-order action list IS the recorded action trace and whose
  event rendering (below the artificial root, after the leading skipped tokens) IS the recorded tree.
* `dtree_is_derivation` — a well-formed tree derives its frontier (`Yield`), so `d` above is a
  derivation tree of the input in the grammar `⟨T.start, gprods⟩`.
* `dtree_postorder_rev_rightmost` — the post-order production list of a well-formed tree, read
  backwards, is a rightmost derivation (`RmDeriv`) of the frontier from the root symbol: the
  reductions are "the reverse of a rightmost derivation".
* `lr_treeCheck_ok` — the executable statement `treeCheck`, which the check evaluates on the REAL
  parser's output through the handler `lr-tree-check`, is a theorem about the model's output.
* `lr_action_arity` — every recorded action of production `p` has exactly `|rhs p|` arguments, and
  they are the right-hand-side symbols in order (finding F20 was a violation of exactly this in the
  real code: tokens skipped through a scanner state's `%skip` list were counted as symbols). -/
namespace ParolModel

/-- **C03, tree/action half.** With a table that passes `lrTableValid`, if the LR parser model
    succeeds there is a derivation tree `d` (with attached skipped tokens) such that
    * the root of `d` is a production of the start symbol and every inner node is one production with
      its right-hand side as counting children in order (`wf`);
    * the frontier of `d` is the sequence of significant token types of the input;
    * the recorded action trace is the post-order list of `d`'s production applications, each with
      its counting children as arguments — every application exactly once, children before parents;
    * the tokens that reach the parse-tree stack (all tokens; only the significant ones when
      trimming) are some leading skipped tokens `pre` followed by the leaves of `d`, in order;
    * untrimmed, the recorded tree events are `root( pre, d )`: the artificial root, the leading
      skipped tokens, the pre-order rendering of `d`.
    (Hypothesis on the input: no significant token carries the end-of-input type 0.) -/
theorem lr_tree_actions (T : LRTables) (gprods : List Rule) (hv : lrTableValid T gprods = true)
    (o : Opts) (fuel : Nat) (toks : List MTok) (hne : ∀ t ∈ toks, t.skip = false → t.ty ≠ 0)
    (h : (lrRun T o fuel toks).res = .ok) :
    ∃ (d : DTree) (pre : List MTok),
      (∃ p kids, d = .node p T.start kids) ∧ d.wf gprods = true ∧
      d.frontier = sigTypes toks ∧
      (lrRun T o fuel toks).actions = d.postActs ∧
      (∀ t ∈ pre, t.skip = true) ∧ pre ++ d.leaves = toks.filter (keepTok o.trim) ∧
      (o.trim = false →
        (lrRun T o fuel toks).tree = .open_ none :: pre.map tokEvOf ++ d.events ++ [.close]) := by
  obtain ⟨p, kids, pre, hwf, hpre, hleaves, hacts, htree⟩ := lrRun_tree T gprods hv o fuel toks hne h
  refine ⟨.node p T.start kids, pre, ⟨p, kids, rfl⟩, hwf, ?_, hacts, hpre, hleaves, ?_⟩
  · have h1 : sigToks (pre ++ (DTree.node p T.start kids).leaves) = sigToks (toks.filter (keepTok o.trim)) := by
      rw [hleaves]
    have h2 : sigToks pre = [] := by
      simp only [sigToks, List.filter_eq_nil_iff]
      intro t ht; simp [hpre t ht]
    have h3 : sigToks (toks.filter (keepTok o.trim)) = sigToks toks := by
      simp only [sigToks, List.filter_filter]
      apply List.filter_congr
      intro t _
      cases hs : t.skip <;> simp [keepTok, hs]
    simp only [sigToks, List.filter_append] at h1 h2 h3
    simp only [DTree.frontier, sigTypes, sigToks]
    rw [← h3, ← h1, h2, List.nil_append]
  · intro htrim
    rw [htree, htrim]; rfl

/-- **The tree is a derivation tree**: a well-formed `DTree` derives its frontier from its root symbol
    in the grammar of the productions; in particular the tree of `lr_tree_actions` derives the input
    from the start symbol (this re-proves `lr_sound` through the tree). -/
theorem dtree_is_derivation (start : Nat) (gprods : List Rule) (d : DTree) (hwf : d.wf gprods = true)
    (hs : d.sig = true) : Yield ⟨start, gprods⟩ [d.sym] d.frontier :=
  dtree_yield start gprods d hwf hs

/-- **Reverse rightmost derivation**: for a well-formed tree, applying the productions of its post-order
    list (= the order in which the LR parser reports the reductions) in REVERSE order is a rightmost
    derivation of the frontier from the root symbol: each step rewrites the rightmost non-terminal. -/
theorem dtree_postorder_rev_rightmost (gprods : List Rule) (d : DTree) (hwf : d.wf gprods = true)
    (hs : d.sig = true) :
    RmDeriv gprods (d.postActs.map (·.1)).reverse [d.sym] (d.frontier.map Sym.t) := by
  have := dtree_rightmost_ctx gprods d hwf hs [] []
  simpa [prodSeq, DTree.postActs, ProdApp.action, DTree.frontier, sigTypes, Function.comp_def] using this

/-- The reductions reported by a successful run, read backwards, are a rightmost derivation of the
    input from the start symbol. -/
theorem lr_reductions_rev_rightmost (T : LRTables) (gprods : List Rule) (hv : lrTableValid T gprods = true)
    (o : Opts) (fuel : Nat) (toks : List MTok) (hne : ∀ t ∈ toks, t.skip = false → t.ty ≠ 0)
    (h : (lrRun T o fuel toks).res = .ok) :
    RmDeriv gprods ((lrRun T o fuel toks).actions.map (·.1)).reverse [.n T.start] ((sigTypes toks).map Sym.t) := by
  obtain ⟨d, pre, ⟨p, kids, rfl⟩, hwf, hfr, hacts, _⟩ := lr_tree_actions T gprods hv o fuel toks hne h
  rw [hacts, ← hfr]
  exact dtree_postorder_rev_rightmost gprods _ hwf rfl

/-- **The executable statement is a theorem about the model.** `treeCheck`, instantiated exactly as
    in the handler `lr-tree-check` that judges the real parser's output (`lrTreeCheck`), accepts the
    action trace and tree of every successful untrimmed run of the model with a valid table, if token
    ids are positions (as the harness numbers them). -/
theorem lr_treeCheck_ok (T : LRTables) (gprods : List Rule) (hv : lrTableValid T gprods = true)
    (o : Opts) (fuel : Nat) (toks : List MTok) (hne : ∀ t ∈ toks, t.skip = false → t.ty ≠ 0)
    (htrim : o.trim = false) (hid : toks.map (·.id) = List.range toks.length)
    (h : (lrRun T o fuel toks).res = .ok) :
    lrTreeCheck T.start gprods toks (lrRun T o fuel toks).actions (lrRun T o fuel toks).tree = none := by
  obtain ⟨p, kids, pre, hwf, hpre, hleaves, hacts, htree⟩ := lrRun_tree T gprods hv o fuel toks hne h
  rw [hacts, htree, htrim]
  have hkeep : toks.filter (keepTok false) = toks := by
    rw [List.filter_eq_self]; intro t _; rfl
  rw [htrim, hkeep] at hleaves
  exact treeCheck_dtree T.start gprods toks pre p kids hid hwf hpre hleaves

/-- The handler `lr-tree-check` with the right-hand-side conversion written as `lrSymPT`. -/
theorem handleLRTreeCheck_unfold (st gps toks acts tree : String) :
    handleLRTreeCheck [st, gps, toks, acts, tree] = (do
      let st ← st.toNat?
      let gps ← parseRules gps
      let toks ← parseToks toks
      let acts ← parseActions acts
      let tree ← parseTree tree
      match treeCheck st (fun p => gps[p]?.map (·.lhs)) (fun p => gps[p]?.map (fun r => r.rhs.map lrSymPT))
          toks acts tree with
      | none => some "ok"
      | some why => some s!"fail {why}") := rfl

/-- `lrTreeCheck` is the function the handler `lr-tree-check` evaluates: on a request whose words
    parse to `start`, `gprods`, `ts`, and to the protocol form of `acts` and `tr`, the handler answers
    `ok` exactly when `lrTreeCheck start gprods ts acts tr = none`. -/
theorem lrTreeCheck_eq_handler (st gps toks acts tree : String) (start : Nat) (gprods : List Rule)
    (ts : List MTok) (as : List (Nat × List PTItem)) (tr : List TreeEv)
    (h1 : st.toNat? = some start) (h2 : parseRules gps = some gprods) (h3 : parseToks toks = some ts)
    (h4 : parseActions acts = some (actionsAsChildren as)) (h5 : parseTree tree = some tr) :
    handleLRTreeCheck [st, gps, toks, acts, tree] = some "ok" ↔ lrTreeCheck start gprods ts as tr = none := by
  rw [handleLRTreeCheck_unfold]
  simp only [h1, h2, h3, h4, h5, Option.bind_eq_bind, Option.bind_some, lrTreeCheck]
  split
  · rename_i heq; simp [heq]
  · rename_i why heq
    simp only [heq, Option.some.injEq, reduceCtorEq, iff_false]
    intro h
    have := congrArg String.length h
    simp only [String.length_append] at this
    have e1 : (toString "fail ").length = 5 := by decide
    have e2 : ("ok" : String).length = 2 := by decide
    omega

/-- **Action arity**: every action recorded by a successful run with a valid table is the call of a
    production `p` of the grammar with exactly `|rhs p|` arguments, and the arguments are the
    right-hand-side symbols in order (terminals as tokens of that type, non-terminals by their
    left-hand side). Skipped tokens never count as arguments. -/
theorem lr_action_arity (T : LRTables) (gprods : List Rule) (hv : lrTableValid T gprods = true)
    (o : Opts) (fuel : Nat) (toks : List MTok) (hne : ∀ t ∈ toks, t.skip = false → t.ty ≠ 0)
    (h : (lrRun T o fuel toks).res = .ok) :
    ∀ a ∈ (lrRun T o fuel toks).actions, ∃ r, gprods[a.1]? = some r ∧
      a.2.length = r.rhs.length ∧ a.2.map itemSym = r.rhs := by
  obtain ⟨p, kids, pre, hwf, _, _, hacts, _⟩ := lrRun_tree T gprods hv o fuel toks hne h
  intro a ha
  rw [hacts] at ha
  obtain ⟨n, hn, rfl⟩ := List.mem_map.1 ha
  have hok : n.ok gprods = true := by
    simp only [DTree.wf, List.all_eq_true] at hwf
    exact hwf n hn
  obtain ⟨r, hr, _, hsyms⟩ := ProdApp.ok_iff.1 hok
  have hmap : n.action.2.map itemSym = r.rhs := by
    rw [← hsyms]
    simp only [ProdApp.action, ProdApp.syms, List.map_map]
    apply List.map_congr_left
    intro k _; exact DTree.itemSym_arg k
  exact ⟨r, hr, by rw [← hmap]; simp, hmap⟩

-- ---------------------------------------------------------------------------------------------
-- Non-vacuity on the table of Props/C03 and the input `( ws ( /*c*/ ) ) ws` of Props/C14b/C17b.

/-- The derivation tree of `( ws ( /*c*/ ) ) ws` for `S0: S; S: '(' L ')'; L: S | ;` — the skipped
    tokens 1, 3, 6 are non-counting children of the production in whose span they were read. -/
def exLRTree : DTree :=
  .node 3 2 [
    .node 2 1 [
      .leaf ⟨5, false, false, 0⟩, .leaf ⟨2, true, false, 1⟩,
      .node 0 0 [
        .node 2 1 [.leaf ⟨5, false, false, 2⟩, .leaf ⟨3, true, true, 3⟩, .node 1 0 [], .leaf ⟨6, false, false, 4⟩]],
      .leaf ⟨6, false, false, 5⟩, .leaf ⟨1, true, false, 6⟩]]

example : lrTableValid exLR exLRg = true := by decide
example : (lrRun exLR ⟨false, false, none⟩ 100 exLRSkips).res = .ok := by decide
example : exLRTree.wf exLRg = true := by decide
example : exLRTree.leaves = exLRSkips := by decide
example : exLRTree.frontier = [5, 5, 6, 6] := by decide
example : (lrRun exLR ⟨false, false, none⟩ 100 exLRSkips).actions = exLRTree.postActs := by decide
example : (lrRun exLR ⟨false, false, none⟩ 100 exLRSkips).tree =
    .open_ none :: exLRTree.events ++ [.close] := by decide
example : (lrRun exLR ⟨false, false, none⟩ 100 exLRSkips).actions =
    [(1, []), (2, [.tok 2 5, .nt 0, .tok 4 6]), (0, [.nt 1]), (2, [.tok 0 5, .nt 0, .tok 5 6]), (3, [.nt 1])] := by
  decide
example : exLRSkips.map (·.id) = List.range exLRSkips.length := by decide
example : lrTreeCheck exLR.start exLRg exLRSkips (lrRun exLR ⟨false, false, none⟩ 100 exLRSkips).actions
    (lrRun exLR ⟨false, false, none⟩ 100 exLRSkips).tree = none := by decide
-- `treeCheck` is not vacuous: it rejects the same tree with the F20-style action in which the skipped
-- token 3 is reported as an argument of production 2
example : (lrTreeCheck exLR.start exLRg exLRSkips
    [(1, []), (2, [.tok 2 5, .tok 3 3, .nt 0, .tok 4 6]), (0, [.nt 1]), (2, [.tok 0 5, .nt 0, .tok 5 6]), (3, [.nt 1])]
    (lrRun exLR ⟨false, false, none⟩ 100 exLRSkips).tree).isSome = true := by decide
-- trimmed run: same actions, the tree keeps only the significant tokens
example : (lrRun exLR ⟨true, false, none⟩ 100 exLRSkips).actions = exLRTree.postActs := by decide
-- leading skipped tokens stay below the root, in front of the tree (`pre`)
example : (lrRun exLR ⟨false, false, none⟩ 100 (⟨1, true, false, 9⟩ :: exLRToks [5, 6])).tree =
    [.open_ none, .tok 9, .open_ (some 2), .open_ (some 1), .tok 0, .open_ (some 0), .close, .tok 1, .close, .close,
     .close] := by decide

end ParolModel
