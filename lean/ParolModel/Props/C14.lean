import ParolModel.Props.C17
import ParolModel.Model.Lossless
/-! # C14 — Tokens and parse trees are lossless

Property text: *For every input, the tokens the runtime produces (significant, skipped, comments and
unmatched gaps) are contiguous, in order, and their texts concatenate to exactly the input, with
byte offsets and line/column positions that match the text. The leaves of a successful LL or LR parse
tree, read left to right, are exactly these tokens.*

Two clauses. (1) Token stream: `TokenBuffer::add` fills every gap between two delivered matches with
an `INVALID_TOKEN` gap token — modelled and proved in Props/C13 (`gap_iff_unmatched`,
`stream_indep_of_k`: the delivered sequence is the matches with gaps filled plus one EOI) and C16;
here `tokensContiguous` is the decidable statement "offsets are contiguous from 0 to the input
length and every token's text is the input slice at its offsets and its line/column are those of its
start offset", evaluated on the REAL token stream of every explored input. (2) Parse tree: for the
LL parser `ll_leaves_eq_tokens` (all inputs); for the LR parser the executable statement `treeCheck`
on every successful real run (the LR analogue is not proved yet, `LRLeavesEqTokens`). -/
namespace ParolModel

/-- **Leaves = tokens (LL)**: the token leaves of a successful, untrimmed LL parse tree, read left to
    right, are exactly the delivered tokens (significant, skipped, comments, gaps) in order. -/
theorem ll_leaves_eq_tokens (T : LLTables) (o : Opts) (fuel : Nat) (toks : List MTok)
    (hT : TablesSound T) (hwf : ∀ pr ∈ T.prods, ∀ x ∈ pr.rhsRev, PT.isE x = false)
    (htrim : o.trim = false) (h : (llRun T o fuel toks).res = .ok) :
    tokIds (llRun T o fuel toks).tree = toks.map (·.id) :=
  ll_all_tokens_in_tree T o fuel toks hT hwf htrim h

/-- If the statement holds, the token spans partition the input: concatenating the slices gives it back. -/
theorem tokensContiguous_concat (bytes : List Nat) (toks : List LocTok) (h : tokensContiguous bytes toks = true) :
    (toks.flatMap fun t => (bytes.drop t.start).take (t.stop - t.start)) = bytes := by
  have key : ∀ (l : List LocTok) (pos : Nat), pos ≤ bytes.length → tokensContiguous.go bytes pos l = true →
      (l.flatMap fun t => (bytes.drop t.start).take (t.stop - t.start)) = bytes.drop pos := by
    intro l
    induction l with
    | nil =>
      intro pos _ hgo
      simp only [tokensContiguous.go, beq_iff_eq] at hgo
      simp [hgo]
    | cons t rest ih =>
      intro pos hpos hgo
      simp only [tokensContiguous.go, Bool.and_eq_true, beq_iff_eq, decide_eq_true_eq] at hgo
      obtain ⟨⟨⟨hs, hle⟩, _⟩, hrest⟩ := hgo
      subst hs
      -- t.stop ≤ bytes.length follows from the rest of the walk
      have hstop : t.stop ≤ bytes.length := by
        have aux : ∀ (l : List LocTok) (p : Nat), tokensContiguous.go bytes p l = true → p ≤ bytes.length := by
          intro l
          induction l with
          | nil => intro p hp; simp only [tokensContiguous.go, beq_iff_eq] at hp; omega
          | cons u us ihu =>
            intro p hp
            simp only [tokensContiguous.go, Bool.and_eq_true, beq_iff_eq, decide_eq_true_eq] at hp
            obtain ⟨⟨⟨h1, h2⟩, _⟩, h3⟩ := hp
            have := ihu u.stop h3
            omega
        exact aux rest t.stop hrest
      simp only [List.flatMap_cons]
      rw [ih t.stop hstop hrest]
      -- drop start = take (stop - start) of it ++ drop stop
      have : bytes.drop t.start = (bytes.drop t.start).take (t.stop - t.start) ++ (bytes.drop t.start).drop (t.stop - t.start) :=
        (List.take_append_drop _ _).symm
      rw [List.drop_drop] at this
      have hadd : t.start + (t.stop - t.start) = t.stop := by omega
      rw [hadd] at this
      exact this.symm
  have := key toks 0 (Nat.zero_le _) h
  simpa using this

/-- Full statement for the LR parser (NOT proved yet; see the module comment). -/
def LRLeavesEqTokens : Prop :=
  ∀ (T : LRTables) (o : Opts) (fuel : Nat) (toks : List MTok), o.trim = false →
    (lrRun T o fuel toks).res = .ok → tokIds (lrRun T o fuel toks).tree = toks.map (·.id)

example : tokensContiguous [97, 32, 195, 156, 10, 98] [⟨0, 1, 1, 1⟩, ⟨1, 2, 1, 2⟩, ⟨2, 4, 1, 3⟩, ⟨4, 5, 1, 4⟩, ⟨5, 6, 2, 1⟩] = true := by
  decide

end ParolModel
