import ParolModel.Proofs.LsEdits
/-! # C28 — Renaming a symbol in the language server is a consistent renaming

Property text: *For every valid grammar text, renaming a non-terminal or scanner state (other than
the start symbol and INITIAL) to a fresh identifier yields edits whose application produces the
same grammar with exactly that symbol renamed everywhere and nothing else changed.*

There is no model of the server's rename code (symbol tables filled by semantic actions). The
property is decided per explored (text, symbol, new name) by the verified checker `renameCheck`
(`Model/LsEdits.lean`, run by the native driver as `ls28-check`) on the answers of the REAL server
(`harness/src/ls/c28.rs`; tie V). This module proves what the checker's verdict means, for ALL
texts, token lists and edit lists:

* `applyEdits_order_indep` — "edits whose application": the result of applying a `TextEdit[]`
  under LSP semantics does not depend on the order of the array (overlapping edits and two edits at
  one offset are rejected in every order);
* `applyEdits_spec` — applying exactly the ranges of a set of tokens, each replaced by the new
  name, gives `renameSpec`: the spans of those tokens replaced, every other code unit unchanged;
* `renameCheck_sound` — the checker accepts only if the server's edits apply, the edited text is
  `renameSpec` for the tokens that denote the symbol ("exactly that symbol renamed everywhere and
  nothing else changed"), it is the text that the real scanner lexed, and the token sequence of
  the edited text is the original one with exactly those tokens carrying the new name.

Not proved (partial): the ∀ over grammar texts — it is covered per explored text only; and that
the harness's token list is the scanner's (the real scanner is run, not modelled). -/
namespace ParolModel
open Ls28

/-- "yields edits whose application produces …": the application is well defined for the edit SET —
    any two orders of the same edits give the same result (or are both rejected). -/
theorem applyEdits_order_indep (t : Text) (es1 es2 : List LspEdit) (hp : es1.Perm es2) :
    applyEdits t es1 = applyEdits t es2 := by
  unfold applyEdits
  rcases mapOpt_perm (toFlat t) hp with ⟨h1, h2⟩ | ⟨r1, r2, h1, h2, hr⟩
  · rw [h1, h2]
  · rw [h1, h2]
    exact applyFlat_perm _ _ _ hr

/-- The same on flat offsets: disjoint edits commute. -/
theorem applyFlat_order_indep (units : List Nat) (es1 es2 : List Edit) (hp : es1.Perm es2) :
    applyFlat units es1 = applyFlat units es2 :=
  applyFlat_perm units es1 es2 hp

/-- "exactly that symbol renamed everywhere and nothing else changed", edit side: if the tokens
    `toks` tile part of `units` in order (`renameSpec` is defined) and every selected token is
    non-empty, then applying exactly the edits "replace the span of each selected token by `new`"
    — in any order — produces `renameSpec`: those spans replaced, all other units copied. -/
theorem applyEdits_spec (units : List Nat) (toks : List Tok) (sel : Tok → Bool) (new r : List Nat)
    (hspec : renameSpec sel new units 0 toks = some r)
    (hne : ∀ tk ∈ toks, sel tk = true → tk.start < tk.stop)
    (es : List Edit) (hp : es.Perm (tokEdits sel new toks)) :
    applyFlat units es = some r := by
  rw [applyFlat_perm units es _ hp]
  unfold applyFlat
  rw [sortE_of_sorted _ (tokEdits_sorted sel new toks (renameSpec_sorted sel new toks _ _ _ hspec))]
  exact applySorted_tokEdits sel new toks units 0 0 r hspec hne (Nat.le_refl 0)

/-- The line structure the oracle works on loses nothing: splitting a text into lines (LF, CRLF or
    CR ended) and concatenating them again gives the text, so "everything else unit-identical"
    is about the whole text. -/
theorem splitLines_lossless (units : List Nat) : flatten (splitLines units) = units :=
  flatten_splitLines' units

/-- What an accepted rename answer satisfies. `toks` / `rtoks` are the harness's token lists
    converted to offsets. -/
def RenameOk (c : Case) : Prop :=
  -- the server's edits apply under LSP semantics and give `res`; token positions are valid
  ∃ (toks rtoks : List Tok) (res : List Nat),
    mapOpt (flatTok c.text) c.toks = some toks ∧
    mapOpt (flatTok c.resText) c.resToks = some rtoks ∧
    applyEdits c.text c.edits = some res ∧
    -- the edited text is the original with exactly the spans of the symbol's tokens replaced
    renameSpec (selects (flatten c.text) c.kind c.name) c.newName (flatten c.text) 0 toks = some res ∧
    -- it is the text whose tokens the real scanner delivered as `resToks`
    flatten c.resText = res ∧
    -- and its token sequence (type, text) is the original one with exactly those tokens renamed
    actualToks res rtoks =
      toks.map (fun tk => (tk.ty,
        if selects (flatten c.text) c.kind c.name tk then c.newName
        else slice (flatten c.text) tk.start tk.stop))

/-- "renaming … yields edits whose application produces the same grammar with exactly that symbol
    renamed everywhere and nothing else changed": the checker accepts only then. -/
theorem renameCheck_sound (c : Case) (h : renameCheck c = true) : RenameOk c := by
  unfold renameCheck at h
  cases ht : mapOpt (flatTok c.text) c.toks with
  | none => simp [ht] at h
  | some toks =>
    cases hr : mapOpt (flatTok c.resText) c.resToks with
    | none => simp [ht, hr] at h
    | some rtoks =>
      cases ha : applyEdits c.text c.edits with
      | none => simp [ht, hr, ha] at h
      | some res =>
        simp only [ht, hr, ha, Bool.and_eq_true, beq_iff_eq] at h
        obtain ⟨⟨h1, h2⟩, h3⟩ := h
        exact ⟨toks, rtoks, res, ht, hr, ha, h1, h2, by simpa [expectedToks] using h3⟩

/-- The accepted text is also what ANY application order of exactly the token edits produces: the
    checker's verdict does not depend on how the server orders or the client applies the edits. -/
theorem renameCheck_edits_equiv (c : Case) (h : renameCheck c = true) :
    ∃ (toks : List Tok) (res : List Nat),
      mapOpt (flatTok c.text) c.toks = some toks ∧ applyEdits c.text c.edits = some res ∧
      ((∀ tk ∈ toks, selects (flatten c.text) c.kind c.name tk = true → tk.start < tk.stop) →
        ∀ es : List Edit,
          es.Perm (tokEdits (selects (flatten c.text) c.kind c.name) c.newName toks) →
          applyFlat (flatten c.text) es = some res) := by
  obtain ⟨toks, _, res, h1, _, h3, h4, _, _⟩ := renameCheck_sound c h
  exact ⟨toks, res, h1, h3, fun hne es hp => applyEdits_spec _ toks _ _ res h4 hne es hp⟩

/-! Non-vacuity and sanity: a two-line CRLF document with a BMP and an astral character. -/

/-- `"😀" Ab\r\nAb;` as UTF-16 units: the astral character takes two units. -/
def demoUnits : List Nat := utf16s "\"😀\" Ab\r\nAb;".toList

example : splitLines demoUnits =
    [⟨[34, 0xD83D, 0xDE00, 34, 32, 65, 98], [13, 10]⟩, ⟨[65, 98, 59], []⟩] := by decide

example : flatten (splitLines demoUnits) = demoUnits := by decide

/-- renaming `Ab` (tokens at line 0, units 5..7 and line 1, units 0..2) to `Xyz` with correct UTF-16
    ranges, given in reverse order: accepted text is the specified one -/
example : applyEdits (splitLines demoUnits) [⟨1, 0, 1, 2, [88, 121, 122]⟩, ⟨0, 5, 0, 7, [88, 121, 122]⟩] =
    some (utf16s "\"😀\" Xyz\r\nXyz;".toList) := by decide

/-- the ranges the server computes in characters (finding F18): one unit too far left after `😀` -/
example : applyEdits (splitLines demoUnits) [⟨0, 4, 0, 6, [88, 121, 122]⟩, ⟨1, 0, 1, 2, [88, 121, 122]⟩] =
    some (utf16s "\"😀\"Xyzb\r\nXyz;".toList) := by decide

/-- overlapping edits are rejected -/
example : applyEdits (splitLines demoUnits) [⟨0, 4, 0, 6, []⟩, ⟨0, 5, 0, 7, []⟩] = none := by decide

/-- the checker accepts the correct answer and rejects the F18 answer -/
def demoCase (edits : List LspEdit) (res : String) (rtoks : List PTok) : Case :=
  ⟨splitLines demoUnits,
   [⟨37, 0, 0, 0, 4, 0⟩, ⟨36, 0, 5, 0, 7, 1⟩, ⟨36, 1, 0, 1, 2, 1⟩, ⟨26, 1, 2, 1, 3, 0⟩],
   1, [65, 98], [88, 121, 122], edits, splitLines (utf16s res.toList), rtoks⟩

example : renameCheck (demoCase [⟨1, 0, 1, 2, [88, 121, 122]⟩, ⟨0, 5, 0, 7, [88, 121, 122]⟩]
    "\"😀\" Xyz\r\nXyz;"
    [⟨37, 0, 0, 0, 4, 0⟩, ⟨36, 0, 5, 0, 8, 0⟩, ⟨36, 1, 0, 1, 3, 0⟩, ⟨26, 1, 3, 1, 4, 0⟩]) = true := by
  decide

example : renameCheck (demoCase [⟨0, 4, 0, 6, [88, 121, 122]⟩, ⟨1, 0, 1, 2, [88, 121, 122]⟩]
    "\"😀\"Xyzb\r\nXyz;"
    [⟨37, 0, 0, 0, 4, 0⟩, ⟨36, 0, 4, 0, 8, 0⟩, ⟨36, 1, 0, 1, 3, 0⟩, ⟨26, 1, 3, 1, 4, 0⟩]) = false := by
  decide

end ParolModel
