import ParolModel.Proofs.Fixpoints
/-! # C11 — Grammar well-formedness checks are exact

Property text: *For every BNF grammar, parol's nullable, productive, reachable and left-recursive
non-terminal sets are exactly the mathematically defined ones. A grammar is rejected for being
non-productive, having unreachable symbols, or (for LL) being left-recursive, and only then, naming
exactly those non-terminals.*

Formalisation (definitions in `Spec/Cfg.lean`, `Spec/Analysis.lean`):

* `Nullable G A    := Yield G [.n A] []`                       — `A ⇒* ε`
* `Productive G A  := ∃ w, Yield G [.n A] w`                   — `A ⇒* w` for a terminal string `w`
* `Reachable G A   := ∃ x y, Derives G [.n G.start] (x ++ .n A :: y)` — `S ⇒* α A β`
* `LeftRec G A     := ∃ b y, Step G [.n A] b ∧ Derives G b (.n A :: y)` — `A ⇒⁺ A γ`; `Derives` is
  `⇒*` on sentential forms with *any* occurrence rewritten, so indirect left recursion and left
  recursion hidden behind nullable prefixes are included.
* the non-terminals of a grammar (`nts G`, `Cfg::get_non_terminal_set`) are characterised by
  `nts_eq`: start symbol, left-hand sides, right-hand-side occurrences.

The computed sets are those of `Model/Fixpoints.lean`, which mirrors the Rust loops sweep by sweep;
each theorem also says that the loop terminates within the fuel the model hands out (the result is
`some _`) and that the result is strictly sorted, i.e. is *the* canonical list of the set — which is
what the implementation prints and what the differential run compares. -/
namespace ParolModel

/-- The non-terminals of a grammar: the start symbol, every left-hand side and every non-terminal
    occurring on a right-hand side (sorted, without duplicates). -/
theorem nts_eq (G : Grammar) :
    (nts G).Pairwise (· < ·) ∧
    ∀ A, A ∈ nts G ↔ A = G.start ∨ ∃ p ∈ G.prods, A = p.lhs ∨ Sym.n A ∈ p.rhs :=
  ⟨nts_sorted G, fun _ => mem_nts⟩

/-- **"parol's nullable … sets are exactly the mathematically defined ones"**:
    `calculate_nullable_non_terminals` (as modelled) terminates and returns exactly `{A | A ⇒* ε}`. -/
theorem nullable_eq (G : Grammar) :
    ∃ l, nullableSet G = some l ∧ l.Pairwise (· < ·) ∧ ∀ A, A ∈ l ↔ Nullable G A := by
  obtain ⟨l, hl⟩ := Option.isSome_iff_exists.mp (nullableSet_isSome G)
  exact ⟨l, hl, nullableSet_sorted hl, nullableCore_spec hl⟩

/-- **"… productive …"**: `non_productive_non_terminals` terminates and returns exactly the
    non-terminals of the grammar that derive no terminal string. -/
theorem productive_eq (G : Grammar) :
    ∃ l, nonProductiveSet G = some l ∧ l.Pairwise (· < ·) ∧
      ∀ A, A ∈ l ↔ A ∈ nts G ∧ ¬ Productive G A := by
  obtain ⟨l, hl⟩ := Option.isSome_iff_exists.mp (nonProductiveSet_isSome G)
  exact ⟨l, hl, nonProductiveSet_sorted hl, nonProductiveCore_spec hl⟩

/-- **"… reachable …"**: `reachable_non_terminals` returns exactly `{A | S ⇒* α A β}` and
    `unreachable_non_terminals` exactly the other non-terminals of the grammar. -/
theorem reachable_eq (G : Grammar) :
    ∃ r u, reachableSet G = some r ∧ unreachableSet G = some u ∧
      r.Pairwise (· < ·) ∧ u.Pairwise (· < ·) ∧
      (∀ A, A ∈ r ↔ Reachable G A) ∧ (∀ A, A ∈ u ↔ A ∈ nts G ∧ ¬ Reachable G A) := by
  obtain ⟨u, hu⟩ := Option.isSome_iff_exists.mp (unreachableSet_isSome G)
  obtain ⟨R, hR⟩ := Option.isSome_iff_exists.mp (reachableCore_isSome G)
  have hr : reachableSet G = some (sortSet R) := by simp [reachableSet, hR]
  exact ⟨_, u, hr, hu, sortSet_sorted R, unreachableSet_sorted hu, reachableSet_spec hr,
    unreachableSet_spec hu⟩

/-- **"… and left-recursive non-terminal sets …"** (quantifier: *including indirect and
    nullable-hidden left recursion*): `detect_left_recursive_non_terminals` returns exactly
    `{A | A ⇒⁺ A γ}`. -/
theorem leftRec_eq (G : Grammar) :
    ∃ l, leftRecSet G = some l ∧ l.Pairwise (· < ·) ∧ ∀ A, A ∈ l ↔ LeftRec G A := by
  obtain ⟨l, hl⟩ := Option.isSome_iff_exists.mp (leftRecSet_isSome G)
  exact ⟨l, hl, leftRecSet_sorted hl, leftRecSet_spec hl⟩

/-- What the two functions that go through `get_non_terminal_ordering` do when called directly:
    they panic exactly on grammars whose start symbol has no production (such a grammar is
    non-productive, so `check_and_transform_grammar` never gets that far — `check_rejects_iff`),
    and otherwise return the sets of `nullable_eq` / `leftRec_eq`. -/
theorem code_panics_iff (G : Grammar) :
    (nullableCode G = .panic ↔ ¬ ∃ p ∈ G.prods, p.lhs = G.start) ∧
    (leftRecCode G = .panic ↔ ¬ ∃ p ∈ G.prods, p.lhs = G.start) ∧
    ((∃ p ∈ G.prods, p.lhs = G.start) →
      (∃ l, nullableCode G = .ok l ∧ ∀ A, A ∈ l ↔ Nullable G A) ∧
      (∃ l, leftRecCode G = .ok l ∧ ∀ A, A ∈ l ↔ LeftRec G A)) := by
  obtain ⟨l1, h1, _, s1⟩ := nullable_eq G
  obtain ⟨l2, h2, _, s2⟩ := leftRec_eq G
  have hb : startHasProd G = true ↔ ∃ p ∈ G.prods, p.lhs = G.start := by
    simp [startHasProd]
  unfold nullableCode leftRecCode
  rw [h1, h2]
  by_cases h : startHasProd G = true
  · have h' := hb.mp h
    simp only [h, if_true, Outcome.ofOption]
    refine ⟨⟨fun e => (by cases e), fun e => absurd h' e⟩, ⟨fun e => (by cases e), fun e => absurd h' e⟩,
      fun _ => ⟨⟨l1, rfl, s1⟩, ⟨l2, rfl, s2⟩⟩⟩
  · have h' : ¬ ∃ p ∈ G.prods, p.lhs = G.start := fun e => h (hb.mpr e)
    simp only [h]
    exact ⟨⟨fun _ => h', fun _ => rfl⟩, ⟨fun _ => h', fun _ => rfl⟩, fun e => absurd e h'⟩

/-- The grammar passes `check_and_transform_grammar_with_ignored` for the grammar type `ll`
    (`true` = LL(k), `false` = LALR(1)) with the set `ign` of unreachable non-terminals to tolerate
    (empty for `check_and_transform_grammar`). -/
def WellFormed (G : Grammar) (ll : Bool) (ign : List Nat) : Prop :=
  (∀ A ∈ nts G, Productive G A) ∧
  (∀ A ∈ nts G, A ∉ ign → Reachable G A) ∧
  (ll = true → ∀ A, ¬ LeftRec G A)

/-- **"A grammar is rejected for being non-productive, having unreachable symbols, or (for LL)
    being left-recursive, and only then"**: the check always produces a verdict (no panic, no
    fuel exhaustion) and the verdict is `passed` iff every non-terminal is productive, every
    non-terminal (outside the tolerated set) is reachable and, for LL, none is left-recursive. -/
theorem check_rejects_iff (G : Grammar) (ll : Bool) (ign : List Nat) :
    ∃ r, checkGrammar G ll ign = .ok r ∧ (r = .passed ↔ WellFormed G ll ign) := by
  obtain ⟨np, hnp, _, snp⟩ := productive_eq G
  obtain ⟨_, ur, _, hur, _, _, _, sur⟩ := reachable_eq G
  obtain ⟨lr, hlr, _, slr⟩ := leftRec_eq G
  refine ⟨_, checkGrammar_eq hnp hur hlr ll ign, ?_⟩
  unfold verdict WellFormed
  by_cases h1 : np.isEmpty
  · have hnil : np = [] := List.isEmpty_iff.mp h1
    have hprod : ∀ A ∈ nts G, Productive G A := by
      intro A hA
      apply Classical.byContradiction
      intro hn
      have := (snp A).mpr ⟨hA, hn⟩
      rw [hnil] at this; cases this
    simp only [h1, Bool.not_true, Bool.false_eq_true, if_false]
    by_cases h2 : (ur.filter (fun a => a ∉ ign)).isEmpty
    · have hnil2 : ur.filter (fun a => a ∉ ign) = [] := List.isEmpty_iff.mp h2
      have hreach : ∀ A ∈ nts G, A ∉ ign → Reachable G A := by
        intro A hA hi
        apply Classical.byContradiction
        intro hn
        have hm : A ∈ ur.filter (fun a => a ∉ ign) := by
          rw [List.mem_filter]; exact ⟨(sur A).mpr ⟨hA, hn⟩, by simpa using hi⟩
        rw [hnil2] at hm; cases hm
      simp only [h2, Bool.not_true, Bool.false_eq_true, if_false]
      by_cases h3 : (ll && !lr.isEmpty) = true
      · simp only [h3, if_true]
        simp only [Bool.and_eq_true, Bool.not_eq_true', List.isEmpty_eq_false_iff] at h3
        obtain ⟨hll, hne⟩ := h3
        constructor
        · intro e; cases e
        · rintro ⟨_, _, hno⟩
          cases hl : lr with
          | nil => exact absurd hl hne
          | cons a t =>
            have : a ∈ lr := by rw [hl]; exact List.mem_cons_self
            exact absurd ((slr a).mp this) (hno hll a)
      · simp only [h3, Bool.false_eq_true, if_false, true_iff]
        refine ⟨hprod, hreach, ?_⟩
        intro hll A hA
        have hm := (slr A).mpr hA
        have : lr.isEmpty = true := by
          cases hb : lr.isEmpty
          · exact absurd (by simp [hll, hb]) h3
          · rfl
        rw [List.isEmpty_iff.mp this] at hm; cases hm
    · have h2' := Bool.eq_false_iff.mpr h2
      simp only [h2', Bool.not_false, if_true]
      constructor
      · intro e; cases e
      · rintro ⟨_, hreach, _⟩
        cases hl : ur.filter (fun a => a ∉ ign) with
        | nil => rw [hl] at h2; exact absurd rfl h2
        | cons a t =>
          have hm : a ∈ ur.filter (fun a => a ∉ ign) := by rw [hl]; exact List.mem_cons_self
          rw [List.mem_filter] at hm
          obtain ⟨hA, hnr⟩ := (sur a).mp hm.1
          exact absurd (hreach a hA (by simpa using hm.2)) hnr
  · have h1' := Bool.eq_false_iff.mpr h1
    simp only [h1', Bool.not_false, if_true]
    constructor
    · intro e; cases e
    · rintro ⟨hprod, _, _⟩
      cases hl : np with
      | nil => rw [hl] at h1; exact absurd rfl h1
      | cons a t =>
        have hm : a ∈ np := by rw [hl]; exact List.mem_cons_self
        obtain ⟨hA, hnp'⟩ := (snp a).mp hm
        exact absurd (hprod a hA) hnp'

/-- **"… naming exactly those non-terminals"**, with the priority non-productive → unreachable →
    left-recursive: each error carries the non-empty, sorted list of exactly the offending
    non-terminals, and a later class is only reported when the earlier ones are empty. -/
theorem check_error_names (G : Grammar) (ll : Bool) (ign : List Nat) :
    (∀ l, checkGrammar G ll ign = .ok (.nonProductive l) →
      l ≠ [] ∧ l.Pairwise (· < ·) ∧ ∀ A, A ∈ l ↔ A ∈ nts G ∧ ¬ Productive G A) ∧
    (∀ l, checkGrammar G ll ign = .ok (.unreachable l) →
      (∀ A ∈ nts G, Productive G A) ∧
      l ≠ [] ∧ l.Pairwise (· < ·) ∧ ∀ A, A ∈ l ↔ (A ∈ nts G ∧ ¬ Reachable G A) ∧ A ∉ ign) ∧
    (∀ l, checkGrammar G ll ign = .ok (.leftRecursion l) →
      ll = true ∧ (∀ A ∈ nts G, Productive G A) ∧ (∀ A ∈ nts G, A ∉ ign → Reachable G A) ∧
      l ≠ [] ∧ l.Pairwise (· < ·) ∧ ∀ A, A ∈ l ↔ LeftRec G A) := by
  obtain ⟨np, hnp, onp, snp⟩ := productive_eq G
  obtain ⟨_, ur, _, hur, _, our, _, sur⟩ := reachable_eq G
  obtain ⟨lr, hlr, olr, slr⟩ := leftRec_eq G
  rw [checkGrammar_eq hnp hur hlr ll ign]
  have hprod : np.isEmpty = true → ∀ A ∈ nts G, Productive G A := by
    intro h1 A hA
    apply Classical.byContradiction
    intro hn
    have := (snp A).mpr ⟨hA, hn⟩
    rw [List.isEmpty_iff.mp h1] at this; cases this
  have hreach : (ur.filter (fun a => a ∉ ign)).isEmpty = true →
      ∀ A ∈ nts G, A ∉ ign → Reachable G A := by
    intro h2 A hA hi
    apply Classical.byContradiction
    intro hn
    have hm : A ∈ ur.filter (fun a => a ∉ ign) := by
      rw [List.mem_filter]; exact ⟨(sur A).mpr ⟨hA, hn⟩, by simpa using hi⟩
    rw [List.isEmpty_iff.mp h2] at hm; cases hm
  unfold verdict
  refine ⟨?_, ?_, ?_⟩
  · intro l h
    injection h with h
    split at h
    · rename_i h1
      injection h with h; subst h
      refine ⟨?_, onp, snp⟩
      intro e; rw [e] at h1; simp at h1
    · split at h
      · cases h
      · split at h <;> cases h
  · intro l h
    injection h with h
    split at h
    · cases h
    · rename_i h1
      split at h
      · rename_i h2
        injection h with h; subst h
        refine ⟨hprod (by simpa using h1), ?_, our.filter _, ?_⟩
        · intro e; rw [e] at h2; simp at h2
        · intro A
          rw [List.mem_filter, sur A]
          simp
      · split at h <;> cases h
  · intro l h
    injection h with h
    split at h
    · cases h
    · rename_i h1
      split at h
      · cases h
      · rename_i h2
        split at h
        · rename_i h3
          injection h with h; subst h
          simp only [Bool.and_eq_true, Bool.not_eq_true', List.isEmpty_eq_false_iff] at h3
          exact ⟨h3.1, hprod (by simpa using h1), hreach (by simpa using h2), h3.2, olr, slr⟩
        · cases h

/-! ## Non-vacuity: the model evaluates, and all verdicts occur -/

/-- `N0 → N1 N0 t5 | ε ; N1 → ε` : left recursion hidden behind the nullable `N1`. -/
def exHidden : Grammar := ⟨0, [⟨0, [.n 1, .n 0, .t 5]⟩, ⟨0, []⟩, ⟨1, []⟩]⟩

example : nullableSet exHidden = some [0, 1] := by decide
example : leftRecSet exHidden = some [0] := by decide
example : checkGrammar exHidden true [] = .ok (.leftRecursion [0]) := by decide
example : checkGrammar exHidden false [] = .ok .passed := by decide

/-- The same shape with a non-nullable `N1`: not left-recursive. -/
example : leftRecSet ⟨0, [⟨0, [.n 1, .n 0, .t 5]⟩, ⟨0, []⟩, ⟨1, [.t 6]⟩]⟩ = some [] := by decide

/-- Indirect: `N0 → N1 t5 ; N1 → N2 ; N2 → N0 t6 | t6`. -/
example : leftRecSet ⟨0, [⟨0, [.n 1, .t 5]⟩, ⟨1, [.n 2]⟩, ⟨2, [.n 0, .t 6]⟩, ⟨2, [.t 6]⟩]⟩
    = some [0, 1, 2] := by decide

/-- `N0 → t5 ; N1 → N2 ; N2 → N1` : `N1`, `N2` are non-productive (and unreachable); the
    non-productive error wins. -/
example : checkGrammar ⟨0, [⟨0, [.t 5]⟩, ⟨1, [.n 2]⟩, ⟨2, [.n 1]⟩]⟩ true []
    = .ok (.nonProductive [1, 2]) := by decide

/-- `N0 → t5 ; N1 → t6` : `N1` is unreachable; tolerated when listed in `ign`. -/
example : checkGrammar ⟨0, [⟨0, [.t 5]⟩, ⟨1, [.t 6]⟩]⟩ true [] = .ok (.unreachable [1]) := by decide
example : checkGrammar ⟨0, [⟨0, [.t 5]⟩, ⟨1, [.t 6]⟩]⟩ true [1] = .ok .passed := by decide

/-- Start symbol without production: the direct calls panic, the check rejects. -/
example : nullableCode ⟨0, [⟨1, [.t 5]⟩]⟩ = .panic := by decide
example : checkGrammar ⟨0, [⟨1, [.t 5]⟩]⟩ true [] = .ok (.nonProductive [0]) := by decide

end ParolModel
