import ParolModel.Proofs.Names
/-! # C33 — Generated identifiers are unique and valid

Property text: *For every accepted grammar, the generated terminal names, non-terminal names, type
names, member names and trait method names are valid Rust identifiers, and names that must be
distinct (within the terminal table, among non-terminals, among members of one type) are distinct.*

What is proved here, for ALL inputs, is the part that goes through the pure naming functions modelled
in `Model/Names.lean` (`generate_name`, `generate_terminal_name(s)`, `NamingHelper`); the models are
tied to the code by the differential run of `checks/c33.py`. Type, member and method names are
allocated by parol's symbol table, which is NOT modelled: for them the property is decided per
explored grammar by the oracles `names-check` / `pairs-check` on the generated source, and the
theorems `names_check_decides` / `pairs_check_decides` below state what those oracles decide.

Character scope of the models: ASCII and `'§'` (see `Model/Names.lean`).

Where the unchanged code falsifies a full statement, the statement is kept as a `def … : Prop`, its
negation is proved on the minimal witness (`…_counterexample`), and the provable part is the
`…_partial` theorem. -/
namespace ParolModel
open Names

/-! ## Distinctness -/

/-- *"names that must be distinct … are distinct"* — `generate_name(exclusions, preferred)` terminates
within `|exclusions| + 1` iterations of its counting loop and its result is not among the exclusions. -/
theorem generate_name_not_mem (excl : List Str) (pref : Str) :
    ∃ r, generateNameFuel (excl.length + 1) excl pref = some r ∧ r ∉ excl := by
  have h := generateName_isSome' excl pref
  unfold generateName at h
  cases hg : generateNameFuel (excl.length + 1) excl pref with
  | none => simp [hg] at h
  | some r => exact ⟨r, rfl, generateNameFuel_not_mem _ _ _ _ hg⟩

/-- A preferred name that is not excluded is used unchanged. -/
theorem generate_name_keeps_free (excl : List Str) (pref : Str) (h : pref ∉ excl) :
    generateName excl pref = some pref := by
  unfold generateName generateNameFuel
  rw [if_neg (by simpa using h)]

/-- *"within the terminal table … are distinct"*, for every input list: folding `generate_name` over
any list of preferred names with the accumulated list as exclusions yields a duplicate-free list of
the same length. -/
theorem names_nodup (prefs : List Str) :
    ∃ r, foldNames [] prefs = some r ∧ r.Nodup ∧ r.length = prefs.length := by
  have h := foldNames_isSome' prefs []
  cases hf : foldNames [] prefs with
  | none => simp [hf] at h
  | some r =>
    refine ⟨r, rfl, foldNames_nodup' prefs [] r List.nodup_nil hf, ?_⟩
    simpa using foldNames_length prefs [] r hf

/-- The `TERMINAL_NAMES` table (`lexer_generator::generate_terminal_names`) has no duplicates and one
entry per augmented terminal (5 built-in + user terminals + error token), for every grammar summary —
including terminals that map to the same preferred name (`+` and `\+`, `'a'` and `"a"`) and names
with numeric suffixes. -/
theorem lexer_terminal_names_nodup (prods : List ProdSum) (terms : List TermSum) :
    ∃ r, lexerTerminalNames prods terms = some r ∧ r.Nodup ∧ r.length = terms.length + 6 := by
  obtain ⟨r, h1, h2, h3⟩ := names_nodup (lexerPreferred prods terms)
  refine ⟨r, h1, h2, ?_⟩
  rw [h3]
  simp [lexerPreferred]

/-- The terminal variants of the node-kind enum (`GrammarConfig::generate_terminal_names`) are distinct
from each other and from the four built-in variants. -/
theorem node_kind_terminal_names_nodup (prods : List ProdSum) (terms : List TermSum) :
    ∃ r, nodeKindTerminalNames prods terms = some r ∧ r.Nodup ∧ r.length = terms.length + 4 := by
  have h := foldNames_isSome' (nodeKindPreferred prods terms) nodeKindInit
  unfold nodeKindTerminalNames
  cases hf : foldNames nodeKindInit (nodeKindPreferred prods terms) with
  | none => simp [hf] at h
  | some r =>
    refine ⟨r, rfl, foldNames_nodup' _ _ r (by decide) hf, ?_⟩
    have := foldNames_length _ _ r hf
    simp [nodeKindPreferred, nodeKindInit] at this
    omega

/-! ## Validity of terminal names -/

/-- *"the generated terminal names … are valid"* — for every non-empty terminal text (ASCII / `'§'`
scope of the model) the name produced by the character table, the `Esc` rule and the leading-digit
rule matches `[A-Za-z_][A-Za-z0-9_]*`. -/
theorem termName_valid_ident (text : Str) (hne : text ≠ []) : validIdent (genTermName text) = true :=
  genTermName_valid text hne

/-- The same for `generate_terminal_name` with any fixed index, when the primary-non-terminal shortcut
does not apply. -/
theorem terminalName_valid_ident (text : Str) (idx : Option Nat) (hne : text ≠ []) :
    validIdent (terminalName text idx none) = true := by
  unfold terminalName
  split
  · decide
  · split <;> first | decide | exact genTermName_valid text hne

/-- With the shortcut (`A: "t";` as the only production of `A`) the terminal is named
`to_upper_camel_case(A)`; valid whenever `A` is a PAR identifier with a character other than `_`. -/
theorem terminalName_primary_valid_ident (text nt : Str) (idx : Nat) (h5 : 5 ≤ idx)
    (ht : text ≠ "ERROR_TOKEN".toList) (hnt : validIdent nt = true) (hu : ∃ c ∈ nt, c ≠ '_') :
    validIdent (terminalName text (some idx) (some nt)) = true := by
  unfold terminalName
  rw [if_neg ht]
  have hb := camelBody_of_validIdent hnt
  have hv : validIdent (toUpperCamelCase nt) = true :=
    camel_valid nt (by rw [hb]; exact validIdent_all hnt) (by rw [hb]; exact hu)
  match idx, h5 with
  | n + 5, _ => simpa using hv

/-- Full statement "every terminal name is an identifier rustc accepts" — false on the unchanged code:
the name is also used as enum variant (node kinds) and, snake-cased, as struct member. -/
def TermNameAlwaysRustIdent : Prop := ∀ text : Str, text ≠ [] → validRustIdent (genTermName text) = true

/-- Finding (whitespace-only terminal, e.g. `" "` under `%auto_ws_off`): the name is `_`. -/
theorem termName_rust_ident_counterexample : ¬ TermNameAlwaysRustIdent := by
  intro h
  exact absurd (h [' '] (by decide)) (by decide)

/-- Finding (terminal `"self"`): the name is `Self`, a keyword. -/
example : genTermName "self".toList = "Self".toList ∧ validRustIdent "Self".toList = false := by decide

/-! ## Validity of camel-case and snake-case names -/

/-- `to_upper_camel_case` yields `[A-Za-z_][A-Za-z0-9_]*` for every name made of identifier characters
(after an optional `r#`) that contains a character other than `_`. -/
theorem camel_valid_ident (name : Str) (h1 : (camelBody name).all isIdentCont = true)
    (h2 : ∃ c ∈ camelBody name, c ≠ '_') : validIdent (toUpperCamelCase name) = true :=
  camel_valid name h1 h2

/-- Full statement for PAR identifiers (`[a-zA-Z_][a-zA-Z0-9_]*`, which is what parol accepts as a
non-terminal name). -/
def CamelAlwaysIdent : Prop := ∀ name : Str, validIdent name = true → validIdent (toUpperCamelCase name) = true

/-- Finding: the non-terminal name `_` (accepted by parol) has the empty type name. -/
theorem camel_always_ident_counterexample : ¬ CamelAlwaysIdent := by
  intro h
  exact absurd (h ['_'] (by decide)) (by decide)

/-- The provable part of `CamelAlwaysIdent`. -/
theorem camel_always_ident_partial (name : Str) (hv : validIdent name = true) (hu : ∃ c ∈ name, c ≠ '_') :
    validIdent (toUpperCamelCase name) = true := by
  have hb := camelBody_of_validIdent hv
  exact camel_valid name (by rw [hb]; exact validIdent_all hv) (by rw [hb]; exact hu)

/-- `to_lower_snake_case` incl. keyword escaping: for every non-empty name made of identifier
characters the result is either an identifier `[A-Za-z_][A-Za-z0-9_]*` that is not in parol's keyword
table, or `r#k` for a keyword `k` of that table. -/
theorem snake_valid_ident (name : Str) (hne : name ≠ []) (h : name.all isIdentCont = true) :
    (validIdent (toLowerSnakeCase name) = true ∧ isRustKeyword (toLowerSnakeCase name) = false) ∨
    (∃ k, toLowerSnakeCase name = 'r' :: '#' :: k ∧ validIdent k = true ∧ isRustKeyword k = true) := by
  have hv := snake_pre_valid name hne h
  have hdef : toLowerSnakeCase name = escapeRustKeyword
      (if startsWithDigit (snakeFold [] '.' name) then '_' :: snakeFold [] '.' name
        else snakeFold [] '.' name) := rfl
  rw [hdef]
  generalize (if startsWithDigit (snakeFold [] '.' name) then '_' :: snakeFold [] '.' name
        else snakeFold [] '.' name) = pre at hv
  unfold escapeRustKeyword
  by_cases hk : isRustKeyword pre = true
  · rw [if_pos hk]; exact Or.inr ⟨pre, rfl, hv, hk⟩
  · rw [if_neg hk]; exact Or.inl ⟨hv, by simpa using hk⟩

/-- `escape_rust_keyword` alone. -/
theorem escape_valid_ident (name : Str) :
    (escapeRustKeyword name = name ∧ isRustKeyword name = false) ∨
    (escapeRustKeyword name = 'r' :: '#' :: name ∧ isRustKeyword name = true) := by
  unfold escapeRustKeyword
  split
  · rename_i hk; exact Or.inr ⟨rfl, hk⟩
  · rename_i hk; exact Or.inl ⟨rfl, by simpa using hk⟩

/-- Full statement "the snake-case form of a PAR identifier is an identifier rustc accepts". -/
def SnakeAlwaysRustIdent : Prop := ∀ name : Str, validIdent name = true → validRustIdent (toLowerSnakeCase name) = true

/-- Findings: `Self`/`self`, `Crate`, `Super` become `r#self`, `r#crate`, `r#super`, which rustc rejects
("cannot be a raw identifier"); `_` stays `_`. -/
theorem snake_always_rust_ident_counterexample : ¬ SnakeAlwaysRustIdent := by
  intro h
  exact absurd (h "Self".toList (by decide)) (by decide)

example : toLowerSnakeCase "Crate".toList = "r#crate".toList ∧ validRustIdent "r#crate".toList = false := by decide
example : toLowerSnakeCase "super".toList = "r#super".toList ∧ validRustIdent "r#super".toList = false := by decide
example : toLowerSnakeCase ['_', '_'] = ['_'] ∧ validRustIdent ['_'] = false := by decide

/-- `purge_name` leaves only identifier characters. -/
theorem purge_ident_chars (name : Str) : (purgeName name).all isIdentCont = true := by
  unfold purgeName
  simp only [List.all_map, List.all_eq_true]
  intro c _
  simp only [Function.comp]
  split
  · rename_i hc; simpa [isValidNameCharacter, isIdentCont] using hc
  · decide

/-! ## What the per-grammar oracles decide -/

/-- `names-check` reports `dup` exactly when the list of names of a scope has a duplicate. -/
theorem names_check_decides (l : List Str) : firstDup l = none ↔ l.Nodup := firstDup_none_iff l

/-- `pairs-check` accepts exactly the relations that are functional and injective. -/
theorem pairs_check_decides (ps : List (Str × Str)) :
    (notFunctional ps = none ∧ notFunctional (swapPairs ps) = none) ↔
    ((∀ p ∈ ps, ∀ q ∈ ps, p.1 = q.1 → p.2 = q.2) ∧ (∀ p ∈ ps, ∀ q ∈ ps, p.2 = q.2 → p.1 = q.1)) := by
  rw [notFunctional_none_iff, notFunctional_none_iff]
  constructor
  · rintro ⟨h1, h2⟩
    refine ⟨h1, ?_⟩
    intro p hp q hq hpq
    exact h2 (p.2, p.1) (by simp [swapPairs]; exact ⟨_, _, hp, rfl, rfl⟩) (q.2, q.1)
      (by simp [swapPairs]; exact ⟨_, _, hq, rfl, rfl⟩) hpq
  · rintro ⟨h1, h2⟩
    refine ⟨h1, ?_⟩
    intro p hp q hq hpq
    simp only [swapPairs, List.mem_map] at hp hq
    obtain ⟨p', hp', rfl⟩ := hp
    obtain ⟨q', hq', rfl⟩ := hq
    exact h2 p' hp' q' hq' hpq

/-! ## Non-vacuity / concrete instances (kernel-checked by `decide`) -/

-- numeric-suffix rule: `A1` collides → counting starts at 1; `A01` → prefix `A`, start 1 (leading zero lost)
example : generateName ["A1".toList] "A1".toList = some "A2".toList := by decide
example : generateName ["A01".toList, "A1".toList] "A01".toList = some "A2".toList := by decide
example : generateName ["A".toList, "A0".toList] "A".toList = some "A1".toList := by decide
example : generateName ["B".toList] "A".toList = some "A".toList := by decide
-- `+` (raw, expanded `\+`) and `\+` map to the same preferred name
example : genTermName "\\+".toList = "Plus".toList := by decide
example : foldNames [] ["Plus".toList, "Plus".toList, "Plus".toList]
    = some ["Plus".toList, "Plus0".toList, "Plus1".toList] := by decide
example : genTermName "\\\\".toList = "Esc".toList := by decide
example : genTermName "1a".toList = "_1a".toList := by decide
-- F16: three different non-terminals, one camel-case form (the symbol table then renames, inconsistently)
example : toUpperCamelCase "a_b".toList = "AB".toList ∧ toUpperCamelCase "AB".toList = "AB".toList := by decide
example : toUpperCamelCase "A1".toList = "A1".toList ∧ toUpperCamelCase "A_1".toList = "A1".toList
    ∧ toUpperCamelCase "A1_0".toList = "A1_0".toList := by decide
example : toLowerSnakeCase "type".toList = "r#type".toList := by decide
example : validRustIdent "r#type".toList = true ∧ validRustIdent "type".toList = false := by decide

end ParolModel
