import ParolModel.Proofs.LRTermEx
import ParolModel.Props.C19b
/-! # C19 (LR half) — Generated LR parsers always terminate … unless the table has a reduce loop (F24)

Property text: *For every accepted grammar and every input text, the generated LL(k) or LR parser
returns a success or an error value without panicking, overflowing indices, or looping forever.*

Termination of `LRParser::parse_into` is FALSE in general (finding F24: on grammars that parol accepts
as LALR(1) with resolved conflicts the parser can repeat reductions forever without consuming input —
a unit production `N: N` of a cyclic grammar, or, as found here, the ε-production of a NON-cyclic
grammar with hidden left recursion, `N0: N1; N1: | N1 N0 "a";` on input `a`), so it is proved under a
decidable hypothesis on the table (Model/LRTermCheck.lean):

* `lr_terminates` — for EVERY table accepted by the verified checker `lrNoReduceLoopB` (nothing else
  is assumed, not even `lrTableValid`), EVERY input and option record, some amount of fuel is enough:
  the model run returns a success or an error value. The checker evaluates, for every lookahead `t`
  and every transition `s → q` of the automaton, the reduce-only computation that starts with `q` on
  top of `s` and lasts while `s` is stacked (it cannot look below `s`, so it is a function of
  `(t, s, q)`), to a summary (how it ends, how many reductions it takes), and verifies that the
  summaries are consistent with one unfolding of the parser step (`summCond`). It is exact at table
  level: it fails iff one of these computations does not finish. `lr_terminates_of_summ` is the same
  for any summary table that passes `lrSummOk`, however it was found. `lr_terminates_bound`: the
  explicit fuel `lrSummFuel T toks = (|toks| + 1) * (C² + 3 C + 1)` is enough (`C`: largest number of
  reductions of one of those computations) — linear in the number of delivered tokens.
* `lr_terminates_linear` — the first, simpler argument, kept as a second certificate: with
  `lrTableValid` and the sufficient (not exact) checker `lrRankCheckB` (a ranking under which every
  reduction lowers `U * stack height + v(lookahead, top state)`, whatever state the reduction
  exposes) the fuel `lrTermFuel T toks = (|toks| + 1) * (U + V + 1)` is enough.
* `f24_counterexample` — the REAL table parol + lalry produce for the cyclic grammar
  `N0: N1 | "a"; N1: N1 | "a" | "a";` (smallest table of /verif/work/C19/cyclic.txt on which the
  model runs out of fuel and the real parser hangs; not hand-minimised): it passes `lrTableValid`
  and even `lrTableComplete`, both checkers reject it, and on the input `a` the model runs out of
  fuel for EVERY amount of fuel (`f24_never_terminates`; `.fuel` with fuel 2000 is the instance asked
  for). All by kernel evaluation (`decide`) plus an induction over the fuel. `hlr_counterexample`:
  the same for the real table of the non-cyclic grammar with hidden left recursion.

NOT proved (explored only; see `LRGeneratedTablesPass`): that every table parol generates for a grammar
without cyclic derivation and without hidden left recursion passes the checker. It is evaluated on
every real table by the protocol handler `lr-term-ok`: all distinct tables of the non-cyclic grammars
explored by C03, C04, C14, C17, C19, C20 pass; of the tables of cyclic grammars exactly those with a
reduce loop in the table are rejected (in particular every table on which the model runs out of
fuel). A loop through a pair `s → q` that no run reaches is rejected as well. -/
namespace ParolModel

/-- In the vocabulary of Props/C19 (`LLTerminates` is its LL counterpart). -/
def LRTerminates (T : LRTables) : Prop :=
  ∀ (o : Opts) (toks : List MTok), ∃ fuel, (lrRun T o fuel toks).res ≠ .fuel

/-- **Termination (LR), any summary table**: with consistent summaries (`lrSummOk`) no run with at
    least `S.fuel toks = (|toks| + 1) * (C² + 3 C + 1)` fuel ends `fuel` (`C = S.maxc`). -/
theorem lr_terminates_of_summ (T : LRTables) (S : LRSumm) (hs : lrSummOk T S = true)
    (o : Opts) (toks : List MTok) (fuel : Nat) (hf : S.fuel toks ≤ fuel) :
    (lrRun T o fuel toks).res ≠ .fuel := by
  have hm := summMeasure_init hs toks
  rw [lrRun_res_core]
  exact lrCore_summ_term hs o.maxDepth fuel ⟨[0], toks, [], [], []⟩ 0 (extStack_init T toks) (by omega)

/-- **Termination (LR) with an explicit bound**: for every table accepted by the checker
    `lrNoReduceLoopB`, every input and every option record, the run with the amount of fuel
    `lrSummFuel T toks` (linear in the number of delivered tokens) or more returns a success or an
    error value — it does not run out of fuel. -/
theorem lr_terminates_bound (T : LRTables) (hc : lrNoReduceLoopB T = true) (o : Opts) (toks : List MTok)
    (fuel : Nat) (hf : lrSummFuel T toks ≤ fuel) : (lrRun T o fuel toks).res ≠ .fuel :=
  lr_terminates_of_summ T (lrSummOf T) hc o toks fuel hf

/-- **Termination (LR)**, "…or looping forever": for every table accepted by the checker
    `lrNoReduceLoopB`, every input and every option record, the parser model returns a success or an
    error value — with enough fuel it does not run out of fuel. -/
theorem lr_terminates (T : LRTables) (hc : lrNoReduceLoopB T = true) :
    ∀ (o : Opts) (toks : List MTok), ∃ fuel, (lrRun T o fuel toks).res ≠ .fuel :=
  fun o toks => ⟨lrSummFuel T toks, lr_terminates_bound T hc o toks _ (Nat.le_refl _)⟩

theorem lrTerminates_of_check (T : LRTables) (hc : lrNoReduceLoopB T = true) : LRTerminates T :=
  lr_terminates T hc

/-- Once the run has ended, more fuel changes nothing about that: the bound of `lr_terminates` is a
    threshold. -/
theorem lr_terminates_mono (T : LRTables) (o : Opts) (toks : List MTok) (fuel extra : Nat)
    (h : (lrRun T o fuel toks).res ≠ .fuel) : (lrRun T o (fuel + extra) toks).res ≠ .fuel := by
  rw [lrRun_res_core] at h ⊢
  exact lrCore_fuel_mono T o.maxDepth fuel _ 0 h extra

/-- Contrapositive used by the exploration: a table on which a run with at least `lrSummFuel T toks`
    fuel is out of fuel is rejected by the checker. -/
theorem lr_fuel_exhausted_rejected (T : LRTables) (o : Opts) (toks : List MTok) (fuel : Nat)
    (hf : lrSummFuel T toks ≤ fuel) (h : (lrRun T o fuel toks).res = .fuel) : lrNoReduceLoopB T = false := by
  cases hc : lrNoReduceLoopB T with
  | false => rfl
  | true => exact absurd h (lr_terminates_bound T hc o toks fuel hf)

/-- Together with `lr_no_internal`: with a complete table that passes the checker the parser model
    returns `ok`, a syntax error or the depth error — nothing else. -/
theorem lr_total (T : LRTables) (gprods : List Rule) (hcomp : lrTableComplete T gprods = true)
    (hc : lrNoReduceLoopB T = true) (o : Opts) (toks : List MTok) :
    (lrRun T o (lrSummFuel T toks) toks).res ≠ .fuel ∧ (lrRun T o (lrSummFuel T toks) toks).res ≠ .internal :=
  ⟨lr_terminates_bound T hc o toks _ (Nat.le_refl _), lr_no_internal T gprods o _ toks hcomp⟩

-- ---------------------------------------------------------------------------------------------
-- explicit linear bound under the ranking checker

/-- **Termination (LR), any ranking certificate**: with a table accepted by `lrTableValid` and a
    ranking certificate accepted by `lrRankOk`, no run with at least `R.fuel toks` fuel ends `fuel`. -/
theorem lr_terminates_of_rank (T : LRTables) (gprods : List Rule) (R : LRRank)
    (hv : lrTableValid T gprods = true) (hr : lrRankOk T gprods R = true)
    (o : Opts) (toks : List MTok) (fuel : Nat) (hf : R.fuel toks ≤ fuel) :
    (lrRun T o fuel toks).res ≠ .fuel := by
  have hmax : ∀ t q, R.val t q ≤ R.maxv := by
    have hr' := hr
    simp only [lrRankOk, Bool.and_eq_true] at hr'
    exact LRRank.val_le hr'.1
  have h0 : TInv T ⟨[0], toks, [], [], []⟩ := ⟨Path.base 0, rfl⟩
  have hm := termMeasure_init R hmax toks
  have := lrCore_term hv hr o.maxDepth fuel ⟨[0], toks, [], [], []⟩ 0 h0 (by omega)
  rw [lrRun_res_core]
  exact this

/-- **Termination (LR) with a linear bound**: for every table accepted by `lrTableValid` and the
    ranking checker `lrRankCheckB`, every input and every option record, the run with the explicit
    amount of fuel `lrTermFuel T toks = (|toks| + 1) * (U + V + 1)` (or more) does not run out of
    fuel. -/
theorem lr_terminates_linear (T : LRTables) (gprods : List Rule) (hv : lrTableValid T gprods = true)
    (hc : lrRankCheckB T gprods = true) (o : Opts) (toks : List MTok) (fuel : Nat)
    (hf : lrTermFuel T toks ≤ fuel) : (lrRun T o fuel toks).res ≠ .fuel :=
  lr_terminates_of_rank T gprods (lrComputeRank T) hv hc o toks fuel hf

/-- Contrapositive: a valid table on which a run with that much fuel is exhausted has no ranking. -/
theorem lr_fuel_exhausted_no_rank (T : LRTables) (gprods : List Rule) (hv : lrTableValid T gprods = true)
    (o : Opts) (toks : List MTok) (fuel : Nat) (hf : lrTermFuel T toks ≤ fuel)
    (h : (lrRun T o fuel toks).res = .fuel) : lrRankCheckB T gprods = false := by
  cases hc : lrRankCheckB T gprods with
  | false => rfl
  | true => exact absurd h (lr_terminates_linear T gprods hv hc o toks fuel hf)

-- ---------------------------------------------------------------------------------------------
-- F24: the hypothesis cannot be dropped

/-- **F24, model level**: without a depth limit the run on `a` is out of fuel for EVERY amount of
    fuel, with or without tree trimming — the parser never returns. -/
theorem f24_never_terminates (o : Opts) (hd : o.maxDepth = none) (fuel : Nat) :
    (lrRun f24T o fuel f24Toks).res = .fuel := by
  rw [lrRun_res_core, hd]
  unfold lrCoreRun
  match fuel with
  | 0 => rfl
  | 1 => rfl
  | fuel + 2 =>
    rw [lrCore]
    have h1 : coreStep f24T none ⟨[0], f24Toks, [], [], []⟩ = .next ⟨[1, 0], [], [.tok 0 5], [], []⟩ := rfl
    rw [h1]
    simp only
    rw [lrCore]
    have h2 : coreStep f24T none ⟨[1, 0], [], [.tok 0 5], [], []⟩ =
        .next ⟨[3, 0], [], [.nt 2], [(3, [.tok 0 5])], []⟩ := rfl
    rw [h2]
    exact f24_loop none rfl fuel _ _ _

/-- **F24 is a counterexample to unconditional termination**: the real table passes `lrTableValid`
    (and `lrTableComplete`: it never crashes), both checkers reject it, and the run on `a` with fuel
    2000 is out of fuel. -/
theorem f24_counterexample :
    lrTableValid f24T f24G = true ∧ lrTableComplete f24T f24G = true ∧
    lrNoReduceLoopB f24T = false ∧ lrRankCheckB f24T f24G = false ∧
    (lrRun f24T ⟨false, false, none⟩ 2000 f24Toks).res = .fuel :=
  ⟨by decide, by decide, by decide, by decide, f24_never_terminates _ rfl 2000⟩

/-- Hence `lr_terminates` is false without the checker hypothesis. -/
theorem f24_not_terminates : ¬ LRTerminates f24T := by
  intro h
  obtain ⟨fuel, hf⟩ := h ⟨false, false, none⟩ f24Toks
  exact hf (f24_never_terminates _ rfl fuel)

/-- **F24 on a non-cyclic grammar, model level**: the run on `a` never returns. -/
theorem hlr_never_terminates (o : Opts) (hd : o.maxDepth = none) (fuel : Nat) :
    (lrRun hlrT o fuel f24Toks).res = .fuel := by
  rw [lrRun_res_core, hd]
  unfold lrCoreRun
  match fuel with
  | 0 => rfl
  | fuel + 1 =>
    rw [lrCore]
    have h1 : coreStep hlrT none ⟨[0], f24Toks, [], [], []⟩ = .next ⟨[2, 0], f24Toks, [.nt 2], [(1, [])], []⟩ := rfl
    rw [h1]
    exact hlr_loop fuel _ _ _ _ _

/-- The table is valid and complete, the checker rejects it, the parser loops. -/
theorem hlr_counterexample :
    lrTableValid hlrT hlrG = true ∧ lrTableComplete hlrT hlrG = true ∧ lrNoReduceLoopB hlrT = false ∧
    ∀ fuel, (lrRun hlrT ⟨false, false, none⟩ fuel f24Toks).res = .fuel :=
  ⟨by decide, by decide, by decide, fun fuel => hlr_never_terminates _ rfl fuel⟩

/-- The grammar of the table is cyclic in the plainest way: it contains the production `N2: N2`. -/
example : (⟨2, [.n 2]⟩ : Rule) ∈ f24G := by decide

/-- Full statement that is NOT proved (no model of lalry's table construction exists here): every
    table that is the LALR(1) table of a grammar — as decided by some relation `isTableOf` standing
    for parol's generator — without a cyclic derivation `A ⇒+ A` passes the checker. Explored on
    every real table instead (handler `lr-term-ok`). -/
def LRGeneratedTablesPass (isTableOf : Grammar → LRTables → Prop) (good : Grammar → Prop) : Prop :=
  ∀ (G : Grammar) (T : LRTables), isTableOf G T → good G → lrNoReduceLoopB T = true

/-- What IS proved in that direction is the soundness of the checker for whatever table passes it. -/
theorem LRGeneratedTablesPass_partial (isTableOf : Grammar → LRTables → Prop) (good : Grammar → Prop)
    (hpass : LRGeneratedTablesPass isTableOf good) :
    ∀ G T, isTableOf G T → good G → LRTerminates T :=
  fun G T ht hg => lr_terminates T (hpass G T ht hg)

-- Non-vacuity: the table of Props/C03 (`S: '(' L ')'; L: S | ;`, ε-reduction and recursion through
-- the stack) passes the checker; the bound for a four-token input is small.
example : lrNoReduceLoopB exLR = true := by decide
example : lrRankCheckB exLR exLRg = true := by decide
example : lrTermFuel exLR (exLRToks [5, 5, 6, 6]) = 80 := by decide
example : lrSummFuel exLR (exLRToks [5, 5, 6, 6]) = 25 := by decide
example : (lrRun exLR ⟨false, false, none⟩ 25 (exLRToks [5, 5, 6, 6])).res = .ok := by decide

end ParolModel
