import ParolModel.Props.C19c
import ParolModel.Generated.ParTables
/-! # C19 (continued) — parol's own PAR parsers terminate

The termination theorem of Props/C19c.lean instantiated, by kernel evaluation of the two verified
checkers, with the regenerated tables of parol's own two PAR parsers (Generated/ParTables.lean). -/
namespace ParolModel

/-- **No looping forever, real tables**: the regenerated tables of parol's own two PAR parsers
    (`parol` and `parol-ls`, Generated/ParTables.lean: 86/87 productions, 49 non-terminals) pass both
    checkers by kernel evaluation, so both parsers terminate on every token sequence. (By `#eval`:
    largest weight 22, largest right-hand side weight 28, `llFuelBound parolTables 1000 = 616646`.) -/
theorem par_parsers_terminate :
    LLTerminates Generated.Par.parolTables ∧ LLTerminates Generated.Par.lsTables :=
  ⟨ll_terminates _ (by decide +kernel) (by decide +kernel),
   ll_terminates _ (by decide +kernel) (by decide +kernel)⟩

end ParolModel
