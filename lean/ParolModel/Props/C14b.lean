import ParolModel.Proofs.LRSim
import ParolModel.Props.C03
import ParolModel.Props.C14
import ParolModel.Props.C17b
/-! # C14 (LR half) — The leaves of a successful LR parse tree are exactly the tokens

Property text (tree clause): *The leaves of a successful LL or LR parse tree, read left to right, are
exactly these tokens.*

LR(1) parser model `lrRun`. Invariant (Proofs/LRSim.lean, `leavesOf`, `lrStep_leaves`): the token
leaves of the subtrees on the parse-tree stack, bottom to top, followed by the ids of the unread
input, are the ids of all delivered tokens; `call_action` preserves it because `pop_n` takes a
contiguous top segment (`popN_sig`) and the new node's events are `open :: children ++ [close]`.
At `Accept` no input is left, PROVIDED the table accepts only on the end-of-input terminal and no
significant token has type 0 — without that proviso the unconditional statement `LRLeavesEqTokens` of
Props/C14 is false (`lrLeavesEqTokens_needs_valid_table`). -/
namespace ParolModel

/-- **Leaves = tokens (LR)**, general form (table property `acceptOnEoi`). -/
theorem lr_leaves_eq_tokens_of_acceptOnEoi (T : LRTables) (o : Opts) (fuel : Nat) (toks : List MTok)
    (hacc : acceptOnEoi T = true) (hne : ∀ t ∈ toks, t.skip = false → t.ty ≠ 0)
    (htrim : o.trim = false) (h : (lrRun T o fuel toks).res = .ok) :
    tokIds (lrRun T o fuel toks).tree = toks.map (·.id) :=
  lrRun_leaves T o fuel toks hacc hne htrim h

/-- **Leaves = tokens (LR)**: for every table that passes `lrTableValid`, the token leaves of a
    successful, untrimmed LR parse tree, read left to right, are exactly the delivered tokens
    (significant, skipped, comments, gaps) in order — in particular every skipped token stays in the
    parse tree (C17). -/
theorem lr_leaves_eq_tokens (T : LRTables) (gprods : List Rule) (o : Opts) (fuel : Nat) (toks : List MTok)
    (hv : lrTableValid T gprods = true) (hne : ∀ t ∈ toks, t.skip = false → t.ty ≠ 0)
    (htrim : o.trim = false) (h : (lrRun T o fuel toks).res = .ok) :
    tokIds (lrRun T o fuel toks).tree = toks.map (·.id) :=
  lrRun_leaves T o fuel toks (acceptOnEoi_of_valid hv) hne htrim h

theorem leafIds_eq_tokIds (tr : List TreeEv) : leafIds tr = tokIds tr := by
  induction tr with
  | nil => rfl
  | cons e rest ih => cases e <;> simp [leafIds, ih]

/-- The same with `leafIds` of Model/TreeCheck.lean (the function the executable `treeCheck` uses). -/
theorem lr_leafIds_eq_tokens (T : LRTables) (gprods : List Rule) (o : Opts) (fuel : Nat) (toks : List MTok)
    (hv : lrTableValid T gprods = true) (hne : ∀ t ∈ toks, t.skip = false → t.ty ≠ 0)
    (htrim : o.trim = false) (h : (lrRun T o fuel toks).res = .ok) :
    leafIds (lrRun T o fuel toks).tree = toks.map (·.id) := by
  rw [leafIds_eq_tokIds]; exact lr_leaves_eq_tokens T gprods o fuel toks hv hne htrim h

/-- The unconditional statement of Props/C14 does not hold for arbitrary tables: a table with `Accept`
    on a terminal other than end-of-input succeeds with unread input. (Such a table fails
    `lrTableValid`; parol never produces one.) -/
theorem lrLeavesEqTokens_needs_valid_table : ¬ LRLeavesEqTokens := by
  intro h
  have := h ⟨0, [⟨0, 0, false⟩], [⟨[(5, .accept)], []⟩]⟩ ⟨false, false, none⟩ 10 [⟨5, false, false, 0⟩] rfl (by decide)
  revert this
  decide

-- Non-vacuity: all seven tokens of `( ws ( /*c*/ ) ) ws`, skipped ones included, are leaves in order.
example : tokIds (lrRun exLR ⟨false, false, none⟩ 100 exLRSkips).tree = [0, 1, 2, 3, 4, 5, 6] := by decide
example : (lrRun exLR ⟨false, false, none⟩ 100 exLRSkips).tree =
    [.open_ none, .open_ (some 2), .open_ (some 1), .tok 0, .tok 1, .open_ (some 0), .open_ (some 1), .tok 2, .tok 3,
     .open_ (some 0), .close, .tok 4, .close, .close, .tok 5, .tok 6, .close, .close, .close] := by decide

end ParolModel
