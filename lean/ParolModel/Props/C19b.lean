import ParolModel.Proofs.LRSim
import ParolModel.Props.C03
import ParolModel.Props.C19
import ParolModel.Props.C17b
/-! # C19 (LR half) — Generated LR parsers never crash

Property text: *For every accepted grammar and every input text, the generated LL(k) or LR parser
returns a success or an error value without panicking, overflowing indices, or looping forever, with
error recovery enabled or disabled.*

LR(1) parser model `lrRun` (tied to `LRParser::parse_into` by the exact differential run). The
`internal` outcome of the model stands for every panic site of `parse_into`: state index out of
range, a shift with no token, `pop_n` underflow / the failing `debug_assert_eq!(n, arguments.len())`
in `call_action`, popping more parser states than there are, a missing goto entry, a missing
production for the start symbol at `Accept`. `lr_no_internal`: for every table that passes the
verified checker `lrTableComplete` (Model/LRComplete.lean — `lrTableValid` plus: state 0 exists,
shift/goto targets in range, every state reached by walking a reduce's right-hand side backwards has
a goto on its left-hand side), EVERY input (no hypothesis on token types is needed), option record
and fuel, the run never ends `internal`. Invariant (`NIInv`, Proofs/LRSim.lean): the state stack is
a path of the automaton spelling the counting parse-tree-stack entries, its bottom is state 0 (which
has no incoming transition, so a right-hand side accepted by `backSpells` is never longer than the
stack — `Path.spells_len`), and its top is a state of the table.

NOT proved: termination (the model takes fuel; known genuine defect F24: cyclic grammars accepted for
LALR(1) with resolved conflicts make the real LR parser loop). -/
namespace ParolModel

/-- **No crash (LR)**: index safety and stack discipline of `LRParser::parse_into` for all inputs,
    for every table accepted by `lrTableComplete`. -/
theorem lr_no_internal (T : LRTables) (gprods : List Rule) (o : Opts) (fuel : Nat) (toks : List MTok)
    (hc : lrTableComplete T gprods = true) : (lrRun T o fuel toks).res ≠ .internal := by
  have h := lrCoreRun_no_internal hc o.maxDepth fuel toks
  rw [← lrRun_core] at h
  exact h

/-- In the vocabulary of Props/C19. -/
theorem lrNoInternal_of_complete (T : LRTables) (gprods : List Rule) (hc : lrTableComplete T gprods = true) :
    LRNoInternal T := fun o fuel toks => lr_no_internal T gprods o fuel toks hc

/-- `lrTableComplete` is stronger than `lrTableValid`: everything proved for valid tables applies. -/
theorem lrTableValid_of_complete {T : LRTables} {gprods : List Rule} (hc : lrTableComplete T gprods = true) :
    lrTableValid T gprods = true := by
  simp only [lrTableComplete, Bool.and_eq_true] at hc
  exact hc.1.1.1

/-- The statement is not vacuous in its hypothesis: without the goto clause a table can pass
    `lrTableValid` and still crash — here a reduce to a non-terminal for which the exposed state has
    no goto entry. -/
example : lrTableValid ⟨0, [⟨0, 0, false⟩], [⟨[(0, .reduce 0 0)], []⟩]⟩ [⟨0, []⟩] = true := by decide
example : lrTableComplete ⟨0, [⟨0, 0, false⟩], [⟨[(0, .reduce 0 0)], []⟩]⟩ [⟨0, []⟩] = false := by decide
example : (lrRun ⟨0, [⟨0, 0, false⟩], [⟨[(0, .reduce 0 0)], []⟩]⟩ ⟨false, false, none⟩ 10 []).res = .internal := by decide

-- Non-vacuity: the table of Props/C03 passes the checker; garbage input ends in a syntax error.
example : lrTableComplete exLR exLRg = true := by decide
example : (lrRun exLR ⟨false, false, none⟩ 100 (exLRToks [6, 6, 5, 0, 7])).res = .syntax (some 0) := by decide
example : (lrRun exLR ⟨false, false, none⟩ 100 (exLRToks [5, 0, 6])).res = .syntax (some 1) := by decide

end ParolModel
