import ParolModel.Model.ParLiterals
import ParolModel.Proofs.ParLiterals
/-! # C25 — Rendering a grammar as PAR text round-trips

"For every grammar parol accepts, rendering it (before or after transformation) as PAR text and
reading that text back yields the same start symbol, productions (symbols, clipping, member names,
user types, scanner states, lookahead), declarations and scanner configuration, including
allow-unmatched settings."

What is proved here, for ALL inputs:

* the literal printers against the PAR lexer (`parModes`: the token regexes REGENERATED from the
  `scanner!` block parol generated for `parser/parol.par`): a printed literal is read back as
  exactly one token of its kind with the same body, precisely when the body satisfies the decidable
  predicate `litOk` (`literal_print_lex_roundtrip_*`, `literal_print_lex_exact`);
* the structural comparer that judges the document-level round trip of the REAL
  `render_par_string` / `obtain_grammar_config_from_string` pair is sound (`configEq_sound`) and
  complete (`configEq_complete`).

The document-level printer/parser pair is not modelled; it is explored by `checks/c25.py`
(translation validation: every real round trip is judged by `configEq`). -/
namespace ParolModel.C25
open ParolModel ParolModel.Par

/-- the terminals of the PAR lexer, split at the literal's terminal -/
theorem terms_split (k : LitKind) :
    Generated.parTerms =
      Generated.parTerms.takeWhile (·.tok != k.tok) ++
        (⟨k.re, k.tok, none⟩ : ScanTerm) :: (Generated.parTerms.dropWhile (·.tok != k.tok)).drop 1 := by
  cases k <;> rfl

/-- the literal terminals of the PAR lexer have the shape `d (body)* d` with `d` the delimiter the
    printer uses (G: re-checked against the regenerated regexes on every build) -/
theorem lit_shape (k : LitKind) : splitLit k.re = some (k.delim, k.bodyRe) := by
  cases k <;> rfl

/-- "the three literal kinds … escapes preserved": for every body `t` with `litOk k t`
    (`t ∈ L((\\.|[^d])*)`, and no terminal declared before the literal's terminal — for `/…/` the two
    comment terminals — matches the whole printed text), the PAR lexer reads the printed literal
    `d t d` as exactly ONE token, of the literal's kind, spanning the whole text, and the text
    between its delimiters (`trim_quotes`) is `t` again: no premature delimiter, no overrun,
    escapes untouched. -/
theorem literal_print_lex_roundtrip (k : LitKind) (t : List Nat) (h : litOk k t = true) :
    tokenizeSpec parModes (printLit k t) = some [⟨k.tok, 0, t.length + 2, 0⟩] ∧
    tokBody (printLit k t) ⟨k.tok, 0, t.length + 2, 0⟩ = t := by
  simp only [litOk, Bool.and_eq_true] at h
  obtain ⟨hbody, hshadow⟩ := h
  constructor
  · have hlen : (printLit k t).length = t.length + 2 := by simp [printLit]
    rw [← hlen]
    refine single_token_of_full_match parModes ⟨Generated.parTerms, [], []⟩ _ _ ⟨k.re, k.tok, none⟩ (printLit k t)
      rfl (terms_split k) rfl (by simp [printLit]) ?_ ?_
    · have hs := splitLit_shape _ _ _ (lit_shape k)
      show matchesRe k.re (printLit k t) = true
      rw [hs]
      exact lit_matches k.delim k.bodyRe t hbody
    · intro u hu
      simp only [notShadowed, List.all_eq_true, Bool.not_eq_true'] at hshadow
      exact hshadow u hu
  · have hl : (t ++ [k.delim]).length = t.length + 1 := by simp
    simp only [tokBody, printLit, List.drop_zero, List.take_succ_cons, List.drop_succ_cons]
    rw [← hl, List.take_length]
    simp

/-- `"…"` literals (`TerminalKind::Legacy`, token `String`). -/
theorem literal_print_lex_roundtrip_string (t : List Nat) (h : litOk .legacy t = true) :
    tokenizeSpec parModes (34 :: (t ++ [34])) = some [⟨Generated.stringTok, 0, t.length + 2, 0⟩] ∧
    tokBody (34 :: (t ++ [34])) ⟨Generated.stringTok, 0, t.length + 2, 0⟩ = t :=
  literal_print_lex_roundtrip .legacy t h

/-- `'…'` literals (`TerminalKind::Raw`, token `RawString`). -/
theorem literal_print_lex_roundtrip_raw (t : List Nat) (h : litOk .raw t = true) :
    tokenizeSpec parModes (39 :: (t ++ [39])) = some [⟨Generated.rawStringTok, 0, t.length + 2, 0⟩] ∧
    tokBody (39 :: (t ++ [39])) ⟨Generated.rawStringTok, 0, t.length + 2, 0⟩ = t :=
  literal_print_lex_roundtrip .raw t h

/-- `/…/` literals (`TerminalKind::Regex`, token `Regex`). -/
theorem literal_print_lex_roundtrip_regex (t : List Nat) (h : litOk .regex t = true) :
    tokenizeSpec parModes (47 :: (t ++ [47])) = some [⟨Generated.regexTok, 0, t.length + 2, 0⟩] ∧
    tokBody (47 :: (t ++ [47])) ⟨Generated.regexTok, 0, t.length + 2, 0⟩ = t :=
  literal_print_lex_roundtrip .regex t h

/-- For `"…"` and `'…'` no earlier terminal of the PAR lexer starts with the delimiter, so `litOk`
    is just membership of the body in `(\\.|[^d])*`. -/
theorem litOk_legacy_raw (k : LitKind) (hk : k ≠ .regex) (t : List Nat) : litOk k t = isBody k t := by
  have hdead : ∀ u ∈ Generated.parTerms.takeWhile (·.tok != k.tok), deriv u.re k.delim = .empty := by
    cases k
    · decide
    · decide
    · exact absurd rfl hk
  have : notShadowed k t = true := by
    simp only [notShadowed, List.all_eq_true, Bool.not_eq_true']
    intro u hu
    have hd := hdead u hu
    have : ∀ (w : List Nat), derivs .empty w = .empty := by
      intro w; induction w with
      | nil => rfl
      | cons x xs ih => simpa [derivs, deriv] using ih
    simp only [matchesRe, printLit, derivs, List.foldl_cons, hd]
    have h2 := this (t ++ [k.delim])
    simp only [derivs] at h2
    rw [h2]; rfl
  simp [litOk, this]

/-! ### The comparer -/

/-- "yields the same start symbol, productions (…), declarations and scanner configuration": when
    the comparer reports no difference, the two encodings are EQUAL as structures — start symbol,
    title, comment, grammar type, `%user_type`/`%nt_type`/`%t_type` declarations, every production
    (left-hand side, attribute, every symbol's kind, text, clipping, member name, user type,
    scanner states, lookahead) and every scanner configuration (name, line and block comments,
    auto_newline, auto_ws, allow_unmatched, skip list, transitions). -/
theorem configEq_sound (a b : PCfg) (h : configEq a b = none) : a = b :=
  configEq_none a b h

/-- …and it reports a difference only if there is one. -/
theorem configEq_complete (a : PCfg) : configEq a a = none :=
  configEq_refl a

/-- The oracle as run by the check (`cfg-eq`): a verdict `ok` means the two configurations agree
    on everything except the annotations PAR syntax cannot express (production attributes, the
    symbol attributes RepetitionAnchor / Option), which `normAttrs` removes; on a configuration
    without such annotations nothing is removed. -/
theorem oracle_sound (a b : PCfg) (h : configEq (normAttrs a) (normAttrs b) = none) : normAttrs a = normAttrs b :=
  configEq_none _ _ h

theorem normAttrs_id (c : PCfg) (h : hasDerivedAttrs c = false) : normAttrs c = c := by
  cases c with
  | mk st ti co gt ut nt tt prods sc =>
    simp only [normAttrs, PCfg.mk.injEq, true_and, and_true]
    simp only [hasDerivedAttrs, List.any_eq_false] at h
    have hp : ∀ p ∈ prods, normProd p = p := by
      intro p hp
      have := h p hp
      simp only [Bool.or_eq_true, not_or, bne_iff_ne, ne_eq, Decidable.not_not, List.any_eq_true, not_exists, not_and] at this
      obtain ⟨h0, hs⟩ := this
      cases p with
      | mk l a rhs =>
        have hsym : ∀ s ∈ rhs, normSym s = s := by
          intro s hsm
          have := hs s hsm
          simp only [beq_iff_eq] at this
          cases s
          simp only [normSym, PSym.mk.injEq, true_and, and_true]
          simp_all
        have hr : rhs.map normSym = rhs := by
          calc rhs.map normSym = rhs.map id := List.map_congr_left hsym
            _ = rhs := by simp
        simp only at h0
        show ({ lhs := l, attr := 0, rhs := rhs.map normSym } : PProd) = { lhs := l, attr := a, rhs := rhs }
        rw [hr, h0]
    calc prods.map normProd = prods.map id := List.map_congr_left hp
      _ = prods := by simp

/-! ### Non-vacuity and the boundary of `litOk` -/

-- bodies with escapes and with the other kinds' delimiters
example : litOk .legacy (str "a\\\"b'c/d") = true := by decide
example : litOk .raw (str "it\\'s \"x\" /y/") = true := by decide
example : litOk .regex (str "a\\/b\"c'") = true := by decide
example : tokenizeSpec parModes (printLit .legacy (str "a\\\"b")) = some [⟨30, 0, 6, 0⟩] := by decide
-- an unescaped delimiter is not a body
example : litOk .legacy (str "a\"b") = false := by decide
example : litOk .raw (str "it's") = false := by decide
example : litOk .regex (str "a/b") = false := by decide

/-- The condition on `/…/` is necessary: the empty regex literal `//` is read back as a line
    comment (token 3) … -/
theorem regex_empty_is_line_comment :
    isBody .regex [] = true ∧ tokenizeSpec parModes (printLit .regex []) = some [⟨Generated.lineCommentTok, 0, 2, 0⟩] := by
  decide

/-- … and `/**/` (body `**`) as a block comment (token 4). -/
theorem regex_stars_is_block_comment :
    isBody .regex [42, 42] = true ∧
    tokenizeSpec parModes (printLit .regex [42, 42]) = some [⟨Generated.blockCommentTok, 0, 4, 0⟩] := by
  decide

end ParolModel.C25
