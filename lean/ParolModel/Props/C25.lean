import ParolModel.Model.ParLiterals
import ParolModel.Proofs.ParLiterals
import ParolModel.Proofs.ParLiteralsCtx
/-! # C25 — Rendering a grammar as PAR text round-trips

"For every grammar parol accepts, rendering it (before or after transformation) as PAR text and
reading that text back yields the same start symbol, productions (symbols, clipping, member names,
user types, scanner states, lookahead), declarations and scanner configuration, including
allow-unmatched settings."

What is proved here, for ALL inputs:

* the literal printers against the PAR lexer (`parModes`: the token regexes REGENERATED from the
  `scanner!` block parol generated for `parser/parol.par`): a printed literal is read back as
  exactly one token of its kind with the same body, precisely when the body satisfies the decidable
  predicate `litOk` (`literal_print_lex_roundtrip_*`, `literal_print_lex_exact`,
  `literal_print_lex_roundtrip_iff`); and IN CONTEXT — whatever text follows — the first token read
  from `d t d rest` is the literal's token ending at its own closing delimiter whenever `litOkCtx`
  holds (`literal_first_token`), with the boundary case proved as a counterexample
  (`backslash_body_overruns`: a body ending in a backslash is not self-delimiting — finding F25d);
* the structural comparer that judges the document-level round trip of the REAL
  `render_par_string` / `obtain_grammar_config_from_string` pair is sound (`configEq_sound`) and
  complete (`configEq_complete`).

The document-level printer/parser pair is not modelled; it is explored by `checks/c25.py`
(translation validation: every real round trip is judged by `configEq`). -/
namespace ParolModel.C25
open ParolModel ParolModel.Par

/-- the terminals of the PAR lexer, split at the literal's terminal -/
theorem terms_split (k : LitKind) :
    Generated.parTerms =
      Generated.parTerms.takeWhile (·.tok != k.tok) ++
        (⟨k.re, k.tok, none⟩ : ScanTerm) :: (Generated.parTerms.dropWhile (·.tok != k.tok)).drop 1 := by
  cases k <;> rfl

/-- the literal terminals of the PAR lexer have the shape `d (body)* d` with `d` the delimiter the
    printer uses (G: re-checked against the regenerated regexes on every build) -/
theorem lit_shape (k : LitKind) : splitLit k.re = some (k.delim, k.bodyRe) := by
  cases k <;> rfl

/-- "the three literal kinds … escapes preserved": for every body `t` with `litOk k t`
    (`t ∈ L((\\.|[^d])*)`, and no terminal declared before the literal's terminal — for `/…/` the two
    comment terminals — matches the whole printed text), the PAR lexer reads the printed literal
    `d t d` as exactly ONE token, of the literal's kind, spanning the whole text, and the text
    between its delimiters (`trim_quotes`) is `t` again: no premature delimiter, no overrun,
    escapes untouched. -/
theorem literal_print_lex_roundtrip (k : LitKind) (t : List Nat) (h : litOk k t = true) :
    tokenizeSpec parModes (printLit k t) = some [⟨k.tok, 0, t.length + 2, 0⟩] ∧
    tokBody (printLit k t) ⟨k.tok, 0, t.length + 2, 0⟩ = t := by
  simp only [litOk, Bool.and_eq_true] at h
  obtain ⟨hbody, hshadow⟩ := h
  constructor
  · have hlen : (printLit k t).length = t.length + 2 := by simp [printLit]
    rw [← hlen]
    refine single_token_of_full_match parModes ⟨Generated.parTerms, [], []⟩ _ _ ⟨k.re, k.tok, none⟩ (printLit k t)
      rfl (terms_split k) rfl (by simp [printLit]) ?_ ?_
    · have hs := splitLit_shape _ _ _ (lit_shape k)
      show matchesRe k.re (printLit k t) = true
      rw [hs]
      exact lit_matches k.delim k.bodyRe t hbody
    · intro u hu
      simp only [notShadowed, List.all_eq_true, Bool.not_eq_true'] at hshadow
      exact hshadow u hu
  · have hl : (t ++ [k.delim]).length = t.length + 1 := by simp
    simp only [tokBody, printLit, List.drop_zero, List.take_succ_cons, List.drop_succ_cons]
    rw [← hl, List.take_length]
    simp

/-- `"…"` literals (`TerminalKind::Legacy`, token `String`). -/
theorem literal_print_lex_roundtrip_string (t : List Nat) (h : litOk .legacy t = true) :
    tokenizeSpec parModes (34 :: (t ++ [34])) = some [⟨Generated.stringTok, 0, t.length + 2, 0⟩] ∧
    tokBody (34 :: (t ++ [34])) ⟨Generated.stringTok, 0, t.length + 2, 0⟩ = t :=
  literal_print_lex_roundtrip .legacy t h

/-- `'…'` literals (`TerminalKind::Raw`, token `RawString`). -/
theorem literal_print_lex_roundtrip_raw (t : List Nat) (h : litOk .raw t = true) :
    tokenizeSpec parModes (39 :: (t ++ [39])) = some [⟨Generated.rawStringTok, 0, t.length + 2, 0⟩] ∧
    tokBody (39 :: (t ++ [39])) ⟨Generated.rawStringTok, 0, t.length + 2, 0⟩ = t :=
  literal_print_lex_roundtrip .raw t h

/-- `/…/` literals (`TerminalKind::Regex`, token `Regex`). -/
theorem literal_print_lex_roundtrip_regex (t : List Nat) (h : litOk .regex t = true) :
    tokenizeSpec parModes (47 :: (t ++ [47])) = some [⟨Generated.regexTok, 0, t.length + 2, 0⟩] ∧
    tokBody (47 :: (t ++ [47])) ⟨Generated.regexTok, 0, t.length + 2, 0⟩ = t :=
  literal_print_lex_roundtrip .regex t h

/-- For `"…"` and `'…'` no earlier terminal of the PAR lexer starts with the delimiter, so `litOk`
    is just membership of the body in `(\\.|[^d])*`. -/
theorem litOk_legacy_raw (k : LitKind) (hk : k ≠ .regex) (t : List Nat) : litOk k t = isBody k t := by
  have hdead : ∀ u ∈ Generated.parTerms.takeWhile (·.tok != k.tok), deriv u.re k.delim = .empty := by
    cases k
    · decide
    · decide
    · exact absurd rfl hk
  have : notShadowed k t = true := by
    simp only [notShadowed, List.all_eq_true, Bool.not_eq_true']
    intro u hu
    have hd := hdead u hu
    have : ∀ (w : List Nat), derivs .empty w = .empty := by
      intro w; induction w with
      | nil => rfl
      | cons x xs ih => simpa [derivs, deriv] using ih
    simp only [matchesRe, printLit, derivs, List.foldl_cons, hd]
    have h2 := this (t ++ [k.delim])
    simp only [derivs] at h2
    rw [h2]; rfl
  simp [litOk, this]

/-! ### Exactness of `litOk` -/

theorem par_toks_nodup : (Generated.parTerms.map (·.tok)).Nodup := by decide

theorem par_no_lookahead : ∀ u ∈ Generated.parTerms, u.la = none := by decide

/-- `litOk` is exact: whenever the printed literal is read back as the one token of its kind
    spanning the whole text, the body satisfies `litOk`. Together with
    `literal_print_lex_roundtrip`: the printed literal round-trips through the PAR lexer IF AND ONLY
    IF `litOk k t`. -/
theorem literal_print_lex_exact (k : LitKind) (t : List Nat)
    (h : tokenizeSpec parModes (printLit k t) = some [⟨k.tok, 0, t.length + 2, 0⟩]) : litOk k t = true := by
  have hlen : (printLit k t).length = t.length + 2 := by simp [printLit]
  have hstep := first_step_of_single parModes (printLit k t) _ (by simp [printLit]) rfl h
  obtain ⟨m, pre, t', post, hm, hterms, htok, hlenspec, hpre⟩ :=
    step_first parModes ⟨0, []⟩ (printLit k t) _ _ hstep
  have hm' : m = ⟨Generated.parTerms, [], []⟩ := by
    have : parModes[0]? = some ⟨Generated.parTerms, [], []⟩ := rfl
    simp only at hm
    rw [this] at hm; exact (Option.some.inj hm).symm
  subst hm'
  have hsplit : pre ++ t' :: post = Generated.parTerms.takeWhile (·.tok != k.tok) ++
      (⟨k.re, k.tok, none⟩ : ScanTerm) :: (Generated.parTerms.dropWhile (·.tok != k.tok)).drop 1 := by
    rw [← hterms]; exact terms_split k
  obtain ⟨hp, ht'⟩ := split_unique _ _ _ _ _ _ hsplit htok (by
    have : pre ++ t' :: post = Generated.parTerms := hterms.symm
    rw [this]; exact par_toks_nodup)
  obtain ⟨_, _, hmatch, _, _⟩ := matchLenSpec_some t' _ _ hlenspec
  have hfull : matchesRe k.re (printLit k t) = true := by
    rw [ht'] at hmatch
    have : (printLit k t).take (t.length + 2) = printLit k t := by rw [← hlen]; exact List.take_length
    simpa [this] using hmatch
  simp only [litOk, Bool.and_eq_true]
  constructor
  · rw [splitLit_shape _ _ _ (lit_shape k)] at hfull
    exact lit_matches_inv k.delim k.bodyRe t hfull
  · simp only [notShadowed, List.all_eq_true, Bool.not_eq_true']
    intro u hu
    rw [← hp] at hu
    cases hmu : matchesRe u.re (printLit k t) with
    | false => rfl
    | true =>
      exfalso
      have hmem : u ∈ Generated.parTerms := by
        have hterms' : Generated.parTerms = pre ++ t' :: post := hterms
        rw [hterms']; exact List.mem_append_left _ hu
      have hfl := matchLen_full u (printLit k t) (par_no_lookahead u hmem) (by simp [printLit]) hmu
      rw [ScanTerm.matchLen_eq_spec] at hfl
      have := hpre u hu _ hfl
      omega

/-- the iff form -/
theorem literal_print_lex_roundtrip_iff (k : LitKind) (t : List Nat) :
    tokenizeSpec parModes (printLit k t) = some [⟨k.tok, 0, t.length + 2, 0⟩] ↔ litOk k t = true :=
  ⟨literal_print_lex_exact k t, fun h => (literal_print_lex_roundtrip k t h).1⟩

/-! ### In context: the literal is delimited by its own closing delimiter, whatever follows -/

/-- the body regexes have the shape `(\\.|[^d])` with `d` the delimiter (and `d` is not `\`) -/
theorem body_shape (k : LitKind) :
    k.bodyRe = .alt (.cat (.cls ⟨[(92, 92)], false⟩) (.cls k.anyCls)) (.cls k.ndCls) ∧
    k.ndCls.mem k.delim = false ∧ k.delim ≠ 92 := by
  cases k <;> decide

/-- every terminal declared before the literal's terminal is dead after the delimiter — except, for
    `/…/`, the two comment terminals, which begin with `//` and `/*` -/
theorem pre_dead (k : LitKind) :
    ∀ u ∈ Generated.parTerms.takeWhile (·.tok != k.tok),
      deriv u.re k.delim = .empty ∨
      (k = .regex ∧ (u.re = reOfTok Generated.lineCommentTok ∨ u.re = reOfTok Generated.blockCommentTok)) := by
  cases k <;> decide

theorem comment_shapes :
    (∃ X, reOfTok Generated.lineCommentTok = .cat (.cat (.cls ⟨[(47, 47)], false⟩) (.cls ⟨[(47, 47)], false⟩)) X) ∧
    (∃ X, reOfTok Generated.blockCommentTok = .cat (.cat (.cls ⟨[(47, 47)], false⟩) (.cls ⟨[(42, 42)], false⟩)) X) :=
  ⟨⟨_, rfl⟩, ⟨_, rfl⟩⟩

/-- every terminal declared after the literal's terminal matches at most one character of a text
    that starts with the delimiter -/
theorem post_short (k : LitKind) :
    ∀ u ∈ (Generated.parTerms.dropWhile (·.tok != k.tok)).drop 1,
      deriv u.re k.delim = .empty ∨ deriv u.re k.delim = .eps := by
  cases k <;> decide

/-- "no premature delimiter, no overrun" in context: for every body `t` with `litOkCtx k t`
    (`t ∈ L((\\.|[^d])*)`, `t` does not end in a backslash; for `/…/` moreover `t` is not empty and
    does not start with `*`) and EVERY following text `rest`, the first token the PAR lexer reads
    from `d t d rest` is the literal's token and it ends exactly at the closing delimiter. -/
theorem literal_first_token (k : LitKind) (t rest : List Nat) (h : litOkCtx k t = true) :
    stepMatch parModes ⟨0, []⟩ (printLit k t ++ rest) = some (t.length + 2, k.tok) := by
  simp only [litOkCtx, Bool.and_eq_true, bne_iff_ne, ne_eq, Bool.or_eq_true] at h
  obtain ⟨⟨hbody, hlast⟩, hrx⟩ := h
  obtain ⟨hshape, hnd, hd92⟩ := body_shape k
  have hw : printLit k t ++ rest = k.delim :: (t ++ k.delim :: rest) := by simp [printLit]
  have hre : k.re = .cat (.cls ⟨[(k.delim, k.delim)], false⟩)
      (.cat (.star (.alt (.cat (.cls ⟨[(92, 92)], false⟩) (.cls k.anyCls)) (.cls k.ndCls))) (.cls ⟨[(k.delim, k.delim)], false⟩)) := by
    rw [← hshape]; exact splitLit_shape _ _ _ (lit_shape k)
  have hbody' : matchesRe (.star (.alt (.cat (.cls ⟨[(92, 92)], false⟩) (.cls k.anyCls)) (.cls k.ndCls))) t = true := by
    rw [← hshape]; exact hbody
  rw [hw]
  show bestOf (·.matchLen (k.delim :: (t ++ k.delim :: rest))) Generated.parTerms none = _
  rw [terms_split k]
  apply bestOf_full _ _ (⟨k.re, k.tok, none⟩ : ScanTerm) _
    (matchLen_lit_ctx ⟨k.re, k.tok, none⟩ rfl k.delim k.anyCls k.ndCls hnd hd92 hre t rest hbody' hlast)
  · intro u hu n hn
    have := matchLen_le_one u k.delim _ (post_short k u hu) n hn
    omega
  · intro u hu n hn
    exfalso
    rcases pre_dead k u hu with hdead | ⟨hk, hcm⟩
    · rw [matchLen_none_of_dead u k.delim _ hdead] at hn; cases hn
    · subst hk
      have hne : t ≠ [] ∧ t.head? ≠ some 42 := by
        rcases hrx with hx | hx
        · exact absurd rfl hx
        · simpa using hx
      obtain ⟨c, t', rfl⟩ : ∃ c t', t = c :: t' := by
        cases t with
        | nil => exact absurd rfl hne.1
        | cons c t' => exact ⟨c, t', rfl⟩
      have hc42 : c ≠ 42 := by simpa using hne.2
      have hc47 : c ≠ 47 := by
        have := star_body_head_ne 47 _ _ hnd hd92 c t' (by rw [← matchesRe_iff]; exact hbody')
        exact this
      have hnone : u.matchLen (47 :: (c :: t' ++ 47 :: rest)) = none := by
        apply matchLen_none_of_no_prefix
        intro n
        rcases hcm with hcm | hcm
        · obtain ⟨X, hX⟩ := comment_shapes.1
          rw [hcm, hX]; exact no_prefix_two 47 47 c X hc47 _ n
        · obtain ⟨X, hX⟩ := comment_shapes.2
          rw [hcm, hX]; exact no_prefix_two 47 42 c X hc42 _ n
      have : LitKind.regex.delim = 47 := rfl
      rw [this] at hn
      rw [hnone] at hn; cases hn
  · exact Or.inl rfl

/-- The condition "does not end in a backslash" is necessary: the token regexes let `\` match
    `[^d]` as well, so after a body ending in a backslash the closing delimiter can be taken as
    escaped and the token runs on to the next delimiter character (finding F25d): `"\" "` is ONE
    String token of 5 characters although `"\"` alone is a String token with body `\`. -/
theorem backslash_body_overruns :
    litOk .legacy [92] = true ∧
    stepMatch parModes ⟨0, []⟩ (printLit .legacy [92] ++ str " \"") = some (5, Generated.stringTok) := by
  decide

/-! ### The comparer -/

/-- "yields the same start symbol, productions (…), declarations and scanner configuration": when
    the comparer reports no difference, the two encodings are EQUAL as structures — start symbol,
    title, comment, grammar type, `%user_type`/`%nt_type`/`%t_type` declarations, every production
    (left-hand side, attribute, every symbol's kind, text, clipping, member name, user type,
    scanner states, lookahead) and every scanner configuration (name, line and block comments,
    auto_newline, auto_ws, allow_unmatched, skip list, transitions). -/
theorem configEq_sound (a b : PCfg) (h : configEq a b = none) : a = b :=
  configEq_none a b h

/-- …and it reports a difference only if there is one. -/
theorem configEq_complete (a : PCfg) : configEq a a = none :=
  configEq_refl a

/-- The oracle as run by the check (`cfg-eq`): a verdict `ok` means the two configurations agree
    on everything except the annotations PAR syntax cannot express (production attributes, the
    symbol attributes RepetitionAnchor / Option), which `normAttrs` removes; on a configuration
    without such annotations nothing is removed. -/
theorem oracle_sound (a b : PCfg) (h : configEq (normAttrs a) (normAttrs b) = none) : normAttrs a = normAttrs b :=
  configEq_none _ _ h

theorem normAttrs_id (c : PCfg) (h : hasDerivedAttrs c = false) : normAttrs c = c := by
  cases c with
  | mk st ti co gt ut nt tt prods sc =>
    simp only [normAttrs, PCfg.mk.injEq, true_and, and_true]
    simp only [hasDerivedAttrs, List.any_eq_false] at h
    have hp : ∀ p ∈ prods, normProd p = p := by
      intro p hp
      have := h p hp
      simp only [Bool.or_eq_true, not_or, bne_iff_ne, ne_eq, Decidable.not_not, List.any_eq_true, not_exists, not_and] at this
      obtain ⟨h0, hs⟩ := this
      cases p with
      | mk l a rhs =>
        have hsym : ∀ s ∈ rhs, normSym s = s := by
          intro s hsm
          have := hs s hsm
          simp only [beq_iff_eq] at this
          cases s
          simp only [normSym, PSym.mk.injEq, true_and, and_true]
          simp_all
        have hr : rhs.map normSym = rhs := by
          calc rhs.map normSym = rhs.map id := List.map_congr_left hsym
            _ = rhs := by simp
        simp only at h0
        show ({ lhs := l, attr := 0, rhs := rhs.map normSym } : PProd) = { lhs := l, attr := a, rhs := rhs }
        rw [hr, h0]
    calc prods.map normProd = prods.map id := List.map_congr_left hp
      _ = prods := by simp

/-! ### Non-vacuity of the comparer (build-time evaluation on real dumps)

`%start S %allow_unmatched %% S: "a";` as dumped by the harness, against the dump of what the
renderer produced before commit 44f84ce (`%allow_unmatched` dropped, finding F6): the comparer
names the field. -/

def dumpF6a : String := "53|-|-|ll|-|-|-|53:0:l.61.0.-.-.0.-|494e495449414c!-!-!1!1!1!-!-"
def dumpF6b : String := "53|-|-|ll|-|-|-|53:0:l.61.0.-.-.0.-|494e495449414c!-!-!1!1!0!-!-"

#guard handleCfgEq [dumpF6a, dumpF6a] == some "ok"
#guard handleCfgEq [dumpF6a, dumpF6b] == some "fail scanner[0].allow_unmatched"
#guard handleCfgEq [dumpF6a, "!reparse:syntax"] == some "fail !reparse:syntax"
-- a clipped terminal vs an unclipped one; a lost user type; a lost lookahead
#guard handleCfgEq ["53|-|-|ll|-|-|-|53:0:l.61.1.-.-.0.-|49!-!-!1!1!0!-!-", "53|-|-|ll|-|-|-|53:0:l.61.0.-.-.0.-|49!-!-!1!1!0!-!-"]
  == some "fail production[0].rhs[0].clipping"
#guard handleCfgEq ["53|-|-|ll|-|-|-|53:0:n.42.0.-.x54.-.-|49!-!-!1!1!0!-!-", "53|-|-|ll|-|-|-|53:0:n.42.0.-.-.-.-|49!-!-!1!1!0!-!-"]
  == some "fail production[0].rhs[0].user-type"
#guard handleCfgEq ["53|-|-|ll|-|-|-|53:0:l.61.0.-.-.0.pwx62|49!-!-!1!1!0!-!-", "53|-|-|ll|-|-|-|53:0:l.61.0.-.-.0.-|49!-!-!1!1!0!-!-"]
  == some "fail production[0].rhs[0].lookahead"
-- derived annotations (production attribute 2, symbol attribute 2) are excluded, clipping is not
#guard handleCfgEq ["53|-|-|ll|-|-|-|53:2:n.42.2.-.-.-.-|49!-!-!1!1!0!-!-", "53|-|-|ll|-|-|-|53:0:n.42.0.-.-.-.-|49!-!-!1!1!0!-!-"] == some "ok"

/-! ### Non-vacuity and the boundary of `litOk` -/

-- bodies with escapes and with the other kinds' delimiters
example : litOk .legacy (str "a\\\"b'c/d") = true := by decide
example : litOk .raw (str "it\\'s \"x\" /y/") = true := by decide
example : litOk .regex (str "a\\/b\"c'") = true := by decide
example : tokenizeSpec parModes (printLit .legacy (str "a\\\"b")) = some [⟨30, 0, 6, 0⟩] := by decide
-- an unescaped delimiter is not a body
example : litOk .legacy (str "a\"b") = false := by decide
example : litOk .raw (str "it's") = false := by decide
example : litOk .regex (str "a/b") = false := by decide

/-- The condition on `/…/` is necessary: the empty regex literal `//` is read back as a line
    comment (token 3) … -/
theorem regex_empty_is_line_comment :
    isBody .regex [] = true ∧ tokenizeSpec parModes (printLit .regex []) = some [⟨Generated.lineCommentTok, 0, 2, 0⟩] := by
  decide

/-- … and `/**/` (body `**`) as a block comment (token 4). -/
theorem regex_stars_is_block_comment :
    isBody .regex [42, 42] = true ∧
    tokenizeSpec parModes (printLit .regex [42, 42]) = some [⟨Generated.blockCommentTok, 0, 4, 0⟩] := by
  decide

end ParolModel.C25
