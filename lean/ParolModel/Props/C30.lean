import ParolModel.Proofs.LsUtils
/-! # C30 — Language-server requests never crash the server

Property text: *For every document text (valid or not) and every position, hover, go-to-definition,
document symbols, prepare-rename, rename, formatting and code actions return a result or nothing
without panicking, and position-to-offset conversion stays within the text.*

This module proves the **conversion clause** for ALL texts and ALL positions, for the model
`posToOffset true` / `extractTextRange true` (Model/LsUtils.lean), a statement-by-statement mirror
of the current `pos_to_offset` / `extract_text_range` in `crates/parol-ls/src/utils.rs`
(tie D: exhaustive differential run, `harness/src/ls/c30.rs`). Texts are lists of characters,
offsets are UTF-8 byte counts, `none` is a panic.

The **handler clause** ("return a result or nothing without panicking") is not a theorem here:
the handlers are explored under `catch_unwind` (labelled exploration, see `checks/c30.py`).
What is proved about them is the part that goes through the conversion: `extract_text_range`
(used by hover) panics exactly when the end offset lies before the start offset
(`extract_no_panic_iff`), which cannot happen for an ordered range (`extract_no_panic_of_le`).

`posToOffset false` is the function before the repair of finding F9; the two `…_unfixed_…`
theorems are the checked counterexamples. -/
namespace ParolModel
open LsUtils

/-- Byte offset `off` is a character boundary of `t` (`str::is_char_boundary`): it is the UTF-8
    length of the first `k` characters for some `k`. -/
def IsCharBoundary (t : List Char) (off : Nat) : Prop :=
  ∃ k, off = utf8Len (t.take k)

/-- "without panicking" for the conversion: on every text and every position (also past the last
    line, past the line end, in CRLF texts, in texts with multi-byte characters) the current
    `pos_to_offset` returns — every `split_at` inside its loop is applied to a valid offset. -/
theorem pos_to_offset_total (input : List Char) (line character : Nat) :
    ∃ off, posToOffset true input line character = some off := by
  obtain ⟨x, _, h⟩ := posToOffset_prefix input line character
  exact ⟨_, h⟩

/-- "position-to-offset conversion stays within the text": the offset is at most the text's byte
    length, for ALL texts and positions. -/
theorem offset_le_len (input : List Char) (line character off : Nat)
    (h : posToOffset true input line character = some off) : off ≤ utf8Len input := by
  obtain ⟨x, hx, h'⟩ := posToOffset_prefix input line character
  rw [h] at h'; cases h'
  exact utf8Len_le_of_prefix hx

/-- "stays within the text", second half: the offset never lies inside a multi-byte character, for
    ALL texts and positions. -/
theorem offset_on_char_boundary (input : List Char) (line character off : Nat)
    (h : posToOffset true input line character = some off) : IsCharBoundary input off := by
  obtain ⟨x, hx, h'⟩ := posToOffset_prefix input line character
  rw [h] at h'; cases h'
  exact ⟨x.length, by rw [← List.prefix_iff_eq_take.mp hx]⟩

/-- The oracle's executable boundary test (`ls-pos-check` in the driver) decides `IsCharBoundary`. -/
theorem isCharBoundaryB_iff_isCharBoundary (t : List Char) (off : Nat) :
    isCharBoundaryB t off = true ↔ IsCharBoundary t off := by
  rw [isCharBoundaryB_iff]
  constructor
  · rintro ⟨a, ha, rfl⟩
    exact ⟨a.length, by rw [← List.prefix_iff_eq_take.mp ha]⟩
  · rintro ⟨k, rfl⟩
    exact ⟨t.take k, List.take_prefix _ _, rfl⟩

/-- Exact characterisation of when `extract_text_range` panics (current code): it returns iff the
    offset of the range's end is not before the offset of its start. So it CAN still panic — for
    ranges whose end lies before their start (`end - start` underflows: debug builds panic in the
    subtraction, release builds in the following `split_at`). Its callers (hover) pass ranges
    taken from token locations, which are ordered; see `extract_no_panic_of_le`. -/
theorem extract_no_panic_iff (input : List Char) (sl sc el ec : Nat) :
    (∃ r, extractTextRange true input sl sc el ec = some r) ↔
    (∃ s e, posToOffset true input sl sc = some s ∧ posToOffset true input el ec = some e ∧ s ≤ e) := by
  obtain ⟨x, hx, hs⟩ := posToOffset_prefix input sl sc
  obtain ⟨y, hy, he⟩ := posToOffset_prefix input el ec
  obtain ⟨tail, htail⟩ := hx
  have hsplit : splitAtBytes input (utf8Len x) = some (x, tail) := by
    rw [← htail]; exact splitAtBytes_append _ _
  unfold extractTextRange
  simp only [hs, he, hsplit]
  constructor
  · rintro ⟨r, hr⟩
    refine ⟨_, _, rfl, rfl, ?_⟩
    split at hr
    · cases hr
    · omega
  · rintro ⟨s, e, h1, h2, hle⟩
    cases h1; cases h2
    have hxy : x <+: y := prefix_of_utf8Len_le ⟨tail, htail⟩ hy hle
    obtain ⟨mid, rfl⟩ := hxy
    obtain ⟨rest, hrest⟩ := hy
    have ht : tail = mid ++ rest := by
      have : x ++ tail = x ++ (mid ++ rest) := by rw [htail, ← hrest]; simp
      exact List.append_cancel_left this
    have hlen : utf8Len (x ++ mid) - utf8Len x = utf8Len mid := by
      rw [utf8Len_append]; omega
    rw [if_neg (by omega), hlen, ht, splitAtBytes_append]
    exact ⟨mid, rfl⟩

/-- When `extract_text_range` returns, the result is the slice of the text between the two
    offsets. -/
theorem extract_is_slice (input : List Char) (sl sc el ec : Nat) (r : List Char)
    (h : extractTextRange true input sl sc el ec = some r) :
    ∃ pre post s e, input = pre ++ r ++ post ∧
      posToOffset true input sl sc = some s ∧ posToOffset true input el ec = some e ∧
      utf8Len pre = s ∧ utf8Len (pre ++ r) = e := by
  unfold extractTextRange at h
  cases hs : posToOffset true input sl sc with
  | none => simp [hs] at h
  | some s =>
    cases he : posToOffset true input el ec with
    | none => simp [hs, he] at h
    | some e =>
      simp only [hs, he] at h
      cases h1 : splitAtBytes input s with
      | none => simp [h1] at h
      | some p1 =>
        obtain ⟨pre, tail⟩ := p1
        simp only [h1] at h
        split at h
        · cases h
        · cases h2 : splitAtBytes tail (e - s) with
          | none => simp [h2] at h
          | some p2 =>
            obtain ⟨res, post⟩ := p2
            simp only [h2] at h
            cases h
            obtain ⟨e1, l1⟩ := splitAtBytes_some h1
            obtain ⟨e2, l2⟩ := splitAtBytes_some h2
            refine ⟨pre, post, s, e, by rw [e1, e2]; simp, rfl, rfl, l1, ?_⟩
            rw [utf8Len_append, l1, l2]; omega

/-- A range whose end position is not before its start position (lexicographic order on
    (line, character), as for every range built from token locations) never makes
    `extract_text_range` panic — on any text. -/
theorem extract_no_panic_of_le (input : List Char) (sl sc el ec : Nat)
    (h : sl < el ∨ (sl = el ∧ sc ≤ ec)) :
    ∃ r, extractTextRange true input sl sc el ec = some r := by
  rw [extract_no_panic_iff]
  obtain ⟨s, hs⟩ := pos_to_offset_total input sl sc
  obtain ⟨e, he⟩ := pos_to_offset_total input el ec
  exact ⟨s, e, hs, he, posToOffset_mono input sl sc el ec h hs he⟩

/-- `extract_text_range` does panic on a reversed range (witness: text `ab`, range (0,1)–(0,0)). -/
theorem extract_panics_on_reversed_range :
    extractTextRange true "ab".toList 0 1 0 0 = none := by decide

/-! ## The function before the repair (finding F9) -/

/-- Pre-repair `pos_to_offset("ab", (1, 0)) = 3 > 2 = len`: the offset left the text. -/
theorem offset_le_len_unfixed_counterexample :
    ¬ (∀ (input : List Char) (line character off : Nat),
        posToOffset false input line character = some off → off ≤ utf8Len input) := by
  intro h
  exact absurd (h "ab".toList 1 0 3 (by decide)) (by decide)

/-- Pre-repair `pos_to_offset("ÜÄÖ", (0, 10)) = 5`, inside `Ö` (bytes 4..6). -/
theorem offset_on_char_boundary_unfixed_counterexample :
    ¬ (∀ (input : List Char) (line character off : Nat),
        posToOffset false input line character = some off → IsCharBoundary input off) := by
  intro h
  have h5 := h "ÜÄÖ".toList 0 10 5 (by decide)
  rw [← isCharBoundaryB_iff_isCharBoundary] at h5
  exact absurd h5 (by decide)

/-- With the pre-repair conversion `extract_text_range` panicked on an ordered (even empty) range:
    text `ab`, range (1,0)–(1,0) → `split_at(3)` on a 2-byte text. -/
theorem extract_unfixed_panics_on_ordered_range :
    extractTextRange false "ab".toList 1 0 1 0 = none := by decide

/-! ## Non-vacuity -/

/-- Past the last line → end of text; past the end of a line ending in a multi-byte character →
    end of that line (6, a boundary); CRLF lines advance by two. -/
example : posToOffset true "ab".toList 1 0 = some 2 := by decide
example : posToOffset true "ÜÄÖ".toList 0 10 = some 6 := by decide
example : posToOffset true "ÜÄÖ".toList 0 2 = some 4 := by decide
example : posToOffset true "a\r\nÜb\n".toList 1 1 = some 5 := by decide
example : posToOffset true "a\r\nÜb\n".toList 7 7 = some 7 := by decide
example : ¬ IsCharBoundary "ÜÄÖ".toList 5 := by
  rw [← isCharBoundaryB_iff_isCharBoundary]; decide
example : IsCharBoundary "ÜÄÖ".toList 4 := ⟨2, by decide⟩
example : extractTextRange true "a\r\nÜb\n".toList 1 0 1 1 = some ['Ü'] := by decide
example : extractTextRange true "a\r\nÜb\n".toList 0 0 1 9 = some "a\r\nÜb".toList := by decide

end ParolModel
