import ParolModel.Proofs.LLPredTrace
import ParolModel.Props.C02
/-! # C02 (tree / oracle half) — the LL(k) parser builds a derivation tree, predicts it in
leftmost-derivation order, reports it in post-order, and the executable oracle accepts it

Property text: *Parse trees and semantic actions follow the leftmost derivation: when an LL(k) parse
succeeds, the returned parse tree is a derivation tree of the input for the transformed grammar: every
inner node is one production whose children are exactly that production's right-hand side in order.
Semantic actions are invoked exactly once per production application, in post-order, with the children
of that application.*

`Props/C02.lean` states this through the traversal relation `DS`. Here the same fact is stated through
the explicit tree object `DTree` (Model/LRTree.lean — the one used for the LR parser in Props/C03c):
a token leaf (significant or skipped; skipped leaves are children that do not count as grammar symbols)
or a production application `node p lhs kids`. `d.wf gprods` = every inner node is one production with
its right-hand side as counting children in order; `d.postActs` = the action calls in post-order;
`d.preProds` = the production numbers in pre-order; `d.events` = the event rendering; `d.leaves`,
`d.frontier` = all token leaves / the significant token types.

**What the model records.** `llRun` records (a) `actions`: one entry `(p, children)` each time an
end-of-production marker `E(p)` is popped (`process_item_stack`), in that order; (b) `tree`: the
tree-builder events, in particular `open_ lhs(p)` each time `push_production(p)` is called, in that
order. It does not record the production NUMBERS at prediction time. `llRunG` (Model/LLTreeCheck.lean)
is `llRun` with one ghost accumulator that does exactly this — `preds`: the argument of every
`push_production` call, in call order; `llRunG_erase` proves that erasing the ghost gives `llRun`
back, so `(llRunG …).preds` IS the prediction order of the model's run.

* `ll_dtree` — every successful run has a derivation tree `d` of the start symbol over `gOf T` whose
  frontier is the input, whose post-order action list IS the recorded action trace, whose rendering
  `root( d, trailing skipped tokens )` IS the recorded tree, and whose pre-order production list IS the
  prediction trace.
* `ll_treeCheck_ok` — the executable statement `treeCheck`, instantiated exactly as the handler
  `ll-tree-check` does (`llTreeCheck`, `llTreeCheck_eq_handler`) to judge every REAL parser run in
  C02/C14, holds for the action trace and tree of every successful untrimmed run of the model.
* `dtree_preorder_leftmost`, `ll_reductions_leftmost` — the prediction trace, applied in this order,
  is a LEFTMOST derivation (`LmDeriv`: every step rewrites the leftmost non-terminal) of the input from
  the start symbol; `lmDeriv_yield`: such a derivation is a derivation in the sense of `Yield`.
* `ll_predictions_open_nodes` — the i-th `open_` event of the recorded tree is the left-hand side of
  the i-th predicted production (the tree events are in prediction order).
* `ll_actions_perm_predictions` — every predicted production is reported exactly once.

Hypotheses on the table: `TablesSound` (decided per table set by `tablesSoundB`) and "no
end-of-production marker inside a right-hand side" (decided by `noMarkersB`) — both are properties of
every table the generator emits and are evaluated on every generated table in the checks. -/
namespace ParolModel

/-- **C02, tree form.** With sound tables, if the LL parser model succeeds there are a derivation tree
    `d` (with attached skipped tokens) and trailing skipped tokens `post` such that
    * the root of `d` is a production of the start symbol and every inner node is one production of
      `gOf T` with its right-hand side as counting children in order (`wf`);
    * the frontier of `d` is the sequence of significant token types of the input, and the leaves of
      `d` followed by `post` are ALL delivered tokens in order;
    * the recorded action trace is the post-order list of `d`'s production applications, each with its
      counting children as arguments — every application exactly once, children before parents;
    * untrimmed, the recorded tree is `root( d, post )`;
    * the productions handed to `push_production`, in call order, are the PRE-order list of `d`. -/
theorem ll_dtree (T : LLTables) (o : Opts) (fuel : Nat) (toks : List MTok)
    (hT : TablesSound T) (hwf : ∀ pr ∈ T.prods, ∀ x ∈ pr.rhsRev, PT.isE x = false)
    (h : (llRun T o fuel toks).res = .ok) :
    ∃ (d : DTree) (post : List MTok),
      (∃ p kids, d = .node p T.start kids) ∧ d.wf (gOf T).prods = true ∧
      d.frontier = sigTypes toks ∧
      (∀ t ∈ post, t.skip = true) ∧ d.leaves ++ post = toks ∧
      (llRun T o fuel toks).actions = d.postActs ∧
      (o.trim = false →
        (llRun T o fuel toks).tree = .open_ none :: d.events ++ post.map tokEvOf ++ [.close]) ∧
      (llRunG T o fuel toks).preds = d.preProds := by
  rw [← llRunG_erase] at h ⊢
  obtain ⟨p, kids, post, hdwf, hpost, hleaves, hacts, htree, hpreds⟩ := llRunG_tree T o fuel toks hT hwf h
  refine ⟨.node p T.start kids, post, ⟨p, kids, rfl⟩, hdwf, ?_, hpost, hleaves, hacts, ?_, hpreds⟩
  · have h2 : sigToks post = [] := by
      simp only [sigToks, List.filter_eq_nil_iff]
      intro t ht; simp [hpost t ht]
    have h1 : sigToks ((DTree.node p T.start kids).leaves ++ post) = sigToks toks := by rw [hleaves]
    simp only [sigToks, List.filter_append] at h1 h2
    simp only [DTree.frontier, sigTypes, sigToks]
    rw [← h1, h2, List.append_nil]
  · intro htrim
    rw [htree, htrim]; rfl

/-- **The executable statement is a theorem about the model.** `treeCheck`, instantiated exactly as
    in the handler `ll-tree-check` that judges the real parser's output (`llTreeCheck`), accepts the
    action trace and tree of every successful untrimmed run of the model with sound tables, if token
    ids are positions (as the harness numbers them). -/
theorem ll_treeCheck_ok (T : LLTables) (o : Opts) (fuel : Nat) (toks : List MTok)
    (hT : TablesSound T) (hwf : ∀ pr ∈ T.prods, ∀ x ∈ pr.rhsRev, PT.isE x = false)
    (htrim : o.trim = false) (hid : toks.map (·.id) = List.range toks.length)
    (h : (llRun T o fuel toks).res = .ok) :
    llTreeCheck T toks (llRun T o fuel toks).actions (llRun T o fuel toks).tree = none := by
  obtain ⟨d, post, ⟨p, kids, rfl⟩, hdwf, _, hpost, hleaves, hacts, htree, _⟩ :=
    ll_dtree T o fuel toks hT hwf h
  rw [llTreeCheck_eq_lr T hwf, hacts, htree htrim]
  have := treeCheck_top T.start (gOf T).prods toks [] post p kids hid hdwf (by intro t ht; cases ht) hpost
    (by simpa using hleaves)
  simpa using this

/-- The same with the two table hypotheses in their decidable form, as the checks evaluate them on
    every generated table (`tablesSoundB`, `noMarkersB`). -/
theorem ll_treeCheck_ok_checked (T : LLTables) (o : Opts) (fuel : Nat) (toks : List MTok)
    (h1 : tablesSoundB T = true) (h2 : noMarkersB T = true)
    (htrim : o.trim = false) (hid : toks.map (·.id) = List.range toks.length)
    (h : (llRun T o fuel toks).res = .ok) :
    llTreeCheck T toks (llRun T o fuel toks).actions (llRun T o fuel toks).tree = none :=
  ll_treeCheck_ok T o fuel toks (tablesSoundB_sound T h1) (noMarkersB_sound T h2) htrim hid h

/-- The handler `ll-tree-check`, with the functions it passes to `treeCheck` written out. -/
theorem handleLLTreeCheck_unfold (st ps ds toks acts tree : String) :
    handleLLTreeCheck [st, ps, ds, toks, acts, tree] = (do
      let st ← st.toNat?
      let ps ← parseLLProds ps
      let toks ← parseToks toks
      let acts ← parseActions acts
      let tree ← parseTree tree
      match treeCheck st (fun p => ps[p]?.map (·.lhs)) (fun p => ps[p]?.map (·.rhsRev.reverse))
          toks acts tree with
      | none => some "ok"
      | some why => some s!"fail {why}") := rfl

/-- `llTreeCheck` is the function the handler `ll-tree-check` evaluates: on a request whose words parse
    to the start symbol and production table of `T`, to `ts`, and to the protocol form of `as` and `tr`,
    the handler answers `ok` exactly when `llTreeCheck T ts as tr = none` (the automata word is
    ignored by the handler). -/
theorem llTreeCheck_eq_handler (st ps ds toks acts tree : String) (T : LLTables)
    (ts : List MTok) (as : List (Nat × List PTItem)) (tr : List TreeEv)
    (h1 : st.toNat? = some T.start) (h2 : parseLLProds ps = some T.prods) (h3 : parseToks toks = some ts)
    (h4 : parseActions acts = some (actionsAsChildren as)) (h5 : parseTree tree = some tr) :
    handleLLTreeCheck [st, ps, ds, toks, acts, tree] = some "ok" ↔ llTreeCheck T ts as tr = none := by
  rw [handleLLTreeCheck_unfold]
  simp only [h1, h2, h3, h4, h5, Option.bind_eq_bind, Option.bind_some, llTreeCheck]
  split
  · rename_i heq; simp [heq]
  · rename_i why heq
    simp only [heq, Option.some.injEq, reduceCtorEq, iff_false]
    intro h
    have := congrArg String.length h
    simp only [String.length_append] at this
    have e1 : (toString "fail ").length = 5 := by decide
    have e2 : ("ok" : String).length = 2 := by decide
    omega

/-- **Pre-order = leftmost derivation**: for a well-formed tree, applying the productions of its
    pre-order list (= the order in which the LL parser predicts them) in this order is a LEFTMOST
    derivation of the frontier from the root symbol: each step rewrites the leftmost non-terminal. -/
theorem dtree_preorder_leftmost (gprods : List Rule) (d : DTree) (hwf : d.wf gprods = true)
    (hs : d.sig = true) : LmDeriv gprods d.preProds [d.sym] (d.frontier.map Sym.t) := by
  have := dtree_leftmost_ctx gprods d hwf hs [] []
  simpa [prodSeq, DTree.preProds, DTree.frontier, sigTypes] using this

/-- A leftmost derivation of a terminal string is a derivation (`Yield`) of it. -/
theorem lmDeriv_yield (start : Nat) (gprods : List Rule) {ps : List Nat} {α : List Sym} {w : List Nat}
    (h : LmDeriv gprods ps α (w.map Sym.t)) : Yield ⟨start, gprods⟩ α w := by
  generalize hγ : w.map Sym.t = γ at h
  induction h with
  | nil α =>
    subst hγ
    induction w with
    | nil => exact .nil
    | cons a w ih => exact .term a ih
  | @cons p ps α β γ hstep _ ih =>
    have hy := ih hγ
    obtain ⟨r, w0, δ, hr, rfl, rfl⟩ := hstep.rule
    obtain ⟨u, v, rfl, hu, hv⟩ := Yield.split (a := w0.map Sym.t ++ r.rhs) (b := δ) hy
    obtain ⟨u1, u2, rfl, hu1, hu2⟩ := Yield.split hu
    have := Yield.append hu1 (Yield.nonterm (G := ⟨start, gprods⟩) r (List.mem_of_getElem? hr) hu2 hv)
    simpa [List.append_assoc] using this

/-- **C02, leftmost derivation.** On success, the productions the parser predicts — the arguments of
    its `push_production` calls in call order, `(llRunG …).preds`, where `llRunG` is `llRun` plus this
    ghost (`llRunG_erase`) — are a LEFTMOST derivation of the significant token types of the input
    from the start symbol in the grammar of the production table; and the semantic-action calls are
    the post-order of the same derivation tree whose pre-order the predictions are. -/
theorem ll_reductions_leftmost (T : LLTables) (o : Opts) (fuel : Nat) (toks : List MTok)
    (hT : TablesSound T) (hwf : ∀ pr ∈ T.prods, ∀ x ∈ pr.rhsRev, PT.isE x = false)
    (h : (llRun T o fuel toks).res = .ok) :
    (llRunG T o fuel toks).out = llRun T o fuel toks ∧
    LmDeriv (gOf T).prods (llRunG T o fuel toks).preds [.n T.start] ((sigTypes toks).map Sym.t) ∧
    ∃ d : DTree, d.wf (gOf T).prods = true ∧ d.sym = .n T.start ∧ d.frontier = sigTypes toks ∧
      (llRunG T o fuel toks).preds = d.preProds ∧ (llRun T o fuel toks).actions = d.postActs := by
  obtain ⟨d, post, ⟨p, kids, rfl⟩, hdwf, hfr, _, _, hacts, _, hpreds⟩ := ll_dtree T o fuel toks hT hwf h
  refine ⟨llRunG_erase T o fuel toks, ?_, _, hdwf, rfl, hfr, hpreds, hacts⟩
  rw [hpreds, ← hfr]
  exact dtree_preorder_leftmost _ _ hdwf rfl

/-- The tree events are in prediction order: untrimmed, the labels of the nodes the recorded tree opens
    (below the artificial root), in event order, are the left-hand sides of the predicted productions
    in prediction order. -/
theorem ll_predictions_open_nodes (T : LLTables) (o : Opts) (fuel : Nat) (toks : List MTok)
    (hT : TablesSound T) (hwf : ∀ pr ∈ T.prods, ∀ x ∈ pr.rhsRev, PT.isE x = false)
    (htrim : o.trim = false) (h : (llRun T o fuel toks).res = .ok) :
    ((llRunG T o fuel toks).preds.map fun p => (T.prods[p]?).map (·.lhs)) =
      (treeOpens (llRun T o fuel toks).tree).map some := by
  obtain ⟨d, post, _, hdwf, _, _, _, _, htree, hpreds⟩ := ll_dtree T o fuel toks hT hwf h
  rw [hpreds, htree htrim]
  have hskipopens : ∀ l : List MTok, treeOpens (l.map tokEvOf) = [] := by
    intro l
    induction l with
    | nil => rfl
    | cons t l ih => simpa [tokEvOf, treeOpens] using ih
  have hpostopens := hskipopens post
  simp only [treeOpens, treeOpens_append, List.cons_append, hpostopens, List.append_nil, treeOpens_events,
    DTree.preProds, List.map_map]
  apply List.map_congr_left
  intro n hn
  have hok : n.ok (gOf T).prods = true := by
    have hmem : n ∈ d.nodes := by
      have := (preNodes_perm_nodesApp d).mem_iff (a := n)
      exact this.1 hn
    simp only [DTree.wf, List.all_eq_true] at hdwf
    exact hdwf n hmem
  obtain ⟨r, hr, hl, _⟩ := ProdApp.ok_iff.1 hok
  simp only [gOf, List.getElem?_map] at hr
  cases hp : T.prods[n.prod]? with
  | none => simp [hp] at hr
  | some pr =>
    simp only [hp, Option.map_some, Option.some.injEq] at hr
    simp [Function.comp, ← hl, ← hr, ruleOf, hp]

/-- Every predicted production is reported exactly once: the production numbers of the action trace
    are a permutation of the prediction trace. -/
theorem ll_actions_perm_predictions (T : LLTables) (o : Opts) (fuel : Nat) (toks : List MTok)
    (hT : TablesSound T) (hwf : ∀ pr ∈ T.prods, ∀ x ∈ pr.rhsRev, PT.isE x = false)
    (h : (llRun T o fuel toks).res = .ok) :
    ((llRunG T o fuel toks).preds).Perm ((llRun T o fuel toks).actions.map (·.1)) := by
  obtain ⟨d, post, _, _, _, _, _, hacts, _, hpreds⟩ := ll_dtree T o fuel toks hT hwf h
  rw [hpreds, hacts]
  simpa [DTree.preProds, DTree.postActs, ProdApp.action, Function.comp_def] using preNodes_perm_nodes d

-- ---------------------------------------------------------------------------------------------
-- Non-vacuity on the tables of `S: "a" {"b"} ["c"];` (Props/C01) and the input `a ws b /*c*/ b c ws`.

/-- `a ws b /*c*/ b c ws`: significant tokens 5 6 6 7, skipped tokens (type 1 whitespace, type 3 comment)
    at positions 1, 3, 6. -/
def exLLSkips : List MTok :=
  [⟨5, false, false, 0⟩, ⟨1, true, false, 1⟩, ⟨6, false, false, 2⟩, ⟨3, true, true, 3⟩, ⟨6, false, false, 4⟩,
   ⟨7, false, false, 5⟩, ⟨1, true, false, 6⟩]

/-- Its derivation tree: skipped tokens are non-counting children of the production in whose span they
    were read (in front of the token they precede); the trailing one stays outside, below the root. -/
def exLLTree : DTree :=
  .node 0 0 [
    .leaf ⟨5, false, false, 0⟩,
    .node 1 1 [.leaf ⟨1, true, false, 1⟩, .leaf ⟨6, false, false, 2⟩,
      .node 1 1 [.leaf ⟨3, true, true, 3⟩, .leaf ⟨6, false, false, 4⟩, .node 2 1 []]],
    .node 3 2 [.leaf ⟨7, false, false, 5⟩]]

example : tablesSoundB exT = true := by decide
example : noMarkersB exT = true := by decide
example : (llRun exT ⟨false, false, none⟩ 100 exLLSkips).res = .ok := by decide
example : exLLSkips.map (·.id) = List.range exLLSkips.length := by decide
example : exLLTree.wf (gOf exT).prods = true := by decide
example : exLLTree.frontier = [5, 6, 6, 7] := by decide
example : exLLTree.leaves ++ [⟨1, true, false, 6⟩] = exLLSkips := by decide
example : (llRun exT ⟨false, false, none⟩ 100 exLLSkips).actions = exLLTree.postActs := by decide
example : (llRun exT ⟨false, false, none⟩ 100 exLLSkips).tree =
    .open_ none :: exLLTree.events ++ [.tok 6, .close] := by decide
example : (llRunG exT ⟨false, false, none⟩ 100 exLLSkips).preds = exLLTree.preProds := by decide
example : (llRunG exT ⟨false, false, none⟩ 100 exLLSkips).preds = [0, 1, 1, 2, 3] := by decide
example : (llRun exT ⟨false, false, none⟩ 100 exLLSkips).actions.map (·.1) = [2, 1, 1, 3, 0] := by decide
example : llTreeCheck exT exLLSkips (llRun exT ⟨false, false, none⟩ 100 exLLSkips).actions
    (llRun exT ⟨false, false, none⟩ 100 exLLSkips).tree = none := by decide
-- `llTreeCheck` is not vacuous: it rejects the same tree with an action that reports the skipped token
-- 3 as an argument of production 1 …
example : (llTreeCheck exT exLLSkips
    [(2, []), (1, [.tok 3 3, .tok 4 6, .nt 1]), (1, [.tok 2 6, .nt 1]), (3, [.tok 5 7]), (0, [.tok 0 5, .nt 1, .nt 2])]
    (llRun exT ⟨false, false, none⟩ 100 exLLSkips).tree).isSome = true := by decide
-- … and the same actions in prediction (pre-) order instead of post-order
example : (llTreeCheck exT exLLSkips
    [(0, [.tok 0 5, .nt 1, .nt 2]), (1, [.tok 2 6, .nt 1]), (1, [.tok 4 6, .nt 1]), (2, []), (3, [.tok 5 7])]
    (llRun exT ⟨false, false, none⟩ 100 exLLSkips).tree).isSome = true := by decide
-- the leftmost derivation S ⇒ a L O ⇒ a b L O ⇒ a b b L O ⇒ a b b O ⇒ a b b c, step by step
example : LmDeriv (gOf exT).prods [0, 1, 1, 2, 3] [.n 0] [.t 5, .t 6, .t 6, .t 7] :=
  .cons (.mk ⟨0, [.t 5, .n 1, .n 2]⟩ [] [] rfl) <|
  .cons (.mk ⟨1, [.t 6, .n 1]⟩ [5] [.n 2] rfl) <|
  .cons (.mk ⟨1, [.t 6, .n 1]⟩ [5, 6] [.n 2] rfl) <|
  .cons (.mk ⟨1, []⟩ [5, 6, 6] [.n 2] rfl) <|
  .cons (.mk ⟨2, [.t 7]⟩ [5, 6, 6] [] rfl) <| .nil _

end ParolModel
