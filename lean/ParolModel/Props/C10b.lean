import ParolModel.Props.C10
import ParolModel.Proofs.LeftFactorTerm
/-! # C10b — Left factoring terminates

Property text (C10): *For every BNF grammar, left factoring terminates, …*

`Props/C10.lean` left the termination clause as the unproved statement `LeftFactorTerminates`
(`∀ ord rs, ∃ fuel rs', leftFactor ord fuel rs = some rs'`). This module settles it.

**Measure.** `lfMeasure rs` = Σ over all pairs `i < j` of rules with the same left-hand side of the
length of the longest common prefix of their right-hand sides (`Proofs/LeftFactorTerm.lean`).
One `factor_out_prefix` step `A → π β₁ | … | π βₖ | γ…` ⟶ `A → π A' | γ…`, `A' → β₁ | … | βₖ` with
`π ≠ ε`, `k ≥ 2` lowers it by at least `|π|`: the `k(k-1)/2` pairs among the factored rules lose
`|π|` each, the pairs (factored rule, other rule of `A`) are replaced by the single pair
(`A → π A'`, other rule) with the same common prefix (the other rule does not start with `π`, and
`A'` is fresh), the new non-terminal `A'` is fresh so it pairs with nothing else. Every prefix that
`find_longest_prefixes` reports is non-empty and shared by at least two rules
(`findLongestPrefix_shared`), the non-terminals of one round are distinct, and a step for `B`
does not touch the rules of `A` — so a round that sets `modified` lowers the measure, and the
`while operand.modified` loop runs at most `lfMeasure rs + 1` times. Simpler measures do not work:
the total number of symbols is unchanged by `A → a b | a c ⟶ A → a A'; A' → b | c`, and any sum of
per-rule weights depending on the length only is refuted by this example together with
`A → a | a ⟶ A → a A'; A' → ε | ε`.

**The drain order must be a permutation.** `ord` models the iteration order of the `HashMap` that
`group_by` builds; the real map yields every group exactly once. For an `ord` that *invents*
groups the literal statement `LeftFactorTerminates` (quantifying over all functions `ord`) is false
(`left_factor_terminates_needs_perm`) — a defect of the statement, not of the code. -/
namespace ParolModel

/-- **C10, termination** (*"left factoring terminates"*): for every grammar and every drain order
    of `group_by`'s map (any permutation of the groups), the loop `while operand.modified` of
    `left_factor` ends within `lfMeasure rs + 1` rounds — the model never runs out of this fuel. -/
theorem left_factor_terminates {ord : GroupOrd} (hord : ∀ l, (ord l).Perm l) (rs : List RuleN) :
    ∃ rs', leftFactor ord (lfMeasure rs + 1) rs = some rs' :=
  leftFactorLoop_total_of (factor_out_total ord)
    (fun _ _ h => factorOut_decreases hord h) (lfMeasure rs + 1) rs (Nat.lt_succ_self _)

/-- **C10, termination, bound in plain grammar terms**: the number of rounds is at most
    (number of productions) × (total number of right-hand-side symbols) + 1. -/
theorem left_factor_terminates_bound {ord : GroupOrd} (hord : ∀ l, (ord l).Perm l)
    (rs : List RuleN) (fuel : Nat) (hfuel : rs.length * totalLen rs + 1 ≤ fuel) :
    ∃ rs', leftFactor ord fuel rs = some rs' := by
  obtain ⟨rs', h⟩ := left_factor_terminates hord rs
  have := lfMeasure_le rs
  exact ⟨rs', leftFactorLoop_fuel_mono _ rs rs' h fuel (by omega)⟩

/-- **C10, the driver's fuel suffices**: the model driver runs `leftFactor` with
    `lfFuel rs = (Σ (|rhs| + 1)) · (|rs| + 1) + 10`; for the drain orders it uses (all permutations)
    it never answers `fuel-exhausted`. -/
theorem left_factor_driver_fuel_suffices {ord : GroupOrd} (hord : ∀ l, (ord l).Perm l)
    (rs : List RuleN) : ∃ rs', leftFactor ord (lfFuel rs) rs = some rs' :=
  left_factor_terminates_bound hord rs _ (lfFuel_ge rs)

/-- **C10, one modifying round strictly lowers the measure** — the statement that makes the loop a
    well-founded recursion on `lfMeasure`. -/
theorem factor_out_decreases {ord : GroupOrd} (hord : ∀ l, (ord l).Perm l) {rs rs' : List RuleN}
    (h : factorOut ord rs = some (rs', true)) : lfMeasure rs' < lfMeasure rs :=
  factorOut_decreases hord h

/-- **C10, whole property for the terminating run**: with the fuel above, the result exists, and no
    two rules of one non-terminal start with the same symbol. (Language preservation and freshness
    of the suffix names for this result are `left_factor_preserves_lang` and
    `left_factor_helper_fresh` of `Props/C10.lean`.) -/
theorem left_factor_total {ord : GroupOrd} (hord : ∀ l, (ord l).Perm l) (rs : List RuleN) :
    ∃ rs', leftFactor ord (lfMeasure rs + 1) rs = some rs' ∧
      ∀ A s, (rs'.filter (fun r => r.lhs = A && r.rhs.head? == some s)).length ≤ 1 := by
  obtain ⟨rs', h⟩ := left_factor_terminates hord rs
  exact ⟨rs', h, left_factor_no_common_first (fun l x hx => (hord l).mem_iff.2 hx) h⟩

/-! ## the literal statement of `Props/C10.lean` is too strong -/

/-- a "drain order" that ignores the map and always reports the group `A → 1 2 | 1 3` -/
def inventingOrd : GroupOrd := fun _ =>
  [("A".toList, [⟨"A".toList, [.t 1, .t 2], .none⟩, ⟨"A".toList, [.t 1, .t 3], .none⟩])]

/-- with `inventingOrd` every round reports the prefix `1` for `A`, so `modified` is always set
    and the loop never ends, whatever the grammar -/
theorem inventingOrd_diverges (rs : List RuleN) (fuel : Nat) :
    leftFactor inventingOrd fuel rs = none := by
  apply leftFactorLoop_none_of_always_modified
  intro rs
  obtain ⟨rs', m, h⟩ := factor_out_total inventingOrd rs
  have hp : findLongestPrefixes inventingOrd rs = [("A".toList, [.t 1])] := by
    unfold findLongestPrefixes inventingOrd
    decide
  unfold factorOut at h
  simp only [hp, Option.map_eq_some_iff, Prod.mk.injEq] at h
  obtain ⟨rs1, h1, rfl, hm⟩ := h
  refine ⟨rs1, ?_⟩
  unfold factorOut
  simp only [hp, h1, Option.map_some]
  rfl

/-- **`LeftFactorTerminates` as stated in `Props/C10.lean` is false**: it quantifies over all
    functions `ord`, including ones that are not iteration orders of any map. The hypothesis
    `∀ l, (ord l).Perm l` of `left_factor_terminates` is what the real `HashMap` satisfies. -/
theorem left_factor_terminates_needs_perm : ¬ LeftFactorTerminates := by
  intro h
  obtain ⟨fuel, rs', h⟩ := h inventingOrd []
  rw [inventingOrd_diverges] at h
  cases h

/-! ## non-vacuity -/

example : ∀ l : List (Name × List RuleN), (id l).Perm l := fun _ => List.Perm.refl _
example : ∀ l : List (Name × List RuleN), (l.reverse).Perm l := fun l => List.reverse_perm l

/-- `A: a b | a c | d e | d f` has two pairs with a common prefix of length 1 -/
example : lfMeasure tieRules = 2 := by decide

/-- … and the bound is attained: two modifying rounds and the final one -/
example : leftFactor id (lfMeasure tieRules) tieRules = none := by decide
example : (leftFactor id (lfMeasure tieRules + 1) tieRules).isSome = true := by decide

/-- the measure along the run on `A: a b c | a b d | a e` is 4, 1, 0 -/
def chainRules : List RuleN :=
  [⟨"A".toList, [.t 1, .t 2, .t 3], .none⟩, ⟨"A".toList, [.t 1, .t 2, .t 4], .none⟩,
   ⟨"A".toList, [.t 1, .t 5], .none⟩]

example : lfMeasure chainRules = 4 := by decide
example : (factorOut id chainRules).map (fun x => (lfMeasure x.1, x.2)) = some (1, true) := by decide

/-- duplicated alternatives `A: a | a` (the case that defeats every per-rule weight): measure 1,
    one modifying round, result `A: a ASuffix; ASuffix: ; ASuffix: ;` -/
example : lfMeasure [⟨"A".toList, [.t 1], .none⟩, ⟨"A".toList, [.t 1], .none⟩] = 1 := by decide
example : leftFactor id 2 [⟨"A".toList, [.t 1], .none⟩, ⟨"A".toList, [.t 1], .none⟩] = some
    [⟨"A".toList, [.t 1, .n "ASuffix".toList .none], .none⟩,
     ⟨"ASuffix".toList, [], .none⟩, ⟨"ASuffix".toList, [], .none⟩] := by decide

/-- the diverging run of the invented order, concretely -/
example : leftFactor inventingOrd 5 [⟨"A".toList, [.t 1], .none⟩] = none := by decide

end ParolModel
