import ParolModel.Props.C01
import ParolModel.Proofs.LLComplete
/-! # C01 (second half) — every sentence is accepted

Property text: *For every grammar parol accepts for LL(k) generation and every input token
sequence, the generated parser reports success **if and only if** the sequence is a sentence of the
grammar.* `Props/C01.lean` proves "only if" (`ll_sound`, for arbitrary lookahead automata) and
records "if" as `def LLComplete`. This module proves it.

**Hypothesis.** Completeness needs lookahead automata that predict *exactly*; `TablesExact T`
(`Proofs/LLComplete.lean`) says: right-hand sides contain no end-of-production markers, and for
every production `p : A → α`, every `u` with `α ⇒* u` and every `v` derived from a right context
`γ` of `A` (`KS.FollowCtx`: `start ⇒* x A γ'`, `γ` the unexpanded part), the runtime
`LookaheadDFA::eval` (C08's model) of `A`'s automaton answers `p` on the EOI-padded `k`-lookahead
`(u·v·0^k)/k`, `k` that automaton's own depth. Two verified ways to establish it:

* `tablesExact_of_sets` — from "`A`'s automaton, read as a deterministic automaton (`runRef`),
  predicts `q` on `t` iff `q` is a production of `A` and `t ∈ FIRST_k(rhs q) ⊙_k FOLLOW_k(A)`"
  (`AutomatonExact`: the conclusion of C07's `compiled_accepts_iff_tuple` for C05's lookahead sets
  `KS.LA`) plus `T(0) ∉` right-hand sides, using C08's `eval_sound`,
  `eval_error_only_if_no_prefix`, `eval_assertFail_only_if`. Pairwise disjointness of the sets is
  implied (`runRef` is a function), prefix-freeness is *proved* (k-tuples of EOI-free strings).
* `tablesExactB_sound` — from the executable check `tablesExactB T fuel`, which runs `eval` on
  every tuple of the verified reference computation `firstK_lfp`/`followK_lfp` (C06).

No left-recursion hypothesis is needed: the fuel bound is the size of the derivation (one loop
iteration per token, two per production application: `ll_complete_explicit`), and a left-recursive
grammar simply cannot satisfy `TablesExact` together with productivity. No hypothesis on token
types either (inside `llRun` the bottom of the parser stack is the end-of-production marker of the
start production, so `input_accepted` never fires early). `maxDepth = none` is necessary (a depth limit may reject a
sentence, C20).

Proof outline (`Proofs/LLComplete.lean`): `DS_of_yield` — induction on the derivation `Yield`,
invariant "every non-terminal occurrence in the symbol string has its right context in
`FollowCtx`", gives the declarative parse `DS`; `DS_SD` (inverse of `SD_decompose`) turns it into
the big-step run `SD` with the end-of-production markers and the parse-tree stack; `SD_llLoop`
(inverse of `llLoop_SD`) replays `SD` in the executable loop with fuel `n + 1` and the exact
outputs. -/
namespace ParolModel

/-- **C01 completeness**: with exact lookahead automata and no depth limit, every sentence of the
    grammar the tables denote is accepted — whatever skip tokens / comments are interleaved, with
    or without trimming, whatever the recovery flag. -/
theorem ll_complete (T : LLTables) (hExact : TablesExact T) (o : Opts) (toks : List MTok)
    (ho : o.maxDepth = none) (hw : Lang (gOf T) (sigTypes toks)) :
    ∃ fuel, (llRun T o fuel toks).res = .ok := by
  obtain ⟨n, hn⟩ := llRun_complete T hExact o ho toks hw
  exact ⟨n + 1, hn (n + 1) (Nat.lt_succ_self n)⟩

/-- Fuel is monotone for accepted sentences: the run succeeds with *every* fuel above a bound
    (the number of loop iterations). -/
theorem ll_complete_fuel (T : LLTables) (hExact : TablesExact T) (o : Opts) (toks : List MTok)
    (ho : o.maxDepth = none) (hw : Lang (gOf T) (sigTypes toks)) :
    ∃ n, ∀ fuel, n < fuel → (llRun T o fuel toks).res = .ok :=
  llRun_complete T hExact o ho toks hw

/-- **Explicit fuel**: a sentence `w` with a derivation tree of `m` production applications
    (`YieldN`, the sized form of `Yield`; `Yield.sized` gives some `m` for every sentence) is accepted
    with fuel `|w| + 2·m` (and any larger fuel); the run then makes exactly `|w| + 2·m − 1` loop
    iterations and calls exactly `m` semantic actions. -/
theorem ll_complete_explicit (T : LLTables) (hExact : TablesExact T) (o : Opts) (toks : List MTok)
    (ho : o.maxDepth = none) (m : Nat) (hw : YieldN (gOf T) m [.n T.start] (sigTypes toks))
    (fuel : Nat) (hf : (sigTypes toks).length + 2 * m ≤ fuel) :
    (llRun T o fuel toks).res = .ok ∧
    (llRun T o fuel toks).steps + 1 = (sigTypes toks).length + 2 * m ∧
    (llRun T o fuel toks).actions.length = m :=
  llRun_complete_sized T hExact o ho toks m hw fuel hf

/-- The statement recorded in `Props/C01.lean` holds under `TablesExact`. -/
theorem llComplete_of_exact (T : LLTables) (hExact : TablesExact T) : LLComplete T :=
  fun o toks ho hw => ll_complete T hExact o toks ho hw

/-- **C01, both directions**: the parser reports success iff the significant token types form a
    sentence. -/
theorem ll_accepts_iff (T : LLTables) (hSound : TablesSound T) (hExact : TablesExact T) (o : Opts)
    (toks : List MTok) (ho : o.maxDepth = none) :
    (∃ fuel, (llRun T o fuel toks).res = .ok) ↔ Lang (gOf T) (sigTypes toks) :=
  ⟨fun ⟨fuel, h⟩ => ll_sound T o fuel toks hSound h, ll_complete T hExact o toks ho⟩

/-- Completeness from the set-level premise (automata accept exactly the strong-LL(k) lookahead
    sets of C05, as C07 concludes for the compiled automata). -/
theorem ll_complete_of_sets (T : LLTables) (hSets : SetsExact T) (o : Opts) (toks : List MTok)
    (ho : o.maxDepth = none) (hw : Lang (gOf T) (sigTypes toks)) :
    ∃ fuel, (llRun T o fuel toks).res = .ok :=
  ll_complete T (tablesExact_of_sets T hSets) o toks ho hw

/-- Both directions for table sets accepted by the two verified checkers. -/
theorem ll_accepts_iff_checked (T : LLTables) (fuelK : Nat) (hS : tablesSoundB T = true)
    (hE : tablesExactB T fuelK = true) (o : Opts) (toks : List MTok) (ho : o.maxDepth = none) :
    (∃ fuel, (llRun T o fuel toks).res = .ok) ↔ Lang (gOf T) (sigTypes toks) :=
  ll_accepts_iff T (tablesSoundB_sound T hS) (tablesExactB_sound T fuelK hE) o toks ho

/-! ## non-vacuity

The tables parol generates for `S: "a" {"b"} ["c"];` (`exT`, Props/C01.lean) satisfy `TablesExact`;
a table set whose automaton for the `{"b"}` loop lost its `b`-transition does not pass the check
and rejects the sentence `a b`. -/
example : tablesExactB exT 10 = true := by decide

theorem exT_exact : TablesExact exT := tablesExactB_sound exT 10 (by decide)

example (l : List Nat) (o : Opts) (ho : o.maxDepth = none) :
    (∃ fuel, (llRun exT o fuel (exToks l)).res = .ok) ↔ Lang (gOf exT) (sigTypes (exToks l)) :=
  ll_accepts_iff exT (tablesSoundB_sound exT (by decide)) exT_exact o _ ho

/-- The set-level premise is satisfiable too: `exT`'s automata accept exactly the reference
    strong-LL(k) lookahead sets (decided by the verified `setsExactB`), and `tablesExact_of_sets`
    applies. -/
theorem exT_setsExact : SetsExact exT := setsExactB_sound exT 10 2 (by decide)
example : TablesExact exT := tablesExact_of_sets exT exT_setsExact

/-- The fuel bound `|w| + 2·m` is tight: `a b b c` has 4 tokens and a derivation with 5 production
    applications; fuel 14 succeeds after 13 iterations with 5 actions, fuel 13 does not. -/
example : (llRun exT ⟨false, false, none⟩ 14 (exToks [5, 6, 6, 7])).res = .ok ∧
    (llRun exT ⟨false, false, none⟩ 14 (exToks [5, 6, 6, 7])).steps = 13 ∧
    (llRun exT ⟨false, false, none⟩ 14 (exToks [5, 6, 6, 7])).actions.length = 5 ∧
    (llRun exT ⟨false, false, none⟩ 13 (exToks [5, 6, 6, 7])).res = .fuel := by decide

def exTBad : LLTables :=
  { exT with dfas := [⟨0, [], 0⟩, ⟨-1, [⟨0, 0, 2, 2⟩, ⟨0, 7, 2, 2⟩], 1⟩, ⟨-1, [⟨0, 0, 2, 4⟩, ⟨0, 7, 1, 3⟩], 1⟩] }
example : tablesSoundB exTBad = true ∧ tablesExactB exTBad 10 = false := by decide
example : (llRun exTBad ⟨false, false, none⟩ 100 (exToks [5, 6])).res = .syntax (some 1) := by decide
example : (llRun exT ⟨false, false, none⟩ 100 (exToks [5, 6])).res = .ok := by decide

end ParolModel
