import ParolModel.Proofs.LR
/-! # C03 — LALR(1) parsers accept exactly the language and build a derivation

Property text: *For every grammar that parol accepts as LALR(1) without reporting any resolved
conflict, parse-table construction completes without crashing, and the generated LR parser succeeds
on an input exactly when it is a sentence of the grammar. On success every reduction is reported
once, the reductions form a rightmost derivation in reverse, and the final tree is rooted at the
start symbol and covers every token.*

What is proved (model `lrRun` of `LRParser::parse_into`, tie D: exact comparison of result, action
trace, tree events and comments with the real parser on tables produced by parol + lalry):

* `lr_sound` — for EVERY table accepted by the verified checker `lrTableValid` (relative to the
  transformed grammar's productions) and EVERY token sequence: success implies membership in the
  language of that grammar. The checker is evaluated on every table parol produces in the check;
  no assumption about how the table was built (lalry is an external crate) is needed.
* The "only if" direction (every sentence is accepted) needs the correctness of the LALR(1)
  construction and is NOT proved (`LRComplete`); it is decided per explored grammar by the verified
  membership recogniser on all short strings against the ORIGINAL grammar.
* Tree / reduction structure: the executable property statement `treeCheck` (Model/TreeCheck.lean)
  is evaluated on every successful real run: every inner node is one production with its
  right-hand side as (significant) children in order, reductions are reported once each in
  post-order — which for a bottom-up parser is the reverse rightmost derivation —, the root holds
  exactly the start symbol and the leaves are all tokens in order.
-/
namespace ParolModel

/-- **C03 soundness**: with a table that passes `lrTableValid`, if the LR parser reports success
    then the significant token types form a sentence of the grammar `gprods` with start symbol
    `T.start`. (Hypothesis on the input: no significant token carries the end-of-input type 0 —
    the scanner never produces one.) -/
theorem lr_sound (T : LRTables) (gprods : List Rule) (o : Opts) (fuel : Nat) (toks : List MTok)
    (hv : lrTableValid T gprods = true) (hne : ∀ t ∈ toks, t.skip = false → t.ty ≠ 0)
    (h : (lrRun T o fuel toks).res = .ok) : Lang (gOfLR T gprods) (sigTypes toks) := by
  have hinv : LRInv T gprods ⟨[0], toks, [], [], []⟩ [] :=
    ⟨by simpa [sigItems] using Path.base 0, by simpa [sigItems] using ItemsYield.nil⟩
  have := lrLoop_sound T gprods o hv fuel ⟨[0], toks, [], [], []⟩ 0 _ [] hne hinv rfl h
  simpa using this

/-- Full statement of completeness (NOT proved; see the module comment). -/
def LRComplete (T : LRTables) (gprods : List Rule) : Prop :=
  ∀ (o : Opts) (toks : List MTok), o.maxDepth = none → (∀ t ∈ toks, t.skip = false → t.ty ≠ 0) →
    Lang (gOfLR T gprods) (sigTypes toks) → ∃ fuel, (lrRun T o fuel toks).res = .ok

/-- Non-vacuity: an LALR(1) table for `S: '(' L ')'; L: S | ;` (start symbol used recursively,
    hence augmented by `S0: S`) passes the checker; `(())` is accepted, `(()` is not. -/
def exLR : LRTables :=
  ⟨2, [⟨0, 1, false⟩, ⟨0, 0, false⟩, ⟨1, 3, false⟩, ⟨2, 1, false⟩],
   [⟨[(5, .shift 1)], [(1, 2)]⟩,
    ⟨[(5, .shift 1), (6, .reduce 0 1)], [(0, 3), (1, 4)]⟩,
    ⟨[(0, .accept)], []⟩,
    ⟨[(6, .shift 5)], []⟩,
    ⟨[(6, .reduce 0 0)], []⟩,
    ⟨[(0, .reduce 1 2), (6, .reduce 1 2)], []⟩]⟩
def exLRg : List Rule := [⟨0, [.n 1]⟩, ⟨0, []⟩, ⟨1, [.t 5, .n 0, .t 6]⟩, ⟨2, [.n 1]⟩]
def exLRToks (l : List Nat) : List MTok := l.zipIdx.map fun (t, i) => ⟨t, false, false, i⟩
example : lrTableValid exLR exLRg = true := by decide
example : (lrRun exLR ⟨false, false, none⟩ 100 (exLRToks [5, 5, 6, 6])).res = .ok := by decide
example : (lrRun exLR ⟨false, false, none⟩ 100 (exLRToks [5, 5, 6])).res = .syntax none := by decide

end ParolModel
