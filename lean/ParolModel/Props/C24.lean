import ParolModel.Proofs.LfOrder
/-! # C24 — Code generation is deterministic

Property text: *Running parol twice on the same grammar and options, in different processes,
produces byte-identical generated files, including the names of all introduced non-terminals, types
and trait methods.* Quantifier: all grammars; any per-process hash seed.

What is proved here concerns the one transformation whose result used to depend on a `HashMap`'s
iteration order, left factoring (finding F5): every `HashMap` iteration site of
`left_factoring.rs` / `utils::group_by` has an explicit order parameter in the model
(Model/LeftFactor.lean). The rest of the pipeline is covered by repeated-run byte comparison
(`checks/c24.py`). -/
namespace ParolModel

/-- **C24, left factoring does not depend on HashMap iteration order**: `group_by` (a
    `HashMap<String, Vec<Pr>>` drained into a `Vec`) is the only iteration over a hash map in the
    current `left_factoring.rs`; its order is the parameter `ord` of the model. For ALL plain
    grammars, all fuels and any two order parameters that return permutations of the groups, the
    result of left factoring (productions, their order, the names of the introduced suffix
    non-terminals; also running out of fuel) is the same.

    Proof idea (Proofs/LfOrder.lean): the prefixes of one round are computed before any of them is
    applied and belong to pairwise different non-terminals; two `factor_out_prefix` steps for
    different non-terminals commute (`factorOutPrefix_comm`): the rule surgery commutes
    (`passA_comm`) and the suffix name chosen for one non-terminal does not depend on the names the
    other step introduced (`sufName_indep`, using that `generate_name` is total and returns the
    first free candidate, and that candidates of different non-terminals are different texts). -/
theorem leftFactor_group_order_indep (ord1 ord2 : GroupOrd)
    (h1 : ∀ l, (ord1 l).Perm l) (h2 : ∀ l, (ord2 l).Perm l) (fuel : Nat) (rs : List RuleN) :
    leftFactor ord1 fuel rs = leftFactor ord2 fuel rs :=
  leftFactorLoop_order_indep h1 h2 fuel rs

/-- one round (`factor_out`) already has this property -/
theorem factorOut_group_order_indep (ord1 ord2 : GroupOrd)
    (h1 : ∀ l, (ord1 l).Perm l) (h2 : ∀ l, (ord2 l).Perm l) (rs : List RuleN) :
    factorOut ord1 rs = factorOut ord2 rs := factorOut_order_indep h1 h2 rs

/-- non-vacuity: reversing the drain order is a permutation, and on a grammar with two
    non-terminals to factor both orders give the same (successful) result -/
example : ∀ l : List (Name × List RuleN), (List.reverse l).Perm l := fun l => List.reverse_perm l

example : leftFactor List.reverse 10
      [⟨"A".toList, [.t 1, .t 2], .none⟩, ⟨"B".toList, [.t 1, .t 2], .none⟩,
       ⟨"A".toList, [.t 1, .t 3], .none⟩, ⟨"B".toList, [.t 1], .none⟩] =
    some [⟨"A".toList, [.t 1, .n "ASuffix".toList .none], .none⟩,
          ⟨"ASuffix".toList, [.t 2], .none⟩, ⟨"ASuffix".toList, [.t 3], .none⟩,
          ⟨"B".toList, [.t 1, .n "BSuffix".toList .none], .none⟩,
          ⟨"BSuffix".toList, [.t 2], .none⟩, ⟨"BSuffix".toList, [], .none⟩] := by decide

/-- `A: a b | a c | d e | d f` as candidates of `find_prefix` -/
def tieCands : List (List SymN) := [[.t 1, .t 2], [.t 1, .t 3], [.t 4, .t 5], [.t 4, .t 6]]

/-- **C24, the pre-repair code was order dependent** (finding F5): with
    `groups.iter().max_by_key(..)` (last maximum in the HashMap's iteration order) two iteration
    orders of the same map give two different prefixes, hence two different generated grammars. -/
theorem leftFactor_tie_counterexample :
    findPrefixOld id tieCands ≠ findPrefixOld List.reverse tieCands := by decide

/-- the repaired `find_prefix` has no order parameter at all (the map is only used for lookups);
    on the tie it takes the group that occurs first among the candidates -/
example : findPrefix tieCands = [.t 1] := by decide
example : findPrefixOld id tieCands = [.t 4] := by decide
example : findPrefixOld List.reverse tieCands = [.t 1] := by decide

end ParolModel
