import ParolModel.Proofs.LeftFactor
/-! # C24 — Code generation is deterministic

Property text: *Running parol twice on the same grammar and options, in different processes,
produces byte-identical generated files, including the names of all introduced non-terminals, types
and trait methods.* Quantifier: all grammars; any per-process hash seed.

What is proved here concerns the one transformation whose result used to depend on a `HashMap`'s
iteration order, left factoring (finding F5): every `HashMap` iteration site of
`left_factoring.rs` / `utils::group_by` has an explicit order parameter in the model
(Model/LeftFactor.lean). The rest of the pipeline is covered by repeated-run byte comparison
(`checks/c24.py`). -/
namespace ParolModel

/-- `A: a b | a c | d e | d f` as candidates of `find_prefix` -/
def tieCands : List (List SymN) := [[.t 1, .t 2], [.t 1, .t 3], [.t 4, .t 5], [.t 4, .t 6]]

/-- **C24, the pre-repair code was order dependent** (finding F5): with
    `groups.iter().max_by_key(..)` (last maximum in the HashMap's iteration order) two iteration
    orders of the same map give two different prefixes, hence two different generated grammars. -/
theorem leftFactor_tie_counterexample :
    findPrefixOld id tieCands ≠ findPrefixOld List.reverse tieCands := by decide

/-- the repaired `find_prefix` has no order parameter at all (the map is only used for lookups);
    on the tie it takes the group that occurs first among the candidates -/
example : findPrefix tieCands = [.t 1] := by decide
example : findPrefixOld id tieCands = [.t 4] := by decide
example : findPrefixOld List.reverse tieCands = [.t 1] := by decide

end ParolModel
