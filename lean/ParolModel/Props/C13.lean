import ParolModel.Model.Tokens
import ParolModel.Proofs.Regex
import ParolModel.Proofs.Tokens
import ParolModel.Proofs.RegexSem
/-! # C13 — The scanner tokenizes by the documented rules

"For every generated scanner and every input text, the token sequence equals the one obtained by
repeatedly taking the longest match among the terminals of the current scanner state, preferring
the terminal declared first on equal length, honouring positive/negative lookahead, and switching
states as declared by enter/push/pop (pop on an empty stack keeps the state). The resulting tokens
do not depend on the parser's lookahead size or on when the parser consumes them."

The rule itself is the function `tokenizeSpec` (Model/Regex.lean); the theorems below say that it
is well defined and is the rule of the text. That the generated scanner (scnr2, an external crate)
computes this function is the differential tie of checks/c13.py. -/
namespace ParolModel.C13
open ParolModel

/-- The rule always produces a token sequence (the tokenizer never runs out of fuel: every step
    consumes at least one character). -/
theorem tokenize_total (modes : List ScanMode) (w : List Nat) : (tokenizeSpec modes w).isSome :=
  tokenizeFuel_total modes _ _ _ _ (Nat.lt_succ_self _)

/-- "repeatedly taking the longest match": every token is non-empty, lies inside the text, and the
    tokens follow each other without overlap (each step makes progress). -/
theorem tokenize_progress (modes : List ScanMode) (w : List Nat) (ts : List ScanTok)
    (h : tokenizeSpec modes w = some ts) :
    (∀ t ∈ ts, t.start < t.stop ∧ t.stop ≤ w.length) ∧ ts.Pairwise (fun a b => a.stop ≤ b.start) := by
  obtain ⟨h1, h2⟩ := tokenizeFuel_progress modes _ _ _ _ _ h
  refine ⟨fun t ht => ?_, h2⟩
  have := h1 t ht
  omega

/-- The rule is a function of the scanner description and the text: one token sequence. -/
theorem tokenize_deterministic (modes : List ScanMode) (w : List Nat) (ts ts' : List ScanTok)
    (h : tokenizeSpec modes w = some ts) (h' : tokenizeSpec modes w = some ts') : ts = ts' := by
  rw [h] at h'; exact Option.some.inj h'

/-- "the longest match among the terminals of the current scanner state, preferring the terminal
    declared first on equal length, honouring positive/negative lookahead": the match chosen at a
    position is the match length of one terminal `t` of the current mode (longest non-empty prefix
    matched by its regex whose lookahead condition holds at its end — `matchLenSpec`), no terminal
    of the mode has a longer one, and every terminal declared before `t` has a strictly shorter one. -/
theorem step_longest_first (modes : List ScanMode) (st : ScanSt) (w : List Nat) (n tok : Nat)
    (h : stepMatch modes st w = some (n, tok)) :
    ∃ m pre t post, modes[st.mode]? = some m ∧ m.terms = pre ++ t :: post ∧ t.tok = tok ∧
      t.matchLenSpec w = some n ∧ 1 ≤ n ∧ n ≤ w.length ∧
      (∀ u ∈ pre, ∀ k, u.matchLenSpec w = some k → k < n) ∧
      (∀ u ∈ post, ∀ k, u.matchLenSpec w = some k → k ≤ n) := by
  have hb := stepMatch_bounds modes st w n tok h
  unfold stepMatch at h
  split at h
  · cases h
  · rename_i m hm
    rcases bestOf_spec _ _ _ _ _ h with ⟨hb', _⟩ | ⟨pre, t, post, hts, htok, hlen, _, hpre, hpost⟩
    · cases hb'
    · refine ⟨m, pre, t, post, hm, hts, htok, ?_, hb.1, hb.2, ?_, ?_⟩
      · rw [← ScanTerm.matchLen_eq_spec]; exact hlen
      · intro u hu k hk; exact hpre u hu k (by rw [ScanTerm.matchLen_eq_spec]; exact hk)
      · intro u hu k hk; exact hpost u hu k (by rw [ScanTerm.matchLen_eq_spec]; exact hk)

/-- "the longest match among the terminals": a terminal's regex matches a string exactly when the
    string belongs to the regular language it denotes (`ReMatches`: the textbook inductive definition);
    the executable matcher used by `tokenizeSpec` (Brzozowski derivatives with normalising
    constructors) decides this. -/
theorem matchesRe_iff (r : Re) (w : List Nat) : matchesRe r w = true ↔ ReMatches r w :=
  ParolModel.matchesRe_iff r w

/-- "the longest match … honouring positive/negative lookahead": the match length of a terminal is
    the greatest `n ≥ 1` such that the first `n` characters are in the language of its regex and its
    lookahead condition holds for the rest of the input (never the empty match). -/
theorem term_match_is_longest (t : ScanTerm) (w : List Nat) (n : Nat) (h : t.matchLenSpec w = some n) :
    1 ≤ n ∧ n ≤ w.length ∧ matchesRe t.re (w.take n) = true ∧ laHolds t.la (w.drop n) = true ∧
    ∀ m, n < m → m ≤ w.length → ¬ (matchesRe t.re (w.take m) = true ∧ laHolds t.la (w.drop m) = true) :=
  matchLenSpec_some t w n h

/-- A terminal has no match at a position only if no non-empty prefix qualifies. -/
theorem term_no_match (t : ScanTerm) (w : List Nat) (h : t.matchLenSpec w = none) :
    ∀ j, 1 ≤ j → j ≤ w.length → ¬ (matchesRe t.re (w.take j) = true ∧ laHolds t.la (w.drop j) = true) :=
  matchLenSpec_none t w h

/-- "pop on an empty stack keeps the state". -/
theorem pop_empty_keeps (m : Nat) : applyModeOp ⟨m, []⟩ (some .pop) = ⟨m, []⟩ := rfl

/-- push/pop are inverse: after `push m'` a `pop` returns to the mode and stack before. -/
theorem push_pop (st : ScanSt) (m' : Nat) :
    applyModeOp (applyModeOp st (some (.push m'))) (some .pop) = st := rfl

/-- The terminal mappings of a scanner state are emitted in the documented order: newline,
    whitespace, line comment, block comment, the user terminals of this state in index order, and
    last the error token — strictly increasing token types, given that the error token's index
    (`terminal_names.len() - 1`) is above every user terminal. -/
theorem mode_order_is_documented (c : ModeCfg) (ts : List (List Nat)) (nNames : Nat)
    (hn : firstUserTy + ts.length < nNames) :
    (buildOrder c ts nNames).Pairwise (· < ·) := by
  unfold buildOrder
  have hrange : ∀ (l : List Nat), l.Pairwise (· < ·) → (∀ i ∈ l, i < ts.length) →
      ((l.filter fun i => ((ts[i]?).getD []).contains c.state).map (· + firstUserTy)).Pairwise (· < ·) := by
    intro l hl _
    refine List.Pairwise.map _ (fun a b hab => Nat.add_lt_add_right hab _) (hl.filter _)
  have hr := hrange (List.range ts.length) List.pairwise_lt_range (fun i hi => List.mem_range.mp hi)
  have hmem : ∀ x ∈ ((List.range ts.length).filter fun i => ((ts[i]?).getD []).contains c.state).map (· + firstUserTy),
      firstUserTy ≤ x ∧ x < nNames - 1 := by
    intro x hx
    simp only [List.mem_map, List.mem_filter, List.mem_range] at hx
    obtain ⟨i, ⟨hi, _⟩, rfl⟩ := hx
    omega
  have hA : ∀ (a b c d : Bool),
      ((if a then [1] else []) ++ (if b then [2] else []) ++ (if c then [3] else []) ++
        (if d then [4] else [] : List Nat)).Pairwise (· < ·) ∧
      ∀ x ∈ ((if a then [1] else []) ++ (if b then [2] else []) ++ (if c then [3] else []) ++
        (if d then [4] else [] : List Nat)), x < 5 := by
    intro a b c d
    cases a <;> cases b <;> cases c <;> cases d <;> decide
  obtain ⟨hA1, hA2⟩ := hA c.autoNewline c.autoWs c.hasLineComments c.hasBlockComments
  refine List.pairwise_append.mpr ⟨List.pairwise_append.mpr ⟨hA1, hr, ?_⟩, ?_, ?_⟩
  · intro a ha b hb
    have := hA2 a ha
    have := (hmem b hb).1
    simp only [firstUserTy] at this
    omega
  · cases c.allowUnmatched <;> simp
  · intro a ha b hb
    have hb' : b = nNames - 1 := by
      cases hc : c.allowUnmatched <;> simp [hc] at hb
      exact hb
    subst hb'
    rcases List.mem_append.mp ha with ha | ha
    · have := hA2 a ha
      simp only [firstUserTy] at hn
      omega
    · exact (hmem a ha).2

/-- The error token is the last entry of a state exactly when unmatched input is not allowed. -/
theorem error_token_last_iff (c : ModeCfg) (ts : List (List Nat)) (nNames : Nat) :
    (buildOrder c ts nNames).getLast? = some (nNames - 1) ∧ c.allowUnmatched = false ∨
    c.allowUnmatched = true ∧ (nNames - 1 ∉ buildOrder c ts nNames ∨ nNames - 1 < firstUserTy + ts.length) := by
  cases h : c.allowUnmatched
  · left; simp [buildOrder, h]
  · right
    refine ⟨rfl, ?_⟩
    by_cases hlt : nNames - 1 < firstUserTy + ts.length
    · right; exact hlt
    · left
      simp only [buildOrder, h, List.mem_append, List.mem_map, List.mem_filter, List.mem_range]
      simp only [firstUserTy] at hlt
      intro hx
      rcases hx with ((((hx | hx) | hx) | hx) | hx) | hx
      all_goals (first | (split at hx <;> simp at hx <;> omega) | (obtain ⟨i, ⟨hi, _⟩, hi'⟩ := hx; simp only [firstUserTy] at hi'; omega) | simp at hx)

/-- "The resulting tokens do not depend on the parser's lookahead size or on when the parser
    consumes them": for every list of scanner matches (none of type EOI), every lookahead size `k`
    and both access schedules (with or without peeking at all `k` lookahead positions before each
    consume), the model of `TokenStream` (read_tokens / ensure_buffer / take_skip_tokens / consume,
    EOI padding) delivers exactly `deliveredRef`: the matches with the gaps filled, followed by one
    EOI — a sequence in which neither `k` nor the schedule occurs. Mode switches cannot depend on
    read-ahead because they happen inside the scanner at match time (`tokenizeFuel`). -/
theorem stream_indep_of_k (ms : List LTok) (len k : Nat) (peek : Bool) (hms : ∀ t ∈ ms, t.ty ≠ eoiTy) :
    ∃ fuel, deliver peek fuel (TStream.new ms len k) = some (deliveredRef ms len) :=
  TokStream.stream_delivers ms len k peek hms

/-- Two parsers with different lookahead sizes and different access schedules see the same tokens. -/
theorem stream_indep_of_consumption (ms : List LTok) (len k k' : Nat) (peek peek' : Bool)
    (hms : ∀ t ∈ ms, t.ty ≠ eoiTy) :
    ∃ f f', deliver peek f (TStream.new ms len k) = deliver peek' f' (TStream.new ms len k') ∧
      (deliver peek f (TStream.new ms len k)).isSome :=
  TokStream.stream_indep ms len k k' peek peek' hms

/-- The matches of the spec tokenizer never have the EOI type as long as no terminal has it, so the
    hypothesis of `stream_indep_of_k` is met by every scanner description parol generates (user
    terminals start at 5, built-in ones are 1..4). -/
theorem toLToks_ty (modes : List ScanMode) (w : List Nat) (ts : List ScanTok) :
    ∀ t ∈ toLToks modes w ts, ∃ u ∈ ts, t.ty = u.tok := by
  intro t ht
  simp only [toLToks, List.mem_map] at ht
  obtain ⟨u, hu, rfl⟩ := ht
  exact ⟨u, hu, rfl⟩

/-! Non-vacuity -/

example : tokenizeSpec [{ terms := [⟨Re.chr 97, 5, none⟩, ⟨Re.lit [97, 98], 6, none⟩], trans := [(6, .push 1)] },
                        { terms := [⟨Re.chr 97, 7, some (false, Re.chr 97)⟩, ⟨Re.chr 98, 8, none⟩], trans := [(8, .pop)] }]
    [97, 97, 98, 97, 97, 98, 98, 97] =
    some [⟨5, 0, 1, 0⟩, ⟨6, 1, 3, 0⟩, ⟨7, 4, 5, 1⟩, ⟨8, 5, 6, 1⟩, ⟨5, 7, 8, 0⟩] := by decide

example : buildOrder ⟨1, true, false, true, false, false⟩ [[0], [0, 1], [1]] 9 = [1, 3, 6, 7, 8] := by decide

example : (deliver true 20 (TStream.new [⟨5, 1, 2, false⟩, ⟨2, 2, 3, false⟩, ⟨6, 3, 4, true⟩, ⟨5, 6, 7, false⟩] 9 3)) =
    some (deliveredRef [⟨5, 1, 2, false⟩, ⟨2, 2, 3, false⟩, ⟨6, 3, 4, true⟩, ⟨5, 6, 7, false⟩] 9) := by decide

end ParolModel.C13
