import ParolModel.Proofs.LLRecover
import ParolModel.Props.C01
import ParolModel.Proofs.LLSim
import ParolModel.Proofs.Member
/-! # C01 (recovery clause) — error recovery cannot turn an error into success

Property text: *"This holds both with error recovery enabled and disabled: recovery may change which
errors are reported, but never turns a non-sentence into a success."*

`Props/C01.lean` proves soundness for the model `llRun`, which stops at the first syntax error (what
the real parser does with recovery disabled). Here the control flow of `LLKParser::parse_into` WITH
recovery is modelled (`rRun`, Model/LLRecover.lean — the file header maps every clause to the lines of
`parser_types.rs`): the recovery PROCEDURE is an arbitrary oracle `R : Recovery` that may rewrite the
whole parser state (token stream, parser stack, parse-tree stack, recorded output) in any way and
reports only how it returned; the bookkeeping of `error_entries` and the computation of the final result
are modelled as the code does them.

* `recovery_off_eq_llRun` — with recovery disabled the new model IS `llRun` (whole output), for every
  oracle.
* `recovery_never_ok` — for EVERY oracle that never takes the two exits that drain `error_entries`
  (`Recovery.NoDrain`, see below): if the run with recovery reports success then no error entry was ever
  recorded, its whole output is that of the plain run, and so the run with recovery disabled succeeds
  too. `recovery_ok_sentence`: hence (by `ll_sound`) success is reported only on sentences.
* `recovery_changes_only_errors` — conversely the plain run's success is also reported with recovery.

**FINDING (latent; exact lines in Model/LLRecover.lean).** The statement is NOT true for every oracle,
because the code has a path on which an error entry is recorded and the result is nevertheless `Ok`:
`recover_from_prediction_error` l.640-653 ("Can't recover") — and `sync_token_stream` l.729-737 ("Can't
sync") — MOVE the entries out of `self.error_entries` into the `Err(SyntaxErrors {..})` they return;
inside the main loop that `Err` is dropped (`Err(_) => break 'WHILE`, l.474-475); after the loop
`self.error_entries` is empty, so l.497 does not fire, and if no significant token is left l.509-513
return `Ok(())`. `recovery_drain_can_succeed` is this run in the model, on a non-sentence.
Reachability in the real code: l.640 is reached iff `Recovery::restore_terminal_strings` returns the
empty set for the automaton of the failing non-terminal (l.596 `minimal_token_difference` returns `None`
iff that set is empty, and then the guard of l.614 is false, so `sync_token_stream` is dead code), i.e.
iff that automaton has no accepting state reachable from state 0 by transitions. A generated automaton
whose prediction can fail has transitions into accepting states, so with tables parol generates the
path is not taken (and the tie C01/C20 never saw it); with hand-made or corrupted tables passed to the
public `LLKParser::new` it is: a parse of a non-sentence returns `Ok(())` with the error silently lost —
CONFIRMED on the real code by `harness/examples/c01e_drain_probe.rs` (tables `exDrainT` below).
`NoDrain` is exactly "the recovery procedure does not return through l.640-653 / l.729-737". -/
namespace ParolModel

/-- **With recovery disabled the model with recovery is `llRun`**, whatever the oracle: the whole
    output (result, actions, tree, comments, steps) coincides. -/
theorem recovery_off_eq_llRun (T : LLTables) (o : Opts) (R : Recovery) (fuel : Nat) (toks : List MTok)
    (hrec : o.recovery = false) : rRun T o R fuel toks = llRun T o fuel toks := by
  unfold rRun llRun
  simp only
  cases hp : predict T T.start toks with
  | none => rfl
  | some er =>
    cases er with
    | ok p =>
      simp only []
      split
      · rfl
      · split
        · rename_i heq; simp only [heq]; exact rLoop_off T o R hrec fuel _ _
        · rename_i heq; simp only [heq]
        · rename_i heq; simp only [heq]
    | predictError =>
      simp only []
      rw [handlePredictionError_off o R hrec]
    | assertFail => rfl

/-- A run with recovery that reports success recorded no error entry: its whole output is the output
    of the plain run `llRun`. -/
theorem recovery_ok_eq_llRun (T : LLTables) (o : Opts) (R : Recovery) (hnd : R.NoDrain) (fuel : Nat)
    (toks : List MTok) (h : (rRun T o R fuel toks).res = .ok) :
    rRun T o R fuel toks = llRun T o fuel toks := by
  revert h
  unfold rRun llRun
  simp only
  cases hp : predict T T.start toks with
  | none => intro _; rfl
  | some er =>
    cases er with
    | ok p =>
      simp only []
      split
      · intro _; rfl
      · split
        · rename_i heq; simp only [heq]; exact rLoop_nil_ok T o R hnd fuel _ _
        · rename_i heq; simp only [heq]; intro _; trivial
        · rename_i heq; simp only [heq]; intro _; trivial
    | predictError =>
      simp only []
      intro hok
      exfalso
      revert hok
      split
      · rename_i errs' s' p heq
        have hne := predError_fst_ne_nil hnd heq
        split
        · exact rLoop_errs_not_ok T o R hnd _ _ _ _ hne
        · rename_i s'' r hpush
          obtain ⟨_, _, _, _, hr⟩ := pushProduction_spec hpush
          simp only [abort_res]
          intro h; exact hr (by rw [h])
        · simp [abort_res]
      · simp [abort_res]
    | assertFail => intro _; rfl

/-- **C01, recovery clause.** For every recovery procedure `R` — any function that rewrites the token
    stream, the parser stack and everything else in the parser state in any way — that does not return
    through the two draining exits: if the parser with recovery reports success, so does the parser
    with recovery disabled, on the same tables and tokens. -/
theorem recovery_never_ok (T : LLTables) (o : Opts) (R : Recovery) (hnd : R.NoDrain) (fuel : Nat)
    (toks : List MTok) (h : (rRun T o R fuel toks).res = .ok) :
    (rRun T { o with recovery := false } R fuel toks).res = .ok := by
  rw [recovery_off_eq_llRun T _ R fuel toks rfl]
  have h2 := recovery_ok_eq_llRun T o R hnd fuel toks h
  rw [h2] at h
  -- `llRun` does not read the recovery flag
  have hc : (llRun T { o with recovery := false } fuel toks).core = (llRun T o fuel toks).core := by
    rw [llRun_core, llRun_core]
  exact (congrArg CoreOut.res hc).trans h

/-- Hence: with ANY (non-draining) recovery procedure the parser reports success only on sentences of
    the grammar the tables denote. -/
theorem recovery_ok_sentence (T : LLTables) (o : Opts) (R : Recovery) (hnd : R.NoDrain) (fuel : Nat)
    (toks : List MTok) (hT : TablesSound T) (h : (rRun T o R fuel toks).res = .ok) :
    Lang (gOf T) (sigTypes toks) := by
  have h2 := recovery_ok_eq_llRun T o R hnd fuel toks h
  rw [h2] at h
  exact ll_sound T o fuel toks hT h

/-- Recovery changes only the errors: a success of the plain run is a success — with the same output —
    of the run with any recovery procedure (no `NoDrain` needed: recovery is never entered). -/
theorem recovery_changes_only_errors (T : LLTables) (o : Opts) (R : Recovery) (fuel : Nat)
    (toks : List MTok) (h : (llRun T o fuel toks).res = .ok) :
    rRun T o R fuel toks = llRun T o fuel toks := by
  revert h
  unfold rRun llRun
  simp only
  cases hp : predict T T.start toks with
  | none => intro _; rfl
  | some er =>
    cases er with
    | ok p =>
      simp only []
      split
      · intro _; rfl
      · split
        · rename_i heq; simp only [heq]; exact rLoop_of_llLoop_ok T o R fuel _ _
        · rename_i heq; simp only [heq]; intro _; trivial
        · rename_i heq; simp only [heq]; intro _; trivial
    | predictError => simp [abort_res]
    | assertFail => intro _; rfl

/-- The verdict with a (non-draining) recovery procedure is `ok` exactly when the plain verdict is. -/
theorem recovery_verdict_iff (T : LLTables) (o : Opts) (R : Recovery) (hnd : R.NoDrain) (fuel : Nat)
    (toks : List MTok) : (rRun T o R fuel toks).res = .ok ↔ (llRun T o fuel toks).res = .ok := by
  constructor
  · intro h; rw [← recovery_ok_eq_llRun T o R hnd fuel toks h]; exact h
  · intro h; rw [recovery_changes_only_errors T o R fuel toks h]; exact h

-- ---------------------------------------------------------------------------------------------
-- The finding: the draining exit turns a recorded error into `Ok`.

/-- The tables of `harness/examples/c01e_drain_probe.rs`: those parol generates for
    `S: "a" B; B: "b" | "c";` (non-terminals `B` = 0, `S` = 1; terminals `"a"` = 5, `"b"` = 6, `"c"` = 7),
    except that the automaton of `B` is replaced by one with a single transition (on `"b"`) into a
    NON-accepting state and no accepting state at all — the shape for which
    `Recovery::restore_terminal_strings` returns the empty set. They satisfy `TablesSound`. -/
def exDrainT : LLTables :=
  ⟨1, [⟨1, [.n 0, .t 5], false⟩, ⟨0, [.t 6], false⟩, ⟨0, [.t 7], false⟩],
   [⟨-1, [⟨0, 6, 1, -1⟩], 1⟩, ⟨0, [], 0⟩]⟩

/-- **FINDING (counterexample to the clause for an unrestricted recovery procedure).** Tables `exDrainT`,
    input `a` (not a sentence: the language is `{a b, a c}`), recovery enabled, and the recovery
    procedure doing what the code does on its "Can't recover" exit (l.640-653: nothing but draining
    `error_entries` into the returned `Err`): the prediction for `B` fails at end of input, an error
    entry IS recorded (l.559-578), the recovery drains it, the `Err` is dropped at l.475, and the parse
    ends with `ok` (l.513). The plain run, and the run with recovery disabled, report the syntax error.
    The REAL `LLKParser::parse_into` does exactly this on these tables
    (`cargo run --example c01e_drain_probe` in `harness/`: `recovery=true input="a": ok`). -/
theorem recovery_drain_can_succeed :
    TablesSound exDrainT ∧
    (rRun exDrainT ⟨false, true, none⟩ drainRecovery 100 (exToks [5])).res = .ok ∧
    (llRun exDrainT ⟨false, true, none⟩ 100 (exToks [5])).res = .syntax none ∧
    (rRun exDrainT ⟨false, false, none⟩ drainRecovery 100 (exToks [5])).res = .syntax none ∧
    ¬ Lang (gOf exDrainT) (sigTypes (exToks [5])) := by
  refine ⟨tablesSoundB_sound _ (by decide), by decide, by decide, by decide, ?_⟩
  have hm : member (gOf exDrainT) (sigTypes (exToks [5])) 10 = some false := by decide
  intro hl
  have := (member_iff hm).2 hl
  cases this

-- the other two runs of the probe: `a b` and `a a` end with `UnprocessedInput` instead of the syntax
-- error (recorded, then drained) that the run with recovery disabled reports at token 1
example : (rRun exDrainT ⟨false, true, none⟩ drainRecovery 100 (exToks [5, 6])).res = .unprocessed := by decide
example : (rRun exDrainT ⟨false, true, none⟩ drainRecovery 100 (exToks [5, 5])).res = .unprocessed := by decide
example : (rRun exDrainT ⟨false, false, none⟩ drainRecovery 100 (exToks [5, 6])).res = .syntax (some 1) := by decide
example : (rRun exDrainT ⟨false, false, none⟩ drainRecovery 100 (exToks [5, 5])).res = .syntax (some 1) := by decide

/-- The draining oracle is (of course) excluded by `NoDrain`. -/
theorem drainRecovery_drains : ¬ drainRecovery.NoDrain := by
  intro h
  exact h 0 ⟨[], [], [], 0, [], [], []⟩ [] _ rfl

-- ---------------------------------------------------------------------------------------------
-- Non-vacuity on the tables of `S: "a" {"b"} ["c"];` (Props/C01).

/-- A recovery procedure that "repairs" everything: on a prediction error it deletes the offending
    token and predicts production 1 (`L: "b" L`); on a token mismatch it deletes the offending token. -/
def exRec : Recovery :=
  ⟨fun _ s _ => .prod { s with input := s.input.drop 1 } 1, fun _ s _ => .ok { s with input := s.input.drop 1 }⟩

example : exRec.NoDrain := by
  intro a s errs s' h
  simp [exRec] at h

-- `a a b`: the prediction for `L` fails at the second `a` (token 1); the procedure deletes it and the
-- rest `a b` parses to the end — but the result is the syntax error, located at token 1 …
example : (rRun exT ⟨false, true, none⟩ exRec 100 (exToks [5, 5, 6])).res = .syntax (some 1) := by decide
-- … the tree shows that parsing did go on after the error (the `b` is consumed, all nodes closed) …
example : (rRun exT ⟨false, true, none⟩ exRec 100 (exToks [5, 5, 6])).tree =
    [.open_ none, .open_ (some 0), .tok 0, .open_ (some 1), .tok 2, .open_ (some 1), .close, .close,
     .open_ (some 2), .close, .close] := by decide
-- … and no semantic action is called once the parser is in recovery mode (l.351)
example : (rRun exT ⟨false, true, none⟩ exRec 100 (exToks [5, 5, 6])).actions = [] := by decide
-- the plain run stops at the error, with the same verdict
example : (llRun exT ⟨false, true, none⟩ 100 (exToks [5, 5, 6])).res = .syntax (some 1) := by decide
example : (llRun exT ⟨false, true, none⟩ 100 (exToks [5, 5, 6])).tree =
    [.open_ none, .open_ (some 0), .tok 0] := by decide
-- a second error at the same location makes `add_error` fail (l.264-270): with a procedure that predicts
-- production 1 without touching the stream, `"b"` is expected at token 1 again
example : (rRun exT ⟨false, true, none⟩ ⟨fun _ s _ => .prod s 1, fun _ s _ => .ok s⟩ 100 (exToks [5, 5, 6])).res =
    .syntax (some 1) := by decide
-- sentences are accepted with the same output, recovery enabled or not
example : rRun exT ⟨false, true, none⟩ exRec 100 (exToks [5, 6, 6, 7]) =
    llRun exT ⟨false, true, none⟩ 100 (exToks [5, 6, 6, 7]) :=
  recovery_changes_only_errors exT _ exRec 100 _ (by decide)
example : (rRun exT ⟨false, true, none⟩ exRec 100 (exToks [5, 6, 6, 7])).res = .ok := by decide

end ParolModel
