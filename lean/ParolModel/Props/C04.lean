import ParolModel.Props.C03
import ParolModel.Model.Lalr
/-! # C04 — LALR(1) conflicts are always reported and resolution stays sound

Property text: *If a grammar is not LALR(1), parol either rejects it or reports at least one resolved
conflict; it never silently produces a table for a conflicting grammar. When conflicts are resolved
(shift preferred, earlier production preferred), every input the resulting parser accepts is still a
sentence of the grammar.*

(b) Soundness of resolved tables is `lr_sound` (Props/C03): it needs only `lrTableValid`, which is
evaluated on every table parol produces — resolution removes actions, it cannot make the remaining
ones unsound. Restated here as `resolved_table_sound`.
(a) "Not LALR(1)" is defined by the reference construction `Lalr.isLALR1` (Model/Lalr.lean:
canonical LR(1) item sets of the properly augmented grammar, merged by core; productions form a set).
The reference is an executable DEFINITION (not proved against another one); parol's verdict is
compared with it on every explored grammar (tie D), and `conflict_reported` is the decidable
statement of clause (a) evaluated on the real verdict. -/
namespace ParolModel

/-- **C04 (b)**: whatever conflicts were resolved while the table was built — if the table passes
    `lrTableValid`, every accepted input is a sentence of the grammar. -/
theorem resolved_table_sound (T : LRTables) (gprods : List Rule) (o : Opts) (fuel : Nat) (toks : List MTok)
    (hv : lrTableValid T gprods = true) (hne : ∀ t ∈ toks, t.skip = false → t.ty ≠ 0)
    (h : (lrRun T o fuel toks).res = .ok) : Lang (gOfLR T gprods) (sigTypes toks) :=
  lr_sound T gprods o fuel toks hv hne h

/-- Clause (a) on one grammar and one real verdict: `verdict = true` means parol produced a table
    and reported no conflict. -/
def conflictReported (G : Grammar) (silentTable : Bool) : Option Bool :=
  (Lalr.isLALR1 G).map fun lalr => lalr || !silentTable

/-- If the reference says "not LALR(1)" and clause (a) holds, no silent table was produced. -/
theorem conflict_reported_spec (G : Grammar) (silentTable : Bool)
    (h1 : Lalr.isLALR1 G = some false) (h2 : conflictReported G silentTable = some true) :
    silentTable = false := by
  simp [conflictReported, h1] at h2
  exact h2

-- The reference construction on textbook grammars (build-time evaluation; well-founded sorting
-- functions inside do not reduce in the kernel, so these are `#guard`s).
#guard Lalr.isLALR1 ⟨0, [⟨0, [.t 5, .n 0, .t 6]⟩, ⟨0, []⟩]⟩ == some true                      -- S: a S b | ε
#guard Lalr.isLALR1 ⟨0, [⟨0, [.n 0, .n 0]⟩, ⟨0, [.t 5]⟩, ⟨0, []⟩]⟩ == some false               -- S: S S | a | ε
#guard Lalr.isLALR1 ⟨0, [⟨0, [.n 1]⟩, ⟨1, [.n 0]⟩, ⟨1, [.t 5]⟩]⟩ == some false                 -- cyclic
#guard Lalr.isLALR1 ⟨0, [⟨0, [.t 5, .n 0]⟩, ⟨0, [.t 5, .n 0, .t 6, .n 0]⟩, ⟨0, [.t 7]⟩]⟩ == some false  -- dangling else
#guard Lalr.isLALR1 ⟨0, [⟨0, [.t 5, .n 1]⟩, ⟨0, [.t 6, .n 1, .t 7]⟩, ⟨0, [.t 5, .n 2, .t 7]⟩, ⟨0, [.t 6, .n 2]⟩,
    ⟨1, [.t 8]⟩, ⟨2, [.t 8]⟩]⟩ == some false                                                    -- LR(1) but not LALR(1)
#guard Lalr.isLALR1 ⟨0, [⟨0, [.n 1, .t 5, .n 2]⟩, ⟨0, [.n 2]⟩, ⟨1, [.t 6, .n 2]⟩, ⟨1, [.t 7]⟩, ⟨2, [.n 1]⟩]⟩ == some true  -- LALR, not SLR

end ParolModel
