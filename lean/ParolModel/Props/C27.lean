import ParolModel.Proofs.FmtCheck
/-! # C27 — the language server's formatter preserves meaning and comments and is idempotent

Property text: *For every grammar text and every formatting option combination, the formatted text
describes the same grammar as the original, contains every comment of the original in the same
order, and formatting it again changes nothing.*

Level: translation validation. There is NO model of the formatter (≈ 2 k lines of layout code in
crates/parol-ls/src/formatting); the ∀ over texts and options is therefore NOT proved but explored:
the harness runs the REAL formatter, lexes the original and the formatted text with the REAL parol-ls
scanner and hands both token sequences to the checker `fmtCheck` below, which decides the three
clauses for that run. What IS proved, for all inputs of the respective objects:

* `fmtCheck_ok_iff` — the checker accepts exactly when the significant tokens (type and text) are
  the same in the same order, the comments are the same in the same order (a line comment is
  compared without the line break that terminates it) and the second formatting run reproduced the
  first (`fmt (fmt x) = fmt x`, computed by the harness as a text comparison).
* `sameSignificant_sound` — "same significant tokens ⇒ same grammar": two token sequences with the
  same significant tokens make the LL parser model produce the same result and the same action
  trace (production numbers and children, tokens named by their index among the significant
  tokens), whatever whitespace and comments lie between them — for ANY tables; instantiated with the
  regenerated parol-ls tables in `sameSignificant_ls`. The grammar the language server builds
  (`ParolLsGrammar`, the typed AST `ParolLs`) is a function of exactly that action trace and the
  token texts, which `fmtCheck` compares too. The LL model is tied to the real parol-ls parser by the
  differential run shared with C34 (`par-ls` cases: same verdict and same token types on every case).

The unchanged tree VIOLATES the property (listed findings, reproduced on every run; not theorems,
because the formatter is not modelled): F17 (comment after the last production: debug assertion /
dropped), F30 (adjacent block comments are emitted without a separator and lex as one comment),
F31 (a line comment pulled up behind a declaration makes the second run join two line comments),
F32 (a comment before `|` inside a group, option or repetition is dropped). -/
namespace ParolModel.Ls27
open ParolModel.Generated.Par

/-- The three clauses of the property for one formatter run, on what the real scanner delivers. -/
def FmtRunOk (sigO cmO sigF cmF : List LexTok) (idem : Bool) : Prop :=
  sigF = sigO ∧ cmF.map normComment = cmO.map normComment ∧ idem = true

/-- The full statement (NOT proved: the formatter `fmt` is not modelled; explored by the harness):
    for every text and option record the run satisfies the three clauses. `lexSig`/`lexCm` stand for
    the real scanner's significant tokens / comments of a text. -/
def FormatterCorrect {Text Opt : Type} (fmt : Opt → Text → Text) (lexSig lexCm : Text → List LexTok)
    (valid : Text → Prop) [DecidableEq Text] : Prop :=
  ∀ (o : Opt) (x : Text), valid x →
    FmtRunOk (lexSig x) (lexCm x) (lexSig (fmt o x)) (lexCm (fmt o x)) (decide (fmt o (fmt o x) = fmt o x))

/-- **The checker decides the property of one run.** -/
theorem fmtCheck_ok_iff (sigO cmO sigF cmF : List LexTok) (idem : Bool) :
    fmtCheck sigO cmO sigF cmF idem = .ok ↔ FmtRunOk sigO cmO sigF cmF idem := by
  unfold fmtCheck FmtRunOk
  constructor
  · intro h
    split at h
    · cases h
    · rename_i h1
      simp only at h
      split at h
      · split at h <;> cases h
      · rename_i h2
        split at h
        · rename_i hi
          exact ⟨((firstDiff_none_iff _ _ _).1 h1).symm, ((firstDiff_none_iff _ _ _).1 h2).symm, hi⟩
        · cases h
  · intro ⟨h1, h2, h3⟩
    subst h1
    have e1 : firstDiff sigF sigF 0 = none := (firstDiff_none_iff _ _ _).2 rfl
    have e2 : firstDiff (cmO.map normComment) (cmF.map normComment) 0 = none :=
      (firstDiff_none_iff _ _ _).2 h2.symm
    simp [e1, e2, h3]

/-- **Same significant tokens ⇒ same parse.** For any tables, options and fuel: if two delivered
    token sequences agree on their significant tokens (type and comment flag; skipped tokens —
    whitespace, line breaks, comments — may differ arbitrarily), the LL parser model yields the same
    result and the same action trace on both, tokens being named by their significant index. -/
theorem sameSignificant_sound (T : LLTables) (o : Opts) (fuel : Nat) (a b : List MTok)
    (h : sigKey a = sigKey b) :
    (llRun T o fuel (labelSig a)).res = (llRun T o fuel (labelSig b)).res ∧
    (llRun T o fuel (labelSig a)).actions = (llRun T o fuel (labelSig b)).actions :=
  run_labelSig_congr T o fuel h

/-- The instance the check relies on: the regenerated parol-ls tables and the token sequences of
    two texts as the scanner delivers them; equal significant token TYPES suffice. -/
theorem sameSignificant_ls (o : Opts) (fuel : Nat) (ts1 ts2 : List ScanTok)
    (h : sigTypesOf (toMToks ts1) = sigTypesOf (toMToks ts2)) :
    (llRun lsTables o fuel (labelSig (toMToks ts1))).res = (llRun lsTables o fuel (labelSig (toMToks ts2))).res ∧
    (llRun lsTables o fuel (labelSig (toMToks ts1))).actions =
      (llRun lsTables o fuel (labelSig (toMToks ts2))).actions :=
  sameSignificant_sound lsTables o fuel _ _ (sigKey_of_types (toMToks_comment ts1) (toMToks_comment ts2) h)

/-- Naming tokens by their significant index does not change what the parser decides: the run on
    the relabelled sequence has the same result as the run on its significant tokens alone. -/
theorem labelSig_run_eq_sig (T : LLTables) (o : Opts) (fuel : Nat) (a : List MTok) :
    (llRun T o fuel (labelSig a)).res = (llRun T o fuel (sigToks (labelSig a))).res := by
  have h := llCoreRun_skip_irrelevant T o.maxDepth fuel (labelSig a)
  rw [← llRun_core T o, ← llRun_core T o] at h
  simp only [LLOut.core, CoreOut.ra, Prod.mk.injEq] at h
  exact h.1.symm

/-! ## Non-vacuity -/

/-- `%start S %% S: "a";` with and without whitespace/comments in between (types of parol-ls's scanner). -/
def exPlain : List MTok :=
  [⟨5, false, false, 0⟩, ⟨36, false, false, 1⟩, ⟨23, false, false, 2⟩, ⟨36, false, false, 3⟩,
   ⟨25, false, false, 4⟩, ⟨37, false, false, 5⟩, ⟨26, false, false, 6⟩]
def exSpaced : List MTok :=
  [⟨5, false, false, 0⟩, ⟨2, true, false, 1⟩, ⟨36, false, false, 2⟩, ⟨1, true, false, 3⟩, ⟨4, true, true, 4⟩,
   ⟨23, false, false, 5⟩, ⟨36, false, false, 6⟩, ⟨25, false, false, 7⟩, ⟨3, true, true, 8⟩, ⟨37, false, false, 9⟩,
   ⟨26, false, false, 10⟩]

example : sigKey exPlain = sigKey exSpaced := by decide
example : (llRun lsTables ⟨true, true, some 1500⟩ 1000 (labelSig exSpaced)).res = .ok := by decide +kernel
example : (llRun lsTables ⟨true, true, some 1500⟩ 1000 (labelSig exSpaced)).actions =
    (llRun lsTables ⟨true, true, some 1500⟩ 1000 (labelSig exPlain)).actions := by decide +kernel
example : (llRun lsTables ⟨true, true, some 1500⟩ 1000 (labelSig exPlain)).actions ≠ [] := by decide +kernel

def tokA : LexTok := ⟨37, [34, 97, 34]⟩
def cmt (s : List Nat) : LexTok := ⟨3, s⟩
-- a line comment may lose its line break; a changed, lost or reordered token or comment is detected
example : fmtCheck [tokA] [cmt [47, 47, 120, 13, 10]] [tokA] [cmt [47, 47, 120, 10]] true = .ok := by decide
example : fmtCheck [tokA] [cmt [47, 47, 120]] [tokA] [] true = .commentsChanged 0 := by decide
example : fmtCheck [tokA] [] [⟨38, [39, 97, 39]⟩] [] true = .tokensChanged 0 := by decide
example : fmtCheck [tokA] [] [tokA] [] false = .notIdempotent := by decide
-- F30: `/* a */` `/* b */` formatted to `/* a *//* b */`, which is ONE token of the block-comment regex
example : fmtCheck [] [⟨4, [47, 42, 97, 42, 47]⟩, ⟨4, [47, 42, 98, 42, 47]⟩]
    [] [⟨4, [47, 42, 97, 42, 47, 47, 42, 98, 42, 47]⟩] true = .commentsMerged 0 := by decide

end ParolModel.Ls27
