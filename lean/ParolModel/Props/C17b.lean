import ParolModel.Proofs.LRSim
import ParolModel.Props.C03
import ParolModel.Props.C17
/-! # C17 (LR half) — Skipped tokens never influence parsing; comments are delivered once, in order

Property text: *Whitespace, newlines and comments (when handled automatically) and tokens listed in
a scanner state's skip list never affect whether an input is accepted or how it is derived. Every
comment in an input is passed to the user's comment callback exactly once, in input order, and
every skipped token stays in the parse tree.*

LR(1) parser model `lrRun` (tied to `LRParser::parse_into` by the exact differential run). The proofs
live in Proofs/LRSim.lean: one loop iteration is `lrStep`; with the parse-tree stack reduced to the
arguments of its counting (`sig`) entries it becomes `coreStep` (`lrStep_core`: `pop_n` takes the same
counting entries from a stack and from its `sig`-filtered version, so `call_action` yields the same
arguments and succeeds or fails alike), and `coreStep` commutes with removing the skipped tokens from
the input (`coreStep_sk`). This closes `LRSkipIrrelevant` of Props/C17. "Every skipped token stays in
the parse tree" is `lr_leaves_eq_tokens` in Props/C14b. -/
namespace ParolModel

/-- **Skipped tokens never influence parsing (LR)**: the run on the significant tokens alone has
    the same result (accept / the same syntax error at the same token / depth error / …), the same
    sequence of semantic actions with the same argument tokens, and the same number of steps — for
    every table (valid or not), option record, fuel and input, successful or not. -/
theorem lr_skip_irrelevant (T : LRTables) (o : Opts) (fuel : Nat) (toks : List MTok) :
    (lrRun T o fuel (sigToks toks)).res = (lrRun T o fuel toks).res ∧
    (lrRun T o fuel (sigToks toks)).actions = (lrRun T o fuel toks).actions ∧
    (lrRun T o fuel (sigToks toks)).steps = (lrRun T o fuel toks).steps := by
  have h := lrCoreRun_skip_irrelevant T o.maxDepth fuel toks
  rw [← lrRun_core, ← lrRun_core] at h
  simp only [CoreOut.ra, LROut.core, Prod.mk.injEq] at h
  exact h

/-- The statement left open in Props/C17 holds. -/
theorem lrSkipIrrelevant_holds : LRSkipIrrelevant := fun T o fuel toks =>
  ⟨(lr_skip_irrelevant T o fuel toks).1, (lr_skip_irrelevant T o fuel toks).2.1⟩

/-- **Comments once, in order (LR)**, general form: if the table enters `Accept` only on the
    end-of-input terminal 0 (`acceptOnEoi`) and no significant token carries type 0, then on success
    the comment callback received exactly the comment tokens among the skipped tokens of the input,
    in input order, each once — with or without trimming, including trailing comments. -/
theorem lr_comments_once_in_order_of_acceptOnEoi (T : LRTables) (o : Opts) (fuel : Nat) (toks : List MTok)
    (hacc : acceptOnEoi T = true) (hne : ∀ t ∈ toks, t.skip = false → t.ty ≠ 0)
    (h : (lrRun T o fuel toks).res = .ok) :
    (lrRun T o fuel toks).comments = commentIds (toks.filter (·.skip)) := by
  have hc := lrRun_core T o fuel toks
  have h' : (lrCoreRun T o.maxDepth fuel toks).res = .ok := by rw [← hc]; exact h
  have := lrCoreRun_comments T o.maxDepth fuel toks hacc hne h'
  rw [← hc] at this
  exact this

/-- **Comments once, in order (LR)** for every table that passes the verified checker `lrTableValid`
    (evaluated on every table parol produces in the checks). -/
theorem lr_comments_once_in_order (T : LRTables) (gprods : List Rule) (o : Opts) (fuel : Nat) (toks : List MTok)
    (hv : lrTableValid T gprods = true) (hne : ∀ t ∈ toks, t.skip = false → t.ty ≠ 0)
    (h : (lrRun T o fuel toks).res = .ok) :
    (lrRun T o fuel toks).comments = commentIds (toks.filter (·.skip)) :=
  lr_comments_once_in_order_of_acceptOnEoi T o fuel toks (acceptOnEoi_of_valid hv) hne h

-- Non-vacuity on the table of Props/C03: `( ws ( /*c*/ ) ) ws` — whitespace and a comment interleaved.
def exLRSkips : List MTok :=
  [⟨5, false, false, 0⟩, ⟨2, true, false, 1⟩, ⟨5, false, false, 2⟩, ⟨3, true, true, 3⟩, ⟨6, false, false, 4⟩,
   ⟨6, false, false, 5⟩, ⟨1, true, false, 6⟩]
example : acceptOnEoi exLR = true := by decide
example : (lrRun exLR ⟨false, false, none⟩ 100 exLRSkips).res = .ok := by decide
example : (lrRun exLR ⟨false, false, none⟩ 100 exLRSkips).comments = [3] := by decide
example : (lrRun exLR ⟨false, false, none⟩ 100 exLRSkips).actions =
    (lrRun exLR ⟨false, false, none⟩ 100 (sigToks exLRSkips)).actions := by decide
example : ((lrRun exLR ⟨false, false, none⟩ 100 exLRSkips).actions.map (·.1)) = [1, 2, 0, 2, 3] := by decide
-- a failing input: the same syntax error at the same token with and without the skipped tokens
example : (lrRun exLR ⟨false, false, none⟩ 100 (exLRSkips.take 5 ++ [⟨5, false, false, 9⟩])).res = .syntax (some 9) := by decide
example : (lrRun exLR ⟨false, false, none⟩ 100 (sigToks (exLRSkips.take 5 ++ [⟨5, false, false, 9⟩]))).res = .syntax (some 9) := by decide

end ParolModel
