import ParolModel.Proofs.KFollow
/-! # C05 — LL(k) decision: accept iff strong-LL(k), with the minimal lookahead

Property text: *For every grammar and lookahead limit K, parol's LL(k) pipeline accepts the
transformed grammar exactly when every non-terminal can be decided with strong-LL(k) lookahead for
some k not above K. The lookahead it assigns to each non-terminal is the smallest such k, and a
rejected grammar names a non-terminal that really has overlapping lookahead sets at K.*

Formalisation. `StrongLL G k A` (Proofs/KDec.lean): for any two alternatives of `A` (distinct
production indices) the sets `LA G k A α = { (u ++ f).take k | α ⇒* u, f ∈ FollowK G k A }` are
disjoint, with `FollowK` the declarative FOLLOW_k of C06. `decidableM`, `calculateKTuples` are the
faithful models of `decidable` and `calculate_k_tuples` (which `calculate_lookahead_dfas` runs
first and whose error it propagates). All statements are *relative to the computed sets being the
declarative sets* (`SetsAreSpecAt`, which is C06's statement), as the design prescribes. -/
namespace ParolModel.KS

/-- **Decision = strong-LL(k) with the smallest k**: *"The lookahead it assigns to each
    non-terminal is the smallest such k"* — for a non-terminal with at least two alternatives,
    `decidable` answers `Ok(k)` exactly when k ∈ 1..K, `A` is strong-LL(k), and `A` is not
    strong-LL(j) for any 1 ≤ j < k. -/
theorem decidable_iff_strongLL (G : Grammar) (fuel K A : Nat) (h : C05Hyp G fuel K A)
    (h2 : 2 ≤ (prodIdxs G A).length) (k : Nat) :
    decidableM G fuel A K = .ok k ↔
      (1 ≤ k ∧ k ≤ K ∧ StrongLL G k A ∧ ∀ j, 1 ≤ j → j < k → ¬ StrongLL G j A) := by
  rw [decidableM_of_two h2, decLoop_ok_iff (sllTest G A) K 1 (loop_hyp h) k]
  unfold sllTest
  simp only [decide_eq_true_eq, decide_eq_false_iff_not]
  constructor
  · rintro ⟨a, b, c, d⟩; exact ⟨a, by omega, c, d⟩
  · rintro ⟨a, b, c, d⟩; exact ⟨a, by omega, c, d⟩

/-- **One alternative needs no lookahead** (`Ok(0)`, the "trivial case" of `decidable`). -/
theorem decidable_single (G : Grammar) (fuel K A : Nat) (h1 : (prodIdxs G A).length = 1) :
    decidableM G fuel A K = .ok 0 := by
  unfold decidableM
  split
  · rename_i h; rw [h] at h1; simp at h1
  · rfl
  · rename_i hn1 hn2
    match hl : prodIdxs G A, h1 with
    | [a], _ => exact absurd hl (hn2 a)

/-- **Rejection of a non-terminal** = no k in 1..K makes it strong-LL(k). -/
theorem decidable_maxk_iff (G : Grammar) (fuel K A : Nat) (h : C05Hyp G fuel K A)
    (h2 : 2 ≤ (prodIdxs G A).length) :
    decidableM G fuel A K = .errMaxK ↔ ∀ j, 1 ≤ j → j ≤ K → ¬ StrongLL G j A := by
  rw [decidableM_of_two h2, decLoop_err_iff (sllTest G A) K 1 (loop_hyp h)]
  unfold sllTest
  simp only [decide_eq_false_iff_not]
  constructor
  · intro hh j a b; exact hh j a (by omega)
  · intro hh j a b; exact hh j a (by omega)

/-- **Minimality**: *"The lookahead it assigns … is the smallest such k"* — no smaller j (including
    j = 0, for productive alternatives) makes `A` strong-LL(j). -/
theorem k_minimal (G : Grammar) (fuel K A k : Nat) (h : C05Hyp G fuel K A)
    (hprod : ∀ p ∈ G.prods, p.lhs = A → ∃ u, Yield G p.rhs u)
    (hk : decidableM G fuel A K = .ok k) :
    StrongLL G k A ∧ ∀ j, j < k → ¬ StrongLL G j A := by
  rcases Nat.lt_or_ge (prodIdxs G A).length 2 with hlt | h2
  · -- zero or one alternative
    rcases Nat.lt_or_ge (prodIdxs G A).length 1 with h0 | h1
    · have : prodIdxs G A = [] := List.eq_nil_of_length_eq_zero (by omega)
      simp [decidableM, this] at hk
    · have h1 : (prodIdxs G A).length = 1 := by omega
      rw [decidable_single G fuel K A h1] at hk
      injection hk with hk; subst hk
      exact ⟨strongLL_of_single h1 0, fun j hj => by omega⟩
  · obtain ⟨a, b, c, d⟩ := (decidable_iff_strongLL G fuel K A h h2 k).1 hk
    refine ⟨c, fun j hj => ?_⟩
    rcases Nat.eq_zero_or_pos j with rfl | hpos
    · exact not_strongLL_zero h2 hprod (h.followNe 0)
    · exact d j hpos hj

/-- **Rejection names a real overlap**: *"a rejected grammar names a non-terminal that really has
    overlapping lookahead sets at K"* — the non-terminal at which `calculate_k_tuples` stops with
    `MaxKExceeded` (the first failing one in alphabetical order) is a non-terminal of the grammar
    with at least two alternatives that is not strong-LL(j) for any j in 1..K; in particular its
    lookahead sets overlap at K. -/
theorem reject_names_real_overlap (G : Grammar) (fuel K A : Nat) (h : C05Hyp G fuel K A)
    (hrej : calculateKTuples G fuel K = .err A .errMaxK) :
    A ∈ ntsOf G ∧ 2 ≤ (prodIdxs G A).length ∧ (∀ j, 1 ≤ j → j ≤ K → ¬ StrongLL G j A) ∧
      (1 ≤ K → ¬ StrongLL G K A) := by
  obtain ⟨hmem, hdec⟩ := calcTuplesLoop_err (ntsOf G) [] A .errMaxK hrej
  have hdec : decidableM G fuel A K = .errMaxK := by
    rcases hdec with ⟨he, _⟩ | he
    · exact he.symm
    · cases he
  have h2 : 2 ≤ (prodIdxs G A).length := by
    rcases Nat.lt_or_ge (prodIdxs G A).length 2 with hlt | h2
    · rcases Nat.lt_or_ge (prodIdxs G A).length 1 with h0 | h1
      · have : prodIdxs G A = [] := List.eq_nil_of_length_eq_zero (by omega)
        simp [decidableM, this] at hdec
      · rw [decidable_single G fuel K A (by omega)] at hdec; cases hdec
    · exact h2
  have hall := (decidable_maxk_iff G fuel K A h h2).1 hdec
  exact ⟨hmem, h2, hall, fun hK => hall K hK (Nat.le_refl _)⟩

/-- **Acceptance**: *"parol's LL(k) pipeline accepts the transformed grammar exactly when every
    non-terminal can be decided with strong-LL(k) lookahead for some k not above K"* — for a
    grammar in which every non-terminal has productive alternatives and a terminating right context,
    `calculate_k_tuples` succeeds iff every non-terminal is strong-LL(k) for some k ≤ K. -/
theorem pipeline_accepts_iff (G : Grammar) (fuel K : Nat)
    (hall : ∀ A ∈ ntsOf G, C05Hyp G fuel K A)
    (hdef : ∀ A ∈ ntsOf G, 1 ≤ (prodIdxs G A).length)
    (hprod : ∀ p ∈ G.prods, ∃ u, Yield G p.rhs u)
    (hcomp : ∀ A ∈ ntsOf G, ∀ k, k ≤ K → (laSets G fuel A k).isSome) :
    (∃ m, calculateKTuples G fuel K = .ok m) ↔ ∀ A ∈ ntsOf G, ∃ k, k ≤ K ∧ StrongLL G k A := by
  constructor
  · rintro ⟨m, hm⟩ A hA
    obtain ⟨k, hk⟩ := calcTuplesLoop_ok (ntsOf G) [] m hm A hA
    rcases Nat.lt_or_ge (prodIdxs G A).length 2 with hlt | h2
    · have h1 : (prodIdxs G A).length = 1 := by have := hdef A hA; omega
      exact ⟨0, Nat.zero_le _, strongLL_of_single h1 0⟩
    · obtain ⟨a, b, c, _⟩ := (decidable_iff_strongLL G fuel K A (hall A hA) h2 k).1 hk
      exact ⟨k, b, c⟩
  · intro h
    apply calcTuplesLoop_ok_of_all
    intro A hA
    rcases Nat.lt_or_ge (prodIdxs G A).length 2 with hlt | h2
    · have h1 : (prodIdxs G A).length = 1 := by have := hdef A hA; omega
      exact ⟨0, decidable_single G fuel K A h1, hcomp A hA 0 (Nat.zero_le _)⟩
    · obtain ⟨k, hkK, hs⟩ := h A hA
      -- the least j ≤ k with StrongLL j is ≥ 1 and is what `decidable` returns
      have hpos : ∀ j, StrongLL G j A → 1 ≤ j := by
        intro j hj
        rcases Nat.eq_zero_or_pos j with rfl | hp
        · exact absurd hj (not_strongLL_zero h2 (fun p hp _ => hprod p hp) ((hall A hA).followNe 0))
        · exact hp
      obtain ⟨j0, hj0k, hj0, hmin⟩ := exists_least (fun j => StrongLL G j A) k hs
      have hj0K : j0 ≤ K := Nat.le_trans hj0k hkK
      refine ⟨j0, (decidable_iff_strongLL G fuel K A (hall A hA) h2 j0).2
        ⟨hpos j0 hj0, hj0K, hj0, fun j _ hj => hmin j hj⟩, hcomp A hA j0 hj0K⟩

/-- **Composition with C06**: for grammars of the property's class (no terminal 0, productive,
    reachable, no (hidden) left recursion) the hypothesis "the sets are the declarative sets" is a
    theorem, so the decision statement holds outright: `decidable` answers `Ok(k)` for a non-terminal
    with at least two alternatives exactly when k is the smallest k in 1..K with strong-LL(k). -/
theorem decidable_iff_strongLL_class (G : Grammar) (fuel K : Nat) (p : Rule) (hp : p ∈ G.prods)
    (hno : NoEoi G) (hprod : Productive G) (hreach : Reachable G) (hnlr : NoLeftRec G)
    (hcomp : ∀ k, 1 ≤ k → k ≤ K → (firstCode G fuel k).isSome ∧ (followCode G fuel k).isSome)
    (h2 : 2 ≤ (prodIdxs G p.lhs).length) (k : Nat) :
    decidableM G fuel p.lhs K = .ok k ↔
      (1 ≤ k ∧ k ≤ K ∧ StrongLL G k p.lhs ∧ ∀ j, 1 ≤ j → j < k → ¬ StrongLL G j p.lhs) :=
  decidable_iff_strongLL G fuel K p.lhs (c05Hyp_of_class hno hprod hreach hnlr hcomp hp) h2 k

/-! ## non-vacuity -/

/-- `S: "a" "b" | "a" "c";` needs two tokens. -/
example : decidableM ⟨0, [⟨0, [.t 5, .t 6]⟩, ⟨0, [.t 5, .t 7]⟩]⟩ 20 0 3 = .ok 2 := by decide

/-- `S: "a" | "a";` is rejected at every K. -/
example : decidableM ⟨0, [⟨0, [.t 5]⟩, ⟨0, [.t 5]⟩]⟩ 20 0 3 = .errMaxK := by decide

example : calculateKTuples ⟨0, [⟨0, [.n 1]⟩, ⟨1, [.t 5]⟩, ⟨1, [.t 5]⟩]⟩ 20 2 = .err 1 .errMaxK := by
  decide

/-- the hypotheses are satisfiable: single-token grammar, FOLLOW of the start symbol is inhabited -/
example : ∃ f, FollowK ⟨0, [⟨0, [.t 5]⟩]⟩ 1 0 f :=
  ⟨[0], [], [], [], Derives.refl _, Yield.nil, rfl⟩

end ParolModel.KS
