import ParolModel.Proofs.TerminalsCtor
import ParolModel.Proofs.TerminalsOrd
/-! # C32 — The packed k-tuple representation behaves like a sequence

Property text: *For every terminal alphabet size the analysis supports and every lookahead up to
the maximum, the packed terminal-string representation behaves exactly like a bounded sequence of
terminals: appending, truncated concatenation, element access, iteration, epsilon and end-of-input
tests, completeness, equality and ordering agree with the sequence they denote.*

Reading.  `Model/Terminals.lean` mirrors `analysis/k_tuple.rs` on `BitVec 128` (`none` = panic).
`abs : BitVec 128 → List TSym` reads a packed word as the sequence it denotes, `absS` adds the bit
width; `WF` (defined in `Proofs/Terminals.lean`) is the representation invariant
(1 ≤ bits ≤ 12, len ≤ 10, payload above `len·bits` zero).  For every public operation the theorems
below say: on well-formed arguments inside the stated domain (terminal values `≤` the alphabet's
maximum or ε, one bit width per operation, `k ≤ MAX_K`) the operation does not panic (`*_total`,
or the `∃` in the statement), preserves `WF` (`wf_*`) and commutes with `abs` (`abs_*`), where the
right-hand sides are the list functions `spec*` of `Model/Terminals.lean`.

Quantifiers: all `m` with `m + 1 < 4096` ("every alphabet size the analysis supports": exactly the
sizes for which `Terminals::new` does not panic, `new_panics_iff`), all `k ≤ 10` where `k` matters
(`k_concat`; every other operation is proved for all `k`), all well-formed words.

Axioms: the bit-level lemmas of `Proofs/TerminalsBits.lean` are closed by `bv_decide`; every theorem
that uses one inherits an axiom `<lemma>._native.bv_decide.ax_*` (the LRAT certificate is checked by
compiled code, CaDiCaL and the compiled checker are trusted).  Everything else is ordinary
induction with `propext`, `Classical.choice`, `Quot.sound`.

Excluded with reason: `set` outside `i < len` and `KTuple::with_terminal_indices` ("Used for
debugging only") can write above the length and break `WF`; `set_bits`/`inc_index` are raw header
setters; `Terminals::default()` has bit width 0.  They are modelled (tie D covers them) but no
sequence reading is claimed. -/
namespace ParolModel
namespace Tm

/-! ## capacity -/

/-- `MAX_K` fields of `MAX_BITS` bits plus the 8 header bits fit the `u128`. -/
theorem capacity : MAX_K * MAX_BITS + 8 ≤ 128 := by decide

/-- "the maximum number of bits used per terminal is 12" -/
theorem max_bits_is_12 : MAX_BITS = 12 := by decide

/-- the `u8` product `next_index * bits` in `From<&Terminals> for u128` cannot overflow -/
theorem u8_product_no_overflow (t : BitVec 128) : (nextIndex t).toNat * (bits t).toNat < 256 := by
  have h1 : (nextIndex t).toNat ≤ 15 := by have := nextIndex_le t; bv_omega
  have h2 : (bits t).toNat ≤ 15 := by have := bits_le t; bv_omega
  have := Nat.mul_le_mul h1 h2
  omega

/-- *every terminal alphabet size the analysis supports*: `Terminals::new(m)` panics iff
    `m + 1 ≥ 4096`, i.e. iff `m ≥ 4095` (the ε code needs one value beyond the `m + 1` terminals). -/
theorem new_panics_iff (m : Nat) : new m = none ↔ 4096 ≤ m + 1 := by
  constructor
  · intro h
    rcases Nat.lt_or_ge (m + 1) 4096 with hlt | hge
    · rw [new_eq hlt] at h; cases h
    · exact hge
  · exact new_none

/-- the all-ones field value that encodes ε is never a terminal of the alphabet `0..=m` -/
theorem eps_not_a_terminal {m v : Nat} (hm : m + 1 < 4096) (hv : v ≤ m) :
    v + 1 < 2 ^ bitsFor m ∧ validArg (bitsFor m) v = true ∧ symOfArg v = .term v := by
  have h1 : m + 1 < 2 ^ (Nat.log2 (m + 1) + 1) := Nat.lt_log2_self
  have h2 : v + 1 < 2 ^ bitsFor m := by simp only [bitsFor]; omega
  refine ⟨h2, ?_, ?_⟩
  · simp [validArg, h2]
  · have : v ≠ EPS := by simp only [EPS]; omega
    simp [symOfArg, this]

/-! ## constructors -/

/-- `new`: the empty sequence at the width `bitsFor m` -/
theorem wf_new {m : Nat} {t : BitVec 128} (h : new m = some t) : WF t := by
  have hm : m + 1 < 4096 := by
    rcases Nat.lt_or_ge (m + 1) 4096 with hlt | hge
    · exact hlt
    · rw [new_none hge] at h; cases h
  obtain ⟨hb1, hb12, _⟩ := ofNat8_bitsFor hm
  rw [new_eq hm] at h; cases h
  exact (emptyW_spec _ hb1 hb12).1

theorem abs_new (m : Nat) : (new m).map absS = specNew m := by
  unfold specNew
  rcases Nat.lt_or_ge (m + 1) 4096 with hlt | hge
  · obtain ⟨hb1, hb12, hbn⟩ := ofNat8_bitsFor hlt
    obtain ⟨_, hb, _, ha⟩ := emptyW_spec _ hb1 hb12
    rw [new_eq hlt, if_neg (by omega)]
    simp [absS, hb, hbn, ha]
  · rw [new_none hge, if_pos hge]; rfl

/-- `eps`: the sequence `[ε]` -/
theorem wf_eps {m : Nat} {t : BitVec 128} (h : eps m = some t) : WF t := by
  rcases Nat.lt_or_ge (m + 1) 4096 with hlt | hge
  · obtain ⟨t', h1, hw, _⟩ := eps_spec hlt
    rw [h1] at h; cases h; exact hw
  · simp [eps, new_none hge] at h

theorem abs_eps (m : Nat) : (eps m).map absS = specEps m := by
  unfold specEps
  rcases Nat.lt_or_ge (m + 1) 4096 with hlt | hge
  · obtain ⟨t', h1, _, ha⟩ := eps_spec hlt
    rw [h1, if_neg (by omega)]; simp [ha]
  · simp [eps, new_none hge, hge]

/-- `end`: the sequence `[EOI]` -/
theorem wf_end {m : Nat} {t : BitVec 128} (h : «end» m = some t) : WF t := by
  rcases Nat.lt_or_ge (m + 1) 4096 with hlt | hge
  · obtain ⟨t', h1, hw, _⟩ := end_spec hlt
    rw [h1] at h; cases h; exact hw
  · simp [«end», new_none hge] at h

theorem abs_end (m : Nat) : («end» m).map absS = specEnd m := by
  unfold specEnd
  rcases Nat.lt_or_ge (m + 1) 4096 with hlt | hge
  · obtain ⟨t', h1, _, ha⟩ := end_spec hlt
    rw [h1, if_neg (by omega)]; simp [ha]
  · simp [«end», new_none hge, hge]

/-- `of(k, other)`: the first `k` symbols (for every `k`) -/
theorem of_total {t : BitVec 128} (h : WF t) (k : Nat) : ∃ t', «of» k t = some t' := by
  obtain ⟨t', h1, _⟩ := of_spec h k; exact ⟨t', h1⟩
theorem wf_of {t t' : BitVec 128} (h : WF t) {k : Nat} (hr : «of» k t = some t') : WF t' ∧ bits t' = bits t := by
  obtain ⟨t'', h1, hw, hb, _⟩ := of_spec h k
  rw [h1] at hr; cases hr; exact ⟨hw, hb⟩
theorem abs_of {t t' : BitVec 128} (h : WF t) {k : Nat} (hr : «of» k t = some t') : abs t' = (abs t).take k := by
  obtain ⟨t'', h1, _, _, ha⟩ := of_spec h k
  rw [h1] at hr; cases hr; exact ha

/-- `clear`: the empty sequence, same width -/
theorem wf_clear {t t' : BitVec 128} (h : WF t) (hr : clear t = some t') : WF t' ∧ bits t' = bits t := by
  obtain ⟨t'', h1, hw, hb, _⟩ := clear_spec h
  rw [h1] at hr; cases hr; exact ⟨hw, hb⟩
theorem abs_clear {t : BitVec 128} (h : WF t) : ∃ t', clear t = some t' ∧ abs t' = [] := by
  obtain ⟨t', h1, _, _, ha⟩ := clear_spec h; exact ⟨t', h1, ha⟩

/-! ## length, element access, iteration -/

/-- *a bounded sequence*: at most `MAX_K` symbols -/
theorem abs_length_le {t : BitVec 128} (h : WF t) : (abs t).length ≤ MAX_K := by
  rw [abs_length, MAX_K_eq]; exact h.len_le

theorem abs_len (t : BitVec 128) : len t = specLen (abs t) := by simp [specLen]
theorem abs_isEmpty (t : BitVec 128) : isEmpty t = (abs t).isEmpty := by
  rw [isEmpty_spec]; cases abs t <;> rfl
theorem abs_kLen (t : BitVec 128) (k : Nat) : kLen t k = specKLen (abs t) k := kLen_spec t k

/-- *element access*: `get(i)` is the `i`-th symbol (`0xFFFF` for ε), `None` beyond the length; no panic -/
theorem abs_get {t : BitVec 128} (h : WF t) (i : Nat) : get t i = some (specGet (abs t) i) := get_spec h i

/-- *iteration*: `iter()` yields the symbols in order -/
theorem abs_iter {t : BitVec 128} (h : WF t) : iter t = specIter (abs t) := iter_spec h

/-! ## tests -/

/-- *epsilon test* -/
theorem abs_isEps {t : BitVec 128} (h : WF t) : isEps t = specIsEps (abs t) := isEps_spec h

/-- *end-of-input test and completeness*: `is_k_complete(k)` for every `k`; in particular the
    end-of-input test `last().is_some_and(is_end)` is "the last symbol is `EOI`". -/
theorem abs_isKComplete {t : BitVec 128} (h : WF t) (k : Nat) :
    isKComplete t k = some (specIsKComplete (abs t) k) := isKComplete_spec h k

/-! ## appending -/

/-- *appending*: `push` never panics on a valid argument, … -/
theorem push_total {t : BitVec 128} (h : WF t) {v : Nat} (hv : validArg (bits t).toNat v = true) :
    ∃ r t', push t v = some (r, t') := by
  obtain ⟨r, t', h1, _⟩ := push_spec h hv; exact ⟨r, t', h1⟩
/-- … keeps the invariant and the width, … -/
theorem wf_push {t t' : BitVec 128} {r : Bool} (h : WF t) {v : Nat} (hv : validArg (bits t).toNat v = true)
    (hr : push t v = some (r, t')) : WF t' ∧ bits t' = bits t := by
  obtain ⟨r', t'', h1, hw, hb, _⟩ := push_spec h hv
  rw [h1] at hr; cases hr; exact ⟨hw, hb⟩
/-- … and is `specPush`: `Err` at `MAX_K` symbols, no-op after `EOI`, else append. -/
theorem abs_push {t t' : BitVec 128} {r : Bool} (h : WF t) {v : Nat} (hv : validArg (bits t).toNat v = true)
    (hr : push t v = some (r, t')) : specPush (abs t) (symOfArg v) = (r, abs t') := by
  obtain ⟨r', t'', h1, _, _, hs⟩ := push_spec h hv
  rw [h1] at hr; cases hr; exact hs

theorem wf_extend {t t' : BitVec 128} (h : WF t) {vs : List Nat} (hv : vs.all (validArg (bits t).toNat) = true)
    (hr : extend t vs = some t') : WF t' ∧ bits t' = bits t := by
  obtain ⟨t'', h1, hw, hb, _⟩ := extend_spec h vs hv
  rw [h1] at hr; cases hr; exact ⟨hw, hb⟩
theorem abs_extend {t : BitVec 128} (h : WF t) {vs : List Nat} (hv : vs.all (validArg (bits t).toNat) = true) :
    ∃ t', extend t vs = some t' ∧ abs t' = specExtend (abs t) (vs.map symOfArg) := by
  obtain ⟨t', h1, _, _, ha⟩ := extend_spec h vs hv; exact ⟨t', h1, ha⟩

/-- `set` inside the length replaces one symbol -/
theorem wf_set {t t' : BitVec 128} (h : WF t) {i v : Nat} (hi : i < len t) (hv : validArg (bits t).toNat v = true)
    (hr : set t i v = some t') : WF t' ∧ bits t' = bits t := by
  obtain ⟨t'', h1, hw, hb, _⟩ := set_spec h hi hv
  rw [h1] at hr; cases hr; exact ⟨hw, hb⟩
theorem abs_set {t : BitVec 128} (h : WF t) {i v : Nat} (hi : i < len t) (hv : validArg (bits t).toNat v = true) :
    ∃ t', set t i v = some t' ∧ abs t' = (abs t).set i (symOfArg v) := by
  obtain ⟨t', h1, _, _, ha⟩ := set_spec h hi hv; exact ⟨t', h1, ha⟩

/-! ## truncated concatenation -/

/-- *truncated concatenation*: for `k ≤ MAX_K` and operands of one width `k_concat` never panics
    (in particular the `debug_assert!(false, "to_take == 0")` branch is unreachable), … -/
theorem kConcat_total {t o : BitVec 128} (ht : WF t) (ho : WF o) (hb : bits o = bits t) {k : Nat} (hk : k ≤ MAX_K) :
    ∃ t', kConcat t o k = some t' := by
  obtain ⟨t', h1, _⟩ := kConcat_spec ht ho hb (by rw [MAX_K_eq] at hk; exact hk); exact ⟨t', h1⟩
theorem wf_kConcat {t o t' : BitVec 128} (ht : WF t) (ho : WF o) (hb : bits o = bits t) {k : Nat} (hk : k ≤ MAX_K)
    (hr : kConcat t o k = some t') : WF t' ∧ bits t' = bits t := by
  obtain ⟨t'', h1, hw, hb', _⟩ := kConcat_spec ht ho hb (by rw [MAX_K_eq] at hk; exact hk)
  rw [h1] at hr; cases hr; exact ⟨hw, hb'⟩
/-- … and is `specKConcat`: `w·ε = w`, `w·[] = w`, `ε·w = w`, a k-complete left operand absorbs,
    otherwise `(u ++ v).take k`. -/
theorem abs_kConcat {t o t' : BitVec 128} (ht : WF t) (ho : WF o) (hb : bits o = bits t) {k : Nat} (hk : k ≤ MAX_K)
    (hr : kConcat t o k = some t') : abs t' = specKConcat (abs t) (abs o) k := by
  obtain ⟨t'', h1, _, _, ha⟩ := kConcat_spec ht ho hb (by rw [MAX_K_eq] at hk; exact hk)
  rw [h1] at hr; cases hr; exact ha

/-! ## equality, hashing, ordering -/

/-- *equality*: `==` (derived, on the raw word) is equality of width and denoted sequence -/
theorem eq_iff_abs_eq {t u : BitVec 128} (ht : WF t) (hu : WF u) : eq t u = true ↔ absS t = absS u := by
  simp only [eq, beq_iff_eq]
  constructor
  · intro h; rw [h]
  · exact eq_of_absS_eq ht hu

/-- derived `Hash` feeds the raw word: equal values hash equally -/
theorem hash_respects_eq {t u : BitVec 128} (h : eq t u = true) : hashKey t = hashKey u := by
  simp only [eq, beq_iff_eq] at h; rw [h]

/-- *ordering*: `cmp` is `specCmp` — length first, then lexicographic from the last symbol down,
    ε above every terminal (operands of one width) -/
theorem cmp_eq_specCmp {t u : BitVec 128} (ht : WF t) (hu : WF u) (hb : bits u = bits t) :
    cmp t u = some (specCmp (abs t) (abs u)) := cmp_spec ht hu hb

theorem symLt_irrefl (x : TSym) : symLt x x = false := by cases x <;> simp [symLt]
theorem symLt_tri {x y : TSym} (h1 : symLt x y = false) (h2 : symLt y x = false) : x = y := by
  cases x <;> cases y <;> simp [symLt] at h1 h2 ⊢
  omega

theorem lexCmp_eq_iff : ∀ (a b : List TSym), lexCmp a b = .eq ↔ a = b
  | [], [] => by simp [lexCmp]
  | [], _ :: _ => by simp [lexCmp]
  | _ :: _, [] => by simp [lexCmp]
  | x :: xs, y :: ys => by
    simp only [lexCmp]
    cases h1 : symLt x y
    · cases h2 : symLt y x
      · have := symLt_tri h1 h2; subst this
        simp [lexCmp_eq_iff xs ys]
      · simp; intro hh; subst hh; rw [symLt_irrefl] at h2; cases h2
    · simp; intro hh; subst hh; rw [symLt_irrefl] at h1; cases h1

/-- the ordering is consistent with equality: `Equal` exactly for equal sequences -/
theorem specCmp_eq_iff (a b : List TSym) : specCmp a b = .eq ↔ a = b := by
  unfold specCmp
  constructor
  · intro h
    split at h
    · cases h
    · split at h
      · cases h
      · have := (lexCmp_eq_iff _ _).1 h
        exact List.reverse_inj.1 this
  · intro h; subst h
    simp [(lexCmp_eq_iff a.reverse a.reverse).2 rfl]

theorem cmp_eq_iff_eq {t u : BitVec 128} (ht : WF t) (hu : WF u) (hb : bits u = bits t) :
    cmp t u = some .eq ↔ t = u := by
  rw [cmp_spec ht hu hb]
  simp only [Option.some.injEq, specCmp_eq_iff]
  constructor
  · intro h; apply eq_of_absS_eq ht hu; simp [absS, h, hb]
  · intro h; rw [h]

/-! ## the `TerminalString` / `KTuple` wrappers -/

/-- the `Complete`/`Incomplete` flag chosen by every constructor is `is_k_complete(k)` -/
theorem classify_is_kcomplete {t : BitVec 128} (h : WF t) (k : Nat) :
    ∃ s, TString.classify t k = some s ∧ s.inner = t ∧ s.isKComplete = specIsKComplete (abs t) k :=
  ⟨cls t k, classify_spec h k, cls_inner t k, cls_flag t k⟩

/-- `KTuple::of(t, k)`: first `k` symbols, flag = completeness, `k` field = `k` -/
theorem abs_ktuple_of {t : BitVec 128} (h : WF t) (k : Nat) :
    ∃ x, KTuple.of t k = some x ∧ WF x.terminals.inner ∧ bits x.terminals.inner = bits t ∧
      abs x.terminals.inner = (abs t).take k ∧ x.isKComplete = specIsKComplete ((abs t).take k) k ∧ x.k = k :=
  ktuple_of_spec h k

/-- `KTuple::from_slice(vs, k, m)`: the first `k` values pushed one by one -/
theorem abs_ktuple_fromSlice {m : Nat} (hm : m + 1 < 4096) (vs : List Nat) (k : Nat)
    (hv : (vs.take k).all (validArg (bitsFor m)) = true) :
    ∃ x, KTuple.fromSlice vs k m = some x ∧ WF x.terminals.inner ∧ (bits x.terminals.inner).toNat = bitsFor m ∧
      abs x.terminals.inner = specExtend [] ((vs.take k).map symOfArg) ∧
      x.isKComplete = specIsKComplete (abs x.terminals.inner) k ∧ x.k = k :=
  ktuple_fromSlice_spec hm vs k hv

/-- `KTuple::k_concat` on an incomplete left operand is `specKConcat`; the flag is the completeness
    of the result and the `k` field becomes the k-length of the result -/
theorem abs_ktuple_kConcat {x o : KTuple} {t : BitVec 128} (hx : x.terminals = .incomplete t) (ht : WF t)
    (ho : WF o.terminals.inner) (hb : bits o.terminals.inner = bits t) {k : Nat} (hk : k ≤ MAX_K) :
    ∃ y, x.kConcat o k = some y ∧ WF y.terminals.inner ∧
      abs y.terminals.inner = specKConcat (abs t) (abs o.terminals.inner) k ∧
      y.isKComplete = specIsKComplete (abs y.terminals.inner) k ∧
      y.k = specKLen (abs y.terminals.inner) k :=
  ktuple_kConcat_spec hx ht ho hb (by rw [MAX_K_eq] at hk; exact hk)

/-- `KTupleBuilder::new().k(k).max_terminal_index(m).terminal_string(ts).build()` for `k ≤ MAX_K`:
    never `Err`, the first `k` values pushed one by one, flag = completeness -/
theorem abs_ktuple_build {m : Nat} (hm : m + 1 < 4096) (ts : List Nat) {k : Nat} (hk : k ≤ MAX_K)
    (hv : (ts.take k).all (validArg (bitsFor m)) = true) :
    ∃ x, KTuple.build k m ts = some (some x) ∧ WF x.terminals.inner ∧ (bits x.terminals.inner).toNat = bitsFor m ∧
      abs x.terminals.inner = specExtend [] ((ts.take k).map symOfArg) ∧
      x.isKComplete = specIsKComplete (abs x.terminals.inner) k ∧ x.k = k :=
  ktuple_build_spec hm ts (by rw [MAX_K_eq] at hk; exact hk) hv

/-- `set_k(k)`: the sequence is kept, the flag becomes `is_k_complete(k)`, the `k` field `k` -/
theorem abs_ktuple_setK {x : KTuple} (h : WF x.terminals.inner) (k : Nat) :
    ∃ y, x.setK k = some y ∧ y.terminals.inner = x.terminals.inner ∧
      y.isKComplete = specIsKComplete (abs x.terminals.inner) k ∧ y.k = k :=
  ktuple_setK_spec h k

/-- a `Complete` left operand is returned unchanged -/
theorem abs_ktuple_kConcat_complete {x o : KTuple} {t : BitVec 128} (hx : x.terminals = .complete t) (k : Nat) :
    x.kConcat o k = some ⟨.complete t, kLen t k⟩ := ktuple_kConcat_complete hx k

/-- `KTuple::push` on an incomplete tuple is `specPush`, the flag is recomputed for the tuple's `k` -/
theorem abs_ktuple_push {x : KTuple} {t : BitVec 128} (hx : x.terminals = .incomplete t) (ht : WF t) {v : Nat}
    (hv : validArg (bits t).toNat v = true) :
    ∃ r y, x.push v = some (r, y) ∧ WF y.terminals.inner ∧ y.k = x.k ∧
      specPush (abs t) (symOfArg v) = (r, abs y.terminals.inner) ∧
      (r = true → y.isKComplete = specIsKComplete (abs y.terminals.inner) x.k) :=
  ktuple_push_spec hx ht hv

/-- `KTuple`'s manual `Hash` (raw word of the inner `Terminals`) respects its derived `Eq` -/
theorem ktuple_hash_respects_eq {x y : KTuple} (h : x = y) : x.hashKey = y.hashKey := by rw [h]

/-- the decidable invariant used by the oracle is `WF` -/
theorem wfb_eq_true_iff (t : BitVec 128) : wfb t = true ↔ WF t := wfb_iff t

/-! ## non-vacuity, boundary cases, and observations about the code as it is -/

/-- `new 6` is the 3-bit empty word; `[1,2,3] ·₅ [4,5,6] = [1,2,3,4,5]` (doc test of `k_concat`) -/
example : new 6 = some 0x30000000000000000000000000000000#128 := by decide
example : (do let a ← new 6; let a ← extend a [1, 2, 3]; let b ← new 6; let b ← extend b [4, 5, 6]
              let c ← kConcat a b 5; pure (abs c, wfb c)) =
    some ([.term 1, .term 2, .term 3, .term 4, .term 5], true) := by decide
example : (eps 1).map (fun t => (abs t, wfb t)) = some ([.eps], true) := by decide
example : («end» 4094).map (fun t => (abs t, wfb t, (bits t).toNat)) = some ([.term 0], true, 12) := by decide
/-- the boundary: 4094 is the largest supported `max_terminal_index` -/
example : (new 4094).isSome = true ∧ new 4095 = none ∧ new 4096 = none := by decide
/-- ten 12-bit symbols fill bits 0..119 exactly; the eleventh `push` is an `Err` -/
example : (do let a ← new 4094; let a ← extend a [4094, 4093, 4094, 4093, 4094, 4093, 4094, 4093, 4094, 4093]
              let (r, a') ← push a 4094; pure (r, a == a', len a', get a' 9)) =
    some (false, true, 10, some (some 4093)) := by decide

/-- Observation (not part of the sequence reading): `push` does not treat ε specially — pushing onto
    `[ε]` yields `[ε, x]`; only `k_concat` implements `ε·w = w`. -/
theorem push_onto_eps : (do let e ← eps 6; let (_, t) ← push e 1; pure (abs t)) = some [.eps, .term 1] := by decide

/-- Observation: `Extend for KTuple` computes `self.k - self.len()`; for the ε-tuple built with
    `k = 0` (length 1) this `usize` subtraction underflows — a panic with overflow checks on (and
    `take(usize::MAX)` without them). -/
theorem ktuple_extend_eps_k0_panics : (do let x ← KTuple.eps 0 6; x.extend [1]) = none := by decide

/-- Observation: beyond `MAX_K` the packed form is not a sequence any more — `k_concat` with
    `k = 11` on a full word fails its `debug_assert!(new_index <= MAX_K)`. -/
theorem kConcat_k11_panics :
    (do let a ← new 1; let a ← extend a [1, 1, 1, 1, 1, 1, 1, 1, 1, 1]; let b ← new 1; let b ← extend b [1]
        kConcat a b 11) = none := by decide

/-- Observation: `Ord` ignores the bit width while `==` does not — across alphabets of different
    width `cmp` can be `Equal` for unequal values (never mixed inside one analysis). -/
theorem cmp_equal_but_ne_across_widths :
    (do let a ← new 1; let a ← extend a [1]; let b ← new 6; let b ← extend b [1]; let c ← cmp a b; pure (c, eq a b)) =
      some (.eq, false) := by decide

end Tm
end ParolModel
