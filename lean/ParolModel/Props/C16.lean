import ParolModel.Model.Unmatched
import ParolModel.Proofs.Regex
/-! # C16 — Unmatched input is an error unless explicitly allowed (scanner level)

"In a scanner state without allow-unmatched, any input character that no terminal, whitespace,
newline or comment rule matches makes the parse fail. In a state with allow-unmatched, such text
is ignored by the parser but kept in the parse tree."

Scanner-level part: without allow-unmatched `generate_build_information` appends the catch-all
`ERROR_TOKEN` as the last terminal of the state; its token type occurs in no production, so a
token of that type makes every parse fail (parser-level part: LL/LR runs, built separately). What
has to hold here is that the catch-all really catches every character — `ErrorReTotal` over the
REGENERATED constant — otherwise the character silently becomes a gap token, which the parser
skips. The unchanged code violates this for `\n` (finding F4). -/
namespace ParolModel.C16
open ParolModel ParolModel.Generated

/-- The catch-all matches every single character of a text. -/
def ErrorReTotal : Prop := ∀ c, c ≤ maxCp → matchesRe errorTokenRe [c] = true

/-- F4: `ERROR_TOKEN = "."` does not match the line feed. -/
theorem errorRe_total_counterexample : ¬ ErrorReTotal := by
  intro h
  have := h 10 (by decide)
  revert this
  decide

/-- What does hold: every character except `\n` is matched by the catch-all (`.` excludes exactly
    U+000A in regex-syntax's default configuration; it does match `\r`). -/
theorem errorRe_total_partial (c : Nat) (hc : c ≤ maxCp) (hn : c ≠ 10) : matchesRe errorTokenRe [c] = true := by
  simp only [matchesRe, derivs, List.foldl, errorTokenRe, deriv, Cls.mem, List.any, maxCp] at *
  have : c ≤ 9 ∨ 11 ≤ c ∧ c ≤ 1114111 := by omega
  simp [this, nullable]

/-- The catch-all consumes exactly one character: an error token never hides more input. -/
theorem errorRe_one_char (c d : Nat) (w : List Nat) : matchesRe errorTokenRe (c :: d :: w) = false := by
  have h1 : ∀ w : List Nat, List.foldl deriv Re.empty w = Re.empty := by
    intro w; induction w with
    | nil => rfl
    | cons x xs ih => simpa [deriv] using ih
  simp only [matchesRe, derivs, List.foldl, errorTokenRe, deriv]
  split <;> simp [deriv, h1, nullable]

/-- "any input character that no terminal … matches": in a scanner state whose terminals include the
    catch-all (no allow-unmatched), every position that starts with a valid character other than `\n`
    yields a token — the scanner never skips it. -/
theorem mode_covers_every_char_partial (modes : List ScanMode) (st : ScanSt) (m : ScanMode)
    (hm : modes[st.mode]? = some m) (t : ScanTerm) (ht : t ∈ m.terms) (hre : t.re = errorTokenRe)
    (hla : t.la = none) (c : Nat) (rest : List Nat) (hc : c ≤ maxCp) (hn : c ≠ 10) :
    (stepMatch modes st (c :: rest)).isSome := by
  simp only [stepMatch, hm]
  apply bestOf_isSome_of_mem _ _ _ t ht
  exact matchLen_isSome_of_single t hla c rest (by rw [hre]; exact errorRe_total_partial c hc hn)

/-- With automatic newline handling on, the state also holds `NEW_LINE_TOKEN`, and then every valid
    character is covered. -/
theorem mode_with_newline_covers_every_char (modes : List ScanMode) (st : ScanSt) (m : ScanMode)
    (hm : modes[st.mode]? = some m) (t : ScanTerm) (ht : t ∈ m.terms) (hre : t.re = errorTokenRe)
    (hla : t.la = none) (u : ScanTerm) (hu : u ∈ m.terms) (hure : u.re = newLineTokenRe) (hula : u.la = none)
    (c : Nat) (rest : List Nat) (hc : c ≤ maxCp) :
    (stepMatch modes st (c :: rest)).isSome := by
  by_cases hn : c = 10
  · subst hn
    simp only [stepMatch, hm]
    apply bestOf_isSome_of_mem _ _ _ u hu
    exact matchLen_isSome_of_single u hula 10 rest (by rw [hure]; decide)
  · exact mode_covers_every_char_partial modes st m hm t ht hre hla c rest hc hn

/-- F4 at the level of a scanner state: with `%auto_newline_off` the state consists of user terminals
    and the catch-all only, and a line feed is matched by nothing — it is skipped. -/
theorem mode_covers_counterexample :
    stepMatch [{ terms := [⟨Re.chr 97, 5, none⟩, ⟨errorTokenRe, 7, none⟩], trans := [] }] ⟨0, []⟩ [10, 98] = none := by
  decide

/-- …and the skipped line feed reaches the parser as a gap token that is delivered as a skip token:
    `a\nb` is delivered as `a`, gap, `b`, EOI although unmatched input is not allowed. -/
theorem f4_gap_delivered :
    (tokenizeSpec [{ terms := [⟨Re.chr 97, 5, none⟩, ⟨Re.chr 98, 6, none⟩, ⟨errorTokenRe, 7, none⟩], trans := [] }] [97, 10, 98]).map
      (fun ts => deliveredRef (toLToks [] [97, 10, 98] ts) 3) =
    some [(⟨5, 0, 1, false⟩, false), (⟨invalidTy, 1, 2, false⟩, true), (⟨6, 2, 3, false⟩, false), (⟨0, 3, 3, false⟩, false)] := by
  decide

/-- "kept in the parse tree": `TokenBuffer::add` inserts a gap token exactly when the new token does
    not start where the previous one ended, the gap covers exactly the stretch in between, and it is
    a skip token (delivered by `take_skip_tokens`, hence added to the lossless tree). -/
theorem gap_iff_unmatched (b : TBuf) (t : LTok) :
    (b.add t).toks = (if b.lastEnd < t.start then b.toks ++ [⟨invalidTy, b.lastEnd, t.start, false⟩, t] else b.toks ++ [t]) ∧
    (b.add t).lastEnd = t.stop ∧ LTok.effSkip ⟨invalidTy, b.lastEnd, t.start, false⟩ = true := by
  refine ⟨?_, rfl, by simp [LTok.effSkip, isSkipTy]⟩
  simp only [TBuf.add]
  split <;> simp

example : matchesRe errorTokenRe [13] = true ∧ matchesRe errorTokenRe [0x10FFFF] = true ∧
    matchesRe errorTokenRe [10] = false := by decide

end ParolModel.C16
