import ParolModel.Proofs.LLSim
import ParolModel.Props.C02
import ParolModel.Model.LR
/-! # C17 — Skipped tokens never influence parsing; comments are delivered once, in order

Property text: *Whitespace, newlines and comments (when handled automatically) and tokens listed in
a scanner state's skip list never affect whether an input is accepted or how it is derived. Every
comment in an input is passed to the user's comment callback exactly once, in input order, and
every skipped token stays in the parse tree.*

Formalisation on the LL(k) parser model (`llRun`, tied to `LLKParser::parse_into` by the exact
differential run): a token is *skipped* when `is_effectively_skip_token` holds for it (built-in
skip types or the scanner state's `%skip` list — the flag `MTok.skip`). The LR(1) parser model
(`lrRun`) is tied to `LRParser::parse_into` by the same kind of differential run on inputs with
interleaved skipped tokens (including `%skip` lists) and the executable statement `treeCheck`; the
LR analogues of the theorems below are not proved yet (`LRSkipIrrelevant`). -/
namespace ParolModel

/-- **Skipped tokens never influence parsing (LL)**: the run on the significant tokens alone has
    the same result (accept / the same error at the same token / depth error …), the same sequence
    of semantic actions with the same argument tokens, and the same number of steps — for every
    table, option record and input, successful or not. -/
theorem ll_skip_irrelevant (T : LLTables) (o : Opts) (fuel : Nat) (toks : List MTok) :
    (llRun T o fuel (sigToks toks)).core.ra = (llRun T o fuel toks).core.ra := by
  rw [llRun_core, llRun_core]
  exact llCoreRun_skip_irrelevant T o.maxDepth fuel toks

/-- **Comments once, in order (LL)**: on success the comment callback received exactly the comment
    tokens among the skipped tokens of the input, in input order, each once. -/
theorem ll_comments_once_in_order (T : LLTables) (o : Opts) (fuel : Nat) (toks : List MTok)
    (hT : TablesSound T) (hwf : ∀ pr ∈ T.prods, ∀ x ∈ pr.rhsRev, PT.isE x = false)
    (h : (llRun T o fuel toks).res = .ok) :
    (llRun T o fuel toks).comments = commentIds (toks.filter (·.skip)) := by
  obtain ⟨p, pr, r, acts, tr, cm, items, _, _, _, hds, hr, _, _, hc⟩ := ll_tree_actions T o fuel toks hT hwf h
  obtain ⟨pre, hpre, _, hcm⟩ := DS_leaves T hds
  rw [hc, hcm, hpre]
  have hrf : r.filter (·.skip) = r := List.filter_eq_self.2 (fun t ht => hr t ht)
  simp [commentIds, List.filter_append, hrf]

/-- **Every skipped token stays in the parse tree (LL)**: on success, without trimming, the token
    leaves of the tree are exactly all tokens of the input — skipped ones included — in order. -/
theorem ll_all_tokens_in_tree (T : LLTables) (o : Opts) (fuel : Nat) (toks : List MTok)
    (hT : TablesSound T) (hwf : ∀ pr ∈ T.prods, ∀ x ∈ pr.rhsRev, PT.isE x = false)
    (htrim : o.trim = false) (h : (llRun T o fuel toks).res = .ok) :
    tokIds (llRun T o fuel toks).tree = toks.map (·.id) := by
  obtain ⟨p, pr, r, acts, tr, cm, items, _, _, _, hds, _, _, ht, _⟩ := ll_tree_actions T o fuel toks hT hwf h
  obtain ⟨pre, hpre, hids, _⟩ := DS_leaves T hds
  rw [ht, htrim, hpre]
  simp [hids]

/-- Full statement for the LR parser (NOT proved yet; covered by the differential tie and `treeCheck`). -/
def LRSkipIrrelevant : Prop :=
  ∀ (T : LRTables) (o : Opts) (fuel : Nat) (toks : List MTok),
    (lrRun T o fuel (sigToks toks)).res = (lrRun T o fuel toks).res ∧
    (lrRun T o fuel (sigToks toks)).actions = (lrRun T o fuel toks).actions

-- Non-vacuity: interleaving skipped tokens (whitespace, a comment) into `a b b c` for the tables of C01.
def exToksSkips : List MTok :=
  [⟨5, false, false, 0⟩, ⟨2, true, false, 1⟩, ⟨6, false, false, 2⟩, ⟨3, true, true, 3⟩, ⟨6, false, false, 4⟩,
   ⟨2, true, false, 5⟩, ⟨7, false, false, 6⟩, ⟨1, true, false, 7⟩]
example : (llRun exT ⟨false, false, none⟩ 100 exToksSkips).res = .ok := by decide
example : (llRun exT ⟨false, false, none⟩ 100 exToksSkips).comments = [3] := by decide
example : tokIds (llRun exT ⟨false, false, none⟩ 100 exToksSkips).tree = [0, 1, 2, 3, 4, 5, 6, 7] := by decide

end ParolModel
