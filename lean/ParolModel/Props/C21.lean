import ParolModel.Proofs.Tables
/-! # C21 — Generated parser source and export model encode the analysis faithfully

Property text: *For every accepted grammar, the tables in the generated parser source (lookahead
automata, productions, LR actions and gotos, terminal and non-terminal names, skip lists, scanner
modes) and the language-agnostic export model describe the same parser as the analysis results,
with all indices in range.*

Level: translation validation. The harness decodes, per grammar, three independent descriptions
(`ParserDesc`, Model/Tables.lean): from the analysis objects, from the JSON export model and from
the TEXT of the generated Rust parser. The executable comparer `descAgree` and the range checker
`descInRange` run in the model driver on every explored grammar. What is proved here, for ALL
descriptions:

* `tablesAgree_sound` — if the comparer finds no difference, the two descriptions denote THE SAME
  run-time tables (`toLL a = toLL b`, `toLR a = toLR b`); hence the parser models `llRun` / `lrRun`
  and the table checkers `tablesSoundB` / `tablesInRangeB` behave identically on them for every
  option set, fuel and token sequence (a congruence: the content is in the decoders, which are
  part of the tie).
* `descInRange_sound` — an LL description accepted by the range checker decodes to tables that
  satisfy `tablesInRangeB` (every index the LL run can touch is in range, automata are sorted) and
  `tablesSoundB` (the hypothesis of `ll_sound`, C01).
* `descInRange_lr` — an LR description accepted by the range checker decodes (no action index out
  of range).
-/
namespace ParolModel.Tbl

theorem prodAgree_ll {a b : DProd} (h : prodAgree .ll a b = true) : a = b := by
  simpa [prodAgree] using h

theorem prodAgree_lr {a b : DProd} (h : prodAgree .lr a b = true) : lrProd a = lrProd b := by
  simp only [prodAgree, Bool.and_eq_true, beq_iff_eq, Option.isNone_iff_eq_none] at h
  obtain ⟨⟨h1, h2⟩, h3⟩ := h
  have := forall2_length (listDiff_none_forall _ _ _ _ h3)
  simp [lrProd, h1, h2, this]

/-- Descriptions without a reported difference decode to the same LL tables. -/
theorem descAgree_toLL (a b : ParserDesc) (h : descAgree a b = none) : toLL a = toLL b := by
  simp only [descAgree, firstSome_none, List.mem_cons, List.not_mem_nil, or_false,
    forall_eq_or_imp, forall_eq, chk_none, decide_eq_true_eq, beq_iff_eq] at h
  obtain ⟨hk, hs, hp, ha, -⟩ := h
  unfold toLL
  rw [← hk]
  split
  · rename_i hll
    have hp' := listDiff_none_forall _ _ _ _ (diffMsg_none hp)
    rw [hll] at hp'
    have hprods : a.prods = b.prods := all2_eq (fun _ _ h => prodAgree_ll h) hp'
    have hautos : a.autos = b.autos := listDiff_none_eq _ _ _ (diffMsg_none ha)
    rw [hprods, hautos, hs]
  · rfl

/-- Descriptions without a reported difference decode to the same LR tables. -/
theorem descAgree_toLR (a b : ParserDesc) (h : descAgree a b = none) : toLR a = toLR b := by
  simp only [descAgree, firstSome_none, List.mem_cons, List.not_mem_nil, or_false,
    forall_eq_or_imp, forall_eq, chk_none, decide_eq_true_eq, beq_iff_eq] at h
  obtain ⟨hk, hs, hp, -, hr, -⟩ := h
  unfold toLR
  rw [← hk]
  split
  · rename_i hlr
    have hp' := listDiff_none_forall _ _ _ _ (diffMsg_none hp)
    rw [hlr] at hp'
    have hprods : a.prods.map lrProd = b.prods.map lrProd :=
      forall2_map_eq lrProd (fun _ _ h => prodAgree_lr h) hp'
    have hrows : resolvedRows a = resolvedRows b := listDiff_none_eq _ _ _ (diffMsg_none hr)
    rw [hprods, hrows, hs]
  · rfl

/-- **C21, congruence**: if the comparer reports no difference between two descriptions (source
    text vs export model vs analysis results), the LL(k) parser model, the LALR(1) parser model
    and the table checkers behave identically on the tables they denote — for every option set,
    fuel and token sequence. -/
theorem tablesAgree_sound (a b : ParserDesc) (h : descAgree a b = none) :
    (∀ Ta Tb, toLL a = some Ta → toLL b = some Tb →
      (∀ o fuel toks, llRun Ta o fuel toks = llRun Tb o fuel toks) ∧
      tablesSoundB Ta = tablesSoundB Tb ∧ tablesInRangeB Ta = tablesInRangeB Tb) ∧
    (∀ Ta Tb, toLR a = some Ta → toLR b = some Tb →
      ∀ o fuel toks, lrRun Ta o fuel toks = lrRun Tb o fuel toks) := by
  constructor
  · intro Ta Tb ha hb
    have : Ta = Tb := by
      have := descAgree_toLL a b h
      rw [ha, hb] at this
      exact Option.some.inj this
    subst this
    exact ⟨fun _ _ _ => rfl, rfl, rfl⟩
  · intro Ta Tb ha hb
    have : Ta = Tb := by
      have := descAgree_toLR a b h
      rw [ha, hb] at this
      exact Option.some.inj this
    subst this
    exact fun _ _ _ => rfl

/-- Agreement also transfers decodability: one side decodes iff the other does. -/
theorem tablesAgree_decodes (a b : ParserDesc) (h : descAgree a b = none) :
    ((toLL a).isSome = (toLL b).isSome) ∧ ((toLR a).isSome = (toLR b).isSome) := by
  rw [descAgree_toLL a b h, descAgree_toLR a b h]; exact ⟨rfl, rfl⟩

theorem tablesInRangeB_of_parts (T : LLTables) (h1 : llStartOk T = true) (h2 : llProdsOk T = true)
    (h3 : llDfasOk T = true) : tablesInRangeB T = true := by
  unfold tablesInRangeB
  unfold llStartOk at h1
  unfold llProdsOk at h2
  unfold llDfasOk at h3
  simp only [Bool.and_eq_true]
  exact ⟨⟨h1, h2⟩, h3⟩

/-- **C21, indices in range**: an LL description accepted by the range checker decodes to tables
    on which `tablesInRangeB` (start symbol, production symbols and predicted productions in range,
    automata sorted) and `tablesSoundB` (hypothesis of `ll_sound`) hold. -/
theorem descInRange_sound (d : ParserDesc) (h : descInRange d = none) (hk : d.kind = .ll) :
    ∃ T, toLL d = some T ∧ tablesInRangeB T = true ∧ tablesSoundB T = true := by
  unfold descInRange at h
  rw [firstSome_none] at h
  have hkc : ∀ x ∈ kindChecks d, x = none := fun x hx => h x (List.mem_append_right _ hx)
  unfold kindChecks at hkc
  rw [hk] at hkc
  simp only at hkc
  split at hkc
  · simp at hkc
  · rename_i T hT
    simp only [List.mem_cons, List.not_mem_nil, or_false, forall_eq_or_imp, forall_eq, chk_none] at hkc
    obtain ⟨-, -, h1, h2, h3, h4, -⟩ := hkc
    exact ⟨T, hT, tablesInRangeB_of_parts T h1 h2 h3, h4⟩

/-- An LR description accepted by the range checker decodes to LR tables. -/
theorem descInRange_lr (d : ParserDesc) (h : descInRange d = none) (hk : d.kind = .lr) :
    ∃ T, toLR d = some T := by
  unfold descInRange at h
  rw [firstSome_none] at h
  have hkc : ∀ x ∈ kindChecks d, x = none := fun x hx => h x (List.mem_append_right _ hx)
  unfold kindChecks at hkc
  rw [hk] at hkc
  simp only at hkc
  split at hkc
  · simp at hkc
  · rename_i T hT
    exact ⟨T, hT⟩

-- Non-vacuity. The three descriptions of `%start S %% S: 'a.b' "a.b";` as the harness decodes them
-- on the repaired tree agree and are in range; with the production table of finding F11
-- (`[T(5), T(5)]`) the comparer reports production 0.
def exWords (p : String) : List String :=
  ["ll", "0", p, "0/0/0/-", "-", "-", "EndOfInput,Newline,Whitespace,LineComment,BlockComment,AB,AB0,Error", "S",
   "-", "INITIAL|%5Cr%5Cn%7C%5Cr%7C%5Cn:1:-+%5B%5Cs%2D%2D%5Cr%5Cn%5D%2B:2:-+a%5C%2Eb:5:-+a%2Eb:6:-+%2E:7:-|-", "0"]

#guard ((parseDesc (exWords "0:0:t5,t6")).map descInRange) == some none
#guard (do let a ← parseDesc (exWords "0:0:t5,t6"); let b ← parseDesc (exWords "0:0:t5,t6"); some (descAgree a b)) == some none
#guard (do let a ← parseDesc (exWords "0:0:t5,t6"); let b ← parseDesc (exWords "0:0:t5,t5"); some (descAgree a b))
  == some (some "production[0]")
#guard ((parseDesc (exWords "0:0:t5,t9")).map descInRange) == some (some "production: symbol out of range")

end ParolModel.Tbl
