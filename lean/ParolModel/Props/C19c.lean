import ParolModel.Proofs.LLTerm
import ParolModel.Props.C19
/-! # C19 (continued) — the generated LL(k) parser always terminates

Property text: *For every accepted grammar and every input text, the generated LL(k) or LR parser
returns a success or an error value without panicking, overflowing indices, or **looping forever**
… .*

Props/C19.lean left `LLTerminates` (the model's loop `llLoop` takes fuel) unproved. Here it is
proved for the LL(k) parser model `llRun` of `LLKParser::parse_into`, for EVERY input (skip tokens
and comments included), every option record (trimming, depth limit) and ARBITRARY lookahead
automata, under two hypotheses that are decided by verified checkers on every real table set:

* `tablesSoundB T` — an automaton only predicts productions of its own non-terminal (Props/C01);
* `noLeftRecB T` — the production table has no left recursion, not even behind nullable prefixes
  (Model/LLTermCheck.lean: a computed certificate — a closed superset `N` of the nullable
  non-terminals and a weight per non-terminal that strictly dominates the weights of the nullable
  prefix plus the first non-nullable symbol of each of its right-hand sides — is verified).

parol rejects left-recursive grammars for LL(k) generation, so every real table set passes (checked
on each table of the C01/C19 runs through the `ll-term-ok` oracle handler; for the tables of parol's
own two PAR parsers by kernel evaluation in Props/C19d.lean).

The bound is explicit and LINEAR in the number of delivered tokens:
`llFuelBound T n = M·W·(n+1) + M + 2` with `W` the largest weight and `M` the largest total weight
of a right-hand side. The proof is a potential argument (Proofs/LLTerm.lean, `ltPhi`).

Error recovery is not part of the model (the model stops at the first syntax error, as the real
parser does with recovery disabled); its boundedness remains explored only. -/
namespace ParolModel

/-- **No looping forever (LL), explicit bound**: *"… returns a success or an error value without …
    looping forever"* — fuel `llFuelBound T |toks|` (linear in the number of delivered tokens) is
    never used up, for any input, options and lookahead automata. -/
theorem ll_terminates_bound (T : LLTables) (hS : tablesSoundB T = true) (h : noLeftRecB T = true)
    (o : Opts) (toks : List MTok) (fuel : Nat) (hf : llFuelBound T toks.length ≤ fuel) :
    (llRun T o fuel toks).res ≠ .fuel :=
  llRun_terminates_cert T o (tablesSoundB_sound T hS)
    (termCertB_sound T (ltWeights T) (ltNullable T) h) toks fuel hf

/-- **No looping forever (LL)**: the statement `LLTerminates` of Props/C19.lean. -/
theorem ll_terminates (T : LLTables) (hS : tablesSoundB T = true) (h : noLeftRecB T = true) :
    LLTerminates T :=
  fun o toks => ⟨llFuelBound T toks.length, ll_terminates_bound T hS h o toks _ (Nat.le_refl _)⟩

/-- The same for ANY certificate the caller supplies (the computed one is just one choice); the
    bound is then in terms of the supplied weights. -/
theorem ll_terminates_cert (T : LLTables) (w : List Nat) (N : List Bool)
    (hS : tablesSoundB T = true) (h : termCertB T w N = true)
    (o : Opts) (toks : List MTok) (fuel : Nat) (hf : llFuelBoundW T w toks.length ≤ fuel) :
    (llRun T o fuel toks).res ≠ .fuel :=
  llRun_terminates_cert T o (tablesSoundB_sound T hS) (termCertB_sound T w N h) toks fuel hf

/-- With both checkers passed the run ends with a proper verdict: neither `fuel` nor `internal`. -/
theorem ll_total (T : LLTables) (hS : tablesSoundB T = true) (hR : tablesInRangeB T = true)
    (h : noLeftRecB T = true) (o : Opts) (toks : List MTok) :
    ∃ fuel, (llRun T o fuel toks).res ≠ .fuel ∧ (llRun T o fuel toks).res ≠ .internal :=
  ⟨llFuelBound T toks.length, ll_terminates_bound T hS h o toks _ (Nat.le_refl _),
    ll_no_internal T o _ toks hR⟩

-- Non-vacuity: the tables parol generates for `S: "a" {"b"} ["c"];` (Props/C01) pass the checker;
-- certificate and bound are small.
example : noLeftRecB exT = true := by decide
example : ltNullable exT = [false, true, true] ∧ ltWeights exT = [3, 3, 3] := by decide
example : llFuelBound exT 4 = 114 := by decide
example : (llRun exT ⟨false, false, none⟩ (llFuelBound exT 4) (exToks [5, 6, 6, 7])).res = .ok := by
  decide

/-- Counterexample table: `A → A "a" | "a"` (left-recursive) with an automaton that always predicts
    the first production. The checker answers `false`, `tablesSoundB` and `tablesInRangeB` hold, and
    the run does not terminate. -/
def exTLeftRec : LLTables :=
  ⟨0, [⟨0, [.t 5, .n 0], false⟩, ⟨0, [.t 5], false⟩], [⟨0, [], 0⟩]⟩

example : noLeftRecB exTLeftRec = false := by decide
example : tablesSoundB exTLeftRec = true ∧ tablesInRangeB exTLeftRec = true := by decide
example : (llRun exTLeftRec ⟨false, false, none⟩ 50 (exToks [5, 5])).res = .fuel := by decide

/-- Left recursion hidden behind a nullable prefix (`A → B A "a" | "a"`, `B → ε`) is found too, while
    the same shape with a non-nullable `B → "b"` passes. -/
example : noLeftRecB ⟨0, [⟨0, [.t 5, .n 0, .n 1], false⟩, ⟨0, [.t 5], false⟩, ⟨1, [], false⟩],
    [⟨0, [], 0⟩, ⟨2, [], 0⟩]⟩ = false := by decide
example : noLeftRecB ⟨0, [⟨0, [.t 5, .n 0, .n 1], false⟩, ⟨0, [.t 5], false⟩, ⟨1, [.t 6], false⟩],
    [⟨0, [], 0⟩, ⟨2, [], 0⟩]⟩ = true := by decide

theorem exTLeftRec_predict (inp : List MTok) : predict exTLeftRec 0 inp = some (.ok 0) := by
  simp [predict, exTLeftRec, laTypes, eval, evalLoop, evalInit]

theorem exTLeftRec_loops (tr : Bool) (rc : Bool) : ∀ (fuel : Nat) (s : LLState) (steps : Nat)
    (st : List PT), s.stack = .n 0 :: st → (llLoop exTLeftRec ⟨tr, rc, none⟩ fuel s steps).res = .fuel := by
  intro fuel
  induction fuel with
  | zero => intro s steps st _; simp [llLoop, abort]
  | succ fuel ih =>
    intro s steps st hs
    unfold llLoop
    rw [hs]
    simp only [inputAccepted, Bool.false_eq_true, if_false, exTLeftRec_predict]
    have hpush : pushProduction exTLeftRec ⟨tr, rc, none⟩ { s with stack := st } (0 : Int).toNat =
        some ({ s with stack := [.n 0, .t 5] ++ (.e 0 :: st)
                       tree := if tr then s.tree else .open_ (some 0) :: s.tree
                       ptStack := .nt 0 :: s.ptStack
                       depth := s.depth + 1 }, none) := by
      simp [pushProduction, exTLeftRec]
    simp only [hpush]
    exact ih _ _ ([.t 5] ++ (.e 0 :: st)) rfl

/-- **The hypothesis is needed**: on the left-recursive table the model runs out of every fuel, so
    `LLTerminates` fails although `tablesSoundB` and `tablesInRangeB` hold. -/
theorem exTLeftRec_not_terminates : ¬ LLTerminates exTLeftRec := by
  intro h
  obtain ⟨fuel, hf⟩ := h ⟨false, false, none⟩ []
  apply hf
  unfold llRun
  have hp : predict exTLeftRec exTLeftRec.start [] = some (.ok 0) := exTLeftRec_predict []
  have hpush : pushProduction exTLeftRec ⟨false, false, none⟩ ⟨[], [], [], 0, [], [.open_ none], []⟩
      (0 : Int).toNat =
      some (⟨[.n 0, .t 5, .e 0], [], [.nt 0], 1, [], [.open_ (some 0), .open_ none], []⟩, none) := by
    simp [pushProduction, exTLeftRec]
  simp only [hp]
  simp only [hpush]
  exact exTLeftRec_loops false false fuel _ 0 [.t 5, .e 0] rfl

end ParolModel
