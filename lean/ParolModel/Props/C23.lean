import ParolModel.Model.Adapter
/-! # C23 (placeholder while the tie is being brought up) -/
namespace ParolModel.Ast
theorem c23_placeholder : True := trivial
end ParolModel.Ast
