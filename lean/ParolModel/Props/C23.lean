import ParolModel.Proofs.Adapter
import ParolModel.Proofs.AdapterLL
import ParolModel.Props.C02
/-! # C23 — The typed AST delivered to the user mirrors the input

Property text: *For every accepted grammar and every accepted input, the generated adapter calls the
start symbol's user action exactly once, and the tokens contained in the AST it passes, read in
order, are exactly the input's non-clipped significant tokens. Optional parts are present exactly
when they occurred and repetitions hold their items in input order.*

Formalisation (definitions in `Model/Adapter.lean`).
* `AGrammar`: the expanded grammar with the attributes canonicalisation attached (`PAttr`, `SAttr`),
  the grammar type, the non-terminals that have a user action and the user's start symbol.
* `run G trace stack`: the generated adapter as a stack machine, one rule per production derived
  from the attributes as the generators do (`popArgs` = token assignments + `pop_item!` /
  `pop_and_reverse_item!` / `self.pop`, `build` = result builder, push semantic, user-action call).
* `Forest` / `wf G syms f`: derivation forests of the expanded grammar (the data form of the relation
  `DS` of `Proofs/LLTree.lean`), `Forest.trace` their post-order action trace — what the parsers emit
  (`ll_tree_actions`; for LALR(1) the reductions of a bottom-up parse).
* `spec G syms f`: the *declarative* AST of a derivation — no stack, no reversal: an optional is
  `Some` iff its `OptionalSome` production was applied, a repetition lists its iterations in input
  order; `expToks G syms f`: the non-clipped tokens of the derivation in input order (a subsequence
  of all its tokens `Forest.allToks`, `expToks_sublist`; all of them if nothing is clipped,
  `expToks_noclip`).
* `attrsWF G` (decidable, evaluated for every explored grammar by the oracle `c23-check`): the
  attribute discipline canonicalisation establishes (that it does is not proved:
  `CanonEstablishesAttrsWF`, `canon_establishes_attrsWF_partial`); `startIsolated G` (decidable): the start symbol
  is on no right-hand side (possibly after LALR augmentation).

The theorems hold for LL(k) and LALR(1) adapters alike (`G.ll`); for LL(k) they are also stated for
successful runs of the parser model (`ll_ast_flatten_eq_tokens`). -/
namespace ParolModel.Ast

/-- **The adapter computes the declarative AST.** Running the adapter over the post-order action
    trace of a derivation of the start symbol, from the empty stack, succeeds, leaves exactly one
    item — the start symbol's, with the declarative value `v` of the derivation — and makes exactly
    the declarative user-action calls (one per application of a non-terminal that has a user
    action, in post-order, each with the declarative value of that application). -/
theorem adapter_eq_spec (G : AGrammar) (f : Forest) (h : attrsWF G = true)
    (hw : wf G [⟨.n G.start, .none⟩] f = true) :
    ∃ v, run G f.trace [] = some ([(G.start, v)], specCalls G f) ∧
      spec G [⟨.n G.start, .none⟩] f = [v] := by
  have hrun := run_trace h f _ [] hw
  rcases wf_cons_inv G _ _ f hw with ⟨id, ty, r, rfl, hs, _⟩ | ⟨p, l, ch, r, pr, rfl, hs, hp, hl, hch, hr⟩
  · simp at hs
  · have hrn := wf_nil_syms G r hr
    subst hrn
    simp only [Sym.n.injEq] at hs
    subst hs
    have hnone : pr.attr = .none := attrsWF_start h hp hl
    refine ⟨specNode G p pr (spec G pr.rhs ch), ?_, ?_⟩
    · rw [hrun]
      simp [nodeStack, raw, hp, hnone, PAttr.isColl]
    · simp [spec, hp]

/-- *"the tokens contained in the AST it passes, read in order, are exactly the input's non-clipped
    significant tokens"*: the single AST the adapter leaves for the start symbol flattens to the
    non-clipped tokens of the derivation, in input order. -/
theorem ast_flatten_eq_tokens (G : AGrammar) (f : Forest) (h : attrsWF G = true)
    (hw : wf G [⟨.n G.start, .none⟩] f = true) :
    ∃ v calls, run G f.trace [] = some ([(G.start, v)], calls) ∧
      v.flatten = expToks G [⟨.n G.start, .none⟩] f := by
  obtain ⟨v, hrun, hspec⟩ := adapter_eq_spec G f h hw
  refine ⟨v, _, hrun, ?_⟩
  have := flatten_spec h f _ hw
  rw [hspec] at this
  simpa using this

/-- The non-clipped tokens are a subsequence of all tokens of the derivation, and all of them when
    the grammar clips nothing. -/
theorem exp_tokens_among_all (G : AGrammar) (f : Forest) (hw : wf G [⟨.n G.start, .none⟩] f = true) :
    (expToks G [⟨.n G.start, .none⟩] f).Sublist f.allToks ∧
    ((∀ pr ∈ G.prods, ∀ s ∈ pr.rhs, s.attr ≠ .clipped) → expToks G [⟨.n G.start, .none⟩] f = f.allToks) :=
  ⟨expToks_sublist G f _ hw, fun hn => expToks_noclip hn f _ hw (by simp)⟩

/-- *"calls the start symbol's user action exactly once, and the tokens contained in the AST it
    passes …"* — for grammars whose start symbol is isolated (`startIsolated`: on no right-hand side;
    this is the partial form, see `start_action_once_counterexample`): among the calls the adapter
    makes exactly one is the start symbol's, and its argument flattens to the non-clipped tokens of
    the input in order. -/
theorem start_action_once (G : AGrammar) (f : Forest) (h : attrsWF G = true) (hs : startIsolated G = true)
    (hw : wf G [⟨.n G.start, .none⟩] f = true) :
    ∃ st calls c, run G f.trace [] = some (st, calls) ∧
      calls.filter (fun c => c.nt == G.userStart) = [c] ∧
      c.arg.flatten = expToks G [⟨.n G.start, .none⟩] f := by
  obtain ⟨v, hrun, hspec⟩ := adapter_eq_spec G f h hw
  have hfl := flatten_spec h f _ hw
  have hu : G.userStart ∈ G.userNts := by
    simp only [startIsolated, Bool.and_eq_true] at hs
    simpa using hs.1.1
  obtain ⟨p, ch, pr, rfl, hp, hl, hch, hcase⟩ := start_shape hs f hw
  have hnone : pr.attr = .none := attrsWF_start h hp hl
  rcases hcase with ⟨hus, ho⟩ | ⟨hus, hrhs, q, chq, prq, rfl, hq, hlq, hchq, ho⟩
  · -- the start symbol itself has the user action: the last call
    refine ⟨_, _, ⟨G.start, specNode G p pr (spec G pr.rhs ch)⟩, hrun, ?_, ?_⟩
    · rw [specCalls_node G hp hl, hus]
      have hu' : G.start ∈ G.userNts := by rw [← hus]; exact hu
      simp [List.filter_append, filter_calls_nil h hu' hch ho, nodeCalls, hnone, hl, hu', specCalls]
    · simp only [spec, hp] at hfl
      simpa using hfl
  · -- augmented grammar: the call of `S` below `S' → S`
    have hqn : prq.attr = .none := attr_none_of_user h hq (by rw [hlq]; exact hu)
    refine ⟨_, _, ⟨G.userStart, specNode G q prq (spec G prq.rhs chq)⟩, hrun, ?_, ?_⟩
    · rw [specCalls_node G hp hl, specCalls_node G hq hlq]
      simp [List.filter_append, filter_calls_nil h hu hchq ho, nodeCalls, hnone, hqn, hl, hlq, hu, specCalls]
      intro _ e
      exact hus e.symm
    · have hok := (spec_shape h _ _ hw).1 pr hp
      have h1 : spec G [⟨.n G.start, .none⟩] (.node p G.start (.node q G.userStart chq .nil) .nil) =
          [specNode G p pr (spec G pr.rhs (.node q G.userStart chq .nil))] := by simp [spec, hp]
      rw [h1] at hfl
      simp only [flattenL_cons, flattenL_nil, List.append_nil] at hfl
      rw [specNode_flatten hok] at hfl
      have h2 : spec G pr.rhs (.node q G.userStart chq .nil) = [specNode G q prq (spec G prq.rhs chq)] := by
        rw [hrhs]; simp [spec, hq]
      rw [h2] at hfl
      simpa using hfl

/-- `start_action_once` under the framework's naming convention for partial statements (the full
    statement `StartActionOnceAll` is false, see `start_action_once_counterexample`). -/
theorem start_action_once_partial (G : AGrammar) (f : Forest) (h : attrsWF G = true)
    (hs : startIsolated G = true) (hw : wf G [⟨.n G.start, .none⟩] f = true) :
    ∃ st calls c, run G f.trace [] = some (st, calls) ∧
      calls.filter (fun c => c.nt == G.userStart) = [c] ∧
      c.arg.flatten = expToks G [⟨.n G.start, .none⟩] f :=
  start_action_once G f h hs hw

/-- The unrestricted reading of *"calls the start symbol's user action exactly once"*. -/
def StartActionOnceAll : Prop :=
  ∀ (G : AGrammar) (f : Forest), attrsWF G = true → G.userStart ∈ G.userNts →
    wf G [⟨.n G.start, .none⟩] f = true →
    ∀ st calls, run G f.trace [] = some (st, calls) →
      (calls.filter (fun c => c.nt == G.userStart)).length = 1

/-- `%start S  %%  S: "a" [ S ];` expanded: `S → "a" SOpt`, `SOpt → S` (Some), `SOpt → ε` (None). -/
def recG : AGrammar :=
  ⟨true, 0, 0, [0],
    [⟨0, [⟨.t 5, .none⟩, ⟨.n 1, .option⟩], .none⟩, ⟨1, [⟨.n 0, .none⟩], .optSome⟩, ⟨1, [], .optNone⟩]⟩

/-- the derivation of `a a` (token ids = byte offsets 0 and 2) -/
def recF : Forest :=
  .node 0 0 (.tok 0 5 (.node 1 1 (.node 0 0 (.tok 2 5 (.node 2 1 .nil .nil)) .nil) .nil)) .nil

def startCalls (G : AGrammar) (tr : List Act) : Nat :=
  match run G tr [] with
  | some (_, calls) => (calls.filter (fun c => c.nt == G.userStart)).length
  | none => 0

/-- **Finding F28**: with a recursive start symbol the start action is called once per
    application of the start symbol — twice on `a a` for `S: "a" [ S ];` (the real adapter does the
    same, see `checks/c23.py`). The unrestricted statement is false. -/
theorem start_action_once_counterexample : ¬ StartActionOnceAll := by
  intro hall
  have hw : wf recG [⟨.n recG.start, .none⟩] recF = true := by decide
  have ha : attrsWF recG = true := by decide
  have h2 : startCalls recG recF.trace = 2 := by decide
  unfold startCalls at h2
  cases hr : run recG recF.trace [] with
  | none => simp [hr] at h2
  | some r =>
    obtain ⟨st, calls⟩ := r
    simp only [hr] at h2
    have := hall recG recF ha (by decide) hw st calls hr
    omega

/-- The general fact behind it: a non-terminal with a user action gets exactly one call per
    application (`occ`), whatever the grammar. -/
theorem action_calls_eq_applications (G : AGrammar) (f : Forest) (h : attrsWF G = true) (a : Nat)
    (ha : a ∈ G.userNts) (hw : wf G [⟨.n G.start, .none⟩] f = true) :
    ∃ st calls, run G f.trace [] = some (st, calls) ∧
      (calls.filter (fun c => c.nt == a)).length = occ a f := by
  obtain ⟨v, hrun, _⟩ := adapter_eq_spec G f h hw
  exact ⟨_, _, hrun, calls_count h ha f _ hw⟩

/-- *"Optional parts are present exactly when they occurred"*: in the declarative AST — which by
    `adapter_eq_spec` is the AST the adapter delivers, at every depth, `spec` being compositional —
    the member of a symbol with attribute `Option` whose derivation applies production `q` is
    `Some(struct of the members of q)` iff `q` is the `OptionalSome` production, and `None` iff `q`
    is the `OptionalNone` production (whose derivation is empty); `q` is one of the two. -/
theorem option_iff_occurred (G : AGrammar) (h : attrsWF G = true) {s : ASym} {ss : List ASym} {q l : Nat}
    {ch r : Forest} {prq : AProd} (hw : wf G (s :: ss) (.node q l ch r) = true)
    (hpl : plainOK G s = true) (hopt : s.attr = .option) (hq : G.prods[q]? = some prq) :
    (prq.attr = .optSome ∨ prq.attr = .optNone) ∧
    (prq.attr = .optSome ↔
      (spec G (s :: ss) (.node q l ch r)).head? = some (.opt (some (.struct (spec G prq.rhs ch))))) ∧
    (prq.attr = .optNone ↔ (spec G (s :: ss) (.node q l ch r)).head? = some (.opt none)) ∧
    (prq.attr = .optNone → ch = .nil) := by
  rcases spec_option h hw hpl hopt hq with ⟨ha, hv⟩ | ⟨ha, hnil, hv⟩
  · refine ⟨Or.inl ha, ⟨fun _ => by rw [hv]; rfl, fun _ => ha⟩, ⟨fun e => ?_, fun e => ?_⟩, fun e => ?_⟩
    · rw [ha] at e; cases e
    · rw [hv] at e; simp at e
    · rw [ha] at e; cases e
  · refine ⟨Or.inr ha, ⟨fun e => ?_, fun e => ?_⟩, ⟨fun _ => by rw [hv]; rfl, fun _ => ha⟩, fun _ => hnil⟩
    · rw [ha] at e; cases e
    · rw [hv] at e; simp at e

/-- *"repetitions hold their items in input order"*: the member of a symbol with attribute
    `RepetitionAnchor` is the vector of the structs of its iterations' bodies **in input order**
    (`Iterations`: for LL the chain `R' → body R'`, built back to front by the adapter and reversed
    once by `pop_and_reverse_item!`; for LALR `R' → R' body`, built front to back). By
    `adapter_eq_spec` this is the vector the adapter delivers. -/
theorem repeat_in_order (G : AGrammar) (h : attrsWF G = true) {s : ASym} {ss : List ASym} {q l : Nat}
    {ch r : Forest} (hw : wf G (s :: ss) (.node q l ch r) = true)
    (hpl : plainOK G s = true) (hrep : s.attr = .repAnchor) :
    ∃ its, Iterations G l (.node q l ch .nil) its ∧
      spec G (s :: ss) (.node q l ch r) = .vec (its.map Ast.struct) :: spec G ss r := by
  have hall := iterations_all h _ _ hw
  obtain ⟨s', ss', pr, heq, hs, hp, hl, hch, hr⟩ := wf_node_inv hw
  injection heq with e1 e2
  subst e1; subst e2
  obtain ⟨hcoll, _⟩ := plain_nt hpl hs
  have hc : pr.attr.isColl = true := coll_of_isCollNt h hp (by rw [hl]; exact hcoll.2 hrep)
  obtain ⟨its, hit, hval⟩ := hall.1 pr hp hc
  exact ⟨its, hit, by simp [spec, hrep, hp, hval]⟩

/-- The member values the adapter function of a production obtains (after `pop_item!` /
    `pop_and_reverse_item!`) are the declarative ones: an LL collection is in input order from its
    anchor on. -/
theorem members_in_order (G : AGrammar) (h : attrsWF G = true) (f : Forest) (syms : List ASym)
    (hw : wf G syms f = true) (hpl : ∀ s ∈ syms, plainOK G s = true) (st : Stack) :
    popArgs G.ll (syms.zip f.items).reverse (nodeStack G f ++ st) [] = some (spec G syms f, st) := by
  have hanch : anchorsOK G syms := fun s hs ha => plain_anchor (hpl s hs) ha
  rw [popArgs_nodeStack G f syms st [] hw (popOK_of h f syms hw hanch), mvals_eq_spec h f syms hw hpl]
  simp

/-- **LL(k)**: for every successful run of the LL(k) parser model on tables that describe the
    productions of `G` (`compat`), the adapter run over the emitted action trace leaves exactly one
    AST for the start symbol; it is the declarative AST of a derivation `f` whose leaves are exactly
    the significant tokens of the input, its calls are the declarative ones, and its flattening is
    the list of non-clipped significant tokens in input order. -/
theorem ll_ast_flatten_eq_tokens (T : LLTables) (G : AGrammar) (o : Opts) (fuel : Nat) (toks : List MTok)
    (hT : TablesSound T) (hm : noMarkersB T = true) (hc : compat T G = true) (hst : T.start = G.start)
    (ha : attrsWF G = true) (h : (llRun T o fuel toks).res = .ok) :
    ∃ f v, wf G [⟨.n G.start, .none⟩] f = true ∧
      f.allToks = (sigToks toks).map (·.id) ∧
      run G (llRun T o fuel toks).actions [] = some ([(G.start, v)], specCalls G f) ∧
      spec G [⟨.n G.start, .none⟩] f = [v] ∧
      v.flatten = expToks G [⟨.n G.start, .none⟩] f := by
  obtain ⟨p, pr, r, acts, tr, cm, items, _, hpr, hlhs, hds, hskip, hacts, _, _⟩ :=
    ll_tree_actions T o fuel toks hT (noMarkersB_sound T hm) h
  obtain ⟨apr, hapr, hal, har⟩ := compat_get hc hpr
  obtain ⟨f1, hw1, htr1, hit1, htk1⟩ := ds_forest hT hc hds apr.rhs har
  have hw : wf G [⟨.n G.start, .none⟩] (.node p G.start f1 .nil) = true := by
    simp [wf, hapr, hal, hlhs, hst, hw1]
  have hr0 : sigToks r = [] := by
    simp only [sigToks, List.filter_eq_nil_iff]
    intro t ht; simp [hskip t ht]
  obtain ⟨v, hrun, hspec⟩ := adapter_eq_spec G _ ha hw
  refine ⟨.node p G.start f1 .nil, v, hw, ?_, ?_, hspec, ?_⟩
  · simp [Forest.allToks, htk1, hr0]
  · rw [hacts, ← htr1, ← hit1]
    simpa [Forest.trace] using hrun
  · have := flatten_spec ha _ _ hw
    rw [hspec] at this
    simpa using this

/-! ## Where the attribute discipline comes from

`attrsWF` is what the canonicalisation steps of `transformation/canonicalization.rs` establish
(`extract_options`: `Option` symbol + `OptionalSome`/`OptionalNone` pair; `eliminate_single_rep`:
`RepetitionAnchor` symbol + `AddToCollection`/`CollectionStart` pair, recursive occurrence last for
LL(k) and first for LALR(1)) and what left factoring and LALR augmentation keep. That is **not
proved** here; the oracle `c23-check` evaluates `attrsWF` on the expanded grammar of the REAL
pipeline for every explored grammar. The statement for the canonicalisation model of C09: -/

/-- Full statement (open): on grammars as written (no attributes but `^` on non-terminals) whose
    start symbol is defined, the canonicalisation model `canon` produces a grammar that satisfies
    the attribute discipline, for both grammar types. -/
def CanonEstablishesAttrsWF : Prop :=
  ∀ (ty : GType) (fuel : Nat) (E : List EProd) (B : List RuleN) (st : Name),
    canon ty fuel E = .ok B → asWritten E = true → st ∈ E.map (·.lhs) →
    attrsWF (ofRules (ty == .ll) st (E.map (·.lhs)) B) = true

/-- `S: "5" { "6" [ N^ ] } ( "7" | N ); N: "8";` -/
def canonExE : List EProd :=
  [⟨"S".toList, [⟨[.t 5, .rep [[.t 6, .opt [[.n "N".toList .clipped]]]],
      .group [[.t 7], [.n "N".toList .none]]], .none⟩]⟩,
   ⟨"N".toList, [⟨[.t 8], .none⟩]⟩]

/-- The proved part: the instance of `CanonEstablishesAttrsWF` for `canonExE`, LL(k) and LALR(1). -/
theorem canon_establishes_attrsWF_partial (ty : GType) :
    ∃ B, canon ty 100 canonExE = .ok B ∧ asWritten canonExE = true ∧
      attrsWF (ofRules (ty == .ll) "S".toList (canonExE.map (·.lhs)) B) = true := by
  cases ty
  · exact ⟨_, rfl, by decide, by decide⟩
  · exact ⟨_, rfl, by decide, by decide⟩

/-! ## Non-vacuity: `S: A^ "a" { "b" [ "c"^ ] B } [ "d" ]; A: "x"; B: "y" | "z" A;` (the expanded
grammar and the trace are those of the real pipeline, see `harness/src/c23.rs`), input
`x a b c y b z x d`, token ids = byte offsets. -/

def exG (ll : Bool) : AGrammar :=
  ⟨ll, 2, 2, [2, 0, 1],
    [⟨2, [⟨.n 0, .clipped⟩, ⟨.t 5, .none⟩, ⟨.n 3, .repAnchor⟩, ⟨.n 5, .option⟩], .none⟩,
     (if ll then ⟨3, [⟨.t 6, .none⟩, ⟨.n 4, .option⟩, ⟨.n 1, .none⟩, ⟨.n 3, .none⟩], .addToColl⟩
      else ⟨3, [⟨.n 3, .none⟩, ⟨.t 6, .none⟩, ⟨.n 4, .option⟩, ⟨.n 1, .none⟩], .addToColl⟩),
     ⟨3, [], .collStart⟩, ⟨5, [⟨.t 7, .none⟩], .optSome⟩, ⟨5, [], .optNone⟩,
     ⟨4, [⟨.t 8, .clipped⟩], .optSome⟩, ⟨4, [], .optNone⟩,
     ⟨0, [⟨.t 9, .none⟩], .none⟩, ⟨1, [⟨.t 10, .none⟩], .none⟩, ⟨1, [⟨.t 11, .none⟩, ⟨.n 0, .none⟩], .none⟩]⟩

/-- LL derivation of `x a b c y b z x d` -/
def exF : Forest :=
  .node 0 2
    (.node 7 0 (.tok 0 9 .nil) <| .tok 2 5 <|
     .node 1 3
       (.tok 4 6 <| .node 5 4 (.tok 6 8 .nil) <| .node 8 1 (.tok 8 10 .nil) <|
        .node 1 3
          (.tok 10 6 <| .node 6 4 .nil <| .node 9 1 (.tok 12 11 <| .node 7 0 (.tok 14 9 .nil) .nil) <|
           .node 2 3 .nil .nil) .nil) <|
     .node 3 5 (.tok 16 7 .nil) .nil) .nil

/-- the same sentence derived with the LALR(1) form `SList → SList "b" SOpt B` -/
def exFlr : Forest :=
  .node 0 2
    (.node 7 0 (.tok 0 9 .nil) <| .tok 2 5 <|
     .node 1 3
       (.node 1 3
          (.node 2 3 .nil <| .tok 4 6 <| .node 5 4 (.tok 6 8 .nil) <| .node 8 1 (.tok 8 10 .nil) .nil) <|
        .tok 10 6 <| .node 6 4 .nil <| .node 9 1 (.tok 12 11 <| .node 7 0 (.tok 14 9 .nil) .nil) .nil) <|
     .node 3 5 (.tok 16 7 .nil) .nil) .nil

example : attrsWF (exG true) = true ∧ attrsWF (exG false) = true := by decide
example : startIsolated (exG true) = true ∧ startIsolated (exG false) = true := by decide
example : wf (exG true) [⟨.n 2, .none⟩] exF = true ∧ wf (exG false) [⟨.n 2, .none⟩] exFlr = true := by decide
example : exF.allToks = [0, 2, 4, 6, 8, 10, 12, 14, 16] := by decide
/-- `x` (below the clipped `A^`) and the clipped `"c"^` are left out. -/
example : expToks (exG true) [⟨.n 2, .none⟩] exF = [2, 4, 8, 10, 12, 14, 16] := by decide
example : (match run (exG true) exF.trace [] with
    | some ([(2, v)], calls) => (showAst v, v.flatten, calls.length)
    | _ => ("", [], 0)) =
    ("{t2,[{t4,S({}),v8{t8}},{t10,N,v9{t12,{t14}}}],S({t16})}", [2, 4, 8, 10, 12, 14, 16], 5) := by decide
/-- LL (items pushed back to front, reversed at the anchor) and LALR (pushed front to back)
    deliver the same AST. -/
example : (match run (exG false) exFlr.trace [] with
    | some ([(2, v)], _) => showAst v
    | _ => "") = "{t2,[{t4,S({}),v8{t8}},{t10,N,v9{t12,{t14}}}],S({t16})}" := by decide
example : recF.trace = [(2, []), (0, [.tok 2 5, .nt 1]), (1, [.nt 0]), (0, [.tok 0 5, .nt 1])] := by decide
example : startIsolated recG = false := by decide

end ParolModel.Ast
