import ParolModel.Model.LsProtoFixed
/-! # C29 — the window between `analyze` and the handler's publish is void in the repaired machine

The harness (`harness/src/ls/c29.rs`) cannot run the task of an edit inside that edit's own window
on the repaired server (the thread is spawned after the handler's publish); it runs the task
directly after the handler has returned, and it runs the older tasks of a window before it. The
theorems below say that for the machine with both repairs these reorderings do not change what is
published, so the exact comparison of the published sequences stays meaningful:

* `repaired_window_void` — a task completion and the handler's publish commute (same final state);
* `repaired_stale_silent` — a task whose version is not the current one publishes nothing, so the
  older tasks of a window can be run in any position relative to the edit's own task. -/
namespace ParolModel
open Ls29

set_option linter.unusedSimpArgs false in
/-- "a result must not be wiped by an earlier-computed empty list": with both repairs the handler's
    publish step (`mainPublish`) and a task completion commute — finishing inside the window and
    finishing directly after the handler's publish lead to the same state, in particular to the
    same published sequence. (For the machine without the F38 repair this is false, see
    `early_publish_counterexample` in `Props/C29.lean`.) -/
theorem repaired_window_void {Text : Type} (sem : Sem Text) (st : St Text) (i : Nat) :
    (step repaired sem st (.bgFinish i)).bind (fun s => step repaired sem s .mainPublish) =
    (step repaired sem st .mainPublish).bind (fun s => step repaired sem s (.bgFinish i)) := by
  cases hp : st.pending with
  | none =>
    simp only [step, hp, Option.bind_none]
    split
    · rfl
    · split <;> simp [step, hp]
  | some p =>
    simp only [step, hp, repaired, Option.bind_some]
    split
    · rfl
    · split <;> simp [step, hp, stale]

/-- "a stale background analysis of an older version must never overwrite them": in the machine
    with both repairs a finishing task whose version is not the current version of the document
    leaves the published sequence unchanged. -/
theorem repaired_stale_silent {Text : Type} (sem : Sem Text) (st st' : St Text) (i : Nat)
    (tk : Ls29.Task Text) (v : Nat) (t : Text) (hc : st.cur = some (v, t))
    (ht : st.tasks[i]? = some tk) (hv : tk.version ≠ v)
    (hs : step repaired sem st (.bgFinish i) = some st') :
    st'.out = st.out := by
  have hst : stale st tk = true := by
    simp only [stale, hc]
    simpa using fun h => hv h.symm
  simp only [step, repaired] at hs
  split at hs
  · cases hs
  · simp only [ht] at hs
    simp [hst] at hs
    subst hs
    rfl

/-- non-vacuity: a window with the edit's own task, which publishes in either position -/
example :
    (run repaired (⟨fun _ => false, fun t => t == 1⟩ : Sem Nat)
      [.open 1 1, .bgFinish 0, .mainPublish] St.init).map (·.out) =
    some [⟨1, .async 1⟩, ⟨1, .ok⟩] ∧
    (run repaired (⟨fun _ => false, fun t => t == 1⟩ : Sem Nat)
      [.open 1 1, .mainPublish, .bgFinish 0] St.init).map (·.out) =
    some [⟨1, .async 1⟩, ⟨1, .ok⟩] := by
  decide

end ParolModel
