import ParolModel.Proofs.FrontToBackLf
import ParolModel.Props.C01c
import ParolModel.Props.C09
import ParolModel.Props.C10
import ParolModel.Props.C24
/-! # C01 (fourth part) — front to back: the grammar AS WRITTEN and the generated parser

Property text (C01): *For every grammar parol accepts for LL(k) generation and every input token
sequence, the generated parser reports success if and only if the sequence is a sentence of the
grammar.*

`Props/C01c.lean` proves this for the generator + runtime relative to the plain, already transformed
BNF grammar in parol's numbering. C09 (canonicalisation), C10 (left factoring) and C11 (grammar
checks) prove the transformations in front of it separately, on grammars with *names*. This module
closes the chain: ONE executable function `parolLL E st K fuel` (`Model/FrontToBack.lean`) composes
the existing models in the order parol composes the real functions
(`obtain_grammar_config` → `check_and_transform_grammar` → `update_cfg` → `calculate_lookahead_dfas`
→ `generate_parser_export_model`), the only new code being parol's numbering of a named grammar
(`numberG`: non-terminals by position in the sorted set of names, terminals from 5 in order of first
occurrence), and the theorem below says that the parser tables it returns, run by the model of
`LLKParser::parse_into`, accept exactly the sentences of the EBNF grammar `E` **as the user wrote
it** — groups, optionals and repetitions included (`LangE`, `YieldE` of Model/Ebnf.lean) — in the
parser's terminal numbering. Tie D `c01d`: byte-identical tables (or the same error with the same
non-terminal names) from the real pipeline on random EBNF grammars.

Hypotheses of `parol_ll_end_to_end`:

* `parolLL E st K fuel = .ok T` — the model pipeline succeeded. This contains everything parol
  itself establishes: the front end did not refuse the grammar (in particular the start symbol has
  a production, which gives `st ∈ variableNames E`, the hypothesis of C09/C10 — finding F23),
  canonicalisation finished, the three grammar checks passed on the canonicalised grammar, left
  factoring finished, the lookahead calculation succeeded within `K`.
* `o.maxDepth = none` for the completeness direction, as in C01b/C01c (with a depth limit the
  parser refuses deep sentences by design; soundness needs no option hypothesis:
  `parol_ll_sound`).

Nothing else. In particular parol checks the grammar (productive, reachable, no left recursion)
*before* left factoring and not again, while the LL(k) analysis (C05/C06/C07, `PipelineHyp` of
C01c) needs these properties of the LEFT-FACTORED grammar: `left_factor_keeps_class` proves that
left factoring preserves them (a suffix non-terminal `A'` is productive and reachable because the
alternatives it was cut from were; a rank function of the left-corner relation is extended to `A'`),
so the link is a theorem, not a hypothesis. No hypothesis on `K`, on the fuel (the theorems are
about successful runs), on names (helper-name freshness is C09/C10's business and is used through
their theorems), or on the terminal numbering (`lang_numberG` needs no injectivity;
`parol_ll_numbering_injective` proves it anyway). The drain order of `group_by`'s hash map in left
factoring is the identity in `parolLL`; by `leftFactor_group_order_indep` (C24) every other order
gives the same result. (`finalCheckB`, the executable re-check of the left-factored grammar, is kept
in the tie's oracle as a redundant sanity check.) -/
namespace ParolModel
open KS

/-- `u` is a sentence of the EBNF grammar `E` (start symbol `st`) as written, in the terminal
    numbering of the parser generated for it. -/
def ParolSentence (E : List EProd) (st : Name) (fuel : Nat) (u : List Nat) : Prop :=
  ∃ w, LangE E st w ∧ u = w.map (parolTermNum E st fuel)

/-- **The numbering glue**: for a plain grammar with names `B`, parol's numbering `numberG B st`
    generates exactly the images of `B`'s sentences under the terminal numbering
    `idx a = 5 + position of a among B's terminals`: `Lang (number B) (w.map idx) ↔ Lang B w`, for
    every `w` — `Lang B` taken through the (injective) numbering of the names alone. -/
theorem number_preserves_lang (B : List RuleN) (st : Name) (w : List Nat) :
    Lang (numberG B st) (w.map (termNum (termOrder B))) ↔
      LangE (B.map RuleN.toEProd) st w :=
  (lang_numberG_map B st w).trans
    (lang_toGrammar _ st B (ntNames B st) (indexIn_injOn _)
      (fun _ hx => mem_ntNames.2 (.inr hx)) (mem_ntNames.2 (.inl rfl)) w)

/-- … and the numbered grammar satisfies the two numbering conventions of C01c's `PipelineHyp`
    outright: no terminal is numbered 0, the non-terminal numbers are `0..n-1`. -/
theorem number_conventions (B : List RuleN) (st : Name) :
    noEoiB (numberG B st) = true ∧ ntsDenseB (numberG B st) = true :=
  ⟨noEoiB_numberG B st, ntsDenseB_numberG B st⟩

/-- What a successful run of `parolLL` went through (the stages of the real pipeline). -/
theorem parol_ll_stages {E : List EProd} {st : Name} {K fuel : Nat} {T : LLTables}
    (h : parolLL E st K fuel = .ok T) :
    ∃ B0 B1 T0, frontEndRejects E = false ∧ st ∈ variableNames E ∧
      canon .ll fuel E = .ok B0 ∧
      checkGrammar (numberG B0 st) true [] = .ok .passed ∧
      leftFactor id fuel B0 = some B1 ∧
      parolLLGrammar E st fuel = .ok B1 ∧
      genTables (numberG B1 st) K fuel = .ok T0 ∧ T = withPush T0 B1 := by
  obtain ⟨B0, B1, T0, h0, h1, hg, ht, hT⟩ := parolLL_inv h
  obtain ⟨hc, hst, hrej⟩ := fbFront_inv h0
  obtain ⟨hchk, hlf⟩ := fbTransform_inv h1
  exact ⟨B0, B1, T0, hrej, hst, hc, hchk, hlf, hg, ht, hT⟩

/-- **The transformed grammar generates the language of the grammar as written** (C09 ∘ C10 ∘
    numbering): the left-factored plain grammar in parol's numbering — the grammar the lookahead
    calculation and the table generator see — generates exactly the images of `E`'s sentences. -/
theorem parol_ll_grammar_lang {E : List EProd} {st : Name} {fuel : Nat} {B1 : List RuleN}
    (h : parolLLGrammar E st fuel = .ok B1) (u : List Nat) :
    Lang (numberG B1 st) u ↔ ParolSentence E st fuel u := by
  unfold parolLLGrammar at h
  split at h
  · cases h
  · rename_i B0 h0
    obtain ⟨hc, hst, _⟩ := fbFront_inv h0
    obtain ⟨_, hlf⟩ := fbTransform_inv h
    have hτ : parolTermNum E st fuel = termNum (termOrder B1) := by
      funext a
      simp [parolTermNum, parolLLGrammar, h0, h]
    have hst0 : st ∈ namesN B0 := variableNames_toEProd.1 (canon_keeps_names hc st hst)
    have ok := leftFactorLoop_ok fuel B0 B1 hlf
    have hsub : ∀ x ∈ namesN B0, x ∈ namesN B1 := fun x hx =>
      variableNames_toEProd.1 (ok.names x (variableNames_toEProd.2 hx))
    have hV1 : ∀ x ∈ namesN B1, x ∈ ntNames B1 st := fun _ hx => mem_ntNames.2 (.inr hx)
    have hstV : st ∈ ntNames B1 st := mem_ntNames.2 (.inl rfl)
    have hinj := indexIn_injOn (ntNames B1 st)
    have key : ∀ w, Lang (toGrammar (indexIn (ntNames B1 st)) st B1) w ↔ LangE E st w := fun w =>
      (left_factor_preserves_lang hlf hst0 _ _ hinj hV1 w).trans
        (canon_preserves_lang hc hst _ _ hinj (fun x hx => hV1 x (hsub x hx)) hstV w)
    rw [lang_numberG, ParolSentence, hτ]
    constructor
    · rintro ⟨w, rfl, hw⟩; exact ⟨w, (key w).1 hw, rfl⟩
    · rintro ⟨w, hw, rfl⟩; exact ⟨w, rfl, (key w).2 hw⟩

/-- **Left factoring preserves what the grammar checks established** (the link between C11's
    checks, made before left factoring, and the class in which C05/C06/C07 are proved, needed after
    it): if the numbered grammar before left factoring passes parol's three checks, the numbered
    left-factored grammar is productive, reachable and free of (hidden) left recursion. -/
theorem left_factor_keeps_class {B0 B1 : List RuleN} {st : Name} {fuel : Nat}
    (hchk : checkGrammar (numberG B0 st) true [] = .ok .passed)
    (hlf : leftFactor id fuel B0 = some B1) :
    KS.Productive (numberG B1 st) ∧ KS.Reachable (numberG B1 st) ∧ KS.NoLeftRec (numberG B1 st) := by
  obtain ⟨hprod, hreach, hnlr⟩ := Panic.pre_established_analysis _ hchk
  have hw0 : WFN B0 st := wfn_of_ks (indexIn_injOn (ntNames B0 st))
    (fun _ hx => mem_ntNames.2 (.inr hx)) (mem_ntNames.2 (.inl rfl)) hprod hreach hnlr
  exact ks_of_wfn (fun _ hx => mem_ntNames.2 (.inr hx)) (leftFactor_wfn fuel B0 B1 hlf hw0)

/-- The generated tables: exact lookahead automata, sound production numbers, and the production
    table denotes the transformed grammar in parol's numbering. -/
theorem parol_ll_tables {E : List EProd} {st : Name} {K fuel : Nat} {T : LLTables}
    (h : parolLL E st K fuel = .ok T) :
    ∃ B1, parolLLGrammar E st fuel = .ok B1 ∧
      SetsExact T ∧ TablesSound T ∧ gOf T = numberG B1 st := by
  obtain ⟨B0, B1, T0, _, _, _, hchk, hlf, hg, ht, rfl⟩ := parol_ll_stages h
  obtain ⟨hprod, hreach, hnlr⟩ := left_factor_keeps_class hchk hlf
  have hd := ntsDense_of_B (ntsDenseB_numberG B1 st)
  have hno := noEoi_of_B (noEoiB_numberG B1 st)
  exact ⟨B1, hg, setsExact_withPush B1 (genTables_setsExact hd hno hprod hreach hnlr ht),
    tablesSound_withPush B1 (genTables_tablesSound hd hno hprod hreach hnlr ht),
    (gOf_withPush T0 B1).trans (genTables_facts hd ht).gof⟩

/-- **C01, front to back** — *"the generated parser reports success if and only if the sequence is
    a sentence of the grammar"*, for the grammar as the user wrote it: whenever the model of parol's
    LL(k) path (canonicalisation, grammar checks, left factoring, numbering, lookahead calculation,
    automaton compilation, table layout) produces tables `T` for the EBNF grammar `E` with any
    lookahead limit `K`, then for every token sequence (whatever skip tokens and comments are
    interleaved) and all parser options without a depth limit, the model of
    `LLKParser::parse_into` running on `T` succeeds iff the significant token types are the image,
    under the parser's terminal numbering, of a sentence of `E` as written. -/
theorem parol_ll_end_to_end (E : List EProd) (st : Name) (K fuel : Nat) (T : LLTables)
    (h : parolLL E st K fuel = .ok T)
    (toks : List MTok) (o : Opts) (ho : o.maxDepth = none) :
    (∃ fuel', (llRun T o fuel' toks).res = .ok) ↔ ParolSentence E st fuel (sigTypes toks) := by
  obtain ⟨B1, hg, hsets, hsound, hgof⟩ := parol_ll_tables h
  have := ll_accepts_iff T hsound (tablesExact_of_sets T hsets) o toks ho
  rw [hgof] at this
  exact this.trans (parol_ll_grammar_lang hg _)

/-- The parser's terminal numbering is injective on the terminals that occur in sentences: two
    sentences of `E` with the same token-type sequence are the same word. -/
theorem parol_ll_numbering_injective {E : List EProd} {st : Name} {fuel : Nat} {B1 : List RuleN}
    (hg : parolLLGrammar E st fuel = .ok B1) {w w' : List Nat} (hw' : LangE E st w')
    (e : w.map (parolTermNum E st fuel) = w'.map (parolTermNum E st fuel)) : w = w' := by
  have hτ : parolTermNum E st fuel = termNum (termOrder B1) := by
    funext a; simp [parolTermNum, hg]
  rw [hτ] at e
  have hB1 : Lang (numberG B1 st) (w'.map (termNum (termOrder B1))) :=
    (parol_ll_grammar_lang hg _).2 ⟨w', hw', by rw [hτ]⟩
  have hB1' := (lang_numberG_map B1 st w').1 hB1
  apply map_termNum_inj (tt := termOrder B1) _ e
  intro b hb
  rcases yield_terms hB1' b hb with h1 | h1
  · simp at h1
  · exact toGrammar_terms h1

/-- The same, sentence by sentence: a token sequence that spells the word `w` (over `E`'s own
    terminal numbers) is accepted iff `w` is a sentence of `E`. No side condition on `w`: terminals
    foreign to the grammar are mapped to a number no production carries. -/
theorem parol_ll_accepts_word (E : List EProd) (st : Name) (K fuel : Nat) (T : LLTables)
    (h : parolLL E st K fuel = .ok T)
    (w : List Nat) (toks : List MTok) (hw : sigTypes toks = w.map (parolTermNum E st fuel))
    (o : Opts) (ho : o.maxDepth = none) :
    (∃ fuel', (llRun T o fuel' toks).res = .ok) ↔ LangE E st w := by
  obtain ⟨_, B1, _, _, _, _, _, _, hg, _, _⟩ := parol_ll_stages h
  rw [parol_ll_end_to_end E st K fuel T h toks o ho, hw]
  constructor
  · rintro ⟨w', hw', e⟩
    rw [parol_ll_numbering_injective hg hw' e]
    exact hw'
  · intro hw'
    exact ⟨w, hw', rfl⟩

/-- Soundness needs no option hypothesis: with a depth limit, trimming or recovery the generated
    parser still accepts only sentences of the grammar as written. -/
theorem parol_ll_sound (E : List EProd) (st : Name) (K fuel : Nat) (T : LLTables)
    (h : parolLL E st K fuel = .ok T)
    (toks : List MTok) (o : Opts) (fuel' : Nat) (hok : (llRun T o fuel' toks).res = .ok) :
    ParolSentence E st fuel (sigTypes toks) := by
  obtain ⟨B1, hg, _, hsound, hgof⟩ := parol_ll_tables h
  have := ll_sound T o fuel' toks hsound hok
  rw [hgof] at this
  exact (parol_ll_grammar_lang hg _).1 this

/-! ## non-vacuity

`%start S %% S: "a" ["b"] {"c"};` with the terminals written 5, 6, 7. -/

def eOptRep : List EProd :=
  [⟨"S".toList, [⟨[.t 5, .opt [[.t 6]], .rep [[.t 7]]], .none⟩]⟩]

/-- the transformed grammar: `S: "a" SOpt SList; SList: "c" SList | ; SOpt: "b" | ;` -/
example : parolLLGrammar eOptRep "S".toList 30 = .ok
    [⟨"S".toList, [.t 5, .n "SOpt".toList .option, .n "SList".toList .repAnchor], .none⟩,
     ⟨"SList".toList, [.t 7, .n "SList".toList .none], .addToColl⟩,
     ⟨"SList".toList, [], .collStart⟩,
     ⟨"SOpt".toList, [.t 6], .optSome⟩,
     ⟨"SOpt".toList, [], .optNone⟩] := by decide

/-- the tables parol generates for it (start symbol 0; `S`=0, `SList`=1, `SOpt`=2; "a"=5, "c"=6,
    "b"=7 in order of first occurrence in the transformed grammar) -/
def tOptRep : LLTables :=
  ⟨0, [⟨0, [.n 1, .n 2, .t 5], false⟩, ⟨1, [.n 1, .t 6], true⟩, ⟨1, [], false⟩,
       ⟨2, [.t 7], false⟩, ⟨2, [], false⟩],
   [⟨0, [], 0⟩, ⟨-1, [⟨0, 0, 2, 2⟩, ⟨0, 6, 1, 1⟩], 1⟩,
    ⟨-1, [⟨0, 0, 2, 4⟩, ⟨0, 6, 2, 4⟩, ⟨0, 7, 1, 3⟩], 1⟩]⟩

theorem eOptRep_tables : parolLL eOptRep "S".toList 2 30 = .ok tOptRep := by decide

/-- (redundant, by `left_factor_keeps_class`) the left-factored grammar passes the re-check -/
example : finalCheckB eOptRep "S".toList 30 = true := by decide

/-- the numbering: "a" ↦ 5, "b" ↦ 7, "c" ↦ 6 -/
example : [5, 6, 7].map (parolTermNum eOptRep "S".toList 30) = [5, 7, 6] := by decide

/-- the theorem applies: the generated parser accepts exactly `a b? c*` -/
example (l : List Nat) (o : Opts) (ho : o.maxDepth = none) :
    (∃ fuel, (llRun tOptRep o fuel (exToks l)).res = .ok) ↔
      ParolSentence eOptRep "S".toList 30 (sigTypes (exToks l)) :=
  parol_ll_end_to_end eOptRep "S".toList 2 30 tOptRep eOptRep_tables _ o ho

/-- `a b c c` (token types 5 7 6 6) and `a` are accepted, `b` and `a c b` are not -/
example : (llRun tOptRep ⟨false, false, none⟩ 100 (exToks [5, 7, 6, 6])).res = .ok ∧
    (llRun tOptRep ⟨false, false, none⟩ 100 (exToks [5])).res = .ok ∧
    (llRun tOptRep ⟨false, false, none⟩ 100 (exToks [7])).res ≠ .ok ∧
    (llRun tOptRep ⟨false, false, none⟩ 100 (exToks [5, 6, 7])).res ≠ .ok := by decide

/-- … and `a b c c` is a sentence of the grammar as written -/
example : LangE eOptRep "S".toList [5, 6, 7, 7] := by
  refine (YieldE.nonterm (G := eOptRep) ⟨"S".toList, _⟩ ⟨_, .none⟩ .none (fs := []) (v := [])
    (u := [5, 6, 7, 7]) (List.mem_singleton.2 rfl) (List.mem_singleton.2 rfl) ?_ .nil)
  refine .term 5 (YieldE.optSome (G := eOptRep) [[.t 6]] [.t 6] (u := [6]) (v := [7, 7])
    (List.mem_singleton.2 rfl) (.term 6 .nil) ?_)
  refine YieldE.repStep (G := eOptRep) [[.t 7]] [.t 7] (u := [7]) (v := [7])
    (List.mem_singleton.2 rfl) (.term 7 .nil) ?_
  exact YieldE.repStep (G := eOptRep) [[.t 7]] [.t 7] (u := [7]) (v := [])
    (List.mem_singleton.2 rfl) (.term 7 .nil) (.repStop _ .nil)

/-- the stages report their errors: left recursion, an unreachable non-terminal, an undefined
    start symbol, a grammar that is not LL(1) -/
example : parolLL [⟨"S".toList, [⟨[.n "S".toList .none, .t 5], .none⟩, ⟨[.t 6], .none⟩]⟩] "S".toList 1 30
    = .error (.check (.leftRecursion [0])) := by decide
example : parolLL [⟨"S".toList, [⟨[.t 5], .none⟩]⟩, ⟨"T".toList, [⟨[.t 6], .none⟩]⟩] "S".toList 1 30
    = .error (.check (.unreachable [1])) := by decide
example : parolLL [⟨"T".toList, [⟨[.t 5], .none⟩]⟩] "S".toList 1 30 = .error .rejected := by decide
example : parolLL [⟨"S".toList, [⟨[.rep [[.t 5]], .t 5], .none⟩]⟩] "S".toList 1 30
    = .error (.gen .maxK) := by decide

end ParolModel
