import ParolModel.Proofs.LeftFactor
import ParolModel.Proofs.GenName
/-! # C10 — Left factoring preserves the language and removes shared prefixes

Property text: *For every BNF grammar, left factoring terminates, generates the same language, and
leaves no two non-empty alternatives of one non-terminal that start with the same symbol. New
suffix non-terminals never clash with existing names.*

Formalisation. `rs : List RuleN` are the productions of the `Cfg` (names are texts, symbols carry
their attributes and are compared structurally as `#[derive(PartialEq)]` does). `leftFactor ord fuel`
mirrors `left_factor` (Model/LeftFactor.lean) with the repaired `find_prefix`; `ord` is the drain
order of `group_by`'s HashMap. Languages are `Lang` of `Spec/Cfg` through any numbering `ν` of the
names that is injective on the names involved (`toGrammar ν st rs`).

`st ∈ namesN rs` (the start symbol is defined or used) is needed for the same reason as in C09:
`var_names` does not contain the start symbol. Through the generation pipeline this hypothesis is
guaranteed (an undefined start symbol is rejected as non-productive before left factoring). -/
namespace ParolModel

/-- **C10, one step** (`factor_out_prefix`: `A → π β₁ | π β₂ | γ` becomes `A → π A'`,
    `A' → β₁ | β₂`, `A → γ`): every symbol string over the old names derives the same token
    sequences before and after — for every prefix `π`, shared or not. -/
theorem factor_step_preserves_lang {rs rs' : List RuleN} {A : Name} {pre : List SymN}
    (h : factorOutPrefix rs A pre = some rs') (ss : List SymN) (w : List Nat)
    (hss : ∀ x ∈ symsNames ss, x ∈ namesN rs) :
    YieldE (rs.map RuleN.toEProd) (ss.map SymN.toFactor) w ↔
      YieldE (rs'.map RuleN.toEProd) (ss.map SymN.toFactor) w :=
  (factorOutPrefix_ok h).equiv _ w (fun x hx => by
    rw [altVars_toFactor] at hx
    exact variableNames_toEProd.2 (hss x hx))

/-- **C10, language**: a terminated run of left factoring generates the same language. -/
theorem left_factor_preserves_lang {ord : GroupOrd} {fuel : Nat} {rs rs' : List RuleN}
    (h : leftFactor ord fuel rs = some rs') {st : Name} (hst : st ∈ namesN rs)
    (ν : Name → Nat) (V : List Name) (hinj : InjOn ν V) (hV : ∀ x ∈ namesN rs', x ∈ V)
    (w : List Nat) :
    Lang (toGrammar ν st rs') w ↔ Lang (toGrammar ν st rs) w := by
  have ok := leftFactorLoop_ok fuel rs rs' h
  have hsub : ∀ x ∈ namesN rs, x ∈ namesN rs' := fun x hx =>
    variableNames_toEProd.1 (ok.names x (variableNames_toEProd.2 hx))
  have hstV : st ∈ V := hV st (hsub st hst)
  rw [lang_toGrammar ν st rs' V hinj hV hstV w,
    lang_toGrammar ν st rs V hinj (fun x hx => hV x (hsub x hx)) hstV w]
  exact (ok.equiv [.n st .none] w (by
    intro x hx
    simp only [altVars, Factor.vars, List.append_nil, List.mem_singleton] at hx
    exact variableNames_toEProd.2 (hx ▸ hst))).symm

/-- **C10, no shared first symbol**: after a terminated run, for every non-terminal `A` and every
    symbol `s` at most one rule of `A` starts with `s` (for every drain order that loses no group —
    every permutation). -/
theorem left_factor_no_common_first {ord : GroupOrd} (hord : KeepsAll ord) {fuel : Nat}
    {rs rs' : List RuleN} (h : leftFactor ord fuel rs = some rs') (A : Name) (s : SymN) :
    (rs'.filter (fun r => r.lhs = A && r.rhs.head? == some s)).length ≤ 1 :=
  exit_no_common_first hord (leftFactorLoop_exit fuel rs rs' h) A s

/-- **C10, names**: every left-hand side of the result is a left-hand side of the input or none of
    the input's names. -/
theorem left_factor_helper_fresh {ord : GroupOrd} {fuel : Nat} {rs rs' : List RuleN}
    (h : leftFactor ord fuel rs = some rs') :
    ∀ r ∈ rs', r.lhs ∈ rs.map (·.lhs) ∨ r.lhs ∉ namesN rs := by
  intro r hr
  have := (leftFactorLoop_ok fuel rs rs' h).lhs r.toEProd (List.mem_map.2 ⟨r, hr, rfl⟩)
  simp only [toEProd_lhs, List.map_map] at this
  rcases this with h | h
  · exact .inl (by simpa [Function.comp_def, toEProd_lhs] using h)
  · exact .inr (fun hx => h (variableNames_toEProd.2 hx))

/-- **C10, termination — full statement (not proved)**: for every grammar and every drain order
    some fuel suffices. Missing: the measure argument (the sum over non-terminals and pairs of
    alternatives of the common-prefix length strictly decreases with every `factor_out_prefix`
    that has at least two matching rules and a non-empty prefix), i.e. a bound on the number of
    rounds. Everything inside one round is proved to succeed (`factor_out_total`). -/
def LeftFactorTerminates : Prop :=
  ∀ (ord : GroupOrd) (rs : List RuleN), ∃ fuel rs', leftFactor ord fuel rs = some rs'

/-- **C10, termination — one round never fails**: `generate_name` always finds a suffix name
    (pigeonhole, `generateName_total`), so `factor_out_prefix` and the whole fold of one round
    (`factor_out`) return a result for every grammar, every prefix list and every drain order. -/
theorem factor_out_total (ord : GroupOrd) (rs : List RuleN) :
    ∃ rs' m, factorOut ord rs = some (rs', m) := by
  have step : ∀ (rs : List RuleN) (A : Name) (pre : List SymN),
      ∃ rs', factorOutPrefix rs A pre = some rs' := by
    intro rs A pre
    unfold factorOutPrefix
    split
    · obtain ⟨X, hX⟩ := generateName_total (namesN rs) (A ++ "Suffix".toList)
      rw [hX]
      exact ⟨_, rfl⟩
    · exact ⟨rs, rfl⟩
  have fold : ∀ (l : List (Name × List SymN)) (rs : List RuleN),
      ∃ rs', l.foldlM (fun acc (x : Name × List SymN) => factorOutPrefix acc x.1 x.2) rs = some rs' := by
    intro l
    induction l with
    | nil => intro rs; exact ⟨rs, rfl⟩
    | cons x l ih =>
      intro rs
      obtain ⟨rs1, h1⟩ := step rs x.1 x.2
      obtain ⟨rs2, h2⟩ := ih rs1
      exact ⟨rs2, by simp [List.foldlM_cons, h1, h2]⟩
  obtain ⟨rs', h⟩ := fold (findLongestPrefixes ord rs) rs
  exact ⟨rs', !(findLongestPrefixes ord rs).isEmpty, by unfold factorOut; simp only; rw [h]; rfl⟩

/-- **C10, termination — proved part**: the result does not depend on the fuel once it suffices
    (running out of fuel is the only way a run can fail to give this result), and the inner search
    `find_longest_prefix` never needs more fuel than the longest alternative is long. The driver
    reports `fuel-exhausted` (never observed in the differential runs). -/
theorem left_factor_terminates_partial {ord : GroupOrd} {fuel : Nat} {rs rs' : List RuleN}
    (h : leftFactor ord fuel rs = some rs') :
    (∀ fuel', fuel ≤ fuel' → leftFactor ord fuel' rs = some rs') ∧
    (∀ cands : List (List SymN), ∀ f, maxLen cands + 1 ≤ f →
      findLongestPrefix cands f 1 = findPrefix cands) := by
  refine ⟨leftFactorLoop_fuel_mono fuel rs rs' h, ?_⟩
  intro cands f hf
  unfold findPrefix
  obtain ⟨d, rfl⟩ : ∃ d, f = maxLen cands + 1 + d := ⟨f - (maxLen cands + 1), by omega⟩
  induction d with
  | zero => rfl
  | succ d ih =>
    rw [← ih (by omega)]
    exact (findLongestPrefix_fuel cands (maxLen cands + 1 + d) 1 (by omega)).symm

/-! ## non-vacuity -/

/-- `A: a b | a c | d e | d f` — two prefix groups of equal size; the first one is factored first,
    the second one in the next round. -/
def tieRules : List RuleN :=
  [⟨"A".toList, [.t 1, .t 2], .none⟩, ⟨"A".toList, [.t 1, .t 3], .none⟩,
   ⟨"A".toList, [.t 4, .t 5], .none⟩, ⟨"A".toList, [.t 4, .t 6], .none⟩]

example : leftFactor id 10 tieRules = some
    [⟨"A".toList, [.t 4, .n "ASuffix0".toList .none], .none⟩,
     ⟨"A".toList, [.t 1, .n "ASuffix".toList .none], .none⟩,
     ⟨"ASuffix0".toList, [.t 5], .none⟩, ⟨"ASuffix0".toList, [.t 6], .none⟩,
     ⟨"ASuffix".toList, [.t 2], .none⟩, ⟨"ASuffix".toList, [.t 3], .none⟩] := by decide

example : KeepsAll id := fun _ _ h => h
example : "A".toList ∈ namesN tieRules := by decide

/-- the unit tests of left_factoring.rs -/
example : findPrefix [[.t 1, .t 2, .t 3, .t 4, .t 5], [.t 2, .t 3, .t 4, .t 5],
    [.t 1, .t 2, .t 3, .t 5], [.t 1, .t 2, .t 6, .t 5]] = [.t 1, .t 2, .t 3] := by decide
example : findPrefix [[.t 1, .t 2, .t 3, .t 5], [.t 1, .t 2, .t 6, .t 5]] = [.t 1, .t 2] := by decide
example : findPrefix [[.t 4, .t 5], [.t 1, .t 2, .t 3]] = [] := by decide
example : findPrefix [[]] = [] := by decide

end ParolModel
