import ParolModel.Props.C09
import ParolModel.Proofs.CanonTerm
import ParolModel.Proofs.CanonFinal
import ParolModel.Model.TransformProto
/-! # C09b — EBNF canonicalisation terminates

Property text (C09): *… the plain productions it derives from groups, alternations, optionals and
repetitions …* — `transform_productions` is a cascade of `while` loops (`extract_options`, then
`while modified { separate_alternatives ; eliminate_repetitions ; eliminate_options ;
eliminate_groups }`, each of the four again a `while` loop). The model `canon ty fuel E` runs them
on fuel; the theorems of `Props/C09.lean` speak about runs that did not exhaust it. This module
proves that the fuel-exhaustion outcome is avoidable for every input, with an explicit bound.

**Measure.** `canonMeasure E` = 3·(repetition nodes) + 2·(group nodes) + 2·(optional nodes), all
nesting levels, + the number of productions with more than one alternation
(`Proofs/CanonTerm.lean`). Per step:

| step | effect | measure |
|------|--------|---------|
| `extract_options` (one optional → `XOpt: (inner); XOpt: ;`) | −1 optional, +1 group | ±0, optionals −1 |
| `separate_alternatives` (one production split) | −1 multi-alternation production | −1 |
| `eliminate_repetitions` (one top-level `{…}`) | −1 repetition, +1 group if several alternatives | −3 or −1 |
| `eliminate_options` | never fires: no optional is left after `extract_options` (`optStep_noOpt`) | — |
| `eliminate_groups` (one top-level `(…)`) | −1 group, +1 multi-alternation production if several alternatives | −2 or −1 |

Hence the `extract_options` loop ends within `optionals + 1 ≤ canonMeasure E + 1` iterations, every
inner loop within `canonMeasure + 1`, and every pass that reports `modified` lowers the measure,
so at most `canonMeasure E + 1` passes run. The same fuel serves all loops. `generate_name` never
fails (`generateName_total`), and the only `panic` site (`Vec::remove` in `eliminate_single_opt`)
is unreachable because that step never fires. -/
namespace ParolModel

/-- **C09, termination, with an explicit bound**: for both grammar types and every production
    list, `transform_productions` with loop fuel above `canonMeasure E` neither runs out of fuel
    nor panics: it returns plain productions or fails in `finalize`. -/
theorem canon_terminates_bound (ty : GType) (E : List EProd) (fuel : Nat)
    (hf : canonMeasure E < fuel) :
    (∃ B, canon ty fuel E = .ok B) ∨ canon ty fuel E = .finalizeError :=
  canon_terminates_core ty E fuel hf

/-- **C09, termination**: some fuel suffices — the fuel-exhaustion outcome (and the panic outcome)
    of the model is avoidable for every input. -/
theorem canon_terminates (ty : GType) (E : List EProd) :
    ∃ fuel, (∃ B, canon ty fuel E = .ok B) ∨ canon ty fuel E = .finalizeError :=
  ⟨canonMeasure E + 1, canon_terminates_core ty E _ (Nat.lt_succ_self _)⟩

/-- **C09, termination, every loop separately**: (1) the `extract_options` loop, (2) one pass of
    the four elimination loops on an optional-free grammar, (3) the outer `while modified` loop —
    each ends with any fuel above its measure. -/
theorem canon_loops_terminate (ty : GType) (E : List EProd) (fuel : Nat) :
    (optCount E < fuel → ∃ E' m, iterStep extractStep fuel E false = .ok (E', m) ∧ NoOpt E' ∧
      canonMeasure E' ≤ canonMeasure E) ∧
    (NoOpt E → canonMeasure E < fuel → ∃ E' m, pass ty fuel E = .ok (E', m) ∧ NoOpt E' ∧
      canonMeasure E' ≤ canonMeasure E ∧ (m = true → canonMeasure E' < canonMeasure E)) ∧
    (NoOpt E → canonMeasure E < fuel → ∃ E', passLoop ty fuel fuel E = .ok E') :=
  ⟨fun h => extract_terminates E h, fun hn h => pass_terminates ty hn h,
   fun hn h => passLoop_terminates ty fuel E hn h h⟩

/-- **C09, every rewriting step strictly lowers its measure** (the statements that make the loops
    well-founded recursions). -/
theorem canon_steps_decrease {ty : GType} {E E' : List EProd} :
    (extractStep E = .changed E' → optCount E' < optCount E ∧ canonMeasure E' = canonMeasure E) ∧
    (sepStep E = .changed E' → canonMeasure E' < canonMeasure E) ∧
    (repStep ty E = .changed E' → canonMeasure E' < canonMeasure E) ∧
    (groupStep E = .changed E' → canonMeasure E' < canonMeasure E) ∧
    (NoOpt E → optStep E = .unchanged) :=
  ⟨extractStep_decreases, sepStep_decreases, repStep_decreases, groupStep_decreases, optStep_noOpt⟩

/-- **C09, the driver's fuel suffices**: the model driver runs `canon` with
    `canonFuel E = 4 · grammarSize E + 10`; it never answers `fuel-exhausted` or `panic`. -/
theorem canon_driver_fuel_suffices (ty : GType) (E : List EProd) :
    (∃ B, canon ty (canonFuel E) E = .ok B) ∨ canon ty (canonFuel E) E = .finalizeError := by
  apply canon_terminates_core
  have := canonMeasure_le_size E
  unfold canonFuel
  omega

/-- **C09, termination with a result**: if no production and no group / optional / repetition at
    any depth has an empty list of alternations (`NoEmptyAlts`), then `finalize` cannot fail
    either: with fuel above the measure `transform_productions` returns plain productions, for both
    grammar types. (In the state the loops leave, every production has exactly one alternation
    consisting of terminals and non-terminals only.) -/
theorem canon_total (ty : GType) (E : List EProd) (hne : NoEmptyAlts E) (fuel : Nat)
    (hf : canonMeasure E < fuel) : ∃ B, canon ty fuel E = .ok B :=
  canon_ok_of_noEmptyAlts ty E hne fuel hf

/-- **C09, the driver always answers `ok …`** on what the front end accepts
    (`frontEndRejects E = false`: no `EmptyGroup` / `EmptyOptional` / `EmptyRepetition`, …) when
    every production has at least one alternation (the parser cannot build one without): never
    `fuel-exhausted`, `panic` or `finalize-error`. Together with `canon_preserves_lang` and
    `helper_fresh` of `Props/C09.lean` this makes C09 a statement about every accepted grammar. -/
theorem canon_total_accepted (ty : GType) (E : List EProd) (hacc : frontEndRejects E = false)
    (halts : ∀ p ∈ E, p.alts ≠ []) : ∃ B, canon ty (canonFuel E) E = .ok B := by
  apply canon_ok_of_noEmptyAlts ty E (noEmptyAlts_of_accepted hacc halts)
  have := canonMeasure_le_size E
  unfold canonFuel
  omega

/-! ## non-vacuity -/

/-- `S: {"a"} ("b" | "c" SList);` (finding F7's grammar): one repetition, one group -/
example : canonMeasure f7E = 5 := by decide

/-- the bound is not vacuous: with fuel 2 the run is exhausted, with `canonMeasure + 1` it is not -/
example : canon .ll 2 f7E = .fuel := by decide
example : (match canon .ll (canonMeasure f7E + 1) f7E with | .ok _ => true | _ => false) = true := by
  decide
example : (match canon .lr (canonMeasure f7E + 1) f7E with | .ok _ => true | _ => false) = true := by
  decide

/-- nested optional in a repetition with two alternatives: measure 3 + 2, one optional -/
def nestedE : List EProd :=
  [⟨"A".toList, [⟨[.rep [[.opt [[.t 5], [.t 6]], .n "A".toList .none]]], .none⟩, ⟨[], .none⟩]⟩]

example : canonMeasure nestedE = 6 ∧ optCount nestedE = 1 := by decide
example : (match canon .ll (canonMeasure nestedE + 1) nestedE with | .ok _ => true | _ => false) = true := by
  decide

example : frontEndRejects f7E = false ∧ ∀ p ∈ f7E, p.alts ≠ [] := by decide
example : frontEndRejects nestedE = false ∧ ∀ p ∈ nestedE, p.alts ≠ [] := by decide

/-- the `finalize` error is a real outcome of the model (a group without alternations — the front
    end refuses such input, `frontEndRejects`), so the disjunction of `canon_terminates` cannot be dropped without `NoEmptyAlts` -/
example : canon .ll 10 [⟨"A".toList, [⟨[.group []], .none⟩]⟩] = .finalizeError := by decide
example : frontEndRejects [⟨"A".toList, [⟨[.group []], .none⟩]⟩] = true := by decide

end ParolModel
