import Lean
import ParolModel.Model.PanicSites2
import ParolModel.Proofs.MinimTotal
import ParolModel.Props.C01c
import ParolModel.Props.C18
import ParolModel.Props.C26
/-! # C26 (second part) — the open links of the panic chain: minimisation, `unite`, the caches

Property text (C26): *For every input text given to parol as a grammar, reading, checking,
transforming, analysing and generating either succeed or return an error; no stage panics, for
either grammar type and any lookahead limit.*

`Props/C26.lean` composes the totality results of the modelled stages into a chain and lists every
panic-capable construct of the sixteen modelled source files; it left three links and 29 sites
open. This module closes what can be closed by theorems about the models:

* **minimisation** (`compiled_la_dfa.rs`): `stage_total_minimise` — `CompiledDFA::minimize` is
  total on automata whose accepting states are leaves, for every hash-map iteration order; the
  precondition is established by the uniting stage (`pre_established_minimise`). All eight panic
  sites of the file are covered (`site_*`).
* **lookahead automata** (`lookahead_dfa.rs`): `pre_established_unite` — for a grammar that passed
  `check_and_transform_grammar`, the tuple sets `calculate_k_tuples` hands to the uniting loop are
  non-empty, pairwise disjoint and prefix-free (or a single set, for which `unite` is not called);
  `stage_total_unite2` — the loop then yields an automaton; `unite_fuel_suffices` — the model's
  fuel outcome does not exist.
* **decision** (`k_decision.rs`): the cache slot indexing `self.0[k]` in guarded models
  (`Model/PanicSites2.lean`): `stage_total_decision`, `pre_established_decision`, `f37_witness`.
* **the composed model** `genTables` (`Model/Pipeline.lean`): `genTables_no_panic`,
  `genTables_outcomes`.

`Model/PanicSites2.lean` holds the UPDATED table (`panicSites2`, `chain2`); `table_shape2` and
`remaining_open` state its totals and the twelve sites that stay open — no theorem covers them.
The full statement `NeverPanics` (Props/C26.lean) stays unproved and false (findings F10, F35–F37). -/
namespace ParolModel.Panic
open ParolModel KS

/-! ## minimisation -/

/-- **"analysing and generating … no stage panics"**, stage `CompiledDFA::minimize`: on a compiled
    automaton whose accepting states are leaves (`CompiledOk`) the model of
    `AdjacencyList::{from, minimize, as_compiled_dfa}` returns an automaton for EVERY hash-map
    iteration order `ch` — none of its `none` branches (failing `debug_assert`, `unwrap` on `None`,
    `panic!`, exhausted fuel) is taken. -/
theorem stage_total_minimise {c : LaDfa} (hc : CompiledOk c) (ch : List Nat) : ∃ c', minimizeC c ch = some c' :=
  minimizeC_total hc ch

/-- `pre_established` for the minimisation: the automaton the uniting loop returns for non-empty,
    pairwise disjoint, prefix-free tuple sets has accepting states that are leaves. -/
theorem pre_established_minimise {k : Nat} {sets : List (Nat × List Tuple)} {d : LDfa} (ok : SetsOk sets)
    (hd : uniteAll true k sets = some (.ok d)) : CompiledOk (compileRaw d) :=
  compiledOk_of_sets ok hd

/-- Site `AdjacencyList::combine_two_states` (three `debug_assert`s: different states, equal
    production numbers, all four map lookups `Some`) — reached from both grouping phases of
    `minimize`: the first loop (accepting states per production) and every round of
    `combine_equivalent_states` run through without a failing assertion. -/
theorem site_combine_two_states_debug_assert {c : LaDfa} (hc : CompiledOk c) (ch : List Nat) :
    ∃ a1 ch1, (adjOfCompiled c).mergeFinals ch = some (a1, ch1) ∧
      ∃ a2 ch2, Adj.combineEquiv (a1.list.length + 1) a1 ch1 = some (a2, ch2) := by
  obtain ⟨a1, ch1, h1, st1⟩ := MT.mergeFinals_total ch (adjOfCompiled_wf hc)
  obtain ⟨a2, ch2, h2, _⟩ := MT.combineEquiv_total (a1.list.length + 1) ch1 st1.wf (Nat.lt_succ_self _)
  exact ⟨a1, ch1, h1, a2, ch2, h2⟩

/-- Site `AdjacencyList::combine_equivalent_states` (`self.productions.get(s).unwrap()`): under
    the well-formedness invariant every state of the list has a production entry, so the candidate
    groups are computed (`equivGroups ≠ none`); and the whole loop after the first phase — every
    round, whatever group the hash map yields first (`ch'`) — completes: the model's
    `combineEquiv` returns `none` as soon as ANY round hits the failing `unwrap` (or an assertion
    of `combine_two_states`), and it does not return `none`. -/
theorem site_combine_equivalent_states_unwrap {c : LaDfa} (hc : CompiledOk c) {ch ch1 : List Nat} {a1 : Adj}
    (h1 : (adjOfCompiled c).mergeFinals ch = some (a1, ch1)) :
    (∀ a : Adj, AdjWF a → a.equivGroups ≠ none) ∧
    ∀ (fuel : Nat) (ch' : List Nat), a1.list.length < fuel → ∃ r, Adj.combineEquiv fuel a1 ch' = some r := by
  have st1 := mergeFinals_step (adjOfCompiled_wf hc) h1
  refine ⟨fun a hwf => by rw [MT.equivGroups_total hwf]; simp, ?_⟩
  intro fuel ch' hlt
  obtain ⟨a2, ch2, h2, _⟩ := MT.combineEquiv_total fuel ch' st1.wf hlt
  exact ⟨(a2, ch2), h2⟩

/-- Site `AdjacencyList::renumber_states` (`panic!("No free state number found!")`): whenever the
    enumeration finds a state whose number differs from its position, a free number below the
    number of states exists, and the whole renumbering loop ends. -/
theorem site_renumber_states_panic {a : Adj} (hwf : AdjWF a) :
    (∀ s, firstMismatch 0 a.prods = some s → ∃ new, firstFree a.prods = some new) ∧
    ∃ a', Adj.renumber (a.list.length + 1) a = some a' := by
  constructor
  · intro s hm
    obtain ⟨j, _, hj2, hpre, hfree, _⟩ := MT.firstMismatch_gap a.prods 0 s hm hwf.ksp (fun _ _ => Nat.zero_le _)
    have hj1 : 1 ≤ j := by
      rcases Nat.eq_zero_or_pos j with h0 | h0
      · subst h0
        have := (hwf.keys 0).1 hwf.zero
        rw [hfree] at this; cases this
      · exact h0
    exact ⟨j, MT.firstFree_of_gap hj1 (by omega) (fun t ht => hpre t (Nat.zero_le _) ht) hfree⟩
  · obtain ⟨a', h, _⟩ := MT.renumber_total (a.list.length + 1) 0 hwf (fun t ht => by omega)
      (by rw [MT.adj_len_eq hwf]; omega)
    exact ⟨a', h⟩

/-- Site `AdjacencyList::as_compiled_dfa` (`productions.get(&t.0).unwrap()` per neighbour,
    `productions.get(&0).unwrap()`): the minimised adjacency list converts back. -/
theorem site_as_compiled_dfa_unwrap {c : LaDfa} (hc : CompiledOk c) {ch : List Nat} {a : Adj}
    (h : (adjOfCompiled c).minimize ch = some a) : ∃ c', a.asCompiled = some c' :=
  MT.asCompiled_total (minimize_step (adjOfCompiled_wf hc) h).wf

/-- Site `AdjacencyList::len` (`debug_assert_eq!(self.productions.len(), self.list.len())`, called
    before and after `minimize`): both maps have the same number of entries at both points. -/
theorem site_adjacency_list_len_debug_assert {c : LaDfa} (hc : CompiledOk c) :
    (adjOfCompiled c).prods.length = (adjOfCompiled c).list.length ∧
    ∀ (ch : List Nat) (a : Adj), (adjOfCompiled c).minimize ch = some a → a.prods.length = a.list.length :=
  ⟨MT.adj_len_eq (adjOfCompiled_wf hc),
   fun _ _ h => MT.adj_len_eq (minimize_step (adjOfCompiled_wf hc) h).wf⟩

/-! ## lookahead automata: the uniting loop -/

/-- The `while changed` loop of `LookaheadDFA::unite` needs at most `other.transitions + 1` passes:
    the model's outcome `fuel` does not occur — for ALL tuple sets, no hypothesis. -/
theorem unite_fuel_suffices (fixK : Bool) (k : Nat) (sets : List (Nat × List Tuple)) :
    uniteAll fixK k sets ≠ some (.error .fuel) :=
  uniteAll_ne_fuel fixK k sets

/-- Stage `from_k_tuples` + `unite`, strengthened (`stage_total_unite` of Props/C26.lean allowed
    the outcome `fuel`): on non-empty, pairwise disjoint, prefix-free tuple sets the uniting loop of
    `calculate_lookahead_dfas` returns an automaton. -/
theorem stage_total_unite2 (k : Nat) {sets : List (Nat × List Tuple)} (ok : SetsOk sets) (hne : sets ≠ []) :
    ∃ d, uniteAll true k sets = some (.ok d) :=
  uniteAll_total k ok hne

/-- **`pre_established` for the uniting loop** (the link Props/C26.lean left open): for a grammar
    that passed `check_and_transform_grammar` for LL(k) and uses no terminal 0, whenever `decidable`
    answers `Ok(k)` for a non-terminal `A`, the tuple sets `calculate_tuples_for_non_terminal`
    inserts for `A` at that `k` (`laSets`) are: for `k = 0` one single set of ε-tuples (one
    alternative — `unite` is not called), for `k ≥ 1` non-empty, pairwise disjoint and prefix-free. -/
theorem pre_established_unite (G : Grammar) (fuel K A k : Nat) (sets : List (Nat × TSet))
    (hpass : checkGrammar G true [] = .ok .passed) (hno : KS.NoEoi G)
    (hdec : decidableM G fuel A K = .ok k) (hsets : laSets G fuel A k = some sets) :
    (k = 0 ∧ ∃ p S, sets = [(p, S)] ∧ ∀ t ∈ S, t = []) ∨ (1 ≤ k ∧ SetsOk sets ∧ sets ≠ []) := by
  obtain ⟨hprod, hreach, hnlr⟩ := pre_established_analysis G hpass
  exact sets_of_decided hno hprod hreach hnlr hdec hsets

/-- The whole chain for one non-terminal — tries, `unite`, conversion, minimisation — returns a
    compiled automaton on non-empty, pairwise disjoint, prefix-free tuple sets, for every
    iteration order. -/
theorem compile_chain_total (k : Nat) {sets : List (Nat × List Tuple)} (ok : SetsOk sets) (hne : sets ≠ [])
    (ch : List Nat) : ∃ d c, uniteAll true k sets = some (.ok d) ∧ compileDfa d ch = some c :=
  compile_total k ok hne ch

/-! ## first/follow: `CompiledTerminal::create`, the deprecated symbol variants -/

/-- Site `CompiledTerminal::create` (`panic!("Unexpected symbol type")`), in the refined model of
    `compile_production_equation` over symbols that still have the deprecated variants
    (`Model/PanicSites2.lean`): whenever the grouping fold returns parts, the second loop is safe —
    every part is non-empty (`symbol_string.0[0]`), a part that starts with a terminal consists of
    terminals only (so `create` sees `Symbol::T`), and no part starts with a deprecated variant. -/
theorem site_compiled_terminal_create_panic (rhs : List RSym) (parts : List (List RSym))
    (h : partsOf rhs = some parts) : equationOk parts = true :=
  equationOk_of_partOk (partsFold_ok rhs h (fun _ hp => by cases hp))

/-- The `unreachable!` of `compile_production_equation` (and of the same fold in follow.rs) is
    reached exactly when a right-hand side contains `Symbol::S/Push/Pop`. For the symbols of the
    framework's grammars (`Sym`: terminals and non-terminals only) it is not. That the front end
    never builds the deprecated variants is NOT modelled — these sites stay open. -/
theorem unreachable_iff_deprecated_symbol (rhs : List RSym) :
    (partsOf rhs = none ↔ RSym.other ∈ rhs) ∧
    ∀ ss : List Sym, ∃ parts, partsOf (ss.map embedSym) = some parts := by
  refine ⟨partsFold_none_iff rhs [], ?_⟩
  intro ss
  cases hp : partsOf (ss.map embedSym) with
  | some parts => exact ⟨parts, rfl⟩
  | none =>
    have := (partsFold_none_iff (ss.map embedSym) []).1 hp
    obtain ⟨s, _, hs⟩ := List.mem_map.1 this
    cases s <;> cases hs

/-- The refined fold is the model's: on terminals and non-terminals it computes the parts of
    `KS.compileParts` (one part per non-terminal, one per maximal terminal run), the function under
    the FIRST_k/FOLLOW_k models of C06 and their differential ties. -/
theorem compile_production_equation_refines (ss : List Sym) :
    partsOf (ss.map embedSym) = some ((compileParts ss).map embedPart) :=
  partsOf_embed ss

/-! ## decision: the cache slots -/

/-- Site `FirstCache::get` (`self.0[k]`, three times, on `MAX_K + 1` slots): with the slot test
    made explicit at every `get` (guarded model `firstCodeG`), a request for `k ≤ MAX_K` — and the
    requests for `k-1, …, 0` that `first_k` issues — stay in bounds; and `calculate_k_tuples`
    with limit `max_k ≤ MAX_K` only issues such requests. -/
theorem site_first_cache_get_index (G : Grammar) (fuel : Nat) :
    (∀ k, k ≤ maxKConst → firstCodeG G fuel k = some (firstCode G fuel k)) ∧
    ∀ K, K ≤ maxKConst → calculateKTuplesG G fuel K = some (calculateKTuples G fuel K) :=
  ⟨firstCodeG_eq G fuel, fun _ hK => calcTuplesLoopG_eq G fuel hK _ _⟩

/-- Site `FollowCache::get` (`self.0[k]`, three times): as `site_first_cache_get_index`, for
    `follow_k` (which asks `FirstCache::get(k)` and `FollowCache::get(k-1)`) and for the two reads of
    each round of `decidable`. -/
theorem site_follow_cache_get_index (G : Grammar) (fuel : Nat) :
    (∀ k, k ≤ maxKConst → followCodeG G fuel k = some (followCode G fuel k)) ∧
    ∀ A k, k ≤ maxKConst → laSetsG G fuel A k = some (laSets G fuel A k) :=
  ⟨followCodeG_eq G fuel, fun A _ hk => laSetsG_eq G fuel A hk⟩

/-- Stage `decidable` / `calculate_k_tuples`: for a lookahead limit `K ≤ MAX_K` the guarded model
    never takes the index-out-of-bounds branch — it IS the unguarded model of C05 (whose outcomes
    are `Ok`, `MaxKExceeded`, "not part of the grammar" and the model's fuel); and `decidable`
    never answers more than the limit. -/
theorem stage_total_decision (G : Grammar) (fuel K : Nat) (hK : K ≤ maxKConst) :
    (∀ A, decidableG G fuel A K = some (decidableM G fuel A K)) ∧
    calculateKTuplesG G fuel K = some (calculateKTuples G fuel K) ∧
    ∀ A k, decidableM G fuel A K = .ok k → k ≤ K :=
  ⟨fun A => decidableG_eq G fuel A hK, calcTuplesLoopG_eq G fuel hK _ _, fun _ _ h => decidableM_ok_le h⟩

/-- `pre_established` for the cache slots: a lookahead limit that went through
    `Builder::max_lookahead` is at most `MAX_K`. (The public function
    `calculate_lookahead_dfas(cfg, max_k)` performs no such check — `f37_witness`.) -/
theorem pre_established_decision (K k : Nat) (h : builderMaxLookahead K = some k) : k = K ∧ K ≤ maxKConst := by
  unfold builderMaxLookahead at h
  split at h
  · cases h
  · injection h with h
    exact ⟨h.symm, by omega⟩

/-- `S: "a" | "a";` — the grammar of finding F37. -/
def gF37 : Grammar := ⟨0, [⟨0, [.t 5]⟩, ⟨0, [.t 5]⟩]⟩

set_option maxRecDepth 100000 in
/-- **Finding F37 (witness)**: with limit 11 the guarded model of `decidable` reaches slot 11 of
    the 11-slot caches — the index panic the exploration harness reproduces through the public
    `calculate_lookahead_dfas`; with limit 10 the same grammar is rejected with `MaxKExceeded`. -/
theorem f37_witness : decidableG gF37 4 0 11 = none ∧ calculateKTuplesG gF37 4 11 = none ∧
    calculateKTuplesG gF37 4 10 = some (.err 0 .errMaxK) := by decide

/-- Site `calculate_lookahead_dfas` (`cfg[*i]`): every key of the map `calculate_k_tuples` returns
    is the index of a production of the grammar. -/
theorem site_calculate_lookahead_dfas_index (G : Grammar) (fuel K : Nat) (m : List (Nat × TSet))
    (h : calculateKTuples G fuel K = .ok m) : ∀ q ∈ m, ∃ p, G.prods[q.1]? = some p :=
  calcTuplesLoop_keys _ [] m h (fun _ hq => by cases hq)

/-! ## the composed generator model -/

/-- **`genTables` has no panic outcome** (Model/Pipeline.lean: `calculate_lookahead_dfas` +
    `CompiledDFA::from_lookahead_dfa` + table layout as ONE function): for every grammar parol has
    accepted for LL(k) (`PipelineHyp`), every lookahead limit and every fuel, the generator model
    never answers `panic` — neither from `unite`'s state lookups, nor from the minimisation, nor
    from an empty list of alternatives. -/
theorem genTables_no_panic (G : Grammar) (K fuel : Nat) (hG : PipelineHyp G) :
    genTables G K fuel ≠ .error .panic := by
  obtain ⟨hprod, hreach, hnlr⟩ := pre_established_analysis G hG.pass
  intro h
  unfold genTables at h
  split at h
  · rename_i A e he
    injection h with h
    cases e with
    | ok k => exact calcTuplesLoop_err _ _ he k rfl
    | errMaxK => cases h
    | errNotPart => cases h
    | fuel => cases h
  · split at h
    · rename_i e he
      injection h with h
      subst h
      obtain ⟨A, _, hA⟩ := genAutos_error _ he
      exact genAuto_ne_panic fuel K A (noEoi_of_B hG.noEoi) hprod hreach hnlr hA
    · cases h

/-- The same for one non-terminal's automaton. -/
theorem genAuto_no_panic (G : Grammar) (K fuel A : Nat) (hG : PipelineHyp G) :
    genAuto G fuel K A ≠ .error .panic := by
  obtain ⟨hprod, hreach, hnlr⟩ := pre_established_analysis G hG.pass
  exact genAuto_ne_panic fuel K A (noEoi_of_B hG.noEoi) hprod hreach hnlr

/-- **All outcomes of the generator model** on an accepted grammar: tables, `MaxKExceeded`,
    "non-terminal isn't part of the grammar", or the fuel of the MODEL's FIRST/FOLLOW fixpoint
    loops (termination of those loops is not proved) — never `panic`, never `conflict`. -/
theorem genTables_outcomes (G : Grammar) (K fuel : Nat) (hG : PipelineHyp G) :
    (∃ T, genTables G K fuel = .ok T) ∨ genTables G K fuel = .error .maxK ∨
      genTables G K fuel = .error .notPart ∨ genTables G K fuel = .error .fuel := by
  cases h : genTables G K fuel with
  | ok T => exact Or.inl ⟨T, rfl⟩
  | error e =>
    cases e with
    | maxK => exact Or.inr (Or.inl rfl)
    | notPart => exact Or.inr (Or.inr (Or.inl rfl))
    | fuel => exact Or.inr (Or.inr (Or.inr rfl))
    | conflict => exact absurd h (pipeline_no_false_conflict G K fuel hG)
    | panic => exact absurd h (genTables_no_panic G K fuel hG)

/-! ## the updated table -/

/-- Shape and totals of the UPDATED table: 191 constructs as before; 128 discharged by named
    theorems (was 111), 42 by inspection, 9 off the generation path, 12 open (was 29). The chain has
    10 links, 9 with a totality theorem (was 7: + decision, minimisation; first/follow has none —
    its models have no panic branch), 9 with a `pre_established` theorem (was 7: + lookahead
    automata, minimisation; the Terminals limit stays unestablished — finding F10). -/
theorem table_shape2 :
    panicSites2.length = panicSites.length ∧
    panicSites2.all (fun s => (s.how == .theorem) == !s.dischargedBy.isEmpty) = true ∧
    ((panicSites2.map (·.count)).foldl (· + ·) 0 = 191) ∧
    (((panicSites2.filter (·.how == .theorem)).map (·.count)).foldl (· + ·) 0 = 128) ∧
    (((panicSites2.filter (·.how == .localguard)).map (·.count)).foldl (· + ·) 0 = 39) ∧
    (((panicSites2.filter (·.how == .constant)).map (·.count)).foldl (· + ·) 0 = 3) ∧
    (((panicSites2.filter (·.how == .offpath)).map (·.count)).foldl (· + ·) 0 = 9) ∧
    (((panicSites2.filter (·.how == .open)).map (·.count)).foldl (· + ·) 0 = 12) ∧
    chain2.length = 10 ∧ (chain2.filter (·.totalBy.isSome)).length = 9 ∧
    (chain2.filter (·.preEstablishedBy.isSome)).length = 9 := by
  decide

/-- (function, kind, multiplicity) of the sites no theorem covers -/
def remainingOpen : List (String × String × Nat) :=
  (panicSites2.filter (·.how == .open)).map fun s => (s.func, s.kind, s.count)

/-- **What remains open** after this module: the `unreachable!`s for the deprecated `Symbol`
    variants (front-end invariant, `unreachable_iff_deprecated_symbol`), the `k`-field assertions
    of `KTuples` (the set model carries no `k` field), and helpers outside the modelled pipeline. -/
theorem remaining_open : remainingOpen = [
    ("compile_production_equation", "unreachable!", 2),
    ("update_production_equations", "unreachable!", 2),
    ("KTuples::insert", "debug_assert", 1),
    ("KTuples::union_in_place", "debug_assert", 2),
    ("detect_left_recursive_non_terminals", "unreachable!", 1),
    ("nt_producing_productions", "unwrap", 1),
    ("reachable_from_production", "index", 1),
    ("Cfg::get_primary_non_terminal_finder", "unwrap", 1),
    ("Cfg::index", "index", 1)] := by
  decide

/-! ## non-vacuity -/

/-- the minimisation theorem applies to the `ItemsList` example of C07 and the model succeeds -/
example : ∃ d c, uniteAll true 2 exSets = some (.ok d) ∧ compileDfa d [3, 1, 4] = some c :=
  compile_chain_total 2 (setsOk_sound (by decide)) (by decide) _

/-- the generator theorem applies to `S: A "b"; A: ; A: "a";` -/
example : genTables gPipe 3 20 ≠ .error .panic := genTables_no_panic gPipe 3 20 gPipe_hyp

/-- the refined fold: `a b N c` gives the parts `[a b] [N] [c]`; a deprecated variant stops it -/
example : partsOf [.t 5, .t 6, .n 1, .t 7] = some [[.t 5, .t 6], [.n 1], [.t 7]] ∧
    partsOf [.t 5, .other] = none := by decide

/-! ## every theorem named by the updated table and chain exists -/

open Lean Elab Command in
run_cmd do
  let env ← getEnv
  let names := (panicSites2.flatMap (·.dischargedBy)) ++ chain2.filterMap (·.totalBy) ++
    chain2.filterMap (·.preEstablishedBy)
  for s in names do
    match env.find? s.toName with
    | some (.thmInfo _) => pure ()
    | _ => throwError "C26b: the updated panic-site table names `{s}`, which is not a theorem of the project"

end ParolModel.Panic
