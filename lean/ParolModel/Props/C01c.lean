import ParolModel.Proofs.PipelineMain
import ParolModel.Props.C01b
import ParolModel.Props.C26
/-! # C01 (third part) — the generator and the runtime together

Property text (C01): *For every grammar parol accepts for LL(k) generation and every input token
sequence, the generated parser reports success if and only if the sequence is a sentence of the
grammar.*

`Props/C01.lean` and `Props/C01b.lean` prove this for the runtime model `llRun` *relative to tables*
that are sound (`TablesSound`) and exact (`TablesExact`, implied by `SetsExact`). C05, C06, C07 and
C08 prove the pieces of the table generator separately. This module closes the chain: ONE executable
function `genTables` (`Model/Pipeline.lean`) composes the existing models of
`calculate_k_tuples`/`decidable`, `first_k`/`follow_k`, `LookaheadDFA::from_k_tuples`/`unite`,
`CompiledDFA::from_lookahead_dfa` (+ minimisation) and the table layout of `parser_generator.rs`
in the order `calculate_lookahead_dfas` / `generate_parser_export_model` compose the real ones, and
the theorems below are about that function (tie D `c01c`: byte-identical tables on random BNF
grammars fed untransformed to the real `calculate_lookahead_dfas` + real table layout).

Hypotheses (`PipelineHyp G`, all three decided by executable checkers):

* `pass` — `checkGrammar G true [] = .ok .passed`: the model of `check_and_transform_grammar`'s three
  checks (C11, `check_rejects_iff`) passes, i.e. every non-terminal is productive and reachable and
  there is no (hidden) left recursion. parol establishes this before the LL(k) stage
  (`pre_established_analysis`, Props/C26.lean).
* `noEoi` — no terminal is numbered 0 (the end-of-input token; parol numbers user terminals from 5).
* `dense` — the non-terminals are `0..n-1`. The generated tables refer to non-terminals by their
  position in the alphabetical list; with dense numbers that position is the number itself, so the
  tables denote `G` itself (`gOf T = G`) and not a renamed copy. (The harness's grammars `N00`, `N01`, …
  and parol's own transformed grammars, read in that numbering, are dense.)

No fuel hypothesis: the theorems are about successful runs of `genTables`; the fixpoint
computations that were needed have then finished. No hypothesis on `K`. -/
namespace ParolModel
open KS

/-- what parol has checked before the LL(k) stage, plus the two numbering conventions -/
structure PipelineHyp (G : Grammar) : Prop where
  pass : checkGrammar G true [] = .ok .passed
  noEoi : noEoiB G = true
  dense : ntsDenseB G = true

theorem pipelineHypB_sound {G : Grammar} (h : pipelineHypB G = true) : PipelineHyp G := by
  simp only [pipelineHypB, Bool.and_eq_true, decide_eq_true_eq] at h
  exact ⟨h.1.1, h.1.2, h.2⟩

/-- **The generated tables are exact and sound and denote the grammar.** For every grammar of the
    class and every lookahead limit `K`: if the generator (the composition of the models of
    `calculate_lookahead_dfas` and of the table layout) succeeds with tables `T`, then every
    non-terminal's compiled, minimised automaton accepts exactly the strong-LL(k) lookahead strings
    `FIRST_k(α) ⊙_k FOLLOW_k(A)` of the alternatives of `A` at its own depth `k` (`SetsExact T`, the
    premise of `ll_complete_of_sets`), every production number an automaton can answer belongs to
    its non-terminal (`TablesSound T`, the premise of `ll_sound`), and the production table is the
    grammar (`gOf T = G`). -/
theorem pipeline_tables_exact (G : Grammar) (K fuel : Nat) (T : LLTables)
    (hG : PipelineHyp G) (h : genTables G K fuel = .ok T) :
    SetsExact T ∧ TablesSound T ∧ gOf T = G := by
  obtain ⟨hprod, hreach, hnlr⟩ := Panic.pre_established_analysis G hG.pass
  have hno := noEoi_of_B hG.noEoi
  have hd := ntsDense_of_B hG.dense
  exact ⟨genTables_setsExact hd hno hprod hreach hnlr h,
    genTables_tablesSound hd hno hprod hreach hnlr h, (genTables_facts hd h).gof⟩

/-- … hence exact prediction by the runtime `eval` on every reachable configuration
    (`TablesExact`, through C08). -/
theorem pipeline_tables_predict (G : Grammar) (K fuel : Nat) (T : LLTables)
    (hG : PipelineHyp G) (h : genTables G K fuel = .ok T) : TablesExact T :=
  tablesExact_of_sets T (pipeline_tables_exact G K fuel T hG h).1

/-- **C01 for generator + runtime**: *"the generated parser reports success if and only if the
    sequence is a sentence of the grammar"* — for every grammar of the class that the model
    generator accepts (with any lookahead limit `K`), every token sequence (whatever skip tokens and
    comments are interleaved) and all parser options without a depth limit, the model of
    `LLKParser::parse_into` running on the generated tables succeeds iff the significant token
    types form a sentence of `G`. -/
theorem pipeline_end_to_end (G : Grammar) (K fuel : Nat) (T : LLTables)
    (hG : PipelineHyp G) (h : genTables G K fuel = .ok T) (toks : List MTok) (o : Opts)
    (ho : o.maxDepth = none) :
    (∃ fuel', (llRun T o fuel' toks).res = .ok) ↔ Lang G (sigTypes toks) := by
  obtain ⟨hsets, hsound, hg⟩ := pipeline_tables_exact G K fuel T hG h
  have := ll_accepts_iff T hsound (tablesExact_of_sets T hsets) o toks ho
  rwa [hg] at this

/-- Soundness needs no option hypothesis: with a depth limit, trimming or recovery the generated
    parser still never accepts a non-sentence. -/
theorem pipeline_sound (G : Grammar) (K fuel : Nat) (T : LLTables)
    (hG : PipelineHyp G) (h : genTables G K fuel = .ok T) (toks : List MTok) (o : Opts) (fuel' : Nat)
    (hok : (llRun T o fuel' toks).res = .ok) : Lang G (sigTypes toks) := by
  obtain ⟨_, hsound, hg⟩ := pipeline_tables_exact G K fuel T hG h
  have := ll_sound T o fuel' toks hsound hok
  rwa [hg] at this

/-- Explicit fuel for the runtime: a sentence with a derivation of `m` production applications is
    accepted by the generated parser within `|w| + 2·m` loop iterations, calling `m` actions. -/
theorem pipeline_complete_explicit (G : Grammar) (K fuel : Nat) (T : LLTables)
    (hG : PipelineHyp G) (h : genTables G K fuel = .ok T) (toks : List MTok) (o : Opts)
    (ho : o.maxDepth = none) (m : Nat) (hw : YieldN G m [.n G.start] (sigTypes toks))
    (fuel' : Nat) (hf : (sigTypes toks).length + 2 * m ≤ fuel') :
    (llRun T o fuel' toks).res = .ok ∧ (llRun T o fuel' toks).actions.length = m := by
  obtain ⟨hsets, _, hg⟩ := pipeline_tables_exact G K fuel T hG h
  have hst : T.start = G.start := by rw [← hg]; rfl
  have hw' : YieldN (gOf T) m [.n T.start] (sigTypes toks) := by rw [hg, hst]; exact hw
  obtain ⟨h1, _, h3⟩ := ll_complete_explicit T (tablesExact_of_sets T hsets) o toks ho m hw' fuel' hf
  exact ⟨h1, h3⟩

/-- **The per-non-terminal link** (C05's sets through C07's construction, the statement of
    `AutomatonExact` in terms of the grammar): the automaton the generator builds for `A` predicts
    production `j` on the token string `t` exactly when `j` is an alternative of `A` and `t` one of
    its strong-LL(k) lookahead strings at the automaton's own depth; and it never carries another
    production number. -/
theorem pipeline_automaton_exact (G : Grammar) (K fuel A : Nat) (c : LaDfa) (hG : PipelineHyp G)
    (h : genAuto G fuel K A = .ok c) :
    sortedTrans c.trans = true ∧
    (∀ (t : List Nat) (q : Int), runRef c 0 c.prod0 t = some q ↔
      ∃ (j : Nat) (p : Rule), q = (j : Int) ∧ G.prods[j]? = some p ∧ p.lhs = A ∧ LA G c.k A p.rhs t) ∧
    (∀ q ∈ dfaProds c, q > -1 →
      ∃ (j : Nat) (p : Rule), q = (j : Int) ∧ G.prods[j]? = some p ∧ p.lhs = A) := by
  obtain ⟨hprod, hreach, hnlr⟩ := Panic.pre_established_analysis G hG.pass
  have E := genAuto_exact (noEoi_of_B hG.noEoi) hprod hreach hnlr h
  exact ⟨E.sorted, E.run, E.vals⟩

/-- **Depth of the generated automaton.** `LookaheadDFA.k` is "the length of the longest tuple", not
    the `k` that `decidable` assigned to the non-terminal. It is never larger than that `k`, and the
    strong-LL lookahead sets of the alternatives of `A` at both depths coincide — which is why the
    runtime's `eval`, reading `LookaheadDFA.k` tokens, is exact. -/
theorem pipeline_automaton_depth (G : Grammar) (K fuel A k : Nat) (c : LaDfa) (hG : PipelineHyp G)
    (h : genAuto G fuel K A = .ok c) (hk : decidableM G fuel A K = .ok k) :
    c.k ≤ k ∧ ∀ (j : Nat) (p : Rule), G.prods[j]? = some p → p.lhs = A →
      ∀ t, LA G c.k A p.rhs t ↔ LA G k A p.rhs t := by
  obtain ⟨hprod, hreach, hnlr⟩ := Panic.pre_established_analysis G hG.pass
  have hno := noEoi_of_B hG.noEoi
  obtain ⟨k', sets, d, hdec, hsets, hd, hc⟩ := genAuto_inv h
  rw [hk] at hdec
  injection hdec with hdec
  subst hdec
  have hck : c.k = d.k := minimizeC_k hc
  rcases decidableM_ok_inv hk with ⟨rfl, _, _⟩ | ⟨hk1, sets', hsets', hdis⟩
  · obtain ⟨_, hnil⟩ := laSets_zero_nil hno hsets
    have : d.k ≤ 0 := uniteAll_k_le hd (fun q hq t ht => by rw [hnil q hq t ht]; simp)
    have h0 : c.k = 0 := by omega
    rw [h0]
    exact ⟨Nat.le_refl _, fun _ _ _ _ _ => Iff.rfl⟩
  · rw [hsets] at hsets'
    injection hsets' with hsets'
    subst hsets'
    obtain ⟨i0, p0, hp0, hl0⟩ := decidableM_ok_prod hk
    obtain ⟨hc1, hc2⟩ := laSets_some_comp hsets
    have hspecAt := setsAreSpecAt_of_class hno hprod hreach hnlr hk1 hc1 hc2
    have hne : ∃ f, FollowK G k A f := by
      obtain ⟨f, hf⟩ := followKc_inh hreach (List.mem_of_getElem? hp0) k
      exact ⟨f, hl0 ▸ followK_iff_ctx.2 hf⟩
    have hspec := laSets_spec hk1 hno hspecAt hne hsets
    have hup : d.k ≤ k := by
      apply uniteAll_k_le hd
      intro q hq t ht
      obtain ⟨p, _, _, hmem⟩ := hspec.mem q hq
      exact LA_length_le ((hmem t).1 ht)
    refine ⟨by omega, ?_⟩
    intro j p hj hl t
    apply LA_eq_of_short (by omega)
    intro t' ht'
    obtain ⟨S, hS, hmem⟩ := hspec.of_prod hj hl
    have := uniteAll_k hd (j, S) hS t' ((hmem t').2 ht')
    omega

/-- **What the tables denote, without any hypothesis**: the production table of every successful
    run of the generator is the grammar with each non-terminal replaced by its position in the
    alphabetical non-terminal list (`ntIndex`, the identity for dense numbers — then this is
    `gOf T = G` of `pipeline_tables_exact`). -/
theorem pipeline_tables_denote (G : Grammar) (K fuel : Nat) (T : LLTables)
    (h : genTables G K fuel = .ok T) : gOf T = renameG (ntIndex G) G :=
  genTables_gOf h

/-- **No false conflict**: for a grammar of the class the generator never answers `Conflict in union
    operation` — when `decidable` found the lookahead sets of a non-terminal pairwise disjoint, the
    tries of its alternatives unite without clash (C07 `unite_no_false_conflict` at C05's sets). -/
theorem pipeline_no_false_conflict (G : Grammar) (K fuel : Nat) (hG : PipelineHyp G) :
    genTables G K fuel ≠ .error .conflict := by
  obtain ⟨hprod, hreach, hnlr⟩ := Panic.pre_established_analysis G hG.pass
  intro h
  unfold genTables at h
  split at h
  · rename_i A e _
    injection h with h
    cases e <;> simp [GenErr.ofDec] at h
  · split at h
    · rename_i e he
      injection h with h
      subst h
      obtain ⟨A, _, hA⟩ := genAutos_error _ he
      exact genAuto_no_conflict (noEoi_of_B hG.noEoi) hprod hreach hnlr hA
    · cases h

/-! ## non-vacuity

`S: A "b"; A: ; A: "a";` (`KS.Gex`, with the terminals renumbered 5, 6 in order of first
occurrence): the hypotheses hold, the generator succeeds, the tables are those parol generates, and
the end-to-end theorem applies. -/

def gPipe : Grammar := ⟨0, [⟨0, [.n 1, .t 5]⟩, ⟨1, []⟩, ⟨1, [.t 6]⟩]⟩

example : pipelineHypB gPipe = true := by decide

theorem gPipe_hyp : PipelineHyp gPipe := pipelineHypB_sound (by decide)

def tPipe : LLTables :=
  ⟨0, [⟨0, [.t 5, .n 1], false⟩, ⟨1, [], false⟩, ⟨1, [.t 6], false⟩],
   [⟨0, [], 0⟩, ⟨-1, [⟨0, 5, 1, 1⟩, ⟨0, 6, 2, 2⟩], 1⟩]⟩

theorem gPipe_tables : genTables gPipe 3 20 = .ok tPipe := by decide

example (l : List Nat) (o : Opts) (ho : o.maxDepth = none) :
    (∃ fuel, (llRun tPipe o fuel (exToks l)).res = .ok) ↔ Lang gPipe (sigTypes (exToks l)) :=
  pipeline_end_to_end gPipe 3 20 tPipe gPipe_hyp gPipe_tables _ o ho

example : (llRun tPipe ⟨false, false, none⟩ 100 (exToks [6, 5])).res = .ok ∧
    (llRun tPipe ⟨false, false, none⟩ 100 (exToks [5])).res = .ok ∧
    (llRun tPipe ⟨false, false, none⟩ 100 (exToks [6])).res ≠ .ok := by decide

/-- a grammar that needs two tokens: `S: "a" "b" | "a" "c";` gets `k = 2` -/
example : (genTables ⟨0, [⟨0, [.t 5, .t 6]⟩, ⟨0, [.t 5, .t 7]⟩]⟩ 3 20).toOption.map (fun T => T.dfas.map (·.k))
    = some [2] := by decide

/-- the generator rejects what is not strong-LL(K), and names the kind of failure -/
example : genTables ⟨0, [⟨0, [.t 5]⟩, ⟨0, [.t 5]⟩]⟩ 3 20 = .error .maxK := by decide
example : genTables ⟨0, [⟨0, [.n 1]⟩]⟩ 3 20 = .error .notPart := by decide

/-- the hypotheses are not vacuous the other way: a left-recursive grammar, a grammar using
    terminal 0 and a grammar with a gap in its non-terminal numbers fail the check -/
example : pipelineHypB ⟨0, [⟨0, [.n 0, .t 5]⟩, ⟨0, [.t 5]⟩]⟩ = false ∧
    pipelineHypB ⟨0, [⟨0, [.t 0]⟩]⟩ = false ∧
    pipelineHypB ⟨0, [⟨0, [.n 2]⟩, ⟨2, [.t 5]⟩]⟩ = false := by decide

end ParolModel
