import ParolModel.Proofs.LaDfa
/-! # C08 — Runtime production prediction is exact, also on erroneous input

Property text: *At run time, the parser predicts production p for a non-terminal only if the
upcoming tokens begin with one of p's lookahead strings; if they begin with none, it reports a
prediction error for that non-terminal instead of guessing. Unmatched tokens are never skipped over
while reading lookahead.*

Formalisation. The automaton `d` (transition list as generated, sorted by (from, terminal)) defines
the reference run `runRef`; "the tokens begin with one of p's lookahead strings" is
`∃ n ≤ k, runRef d 0 d.prod0 (la.take n) = some p` — a *contiguous prefix* of the lookahead, which
is also what "unmatched tokens are never skipped" means. `eval d true` mirrors the current
`LookaheadDFA::eval`; `eval d false` mirrors it before the `fix:` for finding F2. -/
namespace ParolModel

/-- **C08 soundness**: a predicted production is accepted by a contiguous prefix (length ≤ k) of
    the lookahead tokens. -/
theorem eval_sound (d : LaDfa) (hs : sortedTrans d.trans = true) (la : List Nat) (p : Int)
    (h : eval d true la = .ok p) :
    ∃ n, n ≤ d.k ∧ runRef d 0 d.prod0 (la.take n) = some p := by
  unfold eval at h
  obtain ⟨pre', ⟨x, hx⟩, _, hI, _⟩ := evalLoop_inv d hs (la.take d.k) [] (evalInit d) (inv_init d)
  simp only [List.nil_append] at hx
  have hlen : pre'.length ≤ d.k := by
    have := congrArg List.length hx
    simp only [List.length_append, List.length_take] at this
    omega
  have hpre : ∀ n, n ≤ pre'.length → la.take n = pre'.take n := by
    intro n hn
    have h1 : (la.take d.k).take n = la.take n := by
      rw [List.take_take]; congr 1; omega
    rw [← h1, ← hx, List.take_append_of_le_length hn]
  generalize evalLoop d true (la.take d.k) (evalInit d) = s at h hI
  simp only at h
  split at h
  · rename_i hp
    injection h with h; subst h
    refine ⟨pre'.length, hlen, ?_⟩
    rw [hpre _ (Nat.le_refl _), List.take_length, runRef_of_path hI.path]
    simp [hp]
  · split at h
    · rename_i a ha
      split at h
      · rename_i hl
        injection h with h; subst h
        obtain ⟨n, hn, hr⟩ := hI.acc a ha hl
        exact ⟨n, by omega, by rw [hpre n hn]; exact hr⟩
      · cases h
    · cases h

/-- **C08 error exactness (i)**: if no prefix of the lookahead is accepted, the result is a
    prediction error or the (debug-assertion) failure — never a guessed production. -/
theorem eval_no_guess (d : LaDfa) (hs : sortedTrans d.trans = true) (la : List Nat)
    (h : ∀ n, n ≤ d.k → runRef d 0 d.prod0 (la.take n) = none) (p : Int) :
    eval d true la ≠ .ok p := by
  intro he
  obtain ⟨n, hn, hr⟩ := eval_sound d hs la p he
  rw [h n hn] at hr; cases hr

/-- **C08 error exactness (ii)**: a prediction error is reported only if no prefix (≤ k) of the
    lookahead is accepted — the parser does not give up when a lookahead string matches. -/
theorem eval_error_only_if_no_prefix (d : LaDfa) (hs : sortedTrans d.trans = true) (la : List Nat)
    (h : eval d true la = .predictError) :
    ∀ n, n ≤ d.k → runRef d 0 d.prod0 (la.take n) = none := by
  unfold eval at h
  obtain ⟨pre', ⟨x, hx⟩, _, hI, hend⟩ := evalLoop_inv d hs (la.take d.k) [] (evalInit d) (inv_init d)
  simp only [List.nil_append] at hx hend
  generalize evalLoop d true (la.take d.k) (evalInit d) = s at h hI hend
  simp only at h
  split at h
  · cases h
  · rename_i hp
    split at h
    · split at h <;> cases h
    · rename_i hnone
      intro n hn
      have h1 : (la.take d.k).take n = la.take n := by
        rw [List.take_take]; congr 1; omega
      by_cases hle : n ≤ pre'.length
      · rw [← h1, ← hx, List.take_append_of_le_length hle]
        exact hI.accNone hnone n hle
      · -- longer prefixes: the path is stuck right after pre'
        rcases hend with hall | ⟨tok, y, hy, hstuck⟩
        · -- everything consumed: take n of (la.take k) = pre' itself
          have : (la.take d.k).take n = pre' := by
            rw [← hall]; exact List.take_of_length_le (by omega)
          rw [← h1, this]
          have := hI.accNone hnone pre'.length (Nat.le_refl _)
          rwa [List.take_length] at this
        · have hx' : la.take d.k = pre' ++ tok :: y := hy.symm
          have hstuck1 : pathState d 0 d.prod0 (pre' ++ [tok]) = none := by
            rw [pathState_snoc d pre' 0 d.prod0 tok _ _ hI.path, hstuck]; rfl
          have : (la.take d.k).take n = (pre' ++ [tok]) ++ (y.take (n - pre'.length - 1)) := by
            rw [hx']
            have e : pre' ++ tok :: y = (pre' ++ [tok]) ++ y := by simp
            rw [e, List.take_append]
            have hl : (pre' ++ [tok]).length ≤ n := by simp; omega
            rw [List.take_of_length_le hl]
            have e2 : n - (pre' ++ [tok]).length = n - pre'.length - 1 := by simp; omega
            rw [e2]
          rw [← h1, this, runRef_eq_pathState, pathState_stuck_append d _ _ _ _ hstuck1]
          rfl

/-- The debug assertion can only fire when state 0 is accepting although it has an outgoing
    transition on the first lookahead token (never the case for automata parol generates: an
    accepting start state means the ε-tuple, i.e. k = 0 and no transitions). -/
theorem eval_assertFail_only_if (d : LaDfa) (la : List Nat) (h : eval d true la = .assertFail) :
    d.prod0 > -1 ∧ d.trans ≠ [] := by
  unfold eval at h
  -- lastProd stays -1 only while no accepting transition was taken; lastAcc = some _ then stems from prod0
  have key : ∀ (rest : List Nat) (s : St), (s.lastAcc.isSome → s.lastProd ≤ -1 → d.prod0 > -1) →
      ((evalLoop d true rest s).lastAcc.isSome → (evalLoop d true rest s).lastProd ≤ -1 → d.prod0 > -1) := by
    intro rest
    induction rest with
    | nil => intro s hs; simpa [evalLoop] using hs
    | cons tok rest ih =>
      intro s hs
      simp only [evalLoop]
      cases scan s.state tok d.trans false with
      | none => simpa using hs
      | some tr =>
        simp only []
        apply ih
        by_cases hp : tr.prod > -1
        · simp only [hp, if_true]; intro _ hl; omega
        · simp only [hp, if_false]; exact hs
  have h0 : (evalInit d).lastAcc.isSome → (evalInit d).lastProd ≤ -1 → d.prod0 > -1 := by
    intro ha _
    simp only [evalInit] at ha
    split at ha
    · assumption
    · cases ha
  have hk := key (la.take d.k) (evalInit d) h0
  have htr : d.trans = [] → evalLoop d true (la.take d.k) (evalInit d) = evalInit d := by
    intro he
    generalize la.take d.k = l
    cases l with
    | nil => rfl
    | cons t l => simp [evalLoop, he, scan]
  generalize hgen : evalLoop d true (la.take d.k) (evalInit d) = s at h hk htr
  simp only at h
  split at h
  · cases h
  · rename_i hp
    split at h
    · rename_i a ha
      split at h
      · cases h
      · rename_i hl
        have hp0 := hk (by simp [ha]) (by omega)
        refine ⟨hp0, ?_⟩
        intro he
        have := htr he
        subst this
        simp only [evalInit] at hp
        omega
    · cases h

/-- Non-vacuity and the historical defect F2: before the repair the unmatched token `7` was passed
    over and production 3 was predicted although no prefix of `7 6` is accepted. -/
def d1 : LaDfa := ⟨-1, [⟨0, 5, 1, -1⟩, ⟨0, 6, 2, 3⟩], 2⟩
example : sortedTrans d1.trans = true := by decide
theorem eval_unfixed_counterexample :
    eval d1 false [7, 6] = .ok 3 ∧ ∀ n, n ≤ d1.k → runRef d1 0 d1.prod0 ([7, 6].take n) = none := by
  decide
example : eval d1 true [7, 6] = .predictError := by decide
example : eval d1 true [6, 7] = .ok 3 := by decide
example : eval d1 true [5, 6] = .predictError := by decide

end ParolModel
