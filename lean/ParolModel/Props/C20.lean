import ParolModel.Proofs.LLSim
import ParolModel.Model.LR
/-! # C20 — Parser options do not change parse outcomes

Property text: *Trimming the parse tree, disabling recovery, and setting a depth limit that the input
does not reach never change whether an input is accepted or the sequence of semantic actions
performed. An input that exceeds the depth limit yields the depth-limit error rather than a crash.*

LL(k) parser model `llRun` (tied to `LLKParser::parse_into` by the exact differential run over ALL
option combinations per input). `LLOut.core` is (result, action trace, comments, step count). The
recovery flag: the model stops at the first syntax error and never reads the flag
(`ll_recovery_flag_irrelevant` is therefore about the modelled part — verdict, position of the first
error, actions performed before it); that the real parser's verdict and action trace coincide for
recovery on/off is checked by the tie on every input (the runtime suppresses actions after the
first error in both settings). For the LR parser the option theorems are not proved yet
(`LRTrimIrrelevant`); the tie covers all option combinations. -/
namespace ParolModel

/-- **Trimming and the recovery flag (LL)**: two option records that agree on the depth limit give
    the same result, the same action trace, the same comment trace and the same step count. -/
theorem ll_trim_recovery_irrelevant (T : LLTables) (o o' : Opts) (fuel : Nat) (toks : List MTok)
    (h : o.maxDepth = o'.maxDepth) :
    (llRun T o fuel toks).core = (llRun T o' fuel toks).core := by
  rw [llRun_core, llRun_core, h]

theorem ll_trim_irrelevant (T : LLTables) (o : Opts) (fuel : Nat) (toks : List MTok) (b : Bool) :
    (llRun T { o with trim := b } fuel toks).core = (llRun T o fuel toks).core :=
  ll_trim_recovery_irrelevant T _ _ fuel toks rfl

theorem ll_recovery_flag_irrelevant (T : LLTables) (o : Opts) (fuel : Nat) (toks : List MTok) (b : Bool) :
    (llRun T { o with recovery := b } fuel toks).core = (llRun T o fuel toks).core :=
  ll_trim_recovery_irrelevant T _ _ fuel toks rfl

/-- **Depth limit (LL)**: a run with depth limit `m` either coincides with the unlimited run in
    result, actions, comments and steps (the limit was not reached), or it ends with the
    depth-limit error `MaxParsingDepthExceeded { depth }` for a depth exceeding the limit — never
    with anything else. -/
theorem ll_depth_limit (T : LLTables) (o : Opts) (fuel : Nat) (toks : List MTok) (m : Nat) :
    (llRun T { o with maxDepth := some m } fuel toks).core = (llRun T { o with maxDepth := none } fuel toks).core ∨
    ∃ d, d > m ∧ (llRun T { o with maxDepth := some m } fuel toks).res = .depth d := by
  rw [llRun_core, llRun_core]
  rcases llCoreRun_depth T m fuel toks with h | ⟨d, hd, h⟩
  · exact Or.inl h
  · refine Or.inr ⟨d, hd, ?_⟩
    have := llRun_core T { o with maxDepth := some m } fuel toks
    have hres : (llRun T { o with maxDepth := some m } fuel toks).res =
        (llRun T { o with maxDepth := some m } fuel toks).core.res := rfl
    rw [hres, this]; exact h

/-- A depth limit that is not exceeded changes nothing: if the limited run does not end with a
    depth error, it coincides with the unlimited run. -/
theorem ll_depth_unreached_irrelevant (T : LLTables) (o : Opts) (fuel : Nat) (toks : List MTok) (m : Nat)
    (h : ∀ d, (llRun T { o with maxDepth := some m } fuel toks).res ≠ .depth d) :
    (llRun T { o with maxDepth := some m } fuel toks).core = (llRun T { o with maxDepth := none } fuel toks).core := by
  rcases ll_depth_limit T o fuel toks m with h1 | ⟨d, _, h2⟩
  · exact h1
  · exact absurd h2 (h d)

/-- Full statement for the LR parser (NOT proved yet; the differential tie runs every option
    combination on every input). -/
def LRTrimIrrelevant : Prop :=
  ∀ (T : LRTables) (o : Opts) (fuel : Nat) (toks : List MTok) (b : Bool),
    (lrRun T { o with trim := b } fuel toks).res = (lrRun T o fuel toks).res ∧
    (lrRun T { o with trim := b } fuel toks).actions = (lrRun T o fuel toks).actions

end ParolModel
