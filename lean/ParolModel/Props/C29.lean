import ParolModel.Proofs.LsProto
/-! # C29 — Language-server diagnostics reflect the latest document version

Property text: *After any sequence of open/change notifications for a document and once all
background analyses have finished, the last diagnostics the server published for it are those of
the final text alone, tagged with the final version, regardless of how background analyses
interleave with later edits.*

The statement is about the protocol machine of `Model/LsProto.lean`, a step-by-step mirror of
`handle_open_document` / `handle_change_document` / `analyze` / `check_grammar` in
`crates/parol-ls/src/server.rs` (tie D: `harness/src/ls/c29.rs` drives the real `Server` through a
gate in the background thread and compares the published notifications with the machine's trace
for every interleaving of a small scope). Texts, their two verdicts (`Sem.syncFails`,
`Sem.asyncYields`) and the content of their diagnostics are uninterpreted.

The unchanged code does **not** satisfy the property (findings F8 and F38), so this module keeps
the full statement as a `def`, proves its negation for the faithful machine on two minimal
histories, proves it for restricted schedules (`last_publish_partial`, `last_publish_timely`) and
proves it for the machine with both repairs switched on, for ALL histories and ALL schedules
(`last_publish_is_final_fixed`). The repairs are the counterfactual switches the check uses to
attribute a failing schedule of the real server to F8 / F38. -/
namespace ParolModel
open Ls29

/-- The full property, for the machine with repairs `fx`: for every text type and verdicts, every
    history of open/change notifications with increasing versions (as the LSP demands) and every
    schedule of the handler's publishes and the background tasks' completions that the two threads
    can produce (`run … = some st`), once everything has finished (`st.quiescent`) the last
    published notification is the diagnostics of the final text alone (`expected sem t`), tagged
    with the final version. -/
def LastPublishIsFinal (fx : Fixes) : Prop :=
  ∀ (Text : Type) (sem : Sem Text) (tr : List (Ev Text)) (st : St Text),
    versionsFrom 0 tr → run fx sem tr St.init = some st → st.quiescent = true →
    ∀ v t, st.cur = some (v, t) → st.out.head? = some ⟨v, expected sem t⟩

/-- Verdicts used by the witnesses: no text fails synchronously, text `1` is the only one whose
    background analysis reports something (a grammar that is not LL(k)). -/
def witnessSem : Sem Nat := ⟨fun _ => false, fun t => t == 1⟩

/-- Finding F8, the history confirmed against the real server: open v1 (async error), change v2
    (clean), then the background task of v1 finishes. -/
def f8History : List (Ev Nat) :=
  [.open 1 1, .mainPublish, .change 2 0, .mainPublish, .bgFinish 0, .bgFinish 1]

/-- What the faithful machine publishes on `f8History` (newest first): `(v1 ok) (v2 ok) (v1 async)`. -/
example : (run faithful witnessSem f8History St.init).map (·.out) =
    some [⟨1, .async 1⟩, ⟨2, .ok⟩, ⟨1, .ok⟩] := by decide

/-- "the last diagnostics … are those of the final text alone, tagged with the final version" is
    FALSE of the unchanged code: on `f8History` the last published diagnostics are the stale ones
    of version 1 (finding F8). -/
theorem last_publish_counterexample : ¬ LastPublishIsFinal faithful := by
  intro h
  have h1 := h Nat witnessSem f8History
    ⟨some (2, 0), none, [⟨1, 1⟩, ⟨2, 0⟩], [1, 0], [⟨1, .async 1⟩, ⟨2, .ok⟩, ⟨1, .ok⟩]⟩
    (by simp [f8History, versionsFrom]) (by decide) (by decide) 2 0 rfl
  revert h1
  decide

/-- Finding F38: a single open suffices. The task is spawned before the handler publishes the
    synchronous "ok"; if the task finishes inside that window its error is published first and
    then wiped out by the empty list. -/
def f35History : List (Ev Nat) := [.open 1 1, .bgFinish 0, .mainPublish]

example : (run faithful witnessSem f35History St.init).map (·.out) =
    some [⟨1, .ok⟩, ⟨1, .async 1⟩] := by decide

/-- The F8 repair alone does not establish the property (`f35History` still fails): the window
    between spawn and publish is a second, independent defect. -/
theorem early_publish_counterexample : ¬ LastPublishIsFinal ⟨true, false⟩ := by
  intro h
  have h1 := h Nat witnessSem f35History
    ⟨some (1, 1), none, [⟨1, 1⟩], [0], [⟨1, .ok⟩, ⟨1, .async 1⟩]⟩
    (by simp [f35History, versionsFrom]) (by decide) (by decide) 1 1 rfl
  revert h1
  decide

/-- …and the F38 repair alone does not either (`f8History` still fails). -/
theorem stale_publish_counterexample : ¬ LastPublishIsFinal ⟨false, true⟩ := by
  intro h
  have h1 := h Nat witnessSem f8History
    ⟨some (2, 0), none, [⟨1, 1⟩, ⟨2, 0⟩], [1, 0], [⟨1, .async 1⟩, ⟨2, .ok⟩, ⟨1, .ok⟩]⟩
    (by simp [f8History, versionsFrom]) (by decide) (by decide) 2 0 rfl
  revert h1
  decide

/-- The sharpest restriction under which the unchanged code is right: schedules in which no task
    finishes before the handler has published (`gNoEarly`) and, whenever a notification arrives,
    every task whose analysis yields diagnostics has already finished (`gTimely`). No assumption on
    versions is needed. -/
theorem last_publish_timely (Text : Type) (sem : Sem Text) (tr : List (Ev Text)) (st : St Text)
    (hrun : runG (gTimely sem) faithful sem tr St.init = some st) (hq : st.quiescent = true)
    (v : Nat) (t : Text) (hc : st.cur = some (v, t)) :
    st.out.head? = some ⟨v, expected sem t⟩ :=
  InvT_final sem st (runG_InvT sem tr _ _ hrun (InvT_init sem)) hq v t hc

/-- "regardless of how background analyses interleave with later edits" — proved for the unchanged
    code only for two families of schedules:
    (1) every task finishes before the next notification is handled (`gSequential`), and
    (2) arbitrary interleavings, provided no task spawned for an earlier notification yields
        diagnostics (`gNoAsyncEarlier`);
    in both, no task finishes before the handler's own publish. Missing for the full statement:
    schedules in which a task that yields diagnostics finishes after a later notification was
    handled (F8) or before the handler's publish (F38) — there the statement is false, see the
    counterexamples above. A guarded run is a run of the machine (`guarded_run_is_run`). -/
theorem last_publish_partial (Text : Type) (sem : Sem Text) (tr : List (Ev Text)) (st : St Text)
    (hrun : runG gSequential faithful sem tr St.init = some st ∨
            runG (gNoAsyncEarlier sem) faithful sem tr St.init = some st)
    (hq : st.quiescent = true) (v : Nat) (t : Text) (hc : st.cur = some (v, t)) :
    st.out.head? = some ⟨v, expected sem t⟩ := by
  apply last_publish_timely Text sem tr st _ hq v t hc
  rcases hrun with h | h
  · exact runG_mono (gSequential_timely sem) faithful sem tr _ _ h
  · exact runG_mono (gNoAsyncEarlier_timely sem) faithful sem tr _ _ h

/-- The restricted schedules are schedules of the machine: a guarded run is a run with the same
    final state. -/
theorem guarded_run_is_run (Text : Type) (g : St Text → Ev Text → Bool) (fx : Fixes)
    (sem : Sem Text) (tr : List (Ev Text)) (st st' : St Text)
    (h : runG g fx sem tr st = some st') : run fx sem tr st = some st' :=
  runG_run fx sem tr st st' h

/-- The repaired machine (a finishing task whose version is not the current one publishes nothing;
    the synchronous result is published before the task is spawned) satisfies the full property:
    ALL histories, ALL schedules. -/
theorem last_publish_is_final_fixed : LastPublishIsFinal ⟨true, true⟩ := by
  intro Text sem tr st hver hrun hq v t hc
  have hi := run_InvF sem tr St.init st 0 (by intro v t h; simp [St.init] at h) hver hrun
    (InvF_init sem)
  exact InvF_final sem st hi hq v t hc

/-! Non-vacuity: the hypotheses of the theorems are satisfiable, on schedules that publish. -/

/-- a sequential schedule with two edits and an async error in each -/
example : runG gSequential faithful witnessSem
    [.open 1 1, .mainPublish, .bgFinish 0, .change 2 1, .mainPublish, .bgFinish 1] St.init =
    some ⟨some (2, 1), none, [⟨1, 1⟩, ⟨2, 1⟩], [1, 0],
          [⟨2, .async 1⟩, ⟨2, .ok⟩, ⟨1, .async 1⟩, ⟨1, .ok⟩]⟩ := by decide

/-- an interleaved schedule (task 0 finishes after the change) that `gNoAsyncEarlier` admits -/
example : (runG (gNoAsyncEarlier witnessSem) faithful witnessSem
    [.open 1 0, .mainPublish, .change 2 1, .mainPublish, .bgFinish 1, .bgFinish 0] St.init).map
      (·.out) = some [⟨2, .async 1⟩, ⟨2, .ok⟩, ⟨1, .ok⟩] := by decide

/-- `f8History` is rejected by the timely guard (so the partial theorems say nothing about it) -/
example : runG (gTimely witnessSem) faithful witnessSem f8History St.init = none := by decide

/-- the repaired machine on `f8History` and `f35History`: last publish is the final one -/
example : (run ⟨true, true⟩ witnessSem f8History St.init).map (·.out) =
    some [⟨2, .ok⟩, ⟨1, .ok⟩] := by decide
example : (run ⟨true, true⟩ witnessSem f35History St.init).map (·.out) =
    some [⟨1, .async 1⟩, ⟨1, .ok⟩] := by decide

end ParolModel
