import ParolModel.Proofs.LLTree
import ParolModel.Model.LLOracle
import ParolModel.Props.C01
/-! # C02 — LL(k) parse trees and semantic actions follow the leftmost derivation

Property text: *When an LL(k) parse succeeds, the returned parse tree is a derivation tree of the
input for the transformed grammar: every inner node is one production whose children are exactly
that production's right-hand side in order. Semantic actions are invoked exactly once per
production application, in post-order, with the children of that application.*

Formalisation. `DS T syms inp rest acts tree comments items` (Proofs/LLTree.lean) is the declarative
reading "the symbol sequence `syms` is parsed from `inp` leaving `rest`": it is a derivation forest
given by its traversal — for every non-terminal occurrence one production `p` of it is chosen, its
right-hand side is parsed in order (`DS … rhs …`), the node is opened before and closed after the
events of its children, and the action `(p, items)` with exactly the children of this application
(`items`: one entry per right-hand-side symbol, in order) is emitted after all actions of the
children and before those of the right siblings — post-order, once per application.
`ll_tree_actions` says that every successful run of the model of `LLKParser::parse_into` produces
exactly the traversal of such a derivation of the start symbol, and `ds_is_derivation` that the
consumed token types are derived by it in the grammar of the production table. -/
namespace ParolModel

/-- Decidable form of "no end-of-production marker inside a right-hand side". -/
def noMarkersB (T : LLTables) : Bool := T.prods.all fun pr => pr.rhsRev.all fun x => !x.isE

theorem noMarkersB_sound (T : LLTables) (h : noMarkersB T = true) :
    ∀ pr ∈ T.prods, ∀ x ∈ pr.rhsRev, PT.isE x = false := by
  simp only [noMarkersB, List.all_eq_true, Bool.not_eq_true'] at h
  exact h

theorem onlySkips_of_noSig {r : List MTok} (h : firstSig (afterSkips r) = none) :
    r = leadSkips r ∧ ∀ t ∈ r, t.skip = true := by
  have h1 : afterSkips r = [] := by
    cases hr : afterSkips r with
    | nil => rfl
    | cons t rest =>
      -- the first element after the leading skips is significant
      have hns : t.skip = false := by
        have := List.head_dropWhile_not (p := fun (x : MTok) => x.skip) (l := r) (by
          simp only [afterSkips] at hr; rw [hr]; simp)
        simp only [afterSkips] at hr
        simp only [hr, List.head_cons] at this
        simpa using this
      rw [hr] at h
      simp [firstSig, sigToks_cons_sig hns] at h
  have h2 := lead_after r
  rw [h1, List.append_nil] at h2
  refine ⟨h2.symm, ?_⟩
  intro t ht
  rw [← h2] at ht
  exact leadSkips_all_skip r t ht

/-- **C02**: a successful run is exactly the traversal of a derivation of the start symbol: the
    start production `p`, the declarative parse `DS` of its right-hand side over the whole input
    (only skipped tokens remain), the action trace = post-order actions of the children followed by
    the start production's own action with its children, and the tree = root ( start-node ( events of
    the children ) trailing skipped tokens ). -/
theorem ll_tree_actions (T : LLTables) (o : Opts) (fuel : Nat) (toks : List MTok)
    (hT : TablesSound T) (hwf : ∀ pr ∈ T.prods, ∀ x ∈ pr.rhsRev, PT.isE x = false)
    (h : (llRun T o fuel toks).res = .ok) :
    ∃ (p : Nat) (pr : LLProd) (r : List MTok) (acts : List (Nat × List PTItem)) (tr : List TreeEv)
      (cm : List Nat) (items : List PTItem),
      predict T T.start toks = some (.ok (Int.ofNat p)) ∧ T.prods[p]? = some pr ∧ pr.lhs = T.start ∧
      DS T pr.rhsRev.reverse toks r acts tr cm items ∧ (∀ t ∈ r, t.skip = true) ∧
      (llRun T o fuel toks).actions = acts ++ [(p, items)] ∧
      (llRun T o fuel toks).tree =
        (if o.trim then [TreeEv.open_ none, .close]
         else [TreeEv.open_ none, .open_ (some pr.lhs)] ++ tr ++ [.close] ++ r.map tokEv ++ [.close]) ∧
      (llRun T o fuel toks).comments = cm ++ commentIds r := by
  generalize hout : llRun T o fuel toks = out at h ⊢
  unfold llRun at hout
  simp only at hout
  split at hout
  · rename_i p hp
    split at hout
    · rw [← hout] at h; simp [abort_res] at h
    · rename_i hpos
      split at hout
      · rename_i s hpush
        obtain ⟨pr, hpr, hst, hin, _⟩ := pushProduction_spec hpush
        obtain ⟨hf1, hf2, hf3, hf4⟩ := pushProduction_fields hpr hpush
        simp only [List.append_nil] at hst hin hf1 hf2 hf3 hf4
        have hno : PT.t 0 ∉ s.stack := by
          rw [hst]
          intro hm
          rcases List.mem_append.1 hm with hm | hm
          · exact hT.no_eoi pr (List.mem_of_getElem? hpr) (by simpa using hm)
          · simp at hm
        obtain ⟨n, r, acts, tr, cm, ptOut, hsd, hf', ha, ht, hc⟩ :=
          llLoop_SD T o hT.no_eoi fuel s 0 out hno hout h
        rw [hst, hin, hf1] at hsd
        have hrhs : ∀ y ∈ pr.rhsRev.reverse, PT.isE y = false := by
          intro y hy
          exact hwf pr (List.mem_of_getElem? hpr) y (by simpa using hy)
        obtain ⟨n2, mid, acts1, acts2, tr1, tr2, cm1, cm2, items, _, hds, hsd2, ha2, ht2, hc2⟩ :=
          SD_decompose T hwf n pr.rhsRev.reverse [.e p.toNat] toks _ r acts tr cm ptOut hrhs hsd
        -- invert the final end-of-production step and `done`
        generalize hstk : [PT.e p.toNat] = stk at hsd2
        cases hsd2 with
        | done => cases hstk
        | tok _ _ _ _ _ => cases hstk
        | nt _ _ _ _ _ => cases hstk
        | @e n3 st3 _ _ _ actsE trE _ _ p' pr' hpr' hlen hsd3 =>
          simp only [List.cons.injEq, PT.e.injEq] at hstk
          obtain ⟨hp', hst3⟩ := hstk
          subst hp'; subst hst3
          have hprr : pr' = pr := by rw [hpr] at hpr'; injection hpr' with h; exact h.symm
          subst hprr
          generalize hnil : ([] : List PT) = stk0 at hsd3
          cases hsd3 with
          | tok _ _ _ _ _ => cases hnil
          | nt _ _ _ _ _ => cases hnil
          | e _ _ _ _ _ => cases hnil
          | done =>
            have hl : items.length = pr'.rhsRev.length := by rw [DS_items_length hds]; simp
            have htake : ((items.reverse ++ [PTItem.nt pr'.lhs]).take pr'.rhsRev.length).reverse = items := by
              rw [← hl, ← List.length_reverse, List.take_left]; simp
            rw [htake] at ha2
            obtain ⟨hr1, hr2⟩ := onlySkips_of_noSig hf'
            -- the production predicted for the start symbol belongs to it
            have hlhs : pr'.lhs = T.start := by
              unfold predict at hp
              cases hd : T.dfas[T.start]? with
              | none => simp [hd] at hp
              | some d =>
                simp only [hd, Option.some.injEq] at hp
                obtain ⟨hfrom, hgt⟩ := eval_ok_from d true _ p hp
                exact hT.lhs_ok T.start d hd p hfrom hgt pr' hpr
            have hpn : p = Int.ofNat p.toNat := by
              have : (p.toNat : Int) = p := Int.toNat_of_nonneg (by omega)
              exact this.symm
            refine ⟨p.toNat, pr', r, acts1, tr1, cm1, items, by rw [← hpn]; exact hp, hpr, hlhs, hds, hr2,
              ?_, ?_, ?_⟩
            · rw [ha, hf2, ha2]; simp
            · rw [ht, hf4, ht2, ← hr1]
              cases o.trim <;> simp
            · rw [hc, hf3, hc2, ← hr1]; simp
      · rename_i s r hpush
        obtain ⟨_, _, _, _, hr⟩ := pushProduction_spec hpush
        rw [← hout] at h
        simp only [abort_res] at h
        exact absurd (by rw [h]) hr
      · rw [← hout] at h; simp [abort_res] at h
  · rw [← hout] at h; simp [abort_res] at h
  · rw [← hout] at h; simp [abort_res] at h

/-- The traversal `DS` is a derivation tree of the consumed input in the grammar of the production
    table (`gOf T`): the significant token types it consumes are derived from its symbols. -/
theorem ds_is_derivation (T : LLTables) (hT : TablesSound T) {syms inp r acts tr cm items}
    (h : DS T syms inp r acts tr cm items) :
    ∃ consumed, sigTypes inp = consumed ++ sigTypes r ∧ Yield (gOf T) (stackSyms syms) consumed :=
  DS_yield T hT h

/-- One action per production application, with exactly as many arguments as the production has
    right-hand-side symbols (children = the items of that application). -/
theorem ds_action_arity (T : LLTables) {syms inp r acts tr cm items}
    (h : DS T syms inp r acts tr cm items) :
    ∀ a ∈ acts, ∃ pr, T.prods[a.1]? = some pr ∧ a.2.length = pr.rhsRev.length := by
  induction h with
  | nil => intro a ha; cases ha
  | tok _ _ _ _ _ ih => exact ih
  | @nt a ss inp mid r acts1 acts2 tr1 tr2 cm1 cm2 items1 items2 p pr _ hpr h1 _ ih1 ih2 =>
    intro x hx
    rcases List.mem_append.1 hx with hx | hx
    · exact ih1 x hx
    · rcases List.mem_cons.1 hx with rfl | hx
      · exact ⟨pr, hpr, by rw [DS_items_length h1]; simp⟩
      · exact ih2 x hx

-- Non-vacuity on the tables of `S: "a" {"b"} ["c"];` (see Props/C01): the run on `a b b c`.
example : noMarkersB exT = true := by decide
example : (llRun exT ⟨false, false, none⟩ 100 (exToks [5, 6, 6, 7])).actions =
    [(2, []), (1, [.tok 2 6, .nt 1]), (1, [.tok 1 6, .nt 1]), (3, [.tok 3 7]), (0, [.tok 0 5, .nt 1, .nt 2])] := by
  decide

end ParolModel
