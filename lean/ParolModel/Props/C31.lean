import ParolModel.Proofs.Lev
/-! # C31 — Recovery edit scripts are minimal and correct

Property text: *For any two token sequences, the edit script the recovery uses turns the scanned
sequence into the expected one, and its length in non-keep operations equals the minimal edit
distance it reports.*

`lev` (Model/Lev.lean) mirrors `Recovery::levenshtein_distance`; tie D compares it with the real
function on exhaustive small scopes and random pairs. -/
namespace ParolModel

/-- Valid forward scripts (the declarative reading of an edit script). -/
inductive Script : List Op → List Nat → List Nat → Prop
  | nil : Script [] [] []
  | keep {s xs ys} (x) : Script s xs ys → Script (.keep :: s) (x :: xs) (x :: ys)
  | replace {s xs ys} (x y) : Script s xs ys → Script (.replace :: s) (x :: xs) (y :: ys)
  | insert {s xs ys} (y) : Script s xs ys → Script (.insert :: s) xs (y :: ys)
  | delete {s xs ys} (x) : Script s xs ys → Script (.delete :: s) (x :: xs) ys

theorem applyOps_iff_script : ∀ (s : List Op) (a e : List Nat),
    applyOps s a e = some e ↔ Script s a e := by
  intro s
  induction s with
  | nil =>
    intro a e
    cases a <;> cases e <;> simp [applyOps] <;> first | exact .nil | (intro h; cases h)
  | cons o s ih =>
    intro a e
    cases o with
    | keep =>
      cases a with
      | nil => simp [applyOps]; intro h; cases h
      | cons x xs =>
        cases e with
        | nil => simp [applyOps]; intro h; cases h
        | cons y ys =>
          simp only [applyOps]
          constructor
          · intro h
            split at h
            · rename_i hxy; subst hxy
              cases h' : applyOps s xs ys with
              | none => simp [h'] at h
              | some r =>
                simp [h'] at h; subst h
                exact .keep x ((ih xs r).1 h')
            · cases h
          · intro h
            cases h with
            | keep _ h' => simp [(ih xs ys).2 h']
    | replace =>
      cases a with
      | nil => cases e <;> simp [applyOps] <;> (intro h; cases h)
      | cons x xs =>
        cases e with
        | nil => simp [applyOps]; intro h; cases h
        | cons y ys =>
          simp only [applyOps]
          constructor
          · intro h
            cases h' : applyOps s xs ys with
            | none => simp [h'] at h
            | some r =>
              simp [h'] at h; subst h
              exact .replace x y ((ih xs r).1 h')
          · intro h
            cases h with
            | replace _ _ h' => simp [(ih xs ys).2 h']
    | insert =>
      cases e with
      | nil => cases a <;> simp [applyOps] <;> (intro h; cases h)
      | cons y ys =>
        simp only [applyOps]
        constructor
        · intro h
          cases h' : applyOps s a ys with
          | none => simp [h'] at h
          | some r =>
            simp [h'] at h; subst h
            exact .insert y ((ih a r).1 h')
        · intro h
          cases h with
          | insert _ h' => simp [(ih a ys).2 h']
    | delete =>
      cases a with
      | nil => cases e <;> simp [applyOps] <;> (intro h; cases h)
      | cons x xs =>
        simp only [applyOps]
        constructor
        · intro h; exact .delete x ((ih xs e).1 h)
        · intro h
          cases h with
          | delete _ h' => exact (ih xs e).2 h'

/-- Appending one op at the end of a forward script. -/
theorem Script.snoc_keep {s a e} (x : Nat) (h : Script s a e) :
    Script (s ++ [.keep]) (a ++ [x]) (e ++ [x]) := by
  induction h with
  | nil => exact .keep x .nil
  | keep z _ ih => exact .keep z ih
  | replace z y _ ih => exact .replace z y ih
  | insert y _ ih => exact .insert y ih
  | delete z _ ih => exact .delete z ih

theorem Script.snoc_replace {s a e} (x y : Nat) (h : Script s a e) :
    Script (s ++ [.replace]) (a ++ [x]) (e ++ [y]) := by
  induction h with
  | nil => exact .replace x y .nil
  | keep z _ ih => exact .keep z ih
  | replace z w _ ih => exact .replace z w ih
  | insert w _ ih => exact .insert w ih
  | delete z _ ih => exact .delete z ih

theorem Script.snoc_insert {s a e} (y : Nat) (h : Script s a e) :
    Script (s ++ [.insert]) a (e ++ [y]) := by
  induction h with
  | nil => exact .insert y .nil
  | keep z _ ih => exact .keep z ih
  | replace z w _ ih => exact .replace z w ih
  | insert w _ ih => exact .insert w ih
  | delete z _ ih => exact .delete z ih

theorem Script.snoc_delete {s a e} (x : Nat) (h : Script s a e) :
    Script (s ++ [.delete]) (a ++ [x]) e := by
  induction h with
  | nil => exact .delete x .nil
  | keep z _ ih => exact .keep z ih
  | replace z w _ ih => exact .replace z w ih
  | insert w _ ih => exact .insert w ih
  | delete z _ ih => exact .delete z ih

theorem ScriptR.snoc_keep {s a e} (x : Nat) (h : ScriptR s a e) :
    ScriptR (s ++ [.keep]) (a ++ [x]) (e ++ [x]) := by
  induction h with
  | nil => exact .keep x .nil
  | keep z _ ih => exact .keep z ih
  | replace z y _ ih => exact .replace z y ih
  | insert y _ ih => exact .insert y ih
  | delete z _ ih => exact .delete z ih

theorem ScriptR.snoc_replace {s a e} (x y : Nat) (h : ScriptR s a e) :
    ScriptR (s ++ [.replace]) (a ++ [x]) (e ++ [y]) := by
  induction h with
  | nil => exact .replace x y .nil
  | keep z _ ih => exact .keep z ih
  | replace z w _ ih => exact .replace z w ih
  | insert w _ ih => exact .insert w ih
  | delete z _ ih => exact .delete z ih

theorem ScriptR.snoc_insert {s a e} (y : Nat) (h : ScriptR s a e) :
    ScriptR (s ++ [.insert]) a (e ++ [y]) := by
  induction h with
  | nil => exact .insert y .nil
  | keep z _ ih => exact .keep z ih
  | replace z w _ ih => exact .replace z w ih
  | insert w _ ih => exact .insert w ih
  | delete z _ ih => exact .delete z ih

theorem ScriptR.snoc_delete {s a e} (x : Nat) (h : ScriptR s a e) :
    ScriptR (s ++ [.delete]) (a ++ [x]) e := by
  induction h with
  | nil => exact .delete x .nil
  | keep z _ ih => exact .keep z ih
  | replace z w _ ih => exact .replace z w ih
  | insert w _ ih => exact .insert w ih
  | delete z _ ih => exact .delete z ih

/-- Reversing script and data turns a backtracking-order script into a forward one. -/
theorem script_of_scriptR {s xs ys} (h : ScriptR s xs ys) :
    Script s.reverse xs.reverse ys.reverse := by
  induction h with
  | nil => exact .nil
  | keep x _ ih => simpa using Script.snoc_keep x ih
  | replace x y _ ih => simpa using Script.snoc_replace x y ih
  | insert y _ ih => simpa using Script.snoc_insert y ih
  | delete x _ ih => simpa using Script.snoc_delete x ih

theorem scriptR_of_script {s a e} (h : Script s a e) :
    ScriptR s.reverse a.reverse e.reverse := by
  induction h with
  | nil => exact .nil
  | keep x _ ih => simpa using ScriptR.snoc_keep x ih
  | replace x y _ ih => simpa using ScriptR.snoc_replace x y ih
  | insert y _ ih => simpa using ScriptR.snoc_insert y ih
  | delete x _ ih => simpa using ScriptR.snoc_delete x ih

theorem cost_reverse (s : List Op) : cost s.reverse = cost s := by
  simp [cost, List.filter_reverse]

theorem cost_replicate_insert (n : Nat) : cost (List.replicate n .insert) = n := by
  induction n with
  | zero => rfl
  | succ n ih => simp [List.replicate_succ, ih]

theorem cost_replicate_delete (n : Nat) : cost (List.replicate n .delete) = n := by
  induction n with
  | zero => rfl
  | succ n ih => simp [List.replicate_succ, ih]

theorem script_replicate_insert : ∀ (e : List Nat), Script (List.replicate e.length .insert) [] e
  | [] => .nil
  | y :: ys => by simpa [List.replicate_succ] using Script.insert y (script_replicate_insert ys)

theorem script_replicate_delete : ∀ (a : List Nat), Script (List.replicate a.length .delete) a []
  | [] => .nil
  | x :: xs => by simpa [List.replicate_succ] using Script.delete x (script_replicate_delete xs)

/-- The early returns of the code agree with the general DP result. -/
theorem lev_eq_general (a e : List Nat) :
    (lev a e).1 = dist a.reverse e.reverse ∧ Script (lev a e).2 a e ∧ cost (lev a e).2 = (lev a e).1 := by
  unfold lev
  cases a with
  | nil =>
    cases e with
    | nil => simp [dist_nil_nil]; exact .nil
    | cons y ys =>
      have := script_replicate_insert (y :: ys)
      simp [dist_nil_left, cost_replicate_insert] at this ⊢
      exact this
  | cons x xs =>
    cases e with
    | nil =>
      have := script_replicate_delete (x :: xs)
      simp [dist_nil_right, cost_replicate_delete] at this ⊢
      exact this
    | cons y ys =>
      simp only [List.isEmpty_cons, Bool.false_and, Bool.false_eq_true, if_false]
      refine ⟨trivial, ?_, ?_⟩
      · have := script_of_scriptR (back_valid (x :: xs).reverse (y :: ys).reverse)
        simpa using this
      · rw [cost_reverse]; exact back_cost _ _

/-- **C31 (i)**: the script turns the scanned sequence into the expected one. -/
theorem lev_script_transforms (a e : List Nat) : applyOps (lev a e).2 a e = some e :=
  (applyOps_iff_script _ _ _).2 (lev_eq_general a e).2.1

/-- **C31 (ii)**: the number of non-keep operations equals the reported distance. -/
theorem lev_cost_eq_distance (a e : List Nat) : cost (lev a e).2 = (lev a e).1 :=
  (lev_eq_general a e).2.2

/-- **C31 (iii)**: the reported distance is minimal — no script that turns `a` into `e` is cheaper. -/
theorem lev_minimal (a e : List Nat) (s : List Op) (h : applyOps s a e = some e) :
    (lev a e).1 ≤ cost s := by
  have hs := scriptR_of_script ((applyOps_iff_script _ _ _).1 h)
  have := dist_le_cost hs
  rw [cost_reverse] at this
  rw [(lev_eq_general a e).1]; exact this

/-- `applyOps` can only ever produce the expected sequence (so "turns into `e`" is unambiguous). -/
theorem applyOps_result : ∀ (s : List Op) (a e r : List Nat), applyOps s a e = some r → r = e := by
  intro s
  induction s with
  | nil => intro a e r h; cases a <;> cases e <;> simp [applyOps] at h; exact h
  | cons o s ih =>
    intro a e r h
    cases o <;> cases a <;> cases e <;> simp [applyOps] at h
    all_goals first
      | (obtain ⟨_, r', h', rfl⟩ := h; rw [ih _ _ _ h']; try simp_all)
      | (obtain ⟨r', h', rfl⟩ := h; rw [ih _ _ _ h'])
      | exact ih _ _ _ h

-- Concrete instances (evaluated at build time; `cell` is defined by well-founded recursion, so these
-- are `#guard`s, not kernel reductions — the theorems above are unconditional and need no witness).
#guard lev [1, 2] [0, 2] == (1, [.replace, .keep])
#guard (lev [7, 8, 9, 10] [8, 8, 9]).1 == 2
#guard applyOps (lev [7, 8, 9, 10] [8, 8, 9]).2 [7, 8, 9, 10] [8, 8, 9] == some [8, 8, 9]
example : applyOps [.replace, .keep] [1, 2] [0, 2] = some [0, 2] := by decide

end ParolModel
