import ParolModel.Proofs.Augment
/-! # C12 — LR augmentation preserves the language and isolates the start symbol

Property text: *For every grammar, the grammar handed to LALR(1) table construction generates the
same language as the input grammar, and its start symbol has exactly one production and occurs on
no right-hand side.*

Formalisation. `Lang G w := Yield G [.n G.start] w` (Spec/Cfg.lean). The grammar handed to the
LALR(1) construction is the result of `check_and_transform_grammar(cfg, LALR1)`, i.e. (after the
well-formedness checks of C11) `augment_grammar(cfg)`; `augmentGrammar` mirrors the current
`augment_grammar` — it keeps the grammar iff the start symbol has exactly one production *and* does
not occur on a right-hand side — and `augmentGrammarOld` mirrors it before the `fix:` commit for
finding F1 (kept iff the start symbol has exactly one production). The new start symbol is the one
`generate_name` picks: the first of `N<start>`, `N<start+1>`, … that is not a non-terminal of the
grammar. -/
namespace ParolModel

/-- The search for the new start symbol's name always succeeds (`none` = fuel exhausted never
    happens). -/
theorem augmentGrammar_total (G : Grammar) : ∃ G', augmentGrammar G = some G' := by
  unfold augmentGrammar
  split
  · exact ⟨G, rfl⟩
  · obtain ⟨s', hs'⟩ := Option.isSome_iff_exists.mp (freshStart_isSome G)
    exact ⟨augment G s', by simp [hs']⟩

/-- Shape of the result: either the grammar itself (start symbol already isolated) or `S' → S` in
    front of the productions with `S'` the first unused number from `start` upwards. -/
theorem augmentGrammar_shape (G G' : Grammar) (h : augmentGrammar G = some G') :
    (G' = G ∧ isolatedB G = true) ∨
    (isolatedB G = false ∧ ∃ s', G' = augment G s' ∧ s' ∉ nts G ∧ G.start ≤ s' ∧
      ∀ k, G.start ≤ k → k < s' → k ∈ nts G) := by
  unfold augmentGrammar at h
  split at h
  · rename_i hc
    injection h with h
    exact Or.inl ⟨h.symm, by simp [isolatedB, hc.1, hc.2]⟩
  · rename_i hc
    simp only [Option.map_eq_some_iff] at h
    obtain ⟨s', hs', rfl⟩ := h
    obtain ⟨h1, h2, h3⟩ := freshFrom_spec hs'
    refine Or.inr ⟨?_, s', rfl, h1, h2, h3⟩
    cases hb : isolatedB G
    · rfl
    · exfalso; apply hc
      simp only [isolatedB, Bool.and_eq_true, decide_eq_true_eq, Bool.not_eq_true'] at hb
      exact hb

/-- **"the grammar handed to LALR(1) table construction generates the same language as the input
    grammar"** — for the modelled `augment_grammar`, both branches. -/
theorem augmentGrammar_preserves_lang (G G' : Grammar) (h : augmentGrammar G = some G')
    (w : List Nat) : Lang G' w ↔ Lang G w := by
  rcases augmentGrammar_shape G G' h with ⟨rfl, _⟩ | ⟨_, s', rfl, hs', _, _⟩
  · exact Iff.rfl
  · exact augment_preserves_lang G s' (fun hu => hs' (usesNT_iff_mem_nts.mp hu)) w

/-- **"its start symbol has exactly one production and occurs on no right-hand side"** — for the
    current (repaired) `augment_grammar`. -/
theorem augment_isolates_start (G G' : Grammar) (h : augmentGrammar G = some G') :
    (G'.prods.filter (fun p => p.lhs = G'.start)).length = 1 ∧
    ∀ p ∈ G'.prods, Sym.n G'.start ∉ p.rhs := by
  rw [← isolatedB_iff]
  rcases augmentGrammar_shape G G' h with ⟨rfl, hi⟩ | ⟨_, s', rfl, hs', _, _⟩
  · exact hi
  · exact isolated_augment hs'

/-- The grammar handed to the LALR(1) construction (`check_and_transform_grammar(cfg, LALR1)`) is
    `augment_grammar(cfg)` exactly when the well-formedness checks pass; so the two theorems above
    are about that grammar. -/
theorem lrTransform_eq (G G' : Grammar) (ign : List Nat) :
    lrTransform G ign = .ok (some G') ↔
      checkGrammar G false ign = .ok .passed ∧ augmentGrammar G = some G' := by
  obtain ⟨G'', hG''⟩ := augmentGrammar_total G
  unfold lrTransform
  rw [hG'']
  constructor
  · intro h
    split at h
    · rename_i hc
      simp only [Outcome.ok.injEq, Option.some.injEq] at h
      exact ⟨hc, by rw [h]⟩
    · cases h
    · cases h
    · cases h
  · rintro ⟨hc, ha⟩
    rw [hc]
    simp only [Outcome.ok.injEq]
    exact ha

/-! ## The pre-repair function (finding F1) -/

/-- `S → a SOpt ; SOpt → S ; SOpt → ε` (`S: "a" [S];` after canonicalisation), `S = 0`,
    `SOpt = 1`, `a = t5`. -/
def exF1 : Grammar := ⟨0, [⟨0, [.t 5, .n 1]⟩, ⟨1, [.n 0]⟩, ⟨1, []⟩]⟩

/-- The isolation claim for the function as it was before the repair. -/
def AugmentOldIsolates : Prop :=
  ∀ G G', augmentGrammarOld G = some G' → isolatedB G' = true

/-- **Counterexample (F1)**: before the repair the start symbol of `exF1` was kept although it
    occurs on a right-hand side. -/
theorem augmentOld_isolates_start_counterexample : ¬ AugmentOldIsolates := by
  intro h
  have := h exF1 exF1 rfl
  revert this
  decide

/-- What did hold before the repair: isolation under "the start symbol is on no right-hand side". -/
theorem augmentOld_isolates_start_partial (G G' : Grammar) (hu : usedOnRhs G = false)
    (h : augmentGrammarOld G = some G') : isolatedB G' = true := by
  unfold augmentGrammarOld at h
  split at h
  · rename_i hc
    injection h with h
    subst h
    simp [isolatedB, hc, hu]
  · simp only [Option.map_eq_some_iff] at h
    obtain ⟨s', hs', rfl⟩ := h
    exact isolated_augment (freshFrom_spec hs').1

/-- The repaired function isolates the start symbol of the F1 witness (and changes nothing else). -/
example : (augmentGrammar exF1).map (fun G => (G.start, G.prods))
    = some (2, ⟨2, [.n 0]⟩ :: exF1.prods) := by decide
example : (augmentGrammar exF1).map isolatedB = some true := by decide

/-! ## Non-vacuity -/

/-- Kept: one start production, start symbol not used. -/
example : (augmentGrammar ⟨0, [⟨0, [.t 5, .n 1]⟩, ⟨1, [.t 6]⟩]⟩).map (fun G => (G.start, G.prods))
    = some (0, [⟨0, [.t 5, .n 1]⟩, ⟨1, [.t 6]⟩]) := by decide

/-- Two start productions, `N1`, `N2` taken: the new start symbol is `N3`. -/
example : (augmentGrammar ⟨0, [⟨0, [.n 1]⟩, ⟨0, [.n 2]⟩, ⟨1, [.t 5]⟩, ⟨2, [.t 6]⟩]⟩).map
      (fun G => (G.start, G.prods))
    = some (3, [⟨3, [.n 0]⟩, ⟨0, [.n 1]⟩, ⟨0, [.n 2]⟩, ⟨1, [.t 5]⟩, ⟨2, [.t 6]⟩]) := by decide

/-- Start symbol `N2` with `N3` taken and `N4` free (counting starts at the start symbol's own
    number, smaller free numbers are not used). -/
example : (augmentGrammar ⟨2, [⟨2, [.n 3]⟩, ⟨2, []⟩, ⟨3, [.t 5]⟩]⟩).map (·.start) = some 4 := by
  decide

/-- The naming rule on strings. -/
example : generateNameS ["S", "S0", "S1"] "S" = some "S2" := by decide
example : generateNameS ["S7", "S8"] "S7" = some "S9" := by decide
example : generateNameS ["S007", "S7"] "S007" = some "S8" := by decide

end ParolModel
