import ParolModel.Model.Fixpoints
import ParolModel.Model.MemberProto
/-! # LR augmentation (C12)

Mirror of `augment_grammar` (crates/parol/src/transformation/lr_augmentation.rs), of the part of
`generate_name` (utils/mod.rs) it exercises, and of `check_and_transform_lr` (generators/
grammar_trans.rs: the LALR(1) branch hands `augment_grammar(cfg)` to the table construction).

*Names.* The C12 harness names non-terminal `i` `N<i>` (decimal, no padding). `augment_grammar`
asks `generate_name(all non-terminal names, start name)`: the preferred name is the start symbol's
and therefore always taken; its numeric suffix `i` is split off (`[0-9]+$`) and `N<i>`, `N<i+1>`, …
are tried until a name is free. On numbers: the new start symbol is the least `n ≥ start` that is
not a non-terminal of the grammar (`freshFrom`). The naming rule on strings is modelled separately
(`generateNameS`) and tied through the same public function on arbitrary names (`augname`). -/
namespace ParolModel

/-- `gen_name`'s loop on numbers: the first `n, n+1, …` not in `excl`. -/
def freshFrom (excl : List Nat) : Nat → Nat → Option Nat
  | 0, _ => none
  | fuel + 1, n => if n ∈ excl then freshFrom excl fuel (n + 1) else some n

/-- The loop makes at most `|excl|` unsuccessful attempts (`freshFrom_isSome`). -/
def freshStart (G : Grammar) : Option Nat := freshFrom (nts G) ((nts G).length + 1) G.start

/-- `cfg.matching_productions(&cfg.st).len()`. -/
def startCount (G : Grammar) : Nat := (matching G G.start).length

/-- `start_symbol_used_on_rhs`. -/
def usedOnRhs (G : Grammar) : Bool :=
  G.prods.any (fun p => p.rhs.any (fun s => decide (s = Sym.n G.start)))

/-- `augment_grammar` as it is now (after the `fix:` for finding F1): keep the grammar only if the
    start symbol has exactly one production and occurs on no right-hand side; otherwise put
    `S' → S` in front and make `S'` the start symbol. -/
def augmentGrammar (G : Grammar) : Option Grammar :=
  if startCount G = 1 ∧ usedOnRhs G = false then some G
  else (freshStart G).map (augment G)

/-- `augment_grammar` before the repair: the grammar was kept whenever the start symbol had exactly
    one production. -/
def augmentGrammarOld (G : Grammar) : Option Grammar :=
  if startCount G = 1 then some G
  else (freshStart G).map (augment G)

/-- The isolation clause of C12, decidably: exactly one production for the start symbol, and the
    start symbol on no right-hand side. -/
def isolatedB (G : Grammar) : Bool := startCount G = 1 && !usedOnRhs G

/-- `check_and_transform_grammar(cfg, LALR1)`: the well-formedness checks, then `augment_grammar`
    (`.ok none`: rejected by the checks). -/
def lrTransform (G : Grammar) (ign : List Nat) : Outcome (Option Grammar) :=
  match checkGrammar G false ign with
  | .ok .passed =>
    match augmentGrammar G with
    | some G' => .ok (some G')
    | none => .fuel
  | .ok _ => .ok none
  | .panic => .panic
  | .fuel => .fuel

/-! ## The naming rule on strings (`generate_name`) -/

/-- `RX_NUM_SUFFIX.find`: the maximal run of ASCII digits at the end (leftmost match of
    `[0-9]+$`), as (prefix, digits). -/
def splitDigitSuffix (s : String) : List Char × List Char :=
  let cs := s.toList
  let ds := (cs.reverse.takeWhile Char.isDigit).reverse
  (cs.take (cs.length - ds.length), ds)

def digitsToNat (ds : List Char) : Nat := ds.foldl (fun n c => 10 * n + (c.toNat - '0'.toNat)) 0

/-- `gen_name`: `prefix ++ num`, counting up while the name is taken. -/
def genNameS (excl : List String) (pre : String) : Nat → Nat → Option String
  | 0, _ => none
  | fuel + 1, num =>
    let name := pre ++ toString num
    if name ∈ excl then genNameS excl pre fuel (num + 1) else some name

/-- `generate_name`. A digit suffix that does not fit into `usize` makes `parse` fail and the code
    falls back to 1 (`unwrap_or(1)`). -/
def generateNameS (excl : List String) (preferred : String) : Option String :=
  if preferred ∈ excl then
    let (pre, ds) := splitDigitSuffix preferred
    if ds.isEmpty then genNameS excl preferred (excl.length + 1) 0
    else
      let n := digitsToNat ds
      let n := if n < 2 ^ 64 then n else 1
      genNameS excl (String.ofList pre) (excl.length + 1) n
  else some preferred

/-! ## Protocol -/

def ntName (i : Nat) : String := "N" ++ toString i

def showGrammar (G : Grammar) : String := s!"{G.start} {showRules G.prods}"

-- @handler augment handleAugment
/-- `augment <ignored> <start> <prods>` → `<new start name> <start'> <prods'> <via-check>` where
    `<via-check>` is `same` if `check_and_transform_grammar(_, LALR1)` accepts the grammar and
    returns the same grammar as the direct call, `rejected` if it rejects the grammar. -/
def handleAugment : List String → Option String
  | [ign, st, ps] => do
    let G ← parseGrammar st ps
    let ign ← Proto.parseNats ign
    match augmentGrammar G with
    | none => some "fuel-exhausted"
    | some G' =>
      let name ← generateNameS ((nts G).map ntName) (ntName G.start)
      let name := if G'.start = G.start then ntName G.start else name
      let via := match lrTransform G ign with
        | .ok (some G'') => if G''.start = G'.start ∧ G''.prods = G'.prods then "same" else "diff"
        | .ok none => "rejected"
        | .panic => "panic"
        | .fuel => "fuel-exhausted"
      some s!"{name} {showGrammar G'} {via}"
  | _ => none

-- @handler augment-old handleAugmentOld
/-- The pre-repair variant (not compared with the implementation; used for attributing failures
    and by the replay of the F1 witness). -/
def handleAugmentOld : List String → Option String
  | [st, ps] => do
    let G ← parseGrammar st ps
    match augmentGrammarOld G with
    | none => some "fuel-exhausted"
    | some G' => some (showGrammar G')
  | _ => none

-- @handler augname handleAugName
/-- `augname <start name> <other,names|->` → the start symbol's name after `augment_grammar` of
    `start: ; start: other…;` (always augmented: two productions), i.e. `generate_name`. -/
def handleAugName : List String → Option String
  | [st, others] =>
    let os := if others == "-" then [] else others.splitOn ","
    -- BTreeSet of names: the order does not matter for `any`
    match generateNameS (st :: os) st with
    | some n => some n
    | none => some "fuel-exhausted"
  | _ => none

/-- All strings over `alpha` of length ≤ `n`. -/
def allWords (alpha : List Nat) : Nat → List (List Nat)
  | 0 => [[]]
  | n + 1 => [] :: (allWords alpha n).flatMap (fun w => alpha.map (fun a => a :: w))

def rhsTerms : List Sym → List Nat
  | [] => []
  | .t a :: r => a :: rhsTerms r
  | .n _ :: r => rhsTerms r

def termsOf (G : Grammar) : List Nat :=
  sortSet (G.prods.flatMap (fun p => rhsTerms p.rhs))

-- @handler augment-check handleAugmentCheck
/-- Property oracle for C12: `augment-check <n> <start> <prods> <name> <start'> <prods'> <via>`.
    Decides the property statement on the implementation's output `G'`:
    (1) isolation — the start symbol of `G'` has exactly one production and occurs on no
        right-hand side;
    (2) language preservation on every string of length ≤ n over the grammar's terminals plus one
        foreign terminal, with the verified recogniser `member` (`member_iff`);
    (3) the grammar handed to the LALR(1) construction is this very grammar (`via ≠ diff`);
    (4) the reported name is the name of the new start symbol. -/
def handleAugmentCheck : List String → Option String
  | [n, st, ps, name, st', ps', via] => do
    let n ← n.toNat?
    let G ← parseGrammar st ps
    let G' ← parseGrammar st' ps'
    if !isolatedB G' then
      some (if via == "rejected" then "fail start-symbol-not-isolated (direct call of augment_grammar; the LALR check rejects this grammar)"
            else "fail start-symbol-not-isolated") else
    if via == "diff" || via == "panic" then some "fail lalr-grammar-differs-from-augment_grammar" else
    if name ≠ ntName G'.start then some "fail name-of-new-start-symbol" else
    let ts := termsOf G
    let foreign := (ts.foldl max 4) + 1
    let words := allWords (ts ++ [foreign]) n
    let bad := words.find? (fun w =>
      match memberB G w, memberB G' w with
      | some a, some b => a != b
      | _, _ => true)
    match bad with
    | some w => some s!"fail language-differs-on {Proto.showNats w}"
    | none => some "ok"
  | _ => none

end ParolModel
