import ParolModel.Model.LL
/-! Model of the OUTER control flow of `LLKParser::parse_into` WITH error recovery (C01, last sentence:
*"This holds both with error recovery enabled and disabled: recovery may change which errors are
reported, but never turns a non-sentence into a success."*).

`Model/LL.lean` (`llRun`) stops at the first syntax error. Here the loop continues after an error the
way the code does, but the recovery PROCEDURE itself — everything that edits the token stream:
`Recovery::restore_terminal_strings`, `minimal_token_difference`, `levenshtein_distance`,
`adjust_token_stream`, `sync_token_stream`, the re-prediction — is an ARBITRARY parameter `R`: an
oracle that receives the complete parser state and the current error entries and returns an arbitrary
new parser state (token stream, parser stack, parse-tree stack, depth, recorded output: everything may
be rewritten in any way) together with the KIND of its return. What is modelled exactly is the
bookkeeping around it: `error_entries`, `add_error`, where a failure `break`s the loop, where it is
propagated by `?`, and how the final result is computed.

Source: `crates/parol_runtime/src/parser/parser_types.rs` (line numbers of the tree the checks run on).

| model clause | code |
|---|---|
| `addError` | `add_error`, l.263-279: an entry with the same location exists → `Err(RecoveryFailed)`, nothing pushed (l.264-270); else push (l.271); more than 100 entries → `Err(TooManyErrors)` (l.272-277); else `Ok` |
| `handleTokenMismatch` | `handle_token_mismatch`, l.517-547: `add_error(..)?` (l.525-545: on `Err` the recovery is NOT attempted), then `recover_from_token_mismatch` (l.546); there l.661-663: recovery disabled → `Err(RecoveryFailed)`; l.664-671: the procedure = `R.tok`, which ends with `Ok(())` or `Err` |
| `handlePredictionError` | `handle_prediction_error`, l.549-580: `build_error(..)?` (l.556-558; `build_error`, lookahead_dfa.rs l.183-228, has no `Err` return), `add_error(..)?` (l.559-578), then `recover_from_prediction_error` (l.579); there l.587-589: recovery disabled → `Err(RecoveryFailed)`; l.590-638: the procedure = `R.pred` ending with `Ok(prod_num)` (l.605, l.631: `PredRec.prod`) or with an `Err` that leaves `error_entries` alone (l.600 `?`, l.609, l.635: `PredRec.err`); l.640-653 ("Can't recover": `let _ = add_error(..)`, then `error_entries.drain(..)` is moved INTO the returned `Err(SyntaxErrors)`) and `sync_token_stream` l.729-737 (same drain, reached through the `?` of l.622-626): `PredRec.drained` — the entries are gone from the parser |
| `rRun`, prediction for the start symbol | l.431-441: root node; `predict_production` (l.434); on `Err` `handle_prediction_error(..)?` (l.436-438: every `Err` is PROPAGATED, whatever it carries); `push_production(prod_num)?` (l.441, no `pop`) |
| `rLoop`, loop head | l.443 `while !self.input_accepted()`, l.444 |
| `rLoop`, `.t a` | l.446-467: `lookahead(0)` (l.447), equal type → `handle_additional_tokens`, `consume`, `pop`, tree leaf, parse-tree stack (l.448-460); else `handle_token_mismatch(..).is_err()` → `break 'WHILE` (l.461-466), `Ok` → next iteration with the stack entry still in place |
| `rLoop`, `.n a` | l.468-482: `Ok(prod)` → `pop`, `push_production?` (l.469-472); `Err` → `handle_prediction_error`: `Err(_) => break 'WHILE` (l.474-475: the error VALUE is dropped), `Ok(prod)` → `pop`, `push_production?` (l.476-479) |
| `rLoop`, `.e p` | l.483-491 and `process_item_stack` l.334-363: the semantic action is called only if `!is_in_recovery_mode()` i.e. `error_entries.is_empty()` (l.351) |
| `rFinish` | after the loop, l.496-514: `handle_additional_tokens` (l.496); `if !self.error_entries.is_empty()` → `Err(SyntaxErrors)` (l.497-502); unprocessed input → `Err` (l.503-508); else close the root, `Ok(())` (l.509-513) |

Result values. `Res.syntax at_` = `SyntaxErrors` of l.498 with the location of the FIRST entry (as in
`llRun`). An `Err` propagated by `?` from l.437 is rendered `Res.recoveryFailed` whatever it carries
(`RecoveryFailed` with recovery disabled — exactly `llRun`'s value —; with recovery enabled a
`LexerError::RecoveryError`, `PredictionError` or `SyntaxErrors`): the statements below only
distinguish `ok` from not-`ok`. Error locations are token ids (`none`: end of input / default location),
as in `llRun`; the oracle may give the tokens it inserts any id.

FINDING modelled here (see `Props/C01e.lean`, `recovery_drain_can_succeed`): with `PredRec.drained` inside
the loop, the `Err` that carries the drained entries is dropped at l.475, `error_entries` is empty at
l.497, and if no significant token is left the parse returns `Ok(())` at l.513 although an error entry
WAS recorded. Reproduced on the real parser by `harness/examples/c01e_drain_probe.rs`. -/
namespace ParolModel

/-- Location of an error entry (`SyntaxError::error_location`): the id of the offending token, `none`
    at end of input / for a default location. -/
abbrev ErrLoc := Option Nat

/-- The three returns of `add_error`. -/
inductive AddErr
  | ok
  /-- `Err(RecoveryFailed)`: an entry with this location already exists; nothing pushed -/
  | dup
  /-- `Err(TooManyErrors)`: pushed, now more than 100 entries -/
  | tooMany
  deriving DecidableEq, Repr

/-- `add_error` (l.263-279): the new `error_entries` and the return kind. -/
def addError (errs : List ErrLoc) (l : ErrLoc) : List ErrLoc × AddErr :=
  if errs.contains l then (errs, .dup)
  else if (errs ++ [l]).length > 100 then (errs ++ [l], .tooMany)
  else (errs ++ [l], .ok)

/-- How the recovery procedure for a prediction error (`recover_from_prediction_error` l.590-653) ends;
    `s` is the parser state it leaves behind (arbitrary). -/
inductive PredRec
  /-- `Ok(prod_num)` (l.605, l.631) -/
  | prod (s : LLState) (p : Nat)
  /-- `Err(..)`, `error_entries` untouched (l.600, l.609, l.635) -/
  | err (s : LLState)
  /-- `Err(SyntaxErrors { entries: self.error_entries.drain(..) })` (l.645-653, l.732-736):
      `error_entries` is EMPTY afterwards -/
  | drained (s : LLState)

/-- How the recovery procedure for a token mismatch (`recover_from_token_mismatch` l.664-671) ends. -/
inductive TokRec
  | ok (s : LLState)
  | err (s : LLState)

/-- The recovery procedure as an oracle: arguments are the non-terminal / expected terminal, the
    complete parser state and the error entries (the new one included). -/
structure Recovery where
  pred : Nat → LLState → List ErrLoc → PredRec
  tok : Nat → LLState → List ErrLoc → TokRec

/-- The oracle never takes the "Can't recover" / "Can't sync" exits that drain `error_entries`
    (l.640-653, l.729-737). -/
def Recovery.NoDrain (R : Recovery) : Prop := ∀ a s errs s', R.pred a s errs ≠ .drained s'

/-- `handle_token_mismatch` (l.517-547): new error entries, state afterwards, and whether it returned
    `Ok` (the loop goes on) or `Err` (`break 'WHILE`, l.461-466). -/
def handleTokenMismatch (o : Opts) (R : Recovery) (a : Nat) (s : LLState) (errs : List ErrLoc)
    (loc : ErrLoc) : List ErrLoc × LLState × Bool :=
  match addError errs loc with
  | (errs', .ok) =>
    if o.recovery then
      match R.tok a s errs' with
      | .ok s' => (errs', s', true)
      | .err s' => (errs', s', false)
    else (errs', s, false)            -- l.661-663
  | (errs', _) => (errs', s, false)   -- `add_error(..)?`, l.545

/-- What `handle_prediction_error` returns: `Ok(prod_num)` or `Err`. -/
inductive PredOutcome
  | push (s : LLState) (p : Nat)
  | stop (s : LLState)

/-- `handle_prediction_error` (l.549-580): new error entries and the outcome. -/
def handlePredictionError (o : Opts) (R : Recovery) (a : Nat) (s : LLState) (errs : List ErrLoc)
    (loc : ErrLoc) : List ErrLoc × PredOutcome :=
  match addError errs loc with
  | (errs', .ok) =>
    if o.recovery then
      match R.pred a s errs' with
      | .prod s' p => (errs', .push s' p)
      | .err s' => (errs', .stop s')
      | .drained s' => ([], .stop s')   -- l.650-651 / l.733-735: the entries leave the parser
    else (errs', .stop s)               -- l.587-589
  | (errs', _) => (errs', .stop s)      -- `add_error(..)?`, l.578

/-- After the loop (l.496-514): `SyntaxErrors` iff `error_entries` is not empty. -/
def rFinish (o : Opts) (s : LLState) (errs : List ErrLoc) (steps : Nat) : LLOut :=
  finish o s errs.head? steps

/-- The main loop of `parse_into` (l.443-494) with recovery. `errs` is `self.error_entries`. -/
def rLoop (T : LLTables) (o : Opts) (R : Recovery) : Nat → LLState → List ErrLoc → Nat → LLOut
  | 0, s, _, steps => abort s .fuel steps
  | fuel + 1, s, errs, steps =>
    if inputAccepted s.stack then rFinish o s errs steps else
    match s.stack with
    | [] => rFinish o s errs steps
    | .t a :: st =>
      match firstSig s.input with
      | some tok =>
        if tok.ty = a then
          let (inp, tr, cm) := drainSkips o s.input s.tree s.comments
          let inp' := inp.drop 1
          rLoop T o R fuel
            { s with stack := st, input := inp', comments := cm,
                     tree := if o.trim then tr else .tok tok.id :: tr,
                     ptStack := .tok tok.id tok.ty :: s.ptStack } errs (steps + 1)
        else
          match handleTokenMismatch o R a s errs (some tok.id) with
          | (errs', s', true) => rLoop T o R fuel s' errs' (steps + 1)
          | (errs', s', false) => rFinish o s' errs' steps
      | none =>
        if a = 0 then abort s .internal steps
        else
          match handleTokenMismatch o R a s errs none with
          | (errs', s', true) => rLoop T o R fuel s' errs' (steps + 1)
          | (errs', s', false) => rFinish o s' errs' steps
    | .n a :: st =>
      match predict T a s.input with
      | some (.ok p) =>
        if p < 0 then abort s .internal steps else
        match pushProduction T o { s with stack := st } p.toNat with
        | some (s', none) => rLoop T o R fuel s' errs (steps + 1)
        | some (s', some r) => abort s' r steps
        | none => abort s .internal steps
      | some .predictError =>
        match handlePredictionError o R a s errs ((firstSig s.input).map (·.id)) with
        | (errs', .push s' p) =>
          -- l.477-478: `pop`, `push_production(prod_num)?`
          match pushProduction T o { s' with stack := s'.stack.drop 1 } p with
          | some (s'', none) => rLoop T o R fuel s'' errs' (steps + 1)
          | some (s'', some r) => abort s'' r steps
          | none => abort s' .internal steps
        | (errs', .stop s') => rFinish o s' errs' steps     -- l.475 `break 'WHILE`
      | _ => abort s .internal steps
    | .e p :: st =>
      match T.prods[p]? with
      | none => abort s .internal steps
      | some pr =>
        let l := pr.rhsRev.length
        if s.ptStack.length < l then abort s .internal steps else
        let children := (s.ptStack.take l).reverse
        rLoop T o R fuel
          { s with stack := st, ptStack := s.ptStack.drop l,
                   depth := if pr.push then s.depth else s.depth - 1,
                   -- l.351: no semantic action in recovery mode
                   actions := if errs.isEmpty then (p, children) :: s.actions else s.actions,
                   tree := if o.trim then s.tree else .close :: s.tree } errs (steps + 1)

/-- `parse_into` with recovery: root node, prediction for the start symbol (with
    `handle_prediction_error(..)?`, l.436-438), first `push_production`, main loop. -/
def rRun (T : LLTables) (o : Opts) (R : Recovery) (fuel : Nat) (input : List MTok) : LLOut :=
  let s0 : LLState := ⟨[], input, [], 0, [], [.open_ none], []⟩
  match predict T T.start input with
  | some (.ok p) =>
    if p < 0 then abort s0 .internal 0 else
    match pushProduction T o s0 p.toNat with
    | some (s, none) => rLoop T o R fuel s [] 0
    | some (s, some r) => abort s r 0
    | none => abort s0 .internal 0
  | some .predictError =>
    match handlePredictionError o R T.start s0 [] ((firstSig input).map (·.id)) with
    | (errs', .push s' p) =>
      match pushProduction T o s' p with
      | some (s'', none) => rLoop T o R fuel s'' errs' 0
      | some (s'', some r) => abort s'' r 0
      | none => abort s' .internal 0
    | (_, .stop s') => abort s' .recoveryFailed 0     -- l.437 `?`
  | _ => abort s0 .internal 0

/-- What the real recovery does when it takes the exit l.640-653 ("Can't recover"): nothing but the
    drain. Used for the counterexample in `Props/C01e.lean`. -/
def drainRecovery : Recovery := ⟨fun _ s _ => .drained s, fun _ s _ => .err s⟩

end ParolModel
