import ParolModel.Model.MemberProto
/-! Property oracle shared by C01/C03/C04/C12: the verdict of a real parser on a token string is
compared with membership in the language of the ORIGINAL grammar, decided by the verified
recogniser `member` (`member_iff`). -/
namespace ParolModel

-- @handler lang-verdict handleLangVerdict
/-- `lang-verdict <start> <prods> <w> <verdict-word>` → `ok` iff (`w ∈ L(G)`) = (verdict-word is `ok`). -/
def handleLangVerdict : List String → Option String
  | [st, ps, w, v] => do
    let G ← parseGrammar st ps
    let w ← Proto.parseNats w
    match memberB G w with
    | none => some "fail member-fuel-exhausted"
    | some m =>
      let accepted := v == "ok"
      if m == accepted then some "ok"
      else if m then some "fail sentence-rejected"
      else some "fail non-sentence-accepted"
  | _ => none

end ParolModel
