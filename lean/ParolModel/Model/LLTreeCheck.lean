import ParolModel.Model.LRTree
/-! Executable glue for C02b (the oracle `treeCheck` as a theorem about the LL model; leftmost
derivation). Core-only.

* `llTreeCheck` — `treeCheck` instantiated exactly as in the handler `ll-tree-check`
  (Model/TreeCheck.lean): left-hand sides and right-hand sides are read from the generated production
  table (`rhsRev` reversed), the start symbol is `T.start`.
* `DTree.preNodes` / `DTree.preProds` — the production applications of a derivation tree (`DTree`,
  Model/LRTree.lean) in PRE-ORDER (parents before children, left to right): the order in which an
  LL parser predicts them.
* `treeOpens` — the non-terminal nodes a tree-event list opens, in the order of the events.
* `llLoopG` / `llRunG` — the loop of `llRun` with one ghost accumulator: the numbers of the productions
  handed to `push_production`, in the order of the calls (`LLOutG.preds`). The ghost never influences
  control flow; `Proofs/LLTreeCheck.lean` proves that erasing it gives `llLoop` / `llRun` back. -/
namespace ParolModel

/-- `treeCheck` instantiated as in the handler `ll-tree-check`. -/
def llTreeCheck (T : LLTables) (toks : List MTok) (acts : List (Nat × List PTItem))
    (tree : List TreeEv) : Option String :=
  treeCheck T.start (fun p => T.prods[p]?.map (·.lhs)) (fun p => T.prods[p]?.map (·.rhsRev.reverse))
    toks (actionsAsChildren acts) tree

namespace DTree

mutual
/-- The production applications of the tree in PRE-ORDER (parents before children, left to right). -/
def preNodes : DTree → List ProdApp
  | leaf _ => []
  | node p lhs kids => ⟨p, lhs, kids⟩ :: preNodesL kids
def preNodesL : List DTree → List ProdApp
  | [] => []
  | k :: ks => preNodes k ++ preNodesL ks
end

/-- Production numbers in pre-order: the order in which an LL parser predicts them. -/
def preProds (d : DTree) : List Nat := d.preNodes.map (·.prod)

end DTree

/-- The labels of the non-terminal nodes a tree-event list opens, in event order. -/
def treeOpens : List TreeEv → List Nat
  | [] => []
  | .open_ (some a) :: rest => a :: treeOpens rest
  | _ :: rest => treeOpens rest

/-- Output of the instrumented run: the output of `llRun` plus the ghost prediction trace. -/
structure LLOutG where
  out : LLOut
  /-- productions handed to `push_production`, in call order -/
  preds : List Nat
  deriving Repr

/-- `llLoop` (Model/LL.lean) with the ghost accumulator `g` (reversed): every production number that is
    handed to `pushProduction` is recorded, whether or not the depth check then fails. All other
    clauses are literally those of `llLoop`. -/
def llLoopG (T : LLTables) (o : Opts) : Nat → LLState → Nat → List Nat → LLOutG
  | 0, s, steps, g => ⟨abort s .fuel steps, g.reverse⟩
  | fuel + 1, s, steps, g =>
    if inputAccepted s.stack then ⟨finish o s none steps, g.reverse⟩ else
    match s.stack with
    | [] => ⟨finish o s none steps, g.reverse⟩
    | .t a :: st =>
      match firstSig s.input with
      | some tok =>
        if tok.ty = a then
          let (inp, tr, cm) := drainSkips o s.input s.tree s.comments
          let inp' := inp.drop 1
          llLoopG T o fuel
            { s with stack := st, input := inp', comments := cm,
                     tree := if o.trim then tr else .tok tok.id :: tr,
                     ptStack := .tok tok.id tok.ty :: s.ptStack } (steps + 1) g
        else ⟨finish o s (some (some tok.id)) steps, g.reverse⟩
      | none =>
        if a = 0 then ⟨abort s .internal steps, g.reverse⟩
        else ⟨finish o s (some none) steps, g.reverse⟩
    | .n a :: st =>
      match predict T a s.input with
      | some (.ok p) =>
        if p < 0 then ⟨abort s .internal steps, g.reverse⟩ else
        match pushProduction T o { s with stack := st } p.toNat with
        | some (s', none) => llLoopG T o fuel s' (steps + 1) (p.toNat :: g)
        | some (s', some r) => ⟨abort s' r steps, (p.toNat :: g).reverse⟩
        | none => ⟨abort s .internal steps, g.reverse⟩
      | some .predictError => ⟨finish o s (some ((firstSig s.input).map (·.id))) steps, g.reverse⟩
      | _ => ⟨abort s .internal steps, g.reverse⟩
    | .e p :: st =>
      match T.prods[p]? with
      | none => ⟨abort s .internal steps, g.reverse⟩
      | some pr =>
        let l := pr.rhsRev.length
        if s.ptStack.length < l then ⟨abort s .internal steps, g.reverse⟩ else
        let children := (s.ptStack.take l).reverse
        llLoopG T o fuel
          { s with stack := st, ptStack := s.ptStack.drop l,
                   depth := if pr.push then s.depth else s.depth - 1,
                   actions := (p, children) :: s.actions,
                   tree := if o.trim then s.tree else .close :: s.tree } (steps + 1) g

/-- `llRun` with the ghost prediction trace. -/
def llRunG (T : LLTables) (o : Opts) (fuel : Nat) (input : List MTok) : LLOutG :=
  let s0 : LLState := ⟨[], input, [], 0, [], [.open_ none], []⟩
  match predict T T.start input with
  | some (.ok p) =>
    if p < 0 then ⟨abort s0 .internal 0, []⟩ else
    match pushProduction T o s0 p.toNat with
    | some (s, none) => llLoopG T o fuel s 0 [p.toNat]
    | some (s, some r) => ⟨abort s r 0, [p.toNat]⟩
    | none => ⟨abort s0 .internal 0, []⟩
  | some .predictError => ⟨abort s0 .recoveryFailed 0, []⟩
  | _ => ⟨abort s0 .internal 0, []⟩

end ParolModel
