import ParolModel.Model.Proto
/-! # L7 — `Terminals`, `TerminalString`, `KTuple` on `BitVec 128`

Executable mirror of `crates/parol/src/analysis/k_tuple.rs` (and the constants of
`compiled_terminal.rs`) as compiled with debug assertions and overflow checks (the harness builds
the parol crates that way, see `harness/Cargo.toml.in`).

Conventions
* the word is always written `BitVec 128` literally (never through an `abbrev`: `bv_decide` would
  abstract the shifts as opaque terms);
* `u8` values (`next_index`, `bits`) are `BitVec 8`, `usize`/`u16` values are `Nat`;
* `Option α` is the panic monad: `none` = the Rust code panics (explicit `panic!`, failing
  `debug_assert*!`, arithmetic or shift overflow check).  A Rust `Option`/`Result` *value* is an
  inner `Option`/`Bool`.
-/
namespace ParolModel
namespace Tm

/-! ## Constants -/

/-- `parol::MAX_K` -/
def MAX_K : Nat := 10
/-- `const MAX_BITS: u8 = (size_of::<u128>() * 8) as u8 / MAX_K as u8` -/
def MAX_BITS : Nat := (16 * 8) / MAX_K
/-- `compiled_terminal::EPS = TerminalIndex::MAX` (`TerminalIndex = u16`) -/
def EPS : Nat := 65535
/-- `compiled_terminal::INVALID = TerminalIndex::MAX - 1` -/
def INVALID : Nat := 65534
/-- `k_tuple::EOI` -/
def EOI : Nat := 0

def IDX_MASK   : BitVec 128 := 0x0F000000000000000000000000000000#128
def IDX_CLEAR  : BitVec 128 := 0xF0FFFFFFFFFFFFFFFFFFFFFFFFFFFFFF#128
def BITS_MASK  : BitVec 128 := 0xF0000000000000000000000000000000#128
def BITS_CLEAR : BitVec 128 := 0x0FFFFFFFFFFFFFFFFFFFFFFFFFFFFFFF#128

/-! ## Checked shifts (`<<`/`>>` on `u128` with a `usize` amount panic for amounts ≥ 128) -/

def shl? (x : BitVec 128) (n : Nat) : Option (BitVec 128) := if n < 128 then some (x <<< n) else none
def shr? (x : BitVec 128) (n : Nat) : Option (BitVec 128) := if n < 128 then some (x >>> n) else none

/-! ## `impl Terminals` -/

/-- `next_index(&self) -> u8` -/
def nextIndex (t : BitVec 128) : BitVec 8 := ((t &&& IDX_MASK) >>> 120).setWidth 8
/-- `bits(&self) -> u8` -/
def bits (t : BitVec 128) : BitVec 8 := ((t &&& BITS_MASK) >>> 124).setWidth 8
/-- `len(&self) -> usize` -/
def len (t : BitVec 128) : Nat := (nextIndex t).toNat
/-- `is_empty` -/
def isEmpty (t : BitVec 128) : Bool := nextIndex t == 0
/-- `set_next_index(&mut self, i: u8)`; `(i as u128) << 120` silently drops bits above 127. -/
def setNextIndex (t : BitVec 128) (i : BitVec 8) : BitVec 128 :=
  (t &&& IDX_CLEAR) ||| (i.setWidth 128 <<< 120)
/-- `set_bits(&mut self, bits: u8)` with its `debug_assert_ne!(self.bits(), 0)`. -/
def setBits (t : BitVec 128) (b : BitVec 8) : Option (BitVec 128) :=
  let t' := (t &&& BITS_CLEAR) ||| (b.setWidth 128 <<< 124)
  if bits t' = 0 then none else some t'
/-- `inc_index`: `checked_add(1)` cannot fail (`next_index ≤ 15`); `debug_assert!(i <= MAX_K)`. -/
def incIndex (t : BitVec 128) : Option (BitVec 128) :=
  let i := nextIndex t + 1
  if i.toNat ≤ MAX_K then some ((t &&& IDX_CLEAR) ||| (i.setWidth 128 <<< 120)) else none
/-- `mask(&self) -> u128 = !(!0u128 << self.bits())` -/
def mask (t : BitVec 128) : BitVec 128 := ~~~((~~~ 0#128) <<< bits t)

/-- `Terminals::default()` (derived): the zero word, bit width 0. -/
def default : BitVec 128 := 0#128

/-- `Terminals::new(max_terminal_index: usize)`; panics iff the bit width exceeds `MAX_BITS`
    (or `max_terminal_index + 1` overflows `usize`). -/
def new (m : Nat) : Option (BitVec 128) :=
  if m + 1 ≥ 2 ^ 64 then none else
  let b := Nat.log2 (m + 1) + 1
  if b > MAX_BITS then none else setBits 0#128 (BitVec.ofNat 8 b)

/-- `set(&mut self, i: usize, t: CompiledTerminal)` -/
def set (t : BitVec 128) (i : Nat) (v : Nat) : Option (BitVec 128) :=
  let tm := mask t
  if !(v ≤ tm.toNat % 65536 || v == EPS) then none else
  if v == INVALID then none else
  let b := (bits t).toNat
  match shl? (BitVec.ofNat 128 v &&& tm) (i * b), shl? tm (i * b) with
  | some vv, some m => some ((t &&& ~~~m) ||| vv)
  | _, _ => none

/-- value conversion at the end of `get`/`TermIt::next`: the stored all-ones value is ε. -/
def decode (m v : BitVec 128) : Nat := if v = m then EPS else v.toNat % 65536

/-- `get(&self, i: usize) -> Option<CompiledTerminal>` -/
def get (t : BitVec 128) (i : Nat) : Option (Option Nat) :=
  if i < len t then
    match shr? t (i * (bits t).toNat) with
    | some sh => some (some (decode (mask t) (sh &&& mask t)))
    | none => none
  else some none

/-- private `last` -/
def last (t : BitVec 128) : Option (Option Nat) :=
  if isEmpty t then some none else
  let idx := len t
  if idx = 0 then some none else get t (idx - 1)

/-- `is_eps` -/
def isEps (t : BitVec 128) : Bool :=
  if nextIndex t != 1 then false else (t &&& mask t) == mask t

/-- `is_k_complete(&self, k: usize)` (short-circuit order kept: `last` is only evaluated when
    `len < k`). -/
def isKComplete (t : BitVec 128) (k : Nat) : Option Bool :=
  if isEps t then some false else
  if len t ≥ k then some true else
  match last t with
  | some l => some (l == some EOI)
  | none => none

/-- `k_len` -/
def kLen (t : BitVec 128) (k : Nat) : Nat := min (len t) k

/-- `clear` -/
def clear (t : BitVec 128) : Option (BitVec 128) := setBits 0#128 (bits t)

/-- `Terminals::eps(max_terminal_index)` -/
def eps (m : Nat) : Option (BitVec 128) :=
  match new m with
  | some t => match set t 0 EPS with
    | some t => some (setNextIndex t 1)
    | none => none
  | none => none

/-- `Terminals::end(max_terminal_index)` -/
def «end» (m : Nat) : Option (BitVec 128) :=
  match new m with
  | some t => some (setNextIndex t 1)
  | none => none

/-- the `(0..i).for_each(|_| { copy_mask <<= bits; copy_mask |= mask })` loop of `Terminals::of` -/
def copyMask (b : BitVec 8) (m : BitVec 128) : Nat → BitVec 128
  | 0 => 0#128
  | n + 1 => (copyMask b m n <<< b) ||| m

/-- `Terminals::of(k, other)` -/
def «of» (k : Nat) (other : BitVec 128) : Option (BitVec 128) :=
  let b := bits other
  let m := mask other
  let i := kLen other k
  let cm := copyMask b m i
  match setBits (other &&& cm) b with
  | some t => some (setNextIndex t (BitVec.ofNat 8 i))
  | none => none

/-- `push(&mut self, t) -> Result<(), String>`: `(true, t')` = `Ok`, `(false, t')` = `Err`. -/
def push (t : BitVec 128) (v : Nat) : Option (Bool × BitVec 128) :=
  if len t ≥ MAX_K then some (false, t) else
  match last t with
  | none => none
  | some l =>
    if l == some EOI then some (true, t) else
    if v == INVALID then none else
    match set t (len t) v with
    | none => none
    | some t1 =>
      match incIndex t1 with
      | none => none
      | some t2 => some (true, t2)

/-- `Extend<TerminalIndex>` / `Extend<CompiledTerminal>`: `for t in iter { let _ = self.push(t); }` -/
def extend (t : BitVec 128) : List Nat → Option (BitVec 128)
  | [] => some t
  | v :: vs =>
    match push t v with
    | none => none
    | some (_, t') => extend t' vs

/-- `k_concat(mut self, other: &Self, k: usize) -> Self` -/
def kConcat (self other : BitVec 128) (k : Nat) : Option (BitVec 128) :=
  if bits other ≠ bits self then none else
  if bits self = 0 then none else
  if isEps other || isEmpty other then some self else
  match (if isEps self then clear self else some self) with
  | none => none
  | some self =>
    match isKComplete self k with
    | none => none
    | some true => some self
    | some false =>
      let myK := kLen self k
      let otherLen := kLen other k
      let toTake := min (k - myK) otherLen
      if toTake = 0 then none else
      let b := bits self
      match shl? (~~~ 0#128) (toTake * b.toNat) with
      | none => none
      | some m =>
        match shl? (other &&& ~~~m) (myK * b.toNat) with
        | none => none
        | some value =>
          let t := self ||| value
          let newIndex := BitVec.ofNat 8 (myK + toTake)
          if newIndex.toNat > MAX_K then none else
          setBits (setNextIndex t newIndex) b

/-- `impl From<&Terminals> for u128`: `t.t & !(!0u128 << (t.next_index() * t.bits()) as usize)`;
    the `u8` product is at most 15·15 and cannot overflow. -/
def toU128 (t : BitVec 128) : Option (BitVec 128) :=
  match shl? (~~~ 0#128) ((nextIndex t).toNat * (bits t).toNat) with
  | some m => some (t &&& ~~~m)
  | none => none

def cmpBV (x y : BitVec 128) : Ordering := if x < y then .lt else if x = y then .eq else .gt

/-- `impl Ord for Terminals` -/
def cmp (a b : BitVec 128) : Option Ordering :=
  if nextIndex a < nextIndex b then some .lt else
  if nextIndex b < nextIndex a then some .gt else
  match toU128 a, toU128 b with
  | some x, some y => some (cmpBV x y)
  | _, _ => none

/-- derived `PartialEq`: the raw words are compared. -/
def eq (a b : BitVec 128) : Bool := a == b

/-- what derived `Hash` feeds to the hasher -/
def hashKey (t : BitVec 128) : BitVec 128 := t

def iterGo (m : BitVec 128) (b : BitVec 8) : Nat → BitVec 128 → List Nat
  | 0, _ => []
  | n + 1, t => decode m (t &&& m) :: iterGo m b n (t >>> b)

/-- `iter().collect()`: `TermIt` shifts a copy of the whole word right by `bits` per step. -/
def iter (t : BitVec 128) : List Nat := iterGo (mask t) (bits t) (len t) t

/-! ## `TerminalString` -/

inductive TString where
  | incomplete (t : BitVec 128)
  | complete (t : BitVec 128)
  deriving DecidableEq, Repr

namespace TString
def inner : TString → BitVec 128
  | incomplete t => t
  | complete t => t
def isKComplete : TString → Bool
  | incomplete _ => false
  | complete _ => true
def isComplete (s : TString) (k : Nat) : Option Bool := Tm.isKComplete s.inner k
def makeComplete : TString → TString
  | incomplete t => complete t
  | s => s
def makeIncomplete : TString → TString
  | complete t => incomplete t
  | s => s
def clear (s : TString) : Option TString := (Tm.clear s.inner).map incomplete
def isEps : TString → Bool
  | incomplete t => Tm.isEps t
  | complete _ => false
/-- wrap by completeness: `if terminals.is_k_complete(k) { Complete } else { Incomplete }` -/
def classify (t : BitVec 128) (k : Nat) : Option TString :=
  match Tm.isKComplete t k with
  | some true => some (complete t)
  | some false => some (incomplete t)
  | none => none
/-- `push(&mut self, t, k) -> Result<(), String>`; on `Err` (`?`) `self` keeps the old variant but
    `v.push` worked in place (it left `v` unchanged in that case). -/
def push (s : TString) (v k : Nat) : Option (Bool × TString) :=
  match s with
  | incomplete t =>
    match Tm.push t v with
    | none => none
    | some (false, t') => some (false, incomplete t')
    | some (true, t') =>
      match classify t' k with
      | some s' => some (true, s')
      | none => none
  | complete t => some (true, complete t)
def kConcat (s o : TString) (k : Nat) : Option TString :=
  match s with
  | incomplete t =>
    match Tm.kConcat t o.inner k with
    | some t' => classify t' k
    | none => none
  | complete t => some (complete t)
/-- derived `Ord`: variant order `Incomplete < Complete`, then `Terminals::cmp`. -/
def cmp : TString → TString → Option Ordering
  | incomplete a, incomplete b => Tm.cmp a b
  | complete a, complete b => Tm.cmp a b
  | incomplete _, complete _ => some .lt
  | complete _, incomplete _ => some .gt
end TString

/-! ## `KTuple` and `KTupleBuilder` -/

structure KTuple where
  terminals : TString
  k : Nat
  deriving DecidableEq, Repr

namespace KTuple
/-- common tail of `KTupleBuilder::build`: push `vs.take k` onto `Terminals::new(m)`, `?` on `Err`. -/
def pushAll (t : BitVec 128) : List Nat → Option (Bool × BitVec 128)
  | [] => some (true, t)
  | v :: vs =>
    match Tm.push t v with
    | none => none
    | some (false, t') => some (false, t')
    | some (true, t') => pushAll t' vs

/-- `KTupleBuilder::new().k(k).max_terminal_index(m).terminal_string(ts).build()`;
    inner `none` = `Err`. -/
def build (k m : Nat) (ts : List Nat) : Option (Option KTuple) :=
  match Tm.new m with
  | none => none
  | some t =>
    match pushAll t (ts.take k) with
    | none => none
    | some (false, _) => some none
    | some (true, t') =>
      match TString.classify t' k with
      | none => none
      | some s => some (some ⟨s, min k MAX_K⟩)

/-- `….k_tuple(kt).build()`: the source is read through `iter()` (ε comes back as `0xFFFF`). -/
def buildFrom (k m : Nat) (kt : KTuple) : Option (Option KTuple) :=
  build k m (Tm.iter kt.terminals.inner)

def eps (k m : Nat) : Option KTuple :=
  match Tm.eps m with
  | some t => some ⟨.incomplete t, min k MAX_K⟩
  | none => none

def «end» (k m : Nat) : Option KTuple :=
  match Tm.end m with
  | some t => some ⟨.complete t, min k MAX_K⟩
  | none => none

/-- `KTuple::from_slice(others, k, max_terminal_index)` -/
def fromSlice (vs : List Nat) (k m : Nat) : Option KTuple :=
  match Tm.new m with
  | none => none
  | some t =>
    match Tm.extend t (vs.take k) with
    | none => none
    | some t' =>
      match TString.classify t' k with
      | none => none
      | some s => some ⟨s, k⟩

/-- `KTuple::of(t, k)` -/
def «of» (t : BitVec 128) (k : Nat) : Option KTuple :=
  match Tm.of k t with
  | none => none
  | some t' =>
    match TString.classify t' k with
    | none => none
    | some s => some ⟨s, k⟩

def push (x : KTuple) (v : Nat) : Option (Bool × KTuple) :=
  match x.terminals.push v x.k with
  | none => none
  | some (r, s) => some (r, ⟨s, x.k⟩)

def isEps (x : KTuple) : Bool := x.terminals.isEps
def len (x : KTuple) : Nat := Tm.len x.terminals.inner
def isEmpty (x : KTuple) : Bool := Tm.isEmpty x.terminals.inner
def kLen (x : KTuple) (k : Nat) : Nat := Tm.kLen x.terminals.inner k
def isKComplete (x : KTuple) : Bool := x.terminals.isKComplete

/-- `k_concat`: note that the result's `k` is the *k-length of the result*, not `k`. -/
def kConcat (x o : KTuple) (k : Nat) : Option KTuple :=
  match x.terminals.kConcat o.terminals k with
  | none => none
  | some s => some ⟨s, Tm.kLen s.inner k⟩

def setK (x : KTuple) (k : Nat) : Option KTuple :=
  match x.terminals.isComplete k with
  | none => none
  | some true => some ⟨x.terminals.makeComplete, k⟩
  | some false => some ⟨x.terminals.makeIncomplete, k⟩

/-- `Extend<TerminalIndex> for KTuple`: `iter.take(self.k - self.len())` — the `usize`
    subtraction panics on underflow (overflow checks are on). -/
def extend (x : KTuple) (vs : List Nat) : Option KTuple :=
  if x.terminals.isKComplete then some x else
  if x.k < x.len then none else
  let rec go (x : KTuple) : List Nat → Option KTuple
    | [] => some x
    | v :: vs =>
      match x.push v with
      | none => none
      | some (_, x') => go x' vs
  go x (vs.take (x.k - x.len))

/-- derived `Ord`: `terminals`, then `k`. -/
def cmp (a b : KTuple) : Option Ordering :=
  match TString.cmp a.terminals b.terminals with
  | none => none
  | some .eq => some (compare a.k b.k)
  | some o => some o

/-- manual `Hash`: only the raw word of the inner `Terminals`. -/
def hashKey (x : KTuple) : BitVec 128 := x.terminals.inner
end KTuple

/-! ## The sequence reading (`abs`) and the list-level specification -/

/-- A symbol of a terminal string: a terminal index or ε.  End of input is `term 0`. -/
inductive TSym where
  | term (n : Nat)
  | eps
  deriving DecidableEq, Repr

/-- the `u16` value the API shows for a symbol -/
def TSym.code : TSym → Nat
  | .term n => n
  | .eps => EPS

/-- the symbol denoted by a stored field: all ones = ε. -/
def symOfRaw (m v : BitVec 128) : TSym := if v = m then .eps else .term v.toNat

/-- the raw field number `i` -/
def rawGet (t : BitVec 128) (i : Nat) : BitVec 128 := (t >>> (i * (bits t).toNat)) &&& mask t

/-- **Abstraction function**: the sequence a packed word denotes. -/
def abs (t : BitVec 128) : List TSym := (List.range (len t)).map (fun i => symOfRaw (mask t) (rawGet t i))

/-- The abstract value: bit width plus sequence. -/
structure Spec where
  bits : Nat
  syms : List TSym
  deriving DecidableEq, Repr

def absS (t : BitVec 128) : Spec := ⟨(bits t).toNat, abs t⟩

/-- bit width chosen by `new`: room for `0..=m` plus the ε code. -/
def bitsFor (m : Nat) : Nat := Nat.log2 (m + 1) + 1

/-- `new` is defined iff `m + 1 < 4096` -/
def specNew (m : Nat) : Option Spec := if m + 1 ≥ 4096 then none else some ⟨bitsFor m, []⟩
def specEps (m : Nat) : Option Spec := if m + 1 ≥ 4096 then none else some ⟨bitsFor m, [.eps]⟩
def specEnd (m : Nat) : Option Spec := if m + 1 ≥ 4096 then none else some ⟨bitsFor m, [.term EOI]⟩

/-- the symbol an API argument denotes: `0xFFFF` is ε. -/
def symOfArg (v : Nat) : TSym := if v = EPS then .eps else .term v
/-- the arguments `push`/`set` are specified for: ε, or a value below the all-ones code. -/
def validArg (b v : Nat) : Bool := v == EPS || v + 1 < 2 ^ b

def specLen (l : List TSym) : Nat := l.length
def specKLen (l : List TSym) (k : Nat) : Nat := min l.length k
def specGet (l : List TSym) (i : Nat) : Option Nat := l[i]?.map TSym.code
def specIsEps (l : List TSym) : Bool := l == [.eps]
def specIsKComplete (l : List TSym) (k : Nat) : Bool :=
  !(l == [.eps]) && (decide (k ≤ l.length) || l.getLast? == some (.term EOI))
def specOf (k : Nat) (l : List TSym) : List TSym := l.take k
/-- `push`: error at `MAX_K`, no-op after end of input, else append. -/
def specPush (l : List TSym) (x : TSym) : Bool × List TSym :=
  if l.length ≥ MAX_K then (false, l) else
  if l.getLast? == some (.term EOI) then (true, l) else (true, l ++ [x])
def specExtend (l : List TSym) : List TSym → List TSym
  | [] => l
  | x :: xs => specExtend (specPush l x).2 xs
/-- k-concatenation: `w·ε = w`, `w·[] = w`, `ε·w = w`, a k-complete left operand absorbs, otherwise
    the concatenation truncated to `k`. -/
def specKConcat (u v : List TSym) (k : Nat) : List TSym :=
  if v == [.eps] || v == [] then u else
  let u' := if u == [.eps] then [] else u
  if specIsKComplete u' k then u' else (u' ++ v).take k
def specIter (l : List TSym) : List Nat := l.map TSym.code

/-- order of symbols as stored: terminals by index, ε (all ones) above every terminal. -/
def symLt : TSym → TSym → Bool
  | .term a, .term b => a < b
  | .term _, .eps => true
  | .eps, _ => false

/-- lexicographic comparison, most significant symbol first -/
def lexCmp : List TSym → List TSym → Ordering
  | [], [] => .eq
  | [], _ :: _ => .lt
  | _ :: _, [] => .gt
  | a :: as, b :: bs => if symLt a b then .lt else if symLt b a then .gt else lexCmp as bs

/-- `Ord`: length first, then the packed value — i.e. lexicographic from the LAST symbol down
    (the first symbol is the least significant digit). -/
def specCmp (a b : List TSym) : Ordering :=
  if a.length < b.length then .lt else if b.length < a.length then .gt else lexCmp a.reverse b.reverse

/-! ## Well-formedness (decidable, used by the oracle) -/

def PAYLOAD : BitVec 128 := 0x00FFFFFFFFFFFFFFFFFFFFFFFFFFFFFF#128

/-- 1 ≤ bits ≤ 12, len ≤ 10, and the payload above `len·bits` is zero. -/
def wfb (t : BitVec 128) : Bool :=
  decide (1 ≤ (bits t).toNat) && decide ((bits t).toNat ≤ MAX_BITS) && decide (len t ≤ MAX_K) &&
  ((t &&& PAYLOAD) >>> (len t * (bits t).toNat) == 0#128)

/-! ## Op programs: the model interpreter, the list-level interpreter, and the protocol -/

def showBool (b : Bool) : String := if b then "1" else "0"
def showOrd : Ordering → String
  | .lt => "lt" | .eq => "eq" | .gt => "gt"
/-- canonical rendering of a `Terminals` state: raw word (32 hex digits) / next_index / bits -/
def render (t : BitVec 128) : String :=
  t.toHex ++ "/" ++ toString (nextIndex t).toNat ++ "/" ++ toString (bits t).toNat
def renderK (x : KTuple) : String :=
  (match x.terminals with | .complete _ => "C/" | .incomplete _ => "I/") ++ render x.terminals.inner ++ "/" ++ toString x.k
def showOptNat : Option Nat → String
  | none => "none" | some n => toString n

structure Regs where
  t : List (BitVec 128)          -- t0..t3, start as `Terminals::default()`
  k : List (Option KTuple)       -- k0..k3, start unset
def Regs.init : Regs := ⟨[0#128, 0#128, 0#128, 0#128], [none, none, none, none]⟩

def regT (s : String) : Option Nat :=
  if s.startsWith "t" then (s.drop 1).toNat?.bind (fun n => if n < 4 then some n else none) else none
def regK (s : String) : Option Nat :=
  if s.startsWith "k" then (s.drop 1).toNat?.bind (fun n => if n < 4 then some n else none) else none

/-- result of one op: `bad` = malformed request, `panic`, or new registers plus one observation word -/
inductive Step (σ : Type) where
  | bad
  | panic
  | ok (r : σ) (obs : String)

def liftT (rg : Regs) (i : Nat) (r : Option (BitVec 128)) : Step Regs :=
  match r with
  | none => .panic
  | some t => .ok { rg with t := rg.t.set i t } (render t)
def liftK (rg : Regs) (i : Nat) (r : Option KTuple) : Step Regs :=
  match r with
  | none => .panic
  | some x => .ok { rg with k := rg.k.set i (some x) } (renderK x)
def liftObs (rg : Regs) (r : Option String) : Step Regs :=
  match r with
  | none => .panic
  | some s => .ok rg s

def u16? (s : String) : Option Nat := s.toNat?.bind (fun n => if n < 65536 then some n else none)
def u16s? (s : String) : Option (List Nat) :=
  (Proto.parseNats s).bind (fun l => if l.all (· < 65536) then some l else none)

/-- one op of the model interpreter (the implementation harness has the same `match`). -/
def stepOp (rg : Regs) (w : List String) : Step Regs :=
  let T := fun (s : String) => (regT s).bind (fun i => rg.t[i]?.map (fun t => (i, t)))
  let K := fun (s : String) => (regK s).bind (fun i => match rg.k[i]? with | some (some x) => some (i, x) | _ => none)
  match w with
  | ["default", r] => match regT r with
    | some i => liftT rg i (some default) | none => .bad
  | ["new", r, m] => match regT r, m.toNat? with
    | some i, some m => liftT rg i (new m) | _, _ => .bad
  | ["eps", r, m] => match regT r, m.toNat? with
    | some i, some m => liftT rg i (eps m) | _, _ => .bad
  | ["end", r, m] => match regT r, m.toNat? with
    | some i, some m => liftT rg i («end» m) | _, _ => .bad
  | ["of", r, s, k] => match regT r, T s, k.toNat? with
    | some i, some (_, t), some k => liftT rg i («of» k t) | _, _, _ => .bad
  | ["push", r, v] => match T r, u16? v with
    | some (i, t), some v =>
      (match push t v with
       | none => .panic
       | some (okk, t') => .ok { rg with t := rg.t.set i t' } ((if okk then "ok=" else "err=") ++ render t'))
    | _, _ => .bad
  | ["ext", r, vs] => match T r, u16s? vs with
    | some (i, t), some vs => liftT rg i (extend t vs) | _, _ => .bad
  | ["kcat", r, a, b, k] => match regT r, T a, T b, k.toNat? with
    | some i, some (_, x), some (_, y), some k => liftT rg i (kConcat x y k) | _, _, _, _ => .bad
  | ["clear", r] => match T r with
    | some (i, t) => liftT rg i (clear t) | _ => .bad
  | ["set", r, ix, v] => match T r, ix.toNat?, u16? v with
    | some (i, t), some ix, some v => liftT rg i (set t ix v) | _, _, _ => .bad
  | ["get", r, ix] => match T r, ix.toNat? with
    | some (_, t), some ix => liftObs rg ((get t ix).map showOptNat) | _, _ => .bad
  | ["len", r] => match T r with
    | some (_, t) => .ok rg (toString (len t)) | _ => .bad
  | ["empty", r] => match T r with
    | some (_, t) => .ok rg (showBool (isEmpty t)) | _ => .bad
  | ["klen", r, k] => match T r, k.toNat? with
    | some (_, t), some k => .ok rg (toString (kLen t k)) | _, _ => .bad
  | ["iseps", r] => match T r with
    | some (_, t) => .ok rg (showBool (isEps t)) | _ => .bad
  | ["kc", r, k] => match T r, k.toNat? with
    | some (_, t), some k => liftObs rg ((isKComplete t k).map showBool) | _, _ => .bad
  | ["iter", r] => match T r with
    | some (_, t) => .ok rg (Proto.showNats (iter t)) | _ => .bad
  | ["eq", a, b] => match T a, T b with
    | some (_, x), some (_, y) => .ok rg (showBool (eq x y)) | _, _ => .bad
  | ["cmp", a, b] => match T a, T b with
    | some (_, x), some (_, y) => liftObs rg ((cmp x y).map showOrd) | _, _ => .bad
  -- KTuple / KTupleBuilder
  | ["kb", r, k, m, ts] => match regK r, k.toNat?, m.toNat?, u16s? ts with
    | some i, some k, some m, some ts =>
      (match KTuple.build k m ts with
       | none => .panic
       | some none => .ok rg "err"
       | some (some x) => .ok { rg with k := rg.k.set i (some x) } ("ok=" ++ renderK x))
    | _, _, _, _ => .bad
  | ["kbk", r, k, m, s] => match regK r, k.toNat?, m.toNat?, K s with
    | some i, some k, some m, some (_, src) =>
      (match KTuple.buildFrom k m src with
       | none => .panic
       | some none => .ok rg "err"
       | some (some x) => .ok { rg with k := rg.k.set i (some x) } ("ok=" ++ renderK x))
    | _, _, _, _ => .bad
  | ["keps", r, k, m] => match regK r, k.toNat?, m.toNat? with
    | some i, some k, some m => liftK rg i (KTuple.eps k m) | _, _, _ => .bad
  | ["kend", r, k, m] => match regK r, k.toNat?, m.toNat? with
    | some i, some k, some m => liftK rg i (KTuple.end k m) | _, _, _ => .bad
  | ["kfs", r, k, m, ts] => match regK r, k.toNat?, m.toNat?, u16s? ts with
    | some i, some k, some m, some ts => liftK rg i (KTuple.fromSlice ts k m) | _, _, _, _ => .bad
  | ["kof", r, s, k] => match regK r, T s, k.toNat? with
    | some i, some (_, t), some k => liftK rg i (KTuple.of t k) | _, _, _ => .bad
  | ["kpush", r, v] => match K r, u16? v with
    | some (i, x), some v =>
      (match x.push v with
       | none => .panic
       | some (okk, x') => .ok { rg with k := rg.k.set i (some x') } ((if okk then "ok=" else "err=") ++ renderK x'))
    | _, _ => .bad
  | ["kext", r, vs] => match K r, u16s? vs with
    | some (i, x), some vs => liftK rg i (x.extend vs) | _, _ => .bad
  | ["kkcat", r, a, b, k] => match regK r, K a, K b, k.toNat? with
    | some i, some (_, x), some (_, y), some k => liftK rg i (x.kConcat y k) | _, _, _, _ => .bad
  | ["ksetk", r, k] => match K r, k.toNat? with
    | some (i, x), some k => liftK rg i (x.setK k) | _, _ => .bad
  | ["Kiseps", r] => match K r with
    | some (_, x) => .ok rg (showBool x.isEps) | _ => .bad
  | ["Klen", r] => match K r with
    | some (_, x) => .ok rg (toString x.len) | _ => .bad
  | ["Kempty", r] => match K r with
    | some (_, x) => .ok rg (showBool x.isEmpty) | _ => .bad
  | ["Kklen", r, k] => match K r, k.toNat? with
    | some (_, x), some k => .ok rg (toString (x.kLen k)) | _, _ => .bad
  | ["Kkc", r] => match K r with
    | some (_, x) => .ok rg (showBool x.isKComplete) | _ => .bad
  | ["Kk", r] => match K r with
    | some (_, x) => .ok rg (toString x.k) | _ => .bad
  | ["Kterms", r] => match K r with
    | some (_, x) => .ok rg (render x.terminals.inner) | _ => .bad
  | ["Keq", a, b] => match K a, K b with
    | some (_, x), some (_, y) => .ok rg (showBool (x == y)) | _, _ => .bad
  | ["Kcmp", a, b] => match K a, K b with
    | some (_, x), some (_, y) => liftObs rg ((x.cmp y).map showOrd) | _, _ => .bad
  | _ => .bad

/-- runs a program; `none` = malformed, `some none` = panic, `some (some obs)` = observations -/
def runProg (rg : Regs) : List (List String) → List String → Option (Option (List String))
  | [], acc => some (some acc.reverse)
  | op :: ops, acc =>
    match stepOp rg op with
    | .bad => none
    | .panic => some none
    | .ok rg' o => runProg rg' ops (o :: acc)

def parseProg (s : String) : List (List String) :=
  ((s.splitOn ";").filter (· ≠ "")).map (fun o => o.splitOn ":")

-- @handler terminals-prog Tm.handleTerminalsProg
/-- Protocol: `terminals-prog <op;op;…>` (fields of an op separated by `:`) → one observation word
    per op, or `panic`.  Registers `t0..t3` hold `Terminals` (initially `Terminals::default()`),
    `k0..k3` hold `KTuple`s (initially unset). -/
def handleTerminalsProg : List String → Option String
  | [p] =>
    let ops := parseProg p
    if ops.length > 64 then none else
    match runProg Regs.init ops [] with
    | none => none
    | some none => some "panic"
    | some (some obs) => some (" ".intercalate obs)
  | _ => none

/-! ### The property oracle: list semantics of a program vs. the implementation's rendered states -/

/-- abstract register: a specified value, or `unspec` once an op left the specified domain -/
inductive AReg where
  | unset
  | unspec
  | val (s : Spec)
  deriving DecidableEq, Repr

def parseHex128 (s : String) : Option (BitVec 128) :=
  if s.length ≠ 32 then none else
  s.toList.foldlM (fun (acc : Nat) c =>
    if '0' ≤ c ∧ c ≤ '9' then some (acc * 16 + (c.toNat - '0'.toNat))
    else if 'a' ≤ c ∧ c ≤ 'f' then some (acc * 16 + (c.toNat - 'a'.toNat + 10))
    else none) 0 |>.map (BitVec.ofNat 128)

/-- parses `hex/idx/bits` and checks that the printed index and width are those in the word -/
def parseRender (s : String) : Option (BitVec 128) :=
  match s.splitOn "/" with
  | [h, i, b] =>
    match parseHex128 h, i.toNat?, b.toNat? with
    | some t, some i, some b => if (nextIndex t).toNat = i ∧ (bits t).toNat = b then some t else none
    | _, _, _ => none
  | _ => none

/-- does the raw state denote the abstract value? (well-formed, same width, same sequence) -/
def denotes (t : BitVec 128) (s : Spec) : Bool := wfb t && absS t == s

/-- verdict of the oracle for one op -/
inductive Verdict where
  | bad                       -- malformed
  | fail (why : String)
  | ok (r : List AReg)        -- abstract registers after the op
  | stop                      -- op outside the specified domain: nothing further is judged
  | unjudged                  -- op not covered by the list-level specification (KTuple ops): skipped

def obsState (o : String) : Option (BitVec 128) := parseRender o
def stripPrefix? (s p : String) : Option String := if s.startsWith p then some (s.drop p.length).toString else none

def checkState (ar : List AReg) (i : Nat) (o : String) (expect : Spec) (what : String) : Verdict :=
  match obsState o with
  | none => .fail (what ++ "-unparsable-state")
  | some t => if denotes t expect then .ok (ar.set i (.val expect)) else .fail (what ++ "-state-does-not-denote-spec-sequence")
def checkObs (ar : List AReg) (o expect what : String) : Verdict :=
  if o == expect then .ok ar else .fail (what ++ "-expected-" ++ expect)

/-- One op judged at list level on the implementation's observation `o` (only `Terminals` ops;
    `KTuple` ops and ops on out-of-domain registers make the oracle stop). -/
def judgeOp (ar : List AReg) (w : List String) (o : String) : Verdict :=
  let A := fun (s : String) => (regT s).bind (fun i => ar[i]?.map (fun a => (i, a)))
  match w with
  | ["default", r] => match regT r with
    | some i => .ok (ar.set i .unspec) | none => .bad
  | ["new", r, m] => match regT r, m.toNat? with
    | some i, some m => (match specNew m with
        | some s => checkState ar i o s "new" | none => .fail "new-must-panic")
    | _, _ => .bad
  | ["eps", r, m] => match regT r, m.toNat? with
    | some i, some m => (match specEps m with
        | some s => checkState ar i o s "eps" | none => .fail "eps-must-panic")
    | _, _ => .bad
  | ["end", r, m] => match regT r, m.toNat? with
    | some i, some m => (match specEnd m with
        | some s => checkState ar i o s "end" | none => .fail "end-must-panic")
    | _, _ => .bad
  | ["of", r, s, k] => match regT r, A s, k.toNat? with
    | some i, some (_, .val a), some k => checkState ar i o ⟨a.bits, specOf k a.syms⟩ "of"
    | some _, some _, some _ => .stop
    | _, _, _ => .bad
  | ["push", r, v] => match A r, u16? v with
    | some (i, .val a), some v =>
      if !validArg a.bits v then .stop else
      let (okk, l) := specPush a.syms (symOfArg v)
      (match stripPrefix? o (if okk then "ok=" else "err=") with
       | some st => checkState ar i st ⟨a.bits, l⟩ "push"
       | none => .fail "push-result-kind")
    | some _, some _ => .stop
    | _, _ => .bad
  | ["ext", r, vs] => match A r, u16s? vs with
    | some (i, .val a), some vs =>
      if !vs.all (validArg a.bits) then .stop else
      checkState ar i o ⟨a.bits, specExtend a.syms (vs.map symOfArg)⟩ "extend"
    | some _, some _ => .stop
    | _, _ => .bad
  | ["kcat", r, a, b, k] => match regT r, A a, A b, k.toNat? with
    | some i, some (_, .val x), some (_, .val y), some k =>
      if x.bits ≠ y.bits || k > MAX_K then .stop else
      checkState ar i o ⟨x.bits, specKConcat x.syms y.syms k⟩ "k_concat"
    | some _, some _, some _, some _ => .stop
    | _, _, _, _ => .bad
  | ["clear", r] => match A r with
    | some (i, .val a) => checkState ar i o ⟨a.bits, []⟩ "clear"
    | some _ => .stop
    | _ => .bad
  | ["set", r, ix, v] => match A r, ix.toNat?, u16? v with
    | some (i, .val a), some ix, some v =>
      if !validArg a.bits v || ix ≥ a.syms.length then .stop else
      checkState ar i o ⟨a.bits, a.syms.set ix (symOfArg v)⟩ "set"
    | some _, some _, some _ => .stop
    | _, _, _ => .bad
  | ["get", r, ix] => match A r, ix.toNat? with
    | some (_, .val a), some ix => checkObs ar o (showOptNat (specGet a.syms ix)) "get"
    | some _, some _ => .stop
    | _, _ => .bad
  | ["len", r] => match A r with
    | some (_, .val a) => checkObs ar o (toString (specLen a.syms)) "len"
    | some _ => .stop | _ => .bad
  | ["empty", r] => match A r with
    | some (_, .val a) => checkObs ar o (showBool a.syms.isEmpty) "is_empty"
    | some _ => .stop | _ => .bad
  | ["klen", r, k] => match A r, k.toNat? with
    | some (_, .val a), some k => checkObs ar o (toString (specKLen a.syms k)) "k_len"
    | some _, some _ => .stop | _, _ => .bad
  | ["iseps", r] => match A r with
    | some (_, .val a) => checkObs ar o (showBool (specIsEps a.syms)) "is_eps"
    | some _ => .stop | _ => .bad
  | ["kc", r, k] => match A r, k.toNat? with
    | some (_, .val a), some k => checkObs ar o (showBool (specIsKComplete a.syms k)) "is_k_complete"
    | some _, some _ => .stop | _, _ => .bad
  | ["iter", r] => match A r with
    | some (_, .val a) => checkObs ar o (Proto.showNats (specIter a.syms)) "iter"
    | some _ => .stop | _ => .bad
  | ["eq", a, b] => match A a, A b with
    | some (_, .val x), some (_, .val y) => checkObs ar o (showBool (x == y)) "eq"
    | some _, some _ => .stop | _, _ => .bad
  | ["cmp", a, b] => match A a, A b with
    | some (_, .val x), some (_, .val y) =>
      if x.bits ≠ y.bits then .stop else checkObs ar o (showOrd (specCmp x.syms y.syms)) "cmp"
    | some _, some _ => .stop | _, _ => .bad
  | c :: _ =>
    if ["kb", "kbk", "keps", "kend", "kfs", "kof", "kpush", "kext", "kkcat", "ksetk", "Kiseps", "Klen", "Kempty",
        "Kklen", "Kkc", "Kk", "Kterms", "Keq", "Kcmp"].contains c then .unjudged else .bad
  | [] => .bad

/-- judges a non-panic reply op by op -/
def judgeProg (ar : List AReg) : List (List String) → List String → Option String
  | [], [] => some "ok"
  | [], _ :: _ => some "fail more-observations-than-ops"
  | _ :: _, [] => some "fail fewer-observations-than-ops"
  | op :: ops, o :: os =>
    match judgeOp ar op o with
    | .bad => none
    | .fail why => some ("fail " ++ why)
    | .stop => some "ok"
    | .unjudged => judgeProg ar ops os
    | .ok ar' => judgeProg ar' ops os

-- @handler terminals-check Tm.handleTerminalsCheck
/-- Property oracle: `terminals-check <prog> <implementation reply…>` → `ok` iff every state the
    implementation printed is well-formed and denotes (via `abs`) the sequence the list-level
    semantics of the program gives, every observed value is the list-level value, and a panic
    occurs only where the specification says so (`new` beyond the 12-bit limit) or outside the
    specified domain.  For a `panic` reply the program is replayed on the model to find the
    panicking op; everything before it is judged on the model's (identical, see tie D) states. -/
def handleTerminalsCheck : List String → Option String
  | p :: reply =>
    let ops := parseProg p
    if ops.length > 64 then none else
    let ar0 : List AReg := [.unspec, .unspec, .unspec, .unspec]
    if reply == ["panic"] then
      -- find the panicking op with the model, judge the prefix, then the panicking op itself
      let rec go (rg : Regs) (ar : List AReg) : List (List String) → Nat → Option String
        | [], _ => some "fail panic-reply-but-model-does-not-panic"
        | _ :: _, 0 => none
        | op :: ops, fuel + 1 =>
          match stepOp rg op with
          | .bad => none
          | .panic =>
            (match op with
             | [c, _, m] =>
               if (c == "new" || c == "eps" || c == "end") then
                 (match m.toNat? with
                  | some m => if m + 1 ≥ 4096 then some "ok" else some "fail constructor-panics-below-the-12-bit-limit"
                  | none => none)
               else
                 (match judgeOp ar op "" with
                  | .stop => some "ok"
                  | .unjudged => some "ok"
                  | .bad => none
                  | _ => some "fail panic-on-an-op-inside-the-specified-domain")
             | _ =>
               (match judgeOp ar op "" with
                | .stop => some "ok"
                | .unjudged => some "ok"
                | .bad => none
                | _ => some "fail panic-on-an-op-inside-the-specified-domain"))
          | .ok rg' o =>
            (match judgeOp ar op o with
             | .bad => none
             | .fail why => some ("fail " ++ why)
             | .stop => some "ok"
             | .unjudged => go rg' ar ops fuel
             | .ok ar' => go rg' ar' ops fuel)
      go Regs.init ar0 ops 64
    else judgeProg ar0 ops reply
  | _ => none

/-- number of ops of a non-panic reply that the list-level semantics actually judged -/
def countJudged (ar : List AReg) : List (List String) → List String → Nat → Nat
  | op :: ops, o :: os, n =>
    match judgeOp ar op o with
    | .ok ar' => countJudged ar' ops os (n + 1)
    | .unjudged => countJudged ar ops os n
    | _ => n
  | _, _, n => n

-- @handler terminals-judged Tm.handleTerminalsJudged
/-- Coverage probe for the oracle: `terminals-judged <prog> <reply…>` → `<ops judged at list level> <ops>`. -/
def handleTerminalsJudged : List String → Option String
  | p :: reply =>
    let ops := parseProg p
    if reply == ["panic"] then some ("0 " ++ toString ops.length) else
    some (toString (countJudged [.unspec, .unspec, .unspec, .unspec] ops reply 0) ++ " " ++ toString ops.length)
  | _ => none

end Tm
end ParolModel
