import ParolModel.Model.RegexDfa
/-! Comment regexes (C15): a model of `ScannerConfig::format_block_comment` and of the line-comment
format in `generate_build_information` (crates/parol/src/generators/scanner_config.rs), the
specification automaton `firstEndDfa s e` and the line-comment specification.

`formatBlockComment` mirrors the code's case split (dedicated C-style expression; 2 equal atoms;
2 different atoms; 1 or 3 atoms) and builds a small syntax tree `Rx` whose `render` reproduces the
code's regex text byte for byte (tie: `fmt` requests). `Rx.toRe` gives the meaning for literal
delimiters. The *verdicts* of C15 are not about this model but about the real strings, parsed by
`regex-syntax` and lowered by the harness (`Generated/ScannerConsts.lean`). -/
namespace ParolModel

def maxCp : Nat := 0x10FFFF

/-- One atom of a delimiter in regex text: a character, possibly written with a backslash. -/
structure DelimAtom where
  esc : Bool
  ch : Char
  deriving DecidableEq, Repr

def DelimAtom.text (a : DelimAtom) : String := (if a.esc then "\\" else "") ++ a.ch.toString

/-- `split_escaped_atoms`; `none` = "dangling escape". -/
def splitEscapedAtoms : List Char → Option (List DelimAtom)
  | [] => some []
  | ['\\'] => none
  | '\\' :: c :: r => (splitEscapedAtoms r).map (⟨true, c⟩ :: ·)
  | c :: r => (splitEscapedAtoms r).map (⟨false, c⟩ :: ·)

/-- Lenient variant for the start delimiter (the code uses `s` verbatim): a trailing lone backslash
    is kept as a character so that rendering reproduces `s`. -/
def splitLenient : List Char → List DelimAtom
  | [] => []
  | ['\\'] => [⟨false, '\\'⟩]
  | '\\' :: c :: r => ⟨true, c⟩ :: splitLenient r
  | c :: r => ⟨false, c⟩ :: splitLenient r

def hexDigits : Nat → Nat → List Char
  | 0, _ => []
  | f + 1, n =>
    let d := n % 16
    let c := if d < 10 then Char.ofNat (48 + d) else Char.ofNat (87 + d)
    if n < 16 then [c] else hexDigits f (n / 16) ++ [c]

/-- Rust's `char::escape_default`. -/
def escapeDefault (c : Char) : String :=
  if c = '\t' then "\\t" else if c = '\r' then "\\r" else if c = '\n' then "\\n"
  else if c = '\'' then "\\'" else if c = '"' then "\\\"" else if c = '\\' then "\\\\"
  else if 0x20 ≤ c.toNat ∧ c.toNat ≤ 0x7e then c.toString
  else "\\u{" ++ String.ofList (hexDigits 8 c.toNat) ++ "}"

def mustEscapeInBracketed (c : Char) : Bool := c = '-' || c = ']' || c = '^' || c = '\\'

/-- `class_safe_atom`. -/
def classSafeAtom (a : DelimAtom) : String :=
  if mustEscapeInBracketed a.ch then "\\" ++ a.ch.toString else escapeDefault a.ch

/-- Concrete syntax of the regexes `format_block_comment` emits. -/
inductive Rx where
  | lits (as : List DelimAtom)        -- the atoms' texts, verbatim
  | notIn (as : List DelimAtom)       -- `[^…]` of class-safe atoms
  | seq (a b : Rx)
  | alt (a b : Rx)               -- `a|b`
  | grp (a : Rx)                 -- `(a)`
  | star (a : Rx) | plus (a : Rx) | opt (a : Rx)
  deriving Repr

def Rx.render : Rx → String
  | .lits as => String.join (as.map DelimAtom.text)
  | .notIn as => "[^" ++ String.join (as.map classSafeAtom) ++ "]"
  | .seq a b => a.render ++ b.render
  | .alt a b => a.render ++ "|" ++ b.render
  | .grp a => "(" ++ a.render ++ ")"
  | .star a => a.render ++ "*"
  | .plus a => a.render ++ "+"
  | .opt a => a.render ++ "?"

def insertNat (x : Nat) : List Nat → List Nat
  | [] => [x]
  | y :: ys => if x < y then x :: y :: ys else if x = y then y :: ys else y :: insertNat x ys

/-- Ranges covering `[lo, maxCp]` except the (sorted, distinct) code points `cs`. -/
def complementFrom : Nat → List Nat → List (Nat × Nat)
  | lo, [] => if lo ≤ maxCp then [(lo, maxCp)] else []
  | lo, c :: cs => if lo < c then (lo, c - 1) :: complementFrom (c + 1) cs else complementFrom (c + 1) cs

/-- `[^…]` over valid code points, as regex-syntax expands it. -/
def notCps (cs : List Nat) : Re := .cls ⟨complementFrom 0 (cs.foldr insertNat []), false⟩

/-- Meaning, for delimiters whose atoms are literal characters. -/
def Rx.toRe : Rx → Re
  | .lits as => Re.lit (as.map (·.ch.toNat))
  | .notIn as => notCps (as.map (·.ch.toNat))
  | .seq a b => .cat a.toRe b.toRe
  | .alt a b => .alt a.toRe b.toRe
  | .grp a => a.toRe
  | .star a => .star a.toRe
  | .plus a => Re.plus a.toRe
  | .opt a => Re.opt a.toRe

inductive FmtErr | dangling | emptyEnd | tooLong
  deriving DecidableEq, Repr

def Rx.altsOf : List Rx → Rx
  | [] => .lits []
  | [r] => r
  | r :: rs => .alt r (Rx.altsOf rs)

/-- `format_block_comment(s, e)`. -/
def formatBlockComment (s e : String) : Except FmtErr Rx :=
  let sl := Rx.lits (splitLenient s.toList)
  if s == "/\\*" && e == "\\*/" then
    -- r"/\*/?([^/]|[^*]/)*\*/"
    let sl_ : DelimAtom := ⟨false, '/'⟩
    let st : DelimAtom := ⟨false, '*'⟩
    .ok (.seq (.lits [sl_, ⟨true, '*'⟩]) (.seq (.opt (.lits [sl_]))
      (.seq (.star (.grp (.alt (.notIn [sl_]) (.seq (.notIn [st]) (.lits [sl_])))))
        (.lits [⟨true, '*'⟩, sl_]))))
  else
    match splitEscapedAtoms e.toList with
    | none => .error .dangling
    | some [] => .error .emptyEnd
    | some [a0, a1] =>
      if a0 = a1 then
        -- {s}([^{c0}]|{a0}[^{c1}])*{e}
        .ok (.seq sl (.seq (.star (.grp (.alt (.notIn [a0]) (.seq (.lits [a0]) (.notIn [a1])))))
          (.lits [a0, a1])))
      else
        -- {s}[^{c0}]*({a0}+[^{c0}{c1}][^{c0}]*)*{a0}+{a1}
        .ok (.seq sl (.seq (.star (.notIn [a0]))
          (.seq (.star (.grp (.seq (.plus (.lits [a0])) (.seq (.notIn [a0, a1]) (.star (.notIn [a0]))))))
            (.seq (.plus (.lits [a0])) (.lits [a1])))))
    | some atoms =>
      if atoms.length > 3 then .error .tooLong
      else
        -- {s}([^c0]|a0[^c1]|a0a1[^c2])*{e}
        let alternatives := (List.range atoms.length).map fun i =>
          if i = 0 then Rx.notIn (atoms.take 1)
          else Rx.seq (.lits (atoms.take i)) (.notIn ((atoms.drop i).take 1))
        .ok (.seq sl (.seq (.star (.grp (Rx.altsOf alternatives))) (.lits atoms)))

/-- The line-comment regex of `generate_build_information`: `{s}.*(\r\n|\r|\n)?` where `.` is
    regex-syntax's "any character except `\n`". -/
def lineCommentRe (s : List Nat) : Re :=
  .cat (Re.lit s) (.cat (.star (.cls ⟨[(0, 9), (11, maxCp)], false⟩))
    (Re.opt (.alt (Re.lit [13, 10]) (.alt (Re.chr 13) (Re.chr 10)))))

/-! ### Specifications -/

/-- Greatest `j ≤ k` such that the first `j` characters of `e` are a suffix of `t`. -/
def borderLen (e t : List Nat) : Nat → Nat
  | 0 => 0
  | k + 1 => if (e.take (k + 1)).isSuffixOf t then k + 1 else borderLen e t k

/-- Knuth–Morris–Pratt step: from "the longest prefix of `e` that is a suffix of the text read has
    length `q`" to the same for the text extended by `x`. -/
def kmpStep (e : List Nat) (q x : Nat) : Nat := borderLen e (e.take q ++ [x]) (min (q + 1) e.length)

/-- Specification automaton: the literal `s`, then the KMP automaton of `e`; accepts exactly when
    `e` has just been completed for the first time and nothing follows. States: `i < |s|` = `i`
    characters of `s` read; `|s| + q` = `s` read and KMP state `q`; `|s| + |e|` accepting (no
    successors); `|s| + |e| + 1` dead. Characters above U+10FFFF are not text. -/
def firstEndStep (s e : List Nat) (st x : Nat) : Nat :=
  let dead := s.length + e.length + 1
  if x > maxCp then dead
  else if st < s.length then (if s[st]? = some x then st + 1 else dead)
  else if st < s.length + e.length then s.length + kmpStep e (st - s.length) x
  else dead

def delimCuts (l : List Nat) : List Nat := l.flatMap fun c => [c, c + 1]

def firstEndDfa (s e : List Nat) : SpecDfa where
  aut := { step := firstEndStep s e
           acc := fun st => st == s.length + e.length
           cuts := fun _ => (maxCp + 1) :: delimCuts (s ++ e) }
  start := 0

/-- `w` is a block comment: valid text, starts with `s`, and the first occurrence of `e` after
    `s` (not overlapping `s`) is at the very end. -/
def FirstEnd (s e w : List Nat) : Prop :=
  (∀ x ∈ w, x ≤ maxCp) ∧ ∃ z, w = s ++ z ∧ e <:+ z ∧ ∀ z', z' <+: z → z' ≠ z → ¬ e <:+ z'

/-- Position after the first occurrence of `e` in `z`, scanning left to right. `pre` is the
    reversed text read so far. -/
def findEnd (e : List Nat) : List Nat → List Nat → Nat → Option Nat
  | [], _, _ => none
  | x :: z, pre, n =>
    let pre' := x :: pre
    if e.reverse.isPrefixOf pre' then some (n + 1) else findEnd e z pre' (n + 1)

/-- Length of the block comment token at the head of `w`, by the specification. -/
def blockTokenLen (s e w : List Nat) : Option Nat :=
  if s.isPrefixOf w && !e.isEmpty then (findEnd e (w.drop s.length) [] 0).map (s.length + ·) else none

def isLineBreak (c : Nat) : Bool := c == 10 || c == 13

/-- Length of the line comment token at the head of `w`, by the specification: `s`, then
    everything up to the first line break, then that line break (`\r\n`, `\r` or `\n`). -/
def lineTokenLen (s w : List Nat) : Option Nat :=
  if s.isPrefixOf w && !s.isEmpty then
    let rest := w.drop s.length
    let body := rest.takeWhile (!isLineBreak ·)
    let brk := match rest.drop body.length with
      | 13 :: 10 :: _ => 2
      | 13 :: _ => 1
      | 10 :: _ => 1
      | _ => 0
    some (s.length + body.length + brk)
  else none

/-- Line-comment specification as a regex: `s (non-line-break)* (\r\n|\r|\n)?`. -/
def lineSpecRe (s : List Nat) : Re :=
  .cat (Re.lit s) (.cat (.star (.cls ⟨[(0, 9), (11, 12), (14, maxCp)], false⟩))
    (Re.opt (.alt (Re.lit [13, 10]) (.alt (Re.chr 13) (Re.chr 10)))))

/-- Scan of a text in which only comment tokens exist (everything else is skipped one character
    at a time), by the specification. `tokLen` gives the token length at a position. -/
def specScan (tokLen : List Nat → Option Nat) : Nat → List Nat → Nat → List (Nat × Nat)
  | 0, _, _ => []
  | _, [], _ => []
  | f + 1, x :: xs, pos =>
    match tokLen (x :: xs) with
    | some (n + 1) => (pos, pos + n + 1) :: specScan tokLen f (xs.drop n) (pos + n + 1)
    | _ => specScan tokLen f xs (pos + 1)

def showSpans (w : List Nat) (l : List (Nat × Nat)) : String :=
  let offs := byteOffsets w
  if l.isEmpty then "-" else ",".intercalate (l.map fun p => s!"{offs.getD p.1 0}:{offs.getD p.2 0}")

/-- One delimiter instance of `Generated/ScannerConsts.lean`: the delimiter texts handed to
    `format_block_comment`, their meaning as character sequences, the real output and its AST. -/
structure BlockCase where
  key : String
  full : String
  sTxt : String
  eTxt : String
  s : List Nat
  e : List Nat
  text : String
  re : Re

structure LineCase where
  sTxt : String
  s : List Nat
  text : String
  re : Re

def cpString (s : String) : String := Proto.showNats (s.toList.map Char.toNat)

def ofCps (l : List Nat) : String := String.ofList (l.map Char.ofNat)

-- @handler fmt handleFmt
/-- `fmt <s-text-cps> <e-text-cps>` → `ok <regex-text-cps>` | `err dangling|empty|too-long`. Tie
    with the real `format_block_comment`. -/
def handleFmt : List String → Option String
  | [s, e] => do
    let s ← Proto.parseNats s
    let e ← Proto.parseNats e
    match formatBlockComment (ofCps s) (ofCps e) with
    | .ok rx => some ("ok " ++ cpString rx.render)
    | .error .dangling => some "err dangling"
    | .error .emptyEnd => some "err empty"
    | .error .tooLong => some "err too-long"
  | _ => none

def showRaw (w : List Nat) (tok : Nat) (re : Re) : String :=
  match tokenizeSpec [{ terms := [⟨re, tok, none⟩], trans := [] }] (scnr2Text w) with
  | none => "fuel-exhausted"
  | some ts => showToks w ts

-- @handler blk handleBlk
/-- `blk <key> <s-txt> <e-txt> <s> <e> <re> <text>` → tokens of the spec tokenizer for a scanner
    whose only terminal is the (real, lowered) block comment regex `re` (faithful to scnr2 0.5.2:
    `scnr2Text`). -/
def handleBlk : List String → Option String
  | [_, _, _, _, _, r, w] => do
    let r ← Re.dec r
    let w ← Proto.parseNats w
    some (showRaw w 4 r)
  | _ => none

-- @handler line handleLine
/-- `line <s-txt> <s> <re> <text>`. -/
def handleLine : List String → Option String
  | [_, _, r, w] => do
    let r ← Re.dec r
    let w ← Proto.parseNats w
    some (showRaw w 3 r)
  | _ => none

def parseSpans (s : String) : Option (List (Nat × Nat)) :=
  if s == "-" then some [] else
  (s.splitOn ",").mapM fun p => match p.splitOn ":" with
    | [a, b] => do some (← a.toNat?, ← b.toNat?)
    | _ => none

-- @handler blk-check handleBlkCheck
/-- Property oracle: `blk-check <s> <e> <text> <spans>` where `spans` are the block comment tokens
    (`start:end,…`, byte offsets) the implementation produced for `text` with a scanner that has only
    this block comment terminal. `ok` iff they are exactly the tokens of the specification. -/
def handleBlkCheck : List String → Option String
  | [s, e, w, spans] => do
    let s ← Proto.parseNats s
    let e ← Proto.parseNats e
    let w ← Proto.parseNats w
    let _ ← parseSpans spans
    let exp := showSpans w (specScan (blockTokenLen s e) (w.length + 1) w 0)
    if exp == spans then some "ok" else some s!"fail expected={exp}"
  | _ => none

-- @handler line-check handleLineCheck
/-- Property oracle for line comments: `line-check <s> <text> <spans>`. -/
def handleLineCheck : List String → Option String
  | [s, w, spans] => do
    let s ← Proto.parseNats s
    let w ← Proto.parseNats w
    let _ ← parseSpans spans
    let exp := showSpans w (specScan (lineTokenLen s) (w.length + 1) w 0)
    if exp == spans then some "ok" else some s!"fail expected={exp}"
  | _ => none

-- @handler blk-equiv handleBlkEquiv
/-- `blk-equiv <s> <e> <re>`: the verified checker on one (real, lowered) block comment regex →
    `equiv` | `differ <distinguishing string>` | `unknown`. -/
def handleBlkEquiv : List String → Option String
  | [s, e, r] => do
    let s ← Proto.parseNats s
    let e ← Proto.parseNats e
    let r ← Re.dec r
    if reEquivDfa r (firstEndDfa s e) then some "equiv"
    else match reDfaWitness r (firstEndDfa s e) with
      | some w => some ("differ " ++ Proto.showNats w)
      | none => some "unknown"
  | _ => none

-- @handler line-equiv handleLineEquiv
/-- `line-equiv <s> <re>`: real line comment regex against `lineSpecRe s`. -/
def handleLineEquiv : List String → Option String
  | [s, r] => do
    let s ← Proto.parseNats s
    let r ← Re.dec r
    if reEquiv r (lineSpecRe s) then some "equiv"
    else match autWitness reAut reAut r (lineSpecRe s) with
      | some w => some ("differ " ++ Proto.showNats w)
      | none => some "unknown"
  | _ => none

end ParolModel

namespace ParolModel

/-- `crOkP pend w`: every carriage return in `w` is immediately followed by a line feed; `pend`
    says that the character before `w` was a carriage return. -/
def crOkP : Bool → List Nat → Bool
  | pend, [] => !pend
  | true, x :: r => x == 10 && crOkP false r
  | false, x :: r => crOkP (x == 13) r

/-- Every carriage return is immediately followed by a line feed (no CR-only line ends). -/
def crOk (w : List Nat) : Bool := crOkP false w

/-- Restriction of an automaton to the texts with `crOk`: `none` is a dead state, the flag records
    a pending carriage return. -/
def crlfGuard {σ : Type} (A : Aut σ) : Aut (Option (σ × Bool)) where
  step := fun st x => match st with
    | none => none
    | some (q, true) => if x = 10 then some (A.step q x, false) else none
    | some (q, false) => some (A.step q x, x == 13)
  acc := fun st => match st with
    | none => false
    | some (q, pend) => !pend && A.acc q
  cuts := fun st => match st with
    | none => []
    | some (q, _) => [10, 11, 13, 14] ++ A.cuts q

end ParolModel
