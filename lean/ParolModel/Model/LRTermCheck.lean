import ParolModel.Model.LRCheck
/-! Verified termination checkers for the LR parser model (C19, LR half; finding F24).

Between two shifts the parser only reduces: with the lookahead terminal `t` fixed, a `Reduce(A, p)` in
the top state `q` pops `k = |rhs p|` states and pushes `goto(s, A)` for the exposed state `s`. The
parser loops forever exactly when such a sequence never ends (F24: a unit reduction `N → N` repeated
on the same stack, or an ε-reduction `N → ε` in a state with `goto(q, N) = q`). Two checkers:

**Exact checker `lrNoReduceLoopB`** (second half of this file; theorems `lr_terminates`,
`lr_terminates_bound` with the explicit fuel `lrSummFuel`, Props/C19e.lean). The
computation `Comp t s q` that starts with `q` on top of `s` and lasts while `s` is stacked never looks
below `s`; it either stops (shift, accept, error) or returns by a reduction that pops `s` and `j` more
states. `compF` evaluates it with bounded recursion depth, `lrSummOk` VERIFIES the resulting summary
table (`summCond`: consistency with one unfolding of the parser step, for every lookahead and every
transition `s → q` of the automaton plus the pair "bottom of the stack, state 0"; all costs at most
`maxc`); only the verification matters for the proof. A table fails iff some `Comp t s q` does not
finish. Neither `gprods` nor `lrTableValid` is needed: lengths come from the runtime production table.

**Ranking checker `lrRankCheckB`** (first half; theorem `lr_terminates_linear`, explicit fuel bound).
A ranking certificate per lookahead terminal:

* a weight `U` for every stacked state and a value `v t q` for the top state `q`, so that the measure
  `U * (stack height) + v t (top)` strictly drops with every reduction, i.e.
  `U + v t (goto(s, A)) < U * k + v t q` for EVERY state `s` that can be exposed by walking `rhs p`
  backwards from `q` (`backSpells`, as in `lrTableValid`);
* the values are bounded by `V` (a shift can raise the measure by at most `U + V`).

For a fixed `U` these are difference constraints on `v t`; they are solvable iff no cycle of the graph
"top state → possible next top state after one reduction on `t`" has a positive sum of
`1 + U * (1 - k)`. With `U` = number of states + 1 that means: every cycle of that graph strictly
shrinks the stack (which is what right recursion does). `lrComputeRank` solves the constraints by
longest-path relaxation; `lrRankOk` VERIFIES the result. Because the exposed state is over-approximated
(all backward walks, forgetting what the parser pushed earlier) this checker rejects some tables the
exact one accepts (seen once among ~1900 real tables). -/
namespace ParolModel

/-- Ranking certificate: weight of a stacked state, bound of the top-state values, and the top-state
    values per lookahead terminal (`tab`: terminal ↦ list indexed by state; missing entries are 0). -/
structure LRRank where
  unit : Nat
  maxv : Nat
  tab : List (Nat × List Nat)
  deriving Repr

def LRRank.val (R : LRRank) (t q : Nat) : Nat :=
  match R.tab.find? (·.1 == t) with
  | some e =>
    match e.2[q]? with
    | some v => v
    | none => 0
  | none => 0

/-- The inequality for one reduction on `t` in state `q` (production of length `k`, left-hand side
    `a`) that exposes state `s`; nothing to show if `s` has no goto on `a` (the parser stops). -/
def rankStepOk (T : LRTables) (R : LRRank) (t q a k : Nat) (s : Nat) : Bool :=
  match (T.rows[s]?).bind (fun r => findGoto r a) with
  | none => true
  | some g => decide (R.unit + R.val t g < R.unit * k + R.val t q)

/-- `R` is a valid ranking certificate for the table. -/
def lrRankOk (T : LRTables) (gprods : List Rule) (R : LRRank) : Bool :=
  (R.tab.all fun e => e.2.all fun v => decide (v ≤ R.maxv)) &&
  (T.rows.zipIdx.all fun (row, q) =>
    row.acts.all fun (t, a) => match a with
      | .reduce a p =>
        match gprods[p]? with
        | some r => backSpells T (rankStepOk T R t q a r.rhs.length) q r.rhs.reverse
        | none => false
      | _ => true)

-- ---------------------------------------------------------------------------------------------
-- computing a certificate (unverified search; `lrRankOk` checks the result)

/-- States reached by walking `k` transitions backwards from the states `l`. -/
def backN (E : List (Nat × Sym × Nat)) : Nat → List Nat → List Nat
  | 0, l => l
  | k + 1, l => backN E k ((l.flatMap fun q => (E.filter (fun e => e.2.2 == q)).map (·.1)).eraseDups)

/-- `(q, g, k)`: on lookahead `t` state `q` reduces a production of length `k` and `g` is a possible
    next top state. -/
def reduceEdges (T : LRTables) (E : List (Nat × Sym × Nat)) (t : Nat) : List (Nat × Nat × Nat) :=
  T.rows.zipIdx.flatMap fun (row, q) =>
    row.acts.flatMap fun (t', a) => match a with
      | .reduce a p =>
        if t' == t then
          match T.prods[p]? with
          | some pr =>
            ((backN E pr.len [q]).filterMap fun s =>
              ((T.rows[s]?).bind (fun r => findGoto r a)).map fun g => (q, g, pr.len)).eraseDups
          | none => []
        else []
      | _ => []

def relaxRound (U : Nat) (edges : List (Nat × Nat × Nat)) (v : List Nat) : List Nat × Bool :=
  edges.foldl (fun (acc : List Nat × Bool) (e : Nat × Nat × Nat) =>
    let need := (acc.1[e.2.1]?).getD 0 + U + 1 - U * e.2.2
    if (acc.1[e.1]?).getD 0 < need then (acc.1.set e.1 need, true) else acc) (v, false)

def relaxRounds (U : Nat) (edges : List (Nat × Nat × Nat)) : Nat → List Nat → List Nat
  | 0, v => v
  | n + 1, v =>
    let r := relaxRound U edges v
    if r.2 then relaxRounds U edges n r.1 else r.1

def lrTerminals (T : LRTables) : List Nat := (T.rows.flatMap fun r => r.acts.map (·.1)).eraseDups

def lrComputeRank (T : LRTables) : LRRank :=
  let n := T.rows.length
  let U := n + 1
  let E := lrEdges T
  let tab := (lrTerminals T).map fun t => (t, relaxRounds U (reduceEdges T E t) (n + 1) (List.replicate n 0))
  ⟨U, tab.foldl (fun m e => e.2.foldl Nat.max m) 0, tab⟩

/-- **The ranking checker** (sufficient, not exact; yields a LINEAR fuel bound): the computed ranking is
    a valid certificate. -/
def lrRankCheckB (T : LRTables) (gprods : List Rule) : Bool :=
  lrRankOk T gprods (lrComputeRank T)

/-- Explicit fuel bound for `lrRun` given a certificate: every step lowers
    `U * height + v + |input| * (U + V + 1)`. -/
def LRRank.fuel (R : LRRank) (toks : List MTok) : Nat := (toks.length + 1) * (R.unit + R.maxv + 1)

def lrTermFuel (T : LRTables) (toks : List MTok) : Nat := (lrComputeRank T).fuel toks

-- ---------------------------------------------------------------------------------------------
-- the exact checker: summaries of the reduce-only computations above a stack entry

/-- The reduction the parser performs in state `q` on lookahead `t`: (left-hand side, length). -/
def lrRedOf (T : LRTables) (t q : Nat) : Option (Nat × Nat) :=
  match T.rows[q]? with
  | none => none
  | some row =>
    match findAct row t with
    | some (.reduce a p) =>
      match T.prods[p]? with
      | some pr => some (a, pr.len)
      | none => none
    | _ => none

def lrGotoOf (T : LRTables) (s a : Nat) : Option Nat := (T.rows[s]?).bind (fun r => findGoto r a)

/-- Summary of the computation `Comp t s q` that starts with `q` on top of `s` (lookahead `t`) and
    lasts as long as `s` stays on the stack — it never looks below `s`, so it is a function of
    `(t, s, q)` alone. `out = none`: the parser stops reducing (shift, accept, error) with `s` still
    stacked; `out = some (b, j)`: a reduction to `b` pops everything above `s`, `s` itself and `j`
    more states. `cost`: (an upper bound of) the number of reductions it takes; `maxc` bounds all
    costs. -/
structure LRSumm where
  out : Nat → Nat → Nat → Option (Nat × Nat)
  cost : Nat → Nat → Nat → Nat
  maxc : Nat

/-- The summary entries as they are used: a state that does not reduce on `t` stops at once. -/
def LRSumm.outOf (S : LRSumm) (T : LRTables) (t s q : Nat) : Option (Nat × Nat) :=
  if (lrRedOf T t q).isSome then S.out t s q else none

def LRSumm.costOf (S : LRSumm) (T : LRTables) (t s q : Nat) : Nat :=
  if (lrRedOf T t q).isSome then S.cost t s q else 0

/-- One unfolding of `Comp t s q` is consistent with the summaries:
    * `q` reduces a production of length ≥ 2: return at once;
    * length 1: continue as `Comp t s (goto s a)`;
    * length 0 (`q1 = goto q a` is pushed): run `Comp t q q1`; if that stops, stop; if it returns by
      popping just `q`, continue as `Comp t s (goto s b)`; if it pops more, return. -/
def summCond (T : LRTables) (S : LRSumm) (t s q : Nat) : Bool :=
  match lrRedOf T t q with
  | none => true
  | some (a, k) =>
    decide (S.cost t s q ≤ S.maxc) &&
    match k with
    | 0 =>
      match lrGotoOf T q a with
      | none => true
      | some q1 =>
        decide (S.costOf T t q q1 + 1 ≤ S.cost t s q) &&
        match S.outOf T t q q1 with
        | none => S.out t s q == none
        | some (b, j) =>
          match j with
          | 0 =>
            match lrGotoOf T s b with
            | none => true
            | some g =>
              S.out t s q == S.outOf T t s g &&
              decide (S.costOf T t q q1 + S.costOf T t s g + 1 ≤ S.cost t s q)
          | j + 1 => S.out t s q == some (b, j)
    | 1 =>
      match lrGotoOf T s a with
      | none => true
      | some g => S.out t s q == S.outOf T t s g && decide (S.costOf T t s g + 1 ≤ S.cost t s q)
    | k + 2 => S.out t s q == some (a, k) && decide (1 ≤ S.cost t s q)

/-- States that can lie directly below `q` on the parser stack: its predecessors in the automaton;
    below state 0 lies the bottom of the stack, represented by the non-existing state `|rows|`. -/
def lrBelow (T : LRTables) (q : Nat) : List Nat :=
  (if q == 0 then [T.rows.length] else []) ++ preds T q

/-- The summaries are consistent for every pair (`s` below `q`) and every lookahead. -/
def lrSummOk (T : LRTables) (S : LRSumm) : Bool :=
  T.rows.zipIdx.all fun (row, q) =>
    (lrBelow T q).all fun s => row.acts.all fun (t, _) => summCond T S t s q

/-- Evaluate `Comp t s q` with recursion depth `fuel`: `none` = not finished within that depth. -/
def compF (T : LRTables) (t : Nat) : Nat → Nat → Nat → Option (Option (Nat × Nat) × Nat)
  | 0, _, _ => none
  | f + 1, s, q =>
    match lrRedOf T t q with
    | none => some (none, 0)
    | some (a, k) =>
      match k with
      | 0 =>
        match lrGotoOf T q a with
        | none => some (none, 1)
        | some q1 =>
          match compF T t f q q1 with
          | none => none
          | some (none, c1) => some (none, c1 + 1)
          | some (some (b, j), c1) =>
            match j with
            | 0 =>
              match lrGotoOf T s b with
              | none => some (none, c1 + 1)
              | some g =>
                match compF T t f s g with
                | none => none
                | some (o, c2) => some (o, c1 + c2 + 1)
            | j + 1 => some (some (b, j), c1 + 1)
      | 1 =>
        match lrGotoOf T s a with
        | none => some (none, 1)
        | some g =>
          match compF T t f s g with
          | none => none
          | some (o, c) => some (o, c + 1)
      | k + 2 => some (some (a, k), 1)

/-- The summaries computed with depth `|edges| + 2` (a computation that is not finished by then
    revisits a pair, i.e. loops; its entries then fail `summCond`). -/
def lrSummOf (T : LRTables) : LRSumm :=
  let F := (lrEdges T).length + 2
  let cost := fun (t s q : Nat) => match compF T t F s q with
      | some (_, c) => c
      | none => 0
  ⟨fun t s q => match compF T t F s q with
      | some (o, _) => o
      | none => none,
   cost,
   T.rows.zipIdx.foldl (fun m (row, q) =>
     (lrBelow T q).foldl (fun m s => row.acts.foldl (fun m (t, _) => Nat.max m (cost t s q)) m) m) 0⟩

/-- Explicit fuel bound for `lrRun` given consistent summaries with cost bound `C`:
    `(|tokens| + 1) * (C² + 3 C + 1)`. -/
def LRSumm.fuel (S : LRSumm) (toks : List MTok) : Nat :=
  (toks.length + 1) * (S.maxc * S.maxc + 3 * S.maxc + 1)

def lrSummFuel (T : LRTables) (toks : List MTok) : Nat := (lrSummOf T).fuel toks

/-- **The checker**: no sequence of reductions without consuming input can go on forever, on any
    stack that is a path of the automaton. Exact at the level of the table: it fails iff some
    `Comp t s q` (with `s → q` a transition) does not finish. -/
def lrNoReduceLoopB (T : LRTables) : Bool := lrSummOk T (lrSummOf T)

/-- First `(terminal, below, state)` whose summary is inconsistent (for the protocol reply). -/
def lrSummFirstBad (T : LRTables) (S : LRSumm) : Option (Nat × Nat × Nat) :=
  T.rows.zipIdx.findSome? fun (row, q) =>
    (lrBelow T q).findSome? fun s => row.acts.findSome? fun (t, _) =>
      if summCond T S t s q then none else some (t, s, q)

-- @handler lr-term-ok handleLRTermOk
/-- `lr-term-ok <start> <prods> <rows> <gprods>` → `ok <C>` iff `lrTableValid` and `lrNoReduceLoopB`
    (`C`: cost bound of the summaries; `(|tokens| + 1) * (C² + 3 C + 1)` steps suffice);
    otherwise `fail lr-table-not-valid` or `fail reduce-loop:<terminal>:<below>:<state>` (a stack top
    `below, state` and a lookahead from which the reductions need not end). -/
def handleLRTermOk : List String → Option String
  | [st, ps, rs, gps] => do
    let st ← st.toNat?
    let ps ← parseLRProds ps
    let rs ← parseLRRows rs
    let gps ← parseRules gps
    let T : LRTables := ⟨st, ps, rs⟩
    if !lrTableValid T gps then some "fail lr-table-not-valid" else
    if lrNoReduceLoopB T then some s!"ok {(lrSummOf T).maxc}" else
    match lrSummFirstBad T (lrSummOf T) with
    | some (t, s, q) => some s!"fail reduce-loop:{t}:{s}:{q}"
    | none => some "fail reduce-loop"
  | _ => none

-- @handler lr-term-rank handleLRTermRank
/-- `lr-term-rank <start> <prods> <rows> <gprods>` → `ok <U+V+1>` iff `lrTableValid` and the ranking
    checker `lrRankCheckB` pass (then `(|tokens| + 1) * (U + V + 1)` steps suffice), else `fail …`. -/
def handleLRTermRank : List String → Option String
  | [st, ps, rs, gps] => do
    let st ← st.toNat?
    let ps ← parseLRProds ps
    let rs ← parseLRRows rs
    let gps ← parseRules gps
    let T : LRTables := ⟨st, ps, rs⟩
    if !lrTableValid T gps then some "fail lr-table-not-valid" else
    let R := lrComputeRank T
    if lrRankOk T gps R then some s!"ok {R.unit + R.maxv + 1}" else some "fail no-ranking"
  | _ => none

end ParolModel
