import ParolModel.Model.Pipeline
import ParolModel.Proofs.LLComplete
import ParolModel.Model.LLOracle
/-! Property oracle for C01c: the conclusion of `pipeline_tables_exact` (Props/C01c.lean) decided on
the tables the REAL generator produced. (Imports a proof file, which is core-only, because the
verified checkers `setsExactB` / `tablesExactB` are defined next to their soundness proofs.) -/
namespace ParolModel
open KS

/-- the production table denotes the grammar: `gOf T = G` -/
def denotesB (T : LLTables) (G : Grammar) : Bool :=
  T.start == G.start && T.prods.map (fun p => (ruleOf p).lhs) == G.prods.map (·.lhs) &&
    T.prods.map (fun p => (ruleOf p).rhs) == G.prods.map (·.rhs)

-- @handler gen-tables-check handleGenTablesCheck
/-- `gen-tables-check <start> <prods> <K> <reply…>` → `ok` | `fail <why>`.
    For a grammar satisfying the hypotheses of `pipeline_tables_exact` (`pipelineHypB`) and a reply
    that is a table set `T`: `gOf T = G`, `TablesSound T` (`tablesSoundB`), `SetsExact T`
    (`setsExactB`: every automaton accepts exactly the reference strong-LL(k) lookahead strings of
    its non-terminal's alternatives, `k` its own depth) and `TablesExact T` (`tablesExactB`: the
    runtime `eval` predicts right on every reference lookahead string). Grammars outside the class
    and error replies: `ok` (the theorem claims nothing; C05's oracle judges the verdict). -/
def handleGenTablesCheck : List String → Option String
  | st :: ps :: maxk :: reply => do
    let G ← parseGrammar st ps
    let maxk ← maxk.toNat?
    if !pipelineHypB G then some "ok" else
    match reply with
    | [rst, rps, rds] => do
      let rst ← rst.toNat?
      let rps ← parseLLProds rps
      let rds ← parseDfas rds
      let T : LLTables := ⟨rst, rps, rds⟩
      if !denotesB T G then some "fail tables-do-not-denote-the-grammar" else
      if !tablesSoundB T then some "fail tables-not-sound" else
      if !setsExactB T 400 (maxk + 1) then some "fail automata-do-not-accept-exactly-the-lookahead-sets" else
      if !tablesExactB T 400 then some "fail tables-not-exact" else some "ok"
    | ["panic"] => some "fail panic"
    | _ => some "ok"
  | _ => none

end ParolModel
