import ParolModel.Model.LL
import ParolModel.Model.Proto
import ParolModel.Model.Canon
/-! Model of the generated adapter `…GrammarAuto` (C23): what
`generators/user_trait_generator.rs` (`generate_token_assignments`, `generate_stack_pops`,
`generate_result_builder`, `generate_push_semantic`, `generate_user_action_call`,
`generate_stack_push`) emits per production, from the production attribute
(`ProductionAttribute::{None, CollectionStart, AddToCollection, OptionalSome, OptionalNone}`), the
symbol attributes (`SymbolAttribute::{None, Option, RepetitionAnchor, Clipped}`) and the grammar type,
together with `pop_item!` / `pop_and_reverse_item!` of `parol-macros`.

The adapter is a stack machine over `item_stack : Vec<ASTType>`. Every adapter function
`fn <nt>_<i>(&mut self, children…)`
1. takes its *token* members from the `children` it is called with (`.token()?`), nothing for a
   clipped terminal,
2. pops one stack item per non-terminal member, last member first: `self.pop(context);` (result
   ignored) for a clipped non-terminal, `pop_and_reverse_item!` for a `RepetitionAnchor` member of an
   LL(k) grammar, `pop_item!` otherwise — both fail unless the popped item is the `ASTType` variant of
   that non-terminal,
3. builds its value (struct / enum variant / `Vec::new()` / push onto the popped vector /
   `Some(..)` / `None`), calls the user action of its non-terminal if there is one, and pushes
   `ASTType::<Nt>(value)`.

A user action exists for every non-terminal of the grammar *as written* (`add_user_actions` over
`grammar_config.non_terminals`), and `generate_user_action_call` puts the call into every adapter
function of such a non-terminal — not only the start symbol's.

The machine consumes the post-order action trace `(production, children)` the parsers emit
(`Model/LL.lean`, `Model/LR.lean`; `Props/C02.ll_tree_actions`).

Out of scope: user-defined types (`: Type` annotations, conversion by `try_into`), `%nt_type`,
`minimize_boxed_types` (boxes are invisible in the AST as a value). -/
namespace ParolModel.Ast

-- `SAttr` (`SymbolAttribute`) and `PAttr` (`ProductionAttribute`) are those of `Model/Ebnf.lean`.

structure ASym where
  sym : Sym
  attr : SAttr
  deriving DecidableEq, Repr

structure AProd where
  lhs : Nat
  rhs : List ASym
  attr : PAttr
  deriving DecidableEq, Repr

/-- The expanded grammar as the generators see it (`GrammarConfig`): `cfg.pr` after
    canonicalisation and left factoring / augmentation, `cfg.st`, the grammar type, and the
    non-terminals of the *original* grammar (`grammar_config.non_terminals`: those that get a user
    action), `userStart` being the `%start` symbol of the original grammar. -/
structure AGrammar where
  ll : Bool
  start : Nat
  userStart : Nat
  userNts : List Nat
  prods : List AProd
  deriving Repr

/-- Values of the generated AST types. `clipped` is the placeholder of a clipped member (the
    generated struct has no field for it); it keeps member lists aligned with right-hand sides. -/
inductive Ast
  | tok (id : Nat)
  | struct (ms : List Ast)
  | variant (p : Nat) (ms : List Ast)
  | vec (items : List Ast)
  | opt (o : Option Ast)
  | clipped
  deriving Repr, Inhabited

mutual
/-- Token ids contained in a value, in declaration (= right-hand-side) order. -/
def Ast.flatten : Ast → List Nat
  | .tok id => [id]
  | .struct ms => flattenL ms
  | .variant _ ms => flattenL ms
  | .vec ms => flattenL ms
  | .opt none => []
  | .opt (some a) => a.flatten
  | .clipped => []
def flattenL : List Ast → List Nat
  | [] => []
  | a :: as => a.flatten ++ flattenL as
end

/-- `Vec::reverse` (on anything but a vector the generated code would not compile). -/
def Ast.revVec : Ast → Ast
  | .vec l => .vec l.reverse
  | a => a

def Ast.isVec : Ast → Bool
  | .vec _ => true
  | _ => false

/-- Item stack, top first: `ASTType::<Nt>(value)`. -/
abbrev Stack := List (Nat × Ast)

/-- One call `self.user_grammar.<nt>(&value)`. -/
structure Call where
  nt : Nat
  arg : Ast
  deriving Repr

abbrev Act := Nat × List PTItem

def _root_.ParolModel.PAttr.isColl : PAttr → Bool
  | .collStart => true
  | .addToColl => true
  | _ => false

def prodsOf (G : AGrammar) (a : Nat) : List AProd := G.prods.filter (fun pr => pr.lhs == a)

/-- `cfg.get_alternations_count(i)` for the productions of `a`. -/
def alts (G : AGrammar) (a : Nat) : Nat := (prodsOf G a).length

/-- `&children[i]` for every right-hand-side symbol: `none` is the index panic of the generated
    caller; surplus children are ignored. -/
def pair : List ASym → List PTItem → Option (List (ASym × PTItem))
  | [], _ => some []
  | _ :: _, [] => none
  | s :: ss, c :: cs => (pair ss cs).map ((s, c) :: ·)

/-- `generate_token_assignments` + `generate_stack_pops`, members given last first; the member
    values are accumulated in right-hand-side order. `none` = the adapter returns `Err`. -/
def popArgs (ll : Bool) : List (ASym × PTItem) → Stack → List Ast → Option (List Ast × Stack)
  | [], st, acc => some (acc, st)
  | (s, c) :: ms, st, acc =>
    match s.sym with
    | .t _ =>
      if s.attr = .clipped then popArgs ll ms st (.clipped :: acc) else
      match c with
      | .tok id _ => popArgs ll ms st (.tok id :: acc)
      | .nt _ => none                                   -- `.token()?` on a non-terminal child
    | .n a =>
      if s.attr = .clipped then popArgs ll ms (st.drop 1) (.clipped :: acc)   -- `self.pop(context);`
      else
        match st with
        | [] => none
        | (b, v) :: st' =>
          if b ≠ a then none                              -- `pop_item!`: other `ASTType` variant
          else if s.attr = .repAnchor ∧ ll = true then
            (if v.isVec then popArgs ll ms st' (v.revVec :: acc) else none)   -- `pop_and_reverse_item!`
          else popArgs ll ms st' (v :: acc)

/-- `generate_result_builder` + `generate_push_semantic` + `generate_user_action_call`: the value
    pushed for production `p` from its member values, and the user-action calls made. -/
def build (G : AGrammar) (p : Nat) (pr : AProd) (ms : List Ast) : Option (Ast × List Call) :=
  match pr.attr with
  | .collStart => some (.vec [], [])
  | .addToColl =>
    if G.ll then
      match ms.getLast? with
      | some (.vec l) => some (.vec (l ++ [.struct ms.dropLast]), [])
      | _ => none
    else
      match ms with
      | .vec l :: rest => some (.vec (l ++ [.struct rest]), [])
      | _ => none
  | .optSome => some (.opt (some (.struct ms)), [])
  | .optNone => some (.opt none, [])
  | .none =>
    let v : Ast := if alts G pr.lhs = 1 then .struct ms else .variant p ms
    some (v, if pr.lhs ∈ G.userNts then [⟨pr.lhs, v⟩] else [])

/-- One adapter function: `call_semantic_action_for_production_number(p, children)`. -/
def step (G : AGrammar) (st : Stack) (a : Act) : Option (Stack × List Call) :=
  match G.prods[a.1]? with
  | none => none
  | some pr =>
    match pair pr.rhs a.2 with
    | none => none
    | some ms =>
      match popArgs G.ll ms.reverse st [] with
      | none => none
      | some (vals, st') =>
        match build G a.1 pr vals with
        | none => none
        | some (v, calls) => some ((pr.lhs, v) :: st', calls)

/-- The adapter over an action trace. -/
def run (G : AGrammar) : List Act → Stack → Option (Stack × List Call)
  | [], st => some (st, [])
  | a :: as, st =>
    match step G st a with
    | none => none
    | some (st', c) =>
      match run G as st' with
      | none => none
      | some (st'', cs) => some (st'', c ++ cs)

/-! ## Derivation forests (the data form of `DS`, `Proofs/LLTree.lean`) -/

/-- A sequence of derivation trees, first-child / next-sibling form: `tok` is a consumed token,
    `node p lhs children rest` one application of production `p`. -/
inductive Forest
  | nil
  | tok (id ty : Nat) (rest : Forest)
  | node (p lhs : Nat) (ch : Forest) (rest : Forest)
  deriving DecidableEq, Repr

def Forest.append : Forest → Forest → Forest
  | .nil, g => g
  | .tok id ty r, g => .tok id ty (r.append g)
  | .node p l ch r, g => .node p l ch (r.append g)

/-- The `children` of the action of the parent (one entry per tree). -/
def Forest.items : Forest → List PTItem
  | .nil => []
  | .tok id ty r => .tok id ty :: r.items
  | .node _ l _ r => .nt l :: r.items

/-- Post-order action trace. -/
def Forest.trace : Forest → List Act
  | .nil => []
  | .tok _ _ r => r.trace
  | .node p _ ch r => ch.trace ++ (p, ch.items) :: r.trace

/-- All token ids, in input order. -/
def Forest.allToks : Forest → List Nat
  | .nil => []
  | .tok id _ r => id :: r.allToks
  | .node _ _ ch r => ch.allToks ++ r.allToks

/-- `f` is a derivation forest of the symbol sequence. -/
def wf (G : AGrammar) : List ASym → Forest → Bool
  | [], .nil => true
  | s :: ss, .tok _ ty r => s.sym == .t ty && wf G ss r
  | s :: ss, .node p l ch r =>
    s.sym == .n l &&
    (match G.prods[p]? with
     | some pr => pr.lhs == l && wf G pr.rhs ch
     | none => false) && wf G ss r
  | _, _ => false

/-- The non-clipped tokens of a derivation, in input order: a token matched by a clipped terminal
    and everything below a clipped non-terminal is left out. -/
def expToks (G : AGrammar) : List ASym → Forest → List Nat
  | s :: ss, .tok id _ r => (if s.attr = .clipped then [] else [id]) ++ expToks G ss r
  | s :: ss, .node p _ ch r =>
    (if s.attr = .clipped then [] else
      match G.prods[p]? with
      | some pr => expToks G pr.rhs ch
      | none => []) ++ expToks G ss r
  | _, _ => []

/-- Number of applications of productions of non-terminal `a`. -/
def occ (a : Nat) : Forest → Nat
  | .nil => 0
  | .tok _ _ r => occ a r
  | .node _ l ch r => (if l = a then 1 else 0) + occ a ch + occ a r

/-! ## The declarative AST of a derivation (no stack, no reversal) -/

/-- Value of one production application from the values of its members, repetitions in input
    order: LL `R' → body R'` puts the item in front of the items of the rest, LALR `R' → R' body`
    behind the items before it. -/
def specNode (G : AGrammar) (p : Nat) (pr : AProd) (ms : List Ast) : Ast :=
  match pr.attr with
  | .collStart => .vec []
  | .addToColl =>
    if G.ll then
      match ms.getLast? with
      | some (.vec l) => .vec (.struct ms.dropLast :: l)
      | _ => .clipped
    else
      match ms with
      | .vec l :: rest => .vec (l ++ [.struct rest])
      | _ => .clipped
  | .optSome => .opt (some (.struct ms))
  | .optNone => .opt none
  | .none => if alts G pr.lhs = 1 then .struct ms else .variant p ms

/-- Member values of a symbol sequence from its derivation forest. -/
def spec (G : AGrammar) : List ASym → Forest → List Ast
  | s :: ss, .tok id _ r => (if s.attr = .clipped then .clipped else .tok id) :: spec G ss r
  | s :: ss, .node p _ ch r =>
    (if s.attr = .clipped then Ast.clipped else
      match G.prods[p]? with
      | some pr => specNode G p pr (spec G pr.rhs ch)
      | none => .clipped) :: spec G ss r
  | _, _ => []

/-- The user-action calls of a derivation, in post-order, with the declarative values. -/
def specCalls (G : AGrammar) : Forest → List Call
  | .nil => []
  | .tok _ _ r => specCalls G r
  | .node p l ch r =>
    specCalls G ch ++
      (match G.prods[p]? with
       | some pr =>
         if pr.attr = .none ∧ l ∈ G.userNts then [⟨l, specNode G p pr (spec G pr.rhs ch)⟩] else []
       | none => []) ++ specCalls G r

/-! ## The attribute discipline canonicalisation establishes -/

def isCollNt (G : AGrammar) (a : Nat) : Bool := (prodsOf G a).any (fun pr => pr.attr.isColl)

def _root_.ParolModel.PAttr.isOpt : PAttr → Bool
  | .optSome => true
  | .optNone => true
  | _ => false

def isOptNt (G : AGrammar) (a : Nat) : Bool := (prodsOf G a).any (fun pr => pr.attr.isOpt)

/-- A symbol outside the recursive position of an `AddToCollection` production: terminals are plain
    or clipped; a non-terminal carries `RepetitionAnchor` exactly if it is a collection
    non-terminal and `Option` exactly if it is an option non-terminal. -/
def plainOK (G : AGrammar) (s : ASym) : Bool :=
  match s.sym with
  | .t _ => s.attr == .none || s.attr == .clipped
  | .n a => (isCollNt G a == (s.attr == .repAnchor)) && (isOptNt G a == (s.attr == .option))

/-- `R' → body R'` (LL) / `R' → R' body` (LALR): the recursive occurrence has no attribute. -/
def rhsOK (G : AGrammar) (pr : AProd) : Bool :=
  match pr.attr with
  | .addToColl =>
    if G.ll then pr.rhs.getLast? == some ⟨.n pr.lhs, .none⟩ && pr.rhs.dropLast.all (plainOK G)
    else pr.rhs.head? == some ⟨.n pr.lhs, .none⟩ && pr.rhs.tail.all (plainOK G)
  | .collStart => pr.rhs == []
  | .optNone => pr.rhs == []
  | _ => pr.rhs.all (plainOK G)

/-- The productions of one non-terminal: a collection non-terminal has two productions, one
    `AddToCollection` and one `CollectionStart`; an option non-terminal has two, one `OptionalSome`
    and one `OptionalNone`; all others have no production attribute, and only those may have a user
    action. -/
def ntOK (G : AGrammar) (pr : AProd) : Bool :=
  let ps := prodsOf G pr.lhs
  match pr.attr with
  | .addToColl => ps.length == 2 && ps.all (·.attr.isColl) && ps.any (·.attr == .collStart) &&
      !(G.userNts.contains pr.lhs)
  | .collStart => ps.length == 2 && ps.all (·.attr.isColl) && ps.any (·.attr == .addToColl) &&
      !(G.userNts.contains pr.lhs)
  | .optSome => ps.length == 2 && ps.all (·.attr.isOpt) && ps.any (·.attr == .optNone) &&
      !(G.userNts.contains pr.lhs)
  | .optNone => ps.length == 2 && ps.all (·.attr.isOpt) && ps.any (·.attr == .optSome) &&
      !(G.userNts.contains pr.lhs)
  | .none => ps.all (·.attr == .none)

/-- The attribute discipline of an expanded grammar (decidable; evaluated per explored grammar). -/
def attrsWF (G : AGrammar) : Bool :=
  G.prods.all (fun pr => rhsOK G pr && ntOK G pr) &&
  (prodsOf G G.start).all (·.attr == .none)

/-- The user's start symbol is applied once per derivation: either it is the start symbol and on no
    right-hand side, or (LALR augmentation `S' → S`) the start symbol is on no right-hand side, has
    the single production `S' → S` (no attribute), and `S` is on no other right-hand side. -/
def startIsolated (G : AGrammar) : Bool :=
  G.userNts.contains G.userStart &&
  G.prods.all (fun pr => pr.rhs.all (fun s => s.sym != .n G.start)) &&
  (G.userStart == G.start ||
    (G.prods.all (fun pr =>
      if pr.lhs == G.start then pr.rhs == [⟨.n G.userStart, .none⟩]
      else pr.rhs.all (fun s => s.sym != .n G.userStart))))

/-! ## From the output of the canonicalisation model (`Model/Canon.lean`) -/

/-- The attributed grammar of plain productions with names (`RuleN`, the output of `canon`): names
    numbered by their position in `namesN rs` (terminals of that model carry no attribute). -/
def ofRules (ll : Bool) (st : Name) (userNts : List Name) (rs : List RuleN) : AGrammar :=
  let ix := indexIn (namesN rs)
  ⟨ll, ix st, ix st, userNts.map ix,
    rs.map fun r =>
      ⟨ix r.lhs, r.rhs.map (fun x => match x with
        | .t a => ⟨.t a, .none⟩
        | .n A sa => ⟨.n (ix A), sa⟩), r.attr⟩⟩

mutual
/-- A grammar as written carries no attributes but `Clipped` on non-terminals. -/
def factorAsWritten : Factor → Bool
  | .t _ => true
  | .n _ sa => sa == .none || sa == .clipped
  | .group as => altsAsWritten as
  | .opt as => altsAsWritten as
  | .rep as => altsAsWritten as
def altsAsWritten : List (List Factor) → Bool
  | [] => true
  | a :: as => altAsWritten a && altsAsWritten as
def altAsWritten : List Factor → Bool
  | [] => true
  | f :: fs => factorAsWritten f && altAsWritten fs
end

def asWritten (E : List EProd) : Bool :=
  E.all fun p => p.alts.all fun a => a.attr == .none && altAsWritten a.fs

/-! ## Rebuilding the forest from a trace (checker for the oracle; its result is validated by
`wf` and by comparing `Forest.trace` with the given trace) -/

/-- children forest from the `children` list (last first) and the stack of finished trees. -/
def takeChildren : List PTItem → List Forest → Forest → Option (Forest × List Forest)
  | [], st, acc => some (acc, st)
  | .tok id ty :: cs, st, acc => takeChildren cs st (.tok id ty acc)
  | .nt _ :: cs, st, acc =>
    match st with
    | .node p l ch .nil :: st' => takeChildren cs st' (.node p l ch acc)
    | _ => none

def forestOfTrace (G : AGrammar) : List Act → List Forest → Option (List Forest)
  | [], st => some st
  | (p, items) :: as, st =>
    match G.prods[p]? with
    | none => none
    | some pr =>
      match takeChildren items.reverse st .nil with
      | none => none
      | some (ch, st') => forestOfTrace G as (.node p pr.lhs ch .nil :: st')

/-! ## Line protocol -/

mutual
/-- Canonical text: `t<id>`, `{m,…}` struct, `v<p>{m,…}` enum variant, `[i,…]` vector, `S(x)` / `N`
    option; clipped members are not shown (the generated struct has no such field). -/
def showAst : Ast → String
  | .tok id => s!"t{id}"
  | .struct ms => "{" ++ ",".intercalate (showMs ms) ++ "}"
  | .variant p ms => s!"v{p}" ++ "{" ++ ",".intercalate (showMs ms) ++ "}"
  | .vec ms => "[" ++ ",".intercalate (showMs ms) ++ "]"
  | .opt none => "N"
  | .opt (some a) => "S(" ++ showAst a ++ ")"
  | .clipped => "^"
def showMs : List Ast → List String
  | [] => []
  | .clipped :: as => showMs as
  | a :: as => showAst a :: showMs as
end

def showCalls (cs : List Call) : String :=
  if cs.isEmpty then "-" else ";".intercalate (cs.map fun c => s!"{c.nt}={showAst c.arg}")

def parseSym (w : String) : Option ASym :=
  let (body, attr) :=
    if w.endsWith "^" then ((w.dropEnd 1).toString, SAttr.clipped)
    else if w.endsWith "*" then ((w.dropEnd 1).toString, SAttr.repAnchor)
    else if w.endsWith "?" then ((w.dropEnd 1).toString, SAttr.option)
    else (w, SAttr.none)
  if body.startsWith "t" then (body.drop 1).toNat?.map fun i => ⟨.t i, attr⟩
  else if body.startsWith "n" then (body.drop 1).toNat?.map fun i => ⟨.n i, attr⟩
  else none

def parsePAttr : String → Option PAttr
  | "0" => some .none
  | "1" => some .collStart
  | "2" => some .addToColl
  | "3" => some .optSome
  | "4" => some .optNone
  | _ => none

/-- `lhs:sym,sym@k;…` (`@k` optional, k = production attribute); `-` for no production. -/
def parseProds (s : String) : Option (List AProd) :=
  if s == "-" then some [] else
  (s.splitOn ";").mapM fun x =>
    match x.splitOn ":" with
    | [l, r] => do
      let l ← l.toNat?
      let (body, attr) ← match r.splitOn "@" with
        | [b] => some (b, PAttr.none)
        | [b, k] => (parsePAttr k).map fun a => (b, a)
        | _ => none
      let rhs ← if body == "" then some [] else (body.splitOn ",").mapM parseSym
      some ⟨l, rhs, attr⟩
    | _ => none

def parseItem (w : String) : Option PTItem :=
  if w.startsWith "t" then
    match (w.drop 1).toString.splitOn "/" with
    | [i, ty] => do let i ← i.toNat?; let ty ← ty.toNat?; some (.tok i ty)
    | _ => none
  else if w.startsWith "n" then (w.drop 1).toNat?.map .nt
  else none

/-- `p(item,item);p();…` with item = `t<id>/<type>` | `n<lhs>`; `-` for the empty trace. -/
def parseTrace (s : String) : Option (List Act) :=
  if s == "-" then some [] else
  (s.splitOn ";").mapM fun x =>
    match x.splitOn "(" with
    | [p, r] => do
      let p ← p.toNat?
      if !r.endsWith ")" then none else
      let body := (r.dropEnd 1).toString
      let items ← if body == "" then some [] else (body.splitOn ",").mapM parseItem
      some (p, items)
    | _ => none

def parseGrammar (ty st ust unts ps : String) : Option AGrammar := do
  let ll ← if ty == "ll" then some true else if ty == "lr" then some false else none
  let st ← st.toNat?
  let ust ← ust.toNat?
  let unts ← Proto.parseNats unts
  let ps ← parseProds ps
  some ⟨ll, st, ust, unts, ps⟩

/-! ### reading the canonical AST text back (oracle side) -/

def digitsVal (ds : List Char) : Nat := ds.foldl (fun n c => 10 * n + (c.toNat - 48)) 0

mutual
def pAst : Nat → List Char → Option (Ast × List Char)
  | 0, _ => none
  | f + 1, cs =>
    match cs with
    | 't' :: r =>
      let ds := r.takeWhile Char.isDigit
      if ds.isEmpty then none else some (.tok (digitsVal ds), r.dropWhile Char.isDigit)
    | 'N' :: r => some (.opt none, r)
    | 'S' :: '(' :: r =>
      match pAst f r with
      | some (a, ')' :: r') => some (.opt (some a), r')
      | _ => none
    | '{' :: r =>
      match pItems f '}' r with
      | some (ms, r') => some (.struct ms, r')
      | none => none
    | '[' :: r =>
      match pItems f ']' r with
      | some (ms, r') => some (.vec ms, r')
      | none => none
    | 'v' :: r =>
      let ds := r.takeWhile Char.isDigit
      if ds.isEmpty then none else
      match r.dropWhile Char.isDigit with
      | '{' :: r' =>
        match pItems f '}' r' with
        | some (ms, r'') => some (.variant (digitsVal ds) ms, r'')
        | none => none
      | _ => none
    | _ => none
/-- items up to and including the closing bracket -/
def pItems : Nat → Char → List Char → Option (List Ast × List Char)
  | 0, _, _ => none
  | f + 1, close, cs =>
    match cs with
    | [] => none
    | c :: r =>
      if c = close then some ([], r) else
      match pAst f (c :: r) with
      | some (a, ',' :: r') =>
        (match pItems f close r' with
         | some (ms, r'') => if ms.isEmpty then none else some (a :: ms, r'')
         | none => none)
      | some (a, c' :: r') => if c' = close then some ([a], r') else none
      | _ => none
end

def parseAst (s : String) : Option Ast :=
  match pAst (s.length + 1) s.toList with
  | some (a, []) => some a
  | _ => none

/-- `nt=ast;…` -/
def parseCalls (s : String) : Option (List Call) :=
  if s == "-" then some [] else
  (s.splitOn ";").mapM fun x =>
    match x.splitOn "=" with
    | [n, a] => do let n ← n.toNat?; let a ← parseAst a; some ⟨n, a⟩
    | _ => none

/-- `offset/type,…` -/
def parseSig (s : String) : Option (List (Nat × Nat)) :=
  if s == "-" then some [] else
  (s.splitOn ",").mapM fun x =>
    match x.splitOn "/" with
    | [i, ty] => do let i ← i.toNat?; let ty ← ty.toNat?; some (i, ty)
    | _ => none

/-- Token (id, type) pairs of a forest in input order. -/
def Forest.allTokTys : Forest → List (Nat × Nat)
  | .nil => []
  | .tok id ty r => (id, ty) :: r.allTokTys
  | .node _ _ ch r => ch.allTokTys ++ r.allTokTys

/-- The property decided on one real run: the recorded user-action calls `calls` (with their
    text `callsText`) against the derivation `f` rebuilt from the real parser's trace. -/
def checkRun (G : AGrammar) (f : Forest) (calls : List Call) (callsText : String) : String :=
  let startCalls := calls.filter (fun c => c.nt == G.userStart)
  if startCalls.length != 1 then
    s!"fail start-action-called-{startCalls.length}-times start-applied-{occ G.userStart f}-times" else
  match startCalls.getLast? with
  | none => "fail start-action-not-called"
  | some c =>
    let want := expToks G [⟨.n G.start, .none⟩] f
    if c.arg.flatten != want then
      s!"fail flatten {Proto.showNats c.arg.flatten} expected {Proto.showNats want}" else
    -- options present exactly when they occurred, repetitions in input order, every other call:
    -- structural agreement with the declarative AST of the derivation
    if showCalls (specCalls G f) != callsText then s!"fail shape expected {showCalls (specCalls G f)}" else
    "ok"

end ParolModel.Ast

namespace ParolModel
open ParolModel.Ast

-- @handler c23-check handleC23Check
/-- `c23-check <ll|lr> <start> <userStart> <userNts> <prods> <trace> <sigtoks> <calls>`: decides C23 on the
    calls the REAL adapter made (`<calls>`, parsed back into `Ast`): the attribute discipline holds
    for the grammar, the trace is the post-order trace of a derivation of the start symbol whose
    leaves are exactly the significant tokens, the start symbol's user action was called exactly once,
    the tokens of its argument are the non-clipped significant tokens in order, and every call's argument has `Some`/`None` and
    vector contents as the derivation prescribes. -/
def handleC23Check : List String → Option String
  | ty :: st :: ust :: unts :: ps :: tr :: sig :: callsText :: _ => do
    let G ← parseGrammar ty st ust unts ps
    let tr ← parseTrace tr
    let sig ← parseSig sig
    let calls ← parseCalls callsText
    if !attrsWF G then some "fail attrs-not-wf" else
    match forestOfTrace G tr [] with
    | some [f] =>
      if !wf G [⟨.n G.start, .none⟩] f then some "fail trace-not-a-derivation"
      else if f.trace != tr then some "fail trace-not-postorder"
      else if f.allTokTys != sig then some "fail leaves-differ-from-significant-tokens"
      else some (checkRun G f calls callsText)
    | _ => some "fail trace-not-a-tree"
  | _ => none

-- @handler adapter handleAdapter
/-- `adapter <ll|lr> <start> <userStart> <userNts> <prods> <trace> …` → `ok <calls>` : the user-action
    calls of the model adapter run over the trace (`err` if the adapter fails, `stack` if it does
    not end with exactly one item, the start symbol's). -/
def handleAdapter : List String → Option String
  | ty :: st :: ust :: unts :: ps :: tr :: _ => do
    let G ← parseGrammar ty st ust unts ps
    let tr ← parseTrace tr
    match run G tr [] with
    | none => some "err"
    | some ([(a, _)], calls) => if a = G.start then some s!"ok {showCalls calls}" else some "stack"
    | some _ => some "stack"
  | _ => none

end ParolModel
