import ParolModel.Model.LRCheck
/-! Verified checker for the crash-freedom of the LR parser model (C19, LR half): a table that passes
`lrTableComplete` never drives `lrRun` into an `internal` outcome (index out of range, `pop_n`
underflow / failing `debug_assert` in `call_action`, missing goto), for EVERY input
(`lr_no_internal`, Props/C19b.lean). All clauses are local or walk backwards over at most |rhs|
transitions, as in `lrTableValid`. -/
namespace ParolModel

/-- State `s` has a goto entry for non-terminal `a`. -/
def hasGoto (T : LRTables) (a : Nat) (s : Nat) : Bool :=
  ((T.rows[s]?).bind (fun r => findGoto r a)).isSome

/-- `lrTableValid` plus: state 0 exists; all shift and goto targets are states of the table; every
    state reached by walking a `Reduce(A, p)`'s right-hand side backwards has a goto on `A`. (That
    reduce production indices are in range, that `Accept` finds a production of the start symbol and
    that no shift happens on end-of-input are already part of `lrTableValid`.) -/
def lrTableComplete (T : LRTables) (gprods : List Rule) : Bool :=
  lrTableValid T gprods &&
  decide (0 < T.rows.length) &&
  (T.rows.all fun row =>
    (row.acts.all fun (_, a) => match a with
      | .shift s' => decide (s' < T.rows.length)
      | _ => true) &&
    (row.gotos.all fun (_, s') => decide (s' < T.rows.length))) &&
  (T.rows.zipIdx.all fun (row, q) =>
    row.acts.all fun (_, a) => match a with
      | .reduce a p =>
        match gprods[p]? with
        | some r => backSpells T (hasGoto T a) q r.rhs.reverse
        | none => false
      | _ => true)

-- @handler lr-table-complete handleLRTableComplete
/-- `lr-table-complete <start> <prods> <rows> <gprods>` → `ok` iff `lrTableComplete`. -/
def handleLRTableComplete : List String → Option String
  | [st, ps, rs, gps] => do
    let st ← st.toNat?
    let ps ← parseLRProds ps
    let rs ← parseLRRows rs
    let gps ← parseRules gps
    if lrTableComplete ⟨st, ps, rs⟩ gps then some "ok" else some "fail lr-table-not-complete"
  | _ => none

end ParolModel
