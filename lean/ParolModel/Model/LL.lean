import ParolModel.Model.LaDfa
import ParolModel.Spec.Cfg
/-! Model of `parol_runtime::parser::parser_types::LLKParser::parse_into` (C01, C02, C14, C17, C19, C20).

The input is the token sequence the `TokenStream` delivers (significant tokens, skip tokens,
comments, gap tokens — C13/C14 are about that sequence itself), implicitly followed by EOI tokens.
The parser-visible behaviour of the stream on such a sequence is:
* `lookahead(n)` / `lookahead_token_type(n)`: the n-th *significant* token of the rest (EOI beyond),
* `take_skip_tokens()`: drains the skip tokens in front of the first significant token,
* `consume()`: removes the first token (which must be significant),
* `all_input_consumed()`: no significant token is left.

Error recovery is NOT modelled in detail: after the first syntax error the real parser may edit the
token buffer and continue, but (see `Props/C01`) it can then only end with an error. The model
therefore stops at the first error, exactly like the real parser does with recovery disabled, and
reports where. -/
namespace ParolModel

/-- `ParseType` of the runtime. -/
inductive PT
  | t (i : Nat)
  | n (i : Nat)
  | e (p : Nat)
  deriving DecidableEq, Repr

/-- Generated production: right-hand side stored reversed, as in the generated `PRODUCTIONS`. -/
structure LLProd where
  lhs : Nat
  rhsRev : List PT
  push : Bool
  deriving Repr

structure LLTables where
  start : Nat
  prods : List LLProd
  dfas : List LaDfa
  deriving Repr

/-- A token as the parser sees it. `id` is its position in the delivered sequence. -/
structure MTok where
  ty : Nat
  skip : Bool       -- `is_effectively_skip_token`
  comment : Bool    -- `is_comment_token`
  id : Nat
  deriving DecidableEq, Repr

structure Opts where
  trim : Bool
  recovery : Bool
  maxDepth : Option Nat
  deriving Repr

inductive Res
  | ok
  /-- `SyntaxErrors` whose first entry is located at token `id` (`none`: at EOI). -/
  | syntax (at_ : Option Nat)
  | unprocessed
  | depth (d : Nat)
  /-- `RecoveryFailed` propagated directly: prediction for the *start symbol* failed (recovery off). -/
  | recoveryFailed
  | internal
  | fuel
  deriving DecidableEq, Repr

/-- Entries of the parse-tree stack / arguments of semantic actions. -/
inductive PTItem
  | tok (id : Nat) (ty : Nat)
  | nt (lhs : Nat)
  deriving DecidableEq, Repr

inductive TreeEv
  | open_ (nt : Option Nat)     -- `none` is the artificial root `""`
  | close
  | tok (id : Nat)
  deriving DecidableEq, Repr

structure LLState where
  stack : List PT            -- top first
  input : List MTok          -- rest of the delivered token sequence
  ptStack : List PTItem      -- top first
  depth : Nat
  actions : List (Nat × List PTItem)   -- reversed
  tree : List TreeEv                   -- reversed
  comments : List Nat                  -- reversed
  deriving Repr

def sigToks (inp : List MTok) : List MTok := inp.filter (fun t => !t.skip)

/-- The k lookahead token types `eval` reads (EOI-padded). -/
def laTypes (inp : List MTok) (k : Nat) : List Nat :=
  let s := (sigToks inp).map (·.ty)
  (s ++ List.replicate k 0).take k

def firstSig (inp : List MTok) : Option MTok := (sigToks inp).head?

/-- `handle_additional_tokens`: drain the leading skip tokens into the tree / comment callback. -/
def drainSkips (o : Opts) : List MTok → List TreeEv → List Nat → List MTok × List TreeEv × List Nat
  | [], tr, cm => ([], tr, cm)
  | t :: rest, tr, cm =>
    if t.skip then
      drainSkips o rest (if o.trim then tr else .tok t.id :: tr) (if t.comment then t.id :: cm else cm)
    else (t :: rest, tr, cm)

def predict (T : LLTables) (nt : Nat) (inp : List MTok) : Option EvalRes :=
  match T.dfas[nt]? with
  | some d => some (eval d true (laTypes inp d.k))
  | none => none

/-- `push_production`; `none` on an out-of-range production (a Rust index panic). -/
def pushProduction (T : LLTables) (o : Opts) (s : LLState) (p : Nat) : Option (LLState × Option Res) :=
  match T.prods[p]? with
  | none => none
  | some pr =>
    let depth := if pr.push then s.depth else s.depth + 1
    let s' : LLState :=
      { s with
        stack := pr.rhsRev.reverse ++ (.e p :: s.stack)
        tree := if o.trim then s.tree else .open_ (some pr.lhs) :: s.tree
        ptStack := .nt pr.lhs :: s.ptStack
        depth := depth }
    -- the depth check comes last: the node is already opened when the error is returned
    match o.maxDepth with
    | some m => if depth > m then some (s', some (.depth depth)) else some (s', none)
    | none => some (s', none)

def inputAccepted (st : List PT) : Bool :=
  match st with
  | [] => true
  | [.t 0] => true
  | _ => false

structure LLOut where
  res : Res
  actions : List (Nat × List PTItem)
  tree : List TreeEv
  comments : List Nat
  steps : Nat
  deriving Repr

def finish (o : Opts) (s : LLState) (err : Option (Option Nat)) (steps : Nat) : LLOut :=
  -- after the loop: handle additional tokens, then the error / unprocessed-input checks
  let (inp, tr, cm) := drainSkips o s.input s.tree s.comments
  match err with
  | some at_ => ⟨.syntax at_, s.actions.reverse, tr.reverse, cm.reverse, steps⟩
  | none =>
    match firstSig inp with
    | some _ => ⟨.unprocessed, s.actions.reverse, tr.reverse, cm.reverse, steps⟩
    | none => ⟨.ok, s.actions.reverse, (TreeEv.close :: tr).reverse, cm.reverse, steps⟩

def abort (s : LLState) (r : Res) (steps : Nat) : LLOut :=
  ⟨r, s.actions.reverse, s.tree.reverse, s.comments.reverse, steps⟩

/-- The main loop of `parse_into`. -/
def llLoop (T : LLTables) (o : Opts) : Nat → LLState → Nat → LLOut
  | 0, s, steps => abort s .fuel steps
  | fuel + 1, s, steps =>
    if inputAccepted s.stack then finish o s none steps else
    match s.stack with
    | [] => finish o s none steps
    | .t a :: st =>
      -- `lookahead(0)`: the first significant token (EOI if none)
      match firstSig s.input with
      | some tok =>
        if tok.ty = a then
          let (inp, tr, cm) := drainSkips o s.input s.tree s.comments
          -- consume
          let inp' := inp.drop 1
          llLoop T o fuel
            { s with stack := st, input := inp', comments := cm,
                     tree := if o.trim then tr else .tok tok.id :: tr,
                     ptStack := .tok tok.id tok.ty :: s.ptStack } (steps + 1)
        else finish o s (some (some tok.id)) steps
      | none =>
        if a = 0 then
          -- the EOI token itself would be consumed; generated productions never contain T(0)
          abort s .internal steps
        else finish o s (some none) steps
    | .n a :: st =>
      match predict T a s.input with
      | some (.ok p) =>
        if p < 0 then abort s .internal steps else
        match pushProduction T o { s with stack := st } p.toNat with
        | some (s', none) => llLoop T o fuel s' (steps + 1)
        | some (s', some r) => abort s' r steps
        | none => abort s .internal steps
      | some .predictError => finish o s (some ((firstSig s.input).map (·.id))) steps
      | _ => abort s .internal steps
    | .e p :: st =>
      match T.prods[p]? with
      | none => abort s .internal steps
      | some pr =>
        let l := pr.rhsRev.length
        if s.ptStack.length < l then abort s .internal steps else
        let children := (s.ptStack.take l).reverse
        llLoop T o fuel
          { s with stack := st, ptStack := s.ptStack.drop l,
                   depth := if pr.push then s.depth else s.depth - 1,
                   actions := (p, children) :: s.actions,
                   tree := if o.trim then s.tree else .close :: s.tree } (steps + 1)

/-- `parse_into`: root node, prediction for the start symbol, first `push_production`, main loop. -/
def llRun (T : LLTables) (o : Opts) (fuel : Nat) (input : List MTok) : LLOut :=
  let s0 : LLState := ⟨[], input, [], 0, [], [.open_ none], []⟩
  match predict T T.start input with
  | some (.ok p) =>
    if p < 0 then abort s0 .internal 0 else
    match pushProduction T o s0 p.toNat with
    | some (s, none) => llLoop T o fuel s 0
    | some (s, some r) => abort s r 0
    | none => abort s0 .internal 0
  | some .predictError => abort s0 .recoveryFailed 0
  | _ => abort s0 .internal 0

end ParolModel
