import ParolModel.Model.Member
import ParolModel.Model.CfgProto
/-! Protocol access to the verified membership oracle. -/
namespace ParolModel

/-- Enough fuel for the span fixpoint: one round per possible triple plus one. -/
def memberFuel (G : Grammar) (w : List Nat) : Nat :=
  G.prods.length * (w.length + 1) * (w.length + 1) + 2

def memberB (G : Grammar) (w : List Nat) : Option Bool := member G w (memberFuel G w)

-- @handler member handleMember
/-- `member <start> <prods> <w>` → `1` | `0` | `fuel-exhausted`. -/
def handleMember : List String → Option String
  | [st, ps, w] => do
    let G ← parseGrammar st ps
    let w ← Proto.parseNats w
    match memberB G w with
    | some true => some "1"
    | some false => some "0"
    | none => some "fuel-exhausted"
  | _ => none

end ParolModel
