import ParolModel.Generated.ParTables
import ParolModel.Model.GrammarIso
import ParolModel.Model.LLOracle
/-! C34 / C27 — the generic lexer (L9) and LL parser (L3) models INSTANTIATED with the regenerated
tables and scanner modes of the two PAR parsers (`Generated/ParTables.lean`), and the protocol
handlers of both properties that need them.

* `par <text>` / `par-sem <text>`: `<verdict parol> <verdict ls> <sig types parol> <sig types ls>` —
  the same reply the harness computes with the two REAL parsers (tie D).
* `par-ls <text>`: the parol-ls half only (C27).
* `c34-check <v parol> <v ls> <sig parol> <sig ls>`: the property oracle on the real parsers'
  replies: neither parser reports a syntax error without the other, and the two real scanners
  delivered corresponding token types (`tMap`).
* `c34-static`: the verified checkers evaluated on the regenerated tables (also proved by kernel
  evaluation in Props/C34.lean; this handler lets the orchestrator report them individually). -/
namespace ParolModel.Ls27
open ParolModel.Generated.Par

/-- Newline, whitespace, line comment, block comment: what `is_effectively_skip_token` skips when
    the skip lists of the scanner states are empty (as for both PAR scanners). -/
def isSkipTy (ty : Nat) : Bool := ty == 1 || ty == 2 || ty == 3 || ty == 4
def isCommentTy (ty : Nat) : Bool := ty == 3 || ty == 4

/-- The token sequence the parser sees for a list of scanner matches. -/
def toMToks (ts : List ScanTok) : List MTok :=
  ts.zipIdx.map fun (t, i) => ⟨t.tok, isSkipTy t.tok, isCommentTy t.tok, i⟩

def sigTypesOf (m : List MTok) : List Nat := (m.filter fun t => !t.skip).map (·.ty)

def verdictWord : Res → String
  | .ok => "ok"
  | .syntax _ => "synerr"
  | .unprocessed => "synerr"
  | .recoveryFailed => "synerr"
  | .depth _ => "other-depth"
  | .internal => "other-internal"
  | .fuel => "other-fuel"

def parseFuel (m : List MTok) : Nat := 200 * (m.length + 20)

/-- Lexer + parser model of one PAR parser on a text (code points): verdict and significant token types. -/
def runPar (T : LLTables) (modes : List ScanMode) (trim : Bool) (maxDepth : Option Nat) (text : List Nat) :
    String × List Nat :=
  match tokenizeSpec modes text with
  | none => ("other-fuel", [])
  | some ts =>
    let m := toMToks ts
    (verdictWord (llRun T ⟨trim, true, maxDepth⟩ (parseFuel m) m).res, sigTypesOf m)

def runParol (text : List Nat) : String × List Nat := runPar parolTables parolModes parolTrim parolMaxDepth text
def runLs (text : List Nat) : String × List Nat := runPar lsTables lsModes lsTrim lsMaxDepth text

def handleParBoth : List String → Option String
  | [t] => do
    let text ← Proto.parseNats t
    let (vp, sp) := runParol text
    let (vl, sl) := runLs text
    some s!"{vp} {vl} {Proto.showNats sp} {Proto.showNats sl}"
  | _ => none

-- @handler par Ls27.handlePar
def handlePar : List String → Option String := handleParBoth

-- @handler par-sem Ls27.handleParSem
def handleParSem : List String → Option String := handleParBoth

-- @handler par-ls Ls27.handleParLs
def handleParLs : List String → Option String
  | [t] => do
    let text ← Proto.parseNats t
    let (vl, sl) := runLs text
    some s!"{vl} {Proto.showNats sl}"
  | _ => none

/-- The C34 property on one pair of verdicts: a syntax error is reported by both parsers or by neither. -/
def verdictsAgree (vp vl : String) : Bool := (vp == "synerr") == (vl == "synerr")

-- @handler c34-check Ls27.handleC34Check
def handleC34Check : List String → Option String
  | [vp, vl, sp, sl] => do
    let sp ← Proto.parseNats sp
    let sl ← Proto.parseNats sl
    if !verdictsAgree vp vl then some s!"fail verdicts-differ parol={vp} ls={vl}"
    else if sp.map (applyMap tMap) != sl then some "fail scanners-deliver-non-corresponding-token-types"
    else if vp.startsWith "inconsistent" then some s!"fail {vp}"
    else some "ok"
  | _ => none

-- @handler c34-static Ls27.handleC34Static
/-- `c34-static` → the outcome of every verified checker on the regenerated tables. -/
def handleC34Static : List String → Option String
  | [] =>
    let iso := tablesIso parolTables lsTables inlineParol inlineLs ntMap ntMapInv tMap tMapInv
    let tm := termMapOk parolModes lsModes tMap tMapInv
    let inv := inverseOnB tMapInv tMap
    let snd := tablesSoundB parolTables && tablesSoundB lsTables
    let rng := tablesInRangeB parolTables && tablesInRangeB lsTables
    let pairs := match parolModes, lsModes with
      | m1 :: _, m2 :: _ => (invertedPairs (applyMap tMap) m1 m2).length
      | _, _ => 0
    some s!"found={isoFound} tablesIso={iso} termMapOk={tm} tMapInverse={inv} tablesSound={snd} tablesInRange={rng} invertedTerminalPairs={pairs} inlineParol={Proto.showNats inlineParol} inlineLs={Proto.showNats inlineLs}"
  | _ => none

end ParolModel.Ls27
