import ParolModel.Model.Canon
/-! Model of `transformation/left_factoring.rs` (`left_factor`, `find_prefix` as repaired by the
`fix:` commit for finding F5: on a tie the group that occurs first among the candidates wins) and of
`utils::group_by`.

Every place where the Rust code iterates a `HashMap` has an explicit order parameter:
* `group_by` in `find_longest_prefixes` drains a `HashMap<String, Vec<Pr>>` — parameter `ord`, a
  function that rearranges the list of groups (theorems assume it returns a permutation);
* the `groups` map of the current `find_prefix` is only used for lookups (`groups[c]`), never
  iterated — no parameter;
* the PRE-repair `find_prefix` took `groups.iter().max_by_key(|c| c.1)` = the LAST maximum in the
  map's iteration order — `findPrefixNOld` with parameter `tieOrd` (kept for the counterexample
  `leftFactor_tie_counterexample`, C24).

Symbols are compared structurally (attributes included), as `#[derive(PartialEq)]` does. -/
namespace ParolModel

/-! ## `find_prefix` -/

/-- the candidates' prefixes of length `n` (`candidates_with_len_n`) -/
def prefixesOfLen (cands : List (List SymN)) (n : Nat) : List (List SymN) :=
  cands.filterMap fun c => if n ≤ c.length then some (c.take n) else none

/-- the loop over `candidates_with_len_n` keeping the first group with the strictly largest count -/
def bestFirst (cs : List (List SymN)) : Option (List SymN × Nat) :=
  cs.foldl (fun best c =>
    let v := cs.count c
    match best with
    | none => some (c, v)
    | some (_, b) => if v > b then some (c, v) else best) none

/-- inner `find_prefix(candidates, n)` -/
def findPrefixN (cands : List (List SymN)) (n : Nat) : List SymN :=
  let cs := prefixesOfLen cands n
  if cs.length < 2 then [] else
  match bestFirst cs with
  | some (k, v) => if v > 1 then k else []
  | none => []

/-- `find_longest_prefix(candidates, n)`; the recursion `n → n + 2` stops as soon as both probes
    are empty, which happens at the latest when `n` exceeds the longest candidate; `fuel` counts
    these recursive calls (`findLongestPrefix_fuel` in Proofs/LeftFactor.lean: any fuel above the
    longest candidate's length gives the same result). -/
def findLongestPrefix (cands : List (List SymN)) : Nat → Nat → List SymN
  | 0, _ => []
  | f+1, n =>
    let p1 := findPrefixN cands n
    let p2 := findPrefixN cands (n + 1)
    if p1.isEmpty && p2.isEmpty then []
    else if p2.isEmpty then p1
    else
      let p3 := findLongestPrefix cands f (n + 2)
      if p3.isEmpty then p2 else p3

def maxLen (cands : List (List SymN)) : Nat := cands.foldl (fun m c => max m c.length) 0

def findPrefix (cands : List (List SymN)) : List SymN :=
  findLongestPrefix cands (maxLen cands + 1) 1

/-! ## `group_by` and `find_longest_prefixes` -/

abbrev GroupOrd := List (Name × List RuleN) → List (Name × List RuleN)

/-- the distinct elements in order of first occurrence -/
def firstOccs : List Name → List Name
  | [] => []
  | a :: l => a :: (firstOccs l).filter (fun b => b ≠ a)

/-- groups in order of first occurrence; the real order is `ord` of this -/
def groupByLhs (rs : List RuleN) : List (Name × List RuleN) :=
  (firstOccs (rs.map (·.lhs))).map fun A => (A, rs.filter (fun r => r.lhs = A))

def findLongestPrefixes (ord : GroupOrd) (rs : List RuleN) : List (Name × List SymN) :=
  (ord (groupByLhs rs)).filterMap fun (A, g) =>
    let p := findPrefix (g.map (·.rhs))
    if p.isEmpty then none else some (A, p)

/-! ## `mod_factor`, `apply_rule_transformation`, `factor_out_prefix` -/

/-- `factor_out_rule` -/
def factorOutRule (X : Name) (pre : List SymN) (r : RuleN) : RuleN :=
  if r.rhs.length < pre.length || r.rhs.take pre.length ≠ pre then r
  else ⟨X, r.rhs.drop pre.length, r.attr⟩

/-- `mod_factor` with the suffix name already chosen -/
def modFactor (X : Name) (A : Name) (pre : List SymN) (rules : List RuleN) : List RuleN :=
  ⟨A, pre ++ [.n X .none], .none⟩ :: rules.map (factorOutRule X pre)

/-- `apply_rule_transformation` + `mod_factor`: the rules of `A` are collected at the position of
    the first of them and replaced by the transformed block. `none` = `generate_name` out of fuel. -/
def factorOutPrefix (rs : List RuleN) (A : Name) (pre : List SymN) : Option (List RuleN) :=
  if rs.any (fun r => r.lhs = A) then
    match generateName (namesN rs) (A ++ "Suffix".toList) with
    | none => none
    | some X =>
      let before := rs.takeWhile (fun r => r.lhs ≠ A)
      let rest := rs.dropWhile (fun r => r.lhs ≠ A)
      some (before ++ modFactor X A pre (rest.filter (fun r => r.lhs = A))
              ++ rest.filter (fun r => r.lhs ≠ A))
  else some rs

/-- `factor_out`: the prefixes are computed once, then folded. Returns the new rules and
    `modified`. -/
def factorOut (ord : GroupOrd) (rs : List RuleN) : Option (List RuleN × Bool) :=
  let prefixes := findLongestPrefixes ord rs
  (prefixes.foldlM (fun acc (A, pre) => factorOutPrefix acc A pre) rs).map fun rs' =>
    (rs', !prefixes.isEmpty)

/-- `while operand.modified { … factor_out … }`; `none` = out of fuel. -/
def leftFactorLoop (ord : GroupOrd) : Nat → List RuleN → Option (List RuleN)
  | 0, _ => none
  | f+1, rs =>
    match factorOut ord rs with
    | none => none
    | some (rs', true) => leftFactorLoop ord f rs'
    | some (rs', false) => some rs'

def leftFactor (ord : GroupOrd) (fuel : Nat) (rs : List RuleN) : Option (List RuleN) :=
  leftFactorLoop ord fuel rs

/-! ## the PRE-repair `find_prefix` (finding F5) -/

abbrev TieOrd := List (List SymN × Nat) → List (List SymN × Nat)

/-- `Iterator::max_by_key`: the last element with the maximal key -/
def lastMaxBy (l : List (List SymN × Nat)) : Option (List SymN × Nat) :=
  l.foldl (fun best c =>
    match best with
    | none => some c
    | some b => if c.2 ≥ b.2 then some c else best) none

def findPrefixNOld (tieOrd : TieOrd) (cands : List (List SymN)) (n : Nat) : List SymN :=
  let cs := prefixesOfLen cands n
  if cs.length < 2 then [] else
  let groups := cs.eraseDups.map fun c => (c, cs.count c)
  match lastMaxBy (tieOrd groups) with
  | some (k, v) => if v > 1 then k else []
  | none => []

def findLongestPrefixOld (tieOrd : TieOrd) (cands : List (List SymN)) : Nat → Nat → List SymN
  | 0, _ => []
  | f+1, n =>
    let p1 := findPrefixNOld tieOrd cands n
    let p2 := findPrefixNOld tieOrd cands (n + 1)
    if p1.isEmpty && p2.isEmpty then []
    else if p2.isEmpty then p1
    else
      let p3 := findLongestPrefixOld tieOrd cands f (n + 2)
      if p3.isEmpty then p2 else p3

def findPrefixOld (tieOrd : TieOrd) (cands : List (List SymN)) : List SymN :=
  findLongestPrefixOld tieOrd cands (maxLen cands + 1) 1

/-! ## first-symbol clash detector (used by the oracle) -/

/-- two rules of one non-terminal with non-empty right-hand sides starting with the same symbol -/
def firstClash : List RuleN → Option (Name × SymN)
  | [] => none
  | r :: rs =>
    match r.rhs with
    | [] => firstClash rs
    | s :: _ =>
      if rs.any (fun q => q.lhs = r.lhs && q.rhs.head? = some s) then some (r.lhs, s)
      else firstClash rs

end ParolModel
