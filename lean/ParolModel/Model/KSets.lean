import ParolModel.Spec.Cfg
import ParolModel.Model.CfgProto
import ParolModel.Model.Proto
/-! # L2 — k-tuples, FIRST_k / FOLLOW_k, the LL(k) decision (C05, C06)

Tuples are abstract token lists (`List Nat`, token `0` = end of input, the ε-tuple is `[]`); tuple
sets are duplicate-free lists (order is irrelevant everywhere: equality tests are `sameSet`). The
packed 128-bit representation is C32's refinement.

Two families of functions live here:

* the **reference** computation `firstK_lfp` / `followK_lfp`: textbook ⊕ₖ, Kleene iteration from ⊥
  with fuel and a stabilisation test. `Proofs/KSets.lean` proves it equal to the declarative sets
  for EVERY grammar; it is the oracle.
* the **faithful** model of `first.rs`, `follow.rs`, `k_decision.rs`: `kcatSetQ` is
  `KTuples::k_concat` (complete tuples are kept, incomplete ones are extended — so `X ⊙ ∅` keeps the
  complete tuples of `X`), `stepFirst` is the Jacobi step over per-production equations with
  pre-concatenated terminal runs, seeded with FIRST_{k−1} re-tagged; `followStep` is the Gauss–Seidel
  sweep with per-non-terminal accumulators, stopped when the position map repeats (first comparison
  against the k−1 map); caches are memo tables.

Representation notes (why string-level modelling is faithful). A real `KTuple` carries, besides the
terminals, a Complete/Incomplete flag and its own `k` field, both of which take part in `Eq`.
Every tuple on the *left* of a `k_concat` in `first_k`/`follow_k`/`decidable` descends from the
freshly built ε-set or is the output of a previous `k_concat`, whose flag is recomputed by
`is_k_complete(k)`; stale flags (seeds re-tagged by `KTuples::set_k`, which does not touch the
tuples) only ever occur on the *right*, where `Terminals::k_concat` ignores them. Hence the strings
computed are those of this model. The vector/map equality used as stop test is finer in the code
(flags, `k` fields, `k_complete`) than `sameSet`; it can only be *spuriously unequal*, and only
against a seed, which costs one more round of a step function whose string-level value no longer
changes. The differential tie checks exactly this claim. -/
namespace ParolModel.KS

abbrev Tup := List Nat
abbrev TSet := List Tup
abbrev Env := List (Nat × TSet)

/-! ## tuples -/

/-- `Terminals::is_k_complete`: not ε, and (length ≥ k or ends with end-of-input). -/
def tupComplete (k : Nat) (u : Tup) : Bool :=
  !u.isEmpty && (decide (k ≤ u.length) || u.getLast? == some 0)

/-- `Terminals::k_concat` / `TerminalString::k_concat`: a complete tuple absorbs, otherwise as many
    tokens of `v` are appended as fit into `k`. -/
def kcat (k : Nat) (u v : Tup) : Tup :=
  if tupComplete k u then u else u ++ v.take (k - u.length)

def insertNew (x : Tup) (S : TSet) : TSet := if S.contains x then S else x :: S

def dedup : TSet → TSet
  | [] => []
  | x :: xs => insertNew x (dedup xs)

def union (X Y : TSet) : TSet := dedup (X ++ Y)

def unionAll (L : List TSet) : TSet := dedup L.flatten

def subSet (X Y : TSet) : Bool := X.all fun x => Y.contains x

/-- set equality of tuple lists -/
def sameSet (X Y : TSet) : Bool := subSet X Y && subSet Y X

def listSame : List TSet → List TSet → Bool
  | [], [] => true
  | x :: xs, y :: ys => sameSet x y && listSame xs ys
  | _, _ => false

/-- `KTuples::k_concat`: complete tuples of `X` are kept, incomplete ones are combined with every
    tuple of `Y` (and vanish when `Y` is empty). -/
def kcatSetQ (k : Nat) (X Y : TSet) : TSet :=
  dedup (X.flatMap fun x => if tupComplete k x then [x] else Y.map (kcat k x))

/-- textbook ⊕ₖ -/
def kcatSetRef (k : Nat) (X Y : TSet) : TSet :=
  dedup (X.flatMap fun x => Y.map fun y => (x ++ y).take k)

/-! ## grammar helpers -/

def insertSortedNat (a : Nat) : List Nat → List Nat
  | [] => [a]
  | b :: bs => if a < b then a :: b :: bs else if a = b then b :: bs else b :: insertSortedNat a bs

def symNts : List Sym → List Nat
  | [] => []
  | .t _ :: ss => symNts ss
  | .n a :: ss => a :: symNts ss

/-- `Cfg::get_non_terminal_set` (a `BTreeSet`): start, left-hand sides, right-hand-side
    non-terminals, ascending. -/
def ntsOf (G : Grammar) : List Nat :=
  (G.start :: G.prods.flatMap (fun p => p.lhs :: symNts p.rhs)).foldr insertSortedNat []

def envGet (E : Env) (A : Nat) : TSet :=
  match E with
  | [] => []
  | (B, s) :: rest => if B = A then s else envGet rest A

def envSets (E : Env) : List TSet := E.map (·.2)

def envUnionAt (E : Env) (A : Nat) (r : TSet) : Env :=
  match E with
  | [] => []
  | (B, s) :: rest => if B = A then (B, union s r) :: rest else (B, s) :: envUnionAt rest A r

/-! ## reference computation (oracle) -/

def firstSeqRef (k : Nat) (env : Nat → TSet) : List Sym → TSet
  | [] => [[]]
  | .t a :: ss => dedup ((firstSeqRef k env ss).map fun v => (a :: v).take k)
  | .n A :: ss => kcatSetRef k (env A) (firstSeqRef k env ss)

def stepFirstRef (G : Grammar) (k : Nat) (E : Env) : Env :=
  (ntsOf G).map fun A =>
    (A, unionAll ((G.prods.filter fun p => p.lhs = A).map fun p => firstSeqRef k (envGet E) p.rhs))

def envSame (E E' : Env) : Bool := listSame (envSets E) (envSets E')

def iterFirstRef (G : Grammar) (k : Nat) : Nat → Env → Option Env
  | 0, _ => none
  | f+1, E =>
    let E' := stepFirstRef G k E
    if envSame E' E then some E else iterFirstRef G k f E'

def botEnv (G : Grammar) : Env := (ntsOf G).map fun A => (A, [])

/-- Verified reference FIRST_k of all non-terminals: Kleene iteration from ⊥. `none` = fuel exhausted. -/
def firstK_lfp (G : Grammar) (k fuel : Nat) : Option Env := iterFirstRef G k fuel (botEnv G)

/-- all (lhs, B, β) with a production lhs → α B β -/
def suffixOccs (lhs : Nat) : List Sym → List (Nat × Nat × List Sym)
  | [] => []
  | .t _ :: ss => suffixOccs lhs ss
  | .n B :: ss => (lhs, B, ss) :: suffixOccs lhs ss

def occurrences (G : Grammar) : List (Nat × Nat × List Sym) :=
  G.prods.flatMap fun p => suffixOccs p.lhs p.rhs

def followInitRef (G : Grammar) (k : Nat) (A : Nat) : TSet :=
  if A = G.start then [([0] : Tup).take k] else []

def stepFollowRef (G : Grammar) (k : Nat) (fe : Nat → TSet) (E : Env) : Env :=
  (ntsOf G).map fun A =>
    (A, union (followInitRef G k A)
      (unionAll (((occurrences G).filter fun o => o.2.1 = A).map fun o =>
        kcatSetRef k (firstSeqRef k fe o.2.2) (envGet E o.1))))

def iterFollowRef (G : Grammar) (k : Nat) (fe : Nat → TSet) : Nat → Env → Option Env
  | 0, _ => none
  | f+1, E =>
    let E' := stepFollowRef G k fe E
    if envSame E' E then some E else iterFollowRef G k fe f E'

/-- Verified reference FOLLOW_k (end of input = token 0 appended, then truncated to k). -/
def followK_lfp (G : Grammar) (k fuel : Nat) : Option Env :=
  (firstK_lfp G k fuel).bind fun fe => iterFollowRef G k (envGet fe) fuel (botEnv G)

/-! ## faithful model of `first_k` -/

inductive KPart
  | ts (run : List Nat)
  | nt (A : Nat)
  deriving Repr, DecidableEq

/-- `compile_production_equation`: maximal terminal runs become one part. -/
def compileParts : List Sym → List KPart
  | [] => []
  | .n A :: ss => .nt A :: compileParts ss
  | .t a :: ss =>
    match compileParts ss with
    | .ts run :: ps => .ts (a :: run) :: ps
    | ps => .ts [a] :: ps

def partSet (k : Nat) (env : Nat → TSet) : KPart → TSet
  | .ts run => [run.take k]
  | .nt A => env A

/-- `r = ε-set; for part in equation { r = r.k_concat(part, k) }` -/
def evalPartsFrom (k : Nat) (env : Nat → TSet) (r : TSet) : List KPart → TSet
  | [] => r
  | p :: ps => evalPartsFrom k env (kcatSetQ k r (partSet k env p)) ps

def evalParts (k : Nat) (env : Nat → TSet) (parts : List KPart) : TSet :=
  evalPartsFrom k env [[]] parts

/-- The result vector of `first_k`: one slot per production (production order) and one per
    non-terminal (alphabetical order). -/
structure FirstVec where
  prods : List TSet
  nts : Env
  deriving Repr

def stepFirst (G : Grammar) (k : Nat) (V : FirstVec) : FirstVec :=
  let newProds := G.prods.map fun p => evalParts k (envGet V.nts) (compileParts p.rhs)
  let newNts := (ntsOf G).map fun A =>
    (A, unionAll ((G.prods.filter fun p => p.lhs = A).map fun p =>
          evalParts k (envGet V.nts) (compileParts p.rhs)))
  ⟨newProds, newNts⟩

def vecSame (V W : FirstVec) : Bool :=
  listSame V.prods W.prods && listSame (envSets V.nts) (envSets W.nts)

/-- `loop { new = step(cur); if new == cur { break } cur = new }`, result `cur`. -/
def iterFirst (G : Grammar) (k : Nat) : Nat → FirstVec → Option FirstVec
  | 0, _ => none
  | f+1, V =>
    let V' := stepFirst G k V
    if vecSame V' V then some V else iterFirst G k f V'

/-- initial vector for k = 0: empty sets for productions, ε-sets for non-terminals -/
def initFirst0 (G : Grammar) : FirstVec :=
  ⟨G.prods.map fun _ => [], (ntsOf G).map fun A => (A, [[]])⟩

/-- `first_k(G, k)` as a pure function: seeded with the result for k − 1. -/
def firstCode (G : Grammar) (fuel : Nat) : Nat → Option FirstVec
  | 0 => iterFirst G 0 fuel (initFirst0 G)
  | k+1 => (firstCode G fuel k).bind fun prev => iterFirst G (k+1) fuel prev

/-! ## faithful model of `follow_k` -/

/-- one equation per non-terminal occurrence (`update_production_equations`); `rest` is the
    right-hand side after the occurrence, compiled into parts when the equation is evaluated -/
structure FEq where
  prod : Nat
  sym : Nat          -- 1-based symbol index (`Pos`)
  target : Nat
  source : Nat
  rest : List Sym
  deriving Repr

def eqsOfRhs (pi lhs : Nat) : Nat → List Sym → List FEq
  | _, [] => []
  | i, .t _ :: ss => eqsOfRhs pi lhs (i+1) ss
  | i, .n B :: ss => ⟨pi, i+1, B, lhs, ss⟩ :: eqsOfRhs pi lhs (i+1) ss

def eqsFrom : Nat → List Rule → List FEq
  | _, [] => []
  | pi, p :: ps => eqsOfRhs pi p.lhs 0 p.rhs ++ eqsFrom (pi+1) ps

def followEqs (G : Grammar) : List FEq := eqsFrom 0 G.prods

/-- One sweep: every equation is evaluated against the *current* accumulators and its result is
    united into the accumulator of its target at once (Gauss–Seidel). Returns the position results
    in equation order and the new accumulators. -/
def followStep (k : Nat) (fn : Nat → TSet) : List FEq → Env → List TSet × Env
  | [], acc => ([], acc)
  | e :: es, acc =>
    let r := kcatSetQ k (evalParts k fn (compileParts e.rest)) (envGet acc e.source)
    let rest := followStep k fn es (envUnionAt acc e.target r)
    (r :: rest.1, rest.2)

def iterFollow (k : Nat) (fn : Nat → TSet) (eqs : List FEq) : Nat → List TSet → Env → Option (List TSet × Env)
  | 0, _, _ => none
  | f+1, map, acc =>
    let s := followStep k fn eqs acc
    if listSame s.1 map then some s else iterFollow k fn eqs f s.1 s.2

def initFollowAcc (G : Grammar) : Env :=
  (ntsOf G).map fun A => (A, if A = G.start then [[0]] else [])

/-- `follow_k(G, k)`: (last position map, per-non-terminal FOLLOW sets). -/
def followCode (G : Grammar) (fuel : Nat) : Nat → Option (List TSet × Env)
  | 0 => (firstCode G fuel 0).bind fun fv =>
      iterFollow 0 (envGet fv.nts) (followEqs G) fuel ((followEqs G).map fun _ => []) (initFollowAcc G)
  | k+1 => (firstCode G fuel (k+1)).bind fun fv =>
      (followCode G fuel k).bind fun prev =>
        iterFollow (k+1) (envGet fv.nts) (followEqs G) fuel prev.1 (initFollowAcc G)

/-! ## caches (`FirstCache::get`, `FollowCache::get`) -/

structure Caches where
  first : List (Nat × FirstVec)
  follow : List (Nat × (List TSet × Env))

def Caches.empty : Caches := ⟨[], []⟩

def lookupK {α} (k : Nat) : List (Nat × α) → Option α
  | [] => none
  | (j, v) :: rest => if j = k then some v else lookupK k rest

def firstGet (G : Grammar) (fuel : Nat) : Nat → Caches → Option (FirstVec × Caches)
  | 0, c =>
    match lookupK 0 c.first with
    | some v => some (v, c)
    | none => (iterFirst G 0 fuel (initFirst0 G)).map fun v => (v, { c with first := (0, v) :: c.first })
  | k+1, c =>
    match lookupK (k+1) c.first with
    | some v => some (v, c)
    | none =>
      (firstGet G fuel k c).bind fun (prev, c1) =>
        (iterFirst G (k+1) fuel prev).map fun v => (v, { c1 with first := (k+1, v) :: c1.first })

def followGet (G : Grammar) (fuel : Nat) : Nat → Caches → Option ((List TSet × Env) × Caches)
  | 0, c =>
    match lookupK 0 c.follow with
    | some v => some (v, c)
    | none =>
      (firstGet G fuel 0 c).bind fun (fv, c1) =>
        (iterFollow 0 (envGet fv.nts) (followEqs G) fuel ((followEqs G).map fun _ => []) (initFollowAcc G)).map
          fun v => (v, { c1 with follow := (0, v) :: c1.follow })
  | k+1, c =>
    match lookupK (k+1) c.follow with
    | some v => some (v, c)
    | none =>
      (firstGet G fuel (k+1) c).bind fun (fv, c1) =>
        (followGet G fuel k c1).bind fun (prev, c2) =>
          (iterFollow (k+1) (envGet fv.nts) (followEqs G) fuel prev.1 (initFollowAcc G)).map
            fun v => (v, { c2 with follow := (k+1, v) :: c2.follow })

/-- `follow_k(G, k, first_cache, follow_cache)` called directly: as the miss branch of
    `followGet`, without looking at or storing into slot k of the follow cache. -/
def followDirect (G : Grammar) (fuel : Nat) : Nat → Caches → Option ((List TSet × Env) × Caches)
  | 0, c =>
    (firstGet G fuel 0 c).bind fun (fv, c1) =>
      (iterFollow 0 (envGet fv.nts) (followEqs G) fuel ((followEqs G).map fun _ => []) (initFollowAcc G)).map
        fun v => (v, c1)
  | k+1, c =>
    (firstGet G fuel (k+1) c).bind fun (fv, c1) =>
      (followGet G fuel k c1).bind fun (prev, c2) =>
        (iterFollow (k+1) (envGet fv.nts) (followEqs G) fuel prev.1 (initFollowAcc G)).map
          fun v => (v, c2)

/-- request kinds: `FirstCache::get(k)`, `FollowCache::get(k)`, and a direct `follow_k(k)` call on
    the shared caches. -/
inductive Req
  | first (k : Nat)
  | follow (k : Nat)
  | followDirect (k : Nat)
  deriving Repr, DecidableEq

inductive Reply
  | first (v : FirstVec)
  | follow (v : List TSet × Env)

def runReqs (G : Grammar) (fuel : Nat) : List Req → Caches → Option (List Reply)
  | [], _ => some []
  | .first k :: rs, c =>
    (firstGet G fuel k c).bind fun (v, c1) => (runReqs G fuel rs c1).map fun l => Reply.first v :: l
  | .follow k :: rs, c =>
    (followGet G fuel k c).bind fun (v, c1) => (runReqs G fuel rs c1).map fun l => Reply.follow v :: l
  | .followDirect k :: rs, c =>
    (followDirect G fuel k c).bind fun (v, c1) => (runReqs G fuel rs c1).map fun l => Reply.follow v :: l

/-- the value a request must return: the pure function of (G, k) -/
def pureReply (G : Grammar) (fuel : Nat) : Req → Option Reply
  | .first k => (firstCode G fuel k).map Reply.first
  | .follow k => (followCode G fuel k).map Reply.follow
  | .followDirect k => (followCode G fuel k).map Reply.follow

/-! ## `k_decision.rs` -/

def prodIdxs (G : Grammar) (A : Nat) : List Nat :=
  (List.range G.prods.length).filter fun i => (G.prods[i]?.map (·.lhs)) == some A

def disjointSets (X Y : TSet) : Bool := X.all fun x => !Y.contains x

/-- `all(|(i,t1)| all(|(j,t2)| i == j || t1.is_disjoint(t2)))` -/
def pairwiseDisjoint (L : List (Nat × TSet)) : Bool :=
  L.all fun a => L.all fun b => a.1 == b.1 || disjointSets a.2 b.2

inductive DecRes
  | ok (k : Nat)
  | errMaxK
  | errNotPart
  | fuel
  deriving Repr, DecidableEq

/-- lookahead sets of the productions of `A` at `k`: FIRST_k(production) ⊙ FOLLOW_k(A) -/
def laSets (G : Grammar) (fuel : Nat) (A k : Nat) : Option (List (Nat × TSet)) :=
  (firstCode G fuel k).bind fun fv =>
    (followCode G fuel k).map fun fw =>
      (prodIdxs G A).map fun pi => (pi, kcatSetQ k (fv.prods.getD pi []) (envGet fw.2 A))

/-- the `loop` of `decidable`, counting `current_k` upwards; `n` = remaining iterations -/
def decLoop (G : Grammar) (fuel : Nat) (A : Nat) : Nat → Nat → DecRes
  | 0, _ => .errMaxK
  | n+1, cur =>
    match laSets G fuel A cur with
    | none => .fuel
    | some sets => if pairwiseDisjoint sets then .ok cur else decLoop G fuel A n (cur+1)

def decidableM (G : Grammar) (fuel : Nat) (A maxK : Nat) : DecRes :=
  match prodIdxs G A with
  | [] => .errNotPart
  | [_] => .ok 0
  | _ => decLoop G fuel A maxK 1

/-- `calculate_k`: maximum over all non-terminals, failures count as `max_k`. -/
def calculateK (G : Grammar) (fuel : Nat) (maxK : Nat) : Option Nat :=
  (ntsOf G).foldl (fun acc A =>
    acc.bind fun m =>
      match decidableM G fuel A maxK with
      | .ok k => some (max m k)
      | .fuel => none
      | _ => some (max m maxK)) (some 0)

inductive TuplesRes
  | ok (m : List (Nat × TSet))
  | err (A : Nat) (e : DecRes)
  deriving Repr, DecidableEq

/-- `calculate_k_tuples`: non-terminals in alphabetical order, stop at the first failing one
    (`try_fold`); per production the lookahead set at the decided k. The map is keyed by production
    index (`BTreeMap`), i.e. printed in ascending index order. -/
def calcTuplesLoop (G : Grammar) (fuel : Nat) (maxK : Nat) : List Nat → List (Nat × TSet) → TuplesRes
  | [], acc => .ok acc
  | A :: rest, acc =>
    match decidableM G fuel A maxK with
    | .ok k =>
      match laSets G fuel A k with
      | some sets => calcTuplesLoop G fuel maxK rest (acc ++ sets)
      | none => .err A .fuel
    | e => .err A e

def calculateKTuples (G : Grammar) (fuel : Nat) (maxK : Nat) : TuplesRes :=
  calcTuplesLoop G fuel maxK (ntsOf G) []

/-- `explain_conflicts`: ordered pairs of distinct productions with intersecting sets, filtered by
    the code's `!any(p1 != i && p2 != j)` test. -/
def explainLoop (sets : List (Nat × TSet)) : List (Nat × Nat) → List (Nat × Nat) → List (Nat × Nat)
  | [], acc => acc
  | (i, j) :: rest, acc =>
    let ki := (lookupK i sets).getD []
    let kj := (lookupK j sets).getD []
    if i != j && !disjointSets ki kj && !(acc.any fun c => c.1 != i && c.2 != j)
    then explainLoop sets rest (acc ++ [(i, j)]) else explainLoop sets rest acc

def explainConflicts (G : Grammar) (fuel : Nat) (A k : Nat) : Option (List (Nat × Nat)) :=
  match prodIdxs G A with
  | [] => none
  | [_] => some []
  | ps => (laSets G fuel A k).map fun sets =>
      explainLoop sets (ps.flatMap fun i => ps.map fun j => (i, j)) []

/-- Per-instance check that the faithful seeded iteration ends in the reference least fixpoint
    (slot by slot, as sets). -/
def seededAgrees (G : Grammar) (k fuel : Nat) : Option Bool :=
  (firstCode G fuel k).bind fun V =>
    (firstK_lfp G k fuel).map fun E =>
      listSame V.prods (G.prods.map fun p => firstSeqRef k (envGet E) p.rhs) && envSame V.nts E
        && V.nts.map (·.1) == E.map (·.1)

/-! ## reference decision (oracle for C05): strong-LL(k) evaluated on the reference sets -/

/-- lookahead sets of the productions of `A` with the textbook ⊕ₖ over given FIRST/FOLLOW environments -/
def laSetsRef (G : Grammar) (k : Nat) (fe fo : Nat → TSet) (A : Nat) : List (Nat × TSet) :=
  (prodIdxs G A).map fun pi =>
    (pi, kcatSetRef k (firstSeqRef k fe ((G.prods[pi]?.map (·.rhs)).getD [])) (fo A))

/-- strong-LL(k) test on given FIRST/FOLLOW environments -/
def strongLLRef (G : Grammar) (k : Nat) (fe fo : Nat → TSet) (A : Nat) : Bool :=
  pairwiseDisjoint (laSetsRef G k fe fo A)

/-- strong-LL(k) of `A` decided with the reference least fixpoints; `none` = fuel exhausted -/
def strongLLk (G : Grammar) (fuel : Nat) (k A : Nat) : Option Bool :=
  (firstK_lfp G k fuel).bind fun fe =>
    (followK_lfp G k fuel).map fun fo => strongLLRef G k (envGet fe) (envGet fo) A

/-- smallest k in cur..cur+n-1 at which `A` is strong-LL(k) -/
def specLoop (G : Grammar) (fuel : Nat) (A : Nat) : Nat → Nat → DecRes
  | 0, _ => .errMaxK
  | n+1, cur =>
    match strongLLk G fuel cur A with
    | none => .fuel
    | some true => .ok cur
    | some false => specLoop G fuel A n (cur+1)

/-- what `decidable` must answer according to the property -/
def decidableSpec (G : Grammar) (fuel : Nat) (A maxK : Nat) : DecRes :=
  match prodIdxs G A with
  | [] => .errNotPart
  | [_] => .ok 0
  | _ => specLoop G fuel A maxK 1

end ParolModel.KS
