import ParolModel.Model.LsProto
/-! # L12 (part) — the REPAIRED language server against the machine with both repairs (C29)

`Model/LsProto.lean` describes `crates/parol-ls/src/server.rs` as it was when findings F8 and F38
were made (`faithful`, both switches of `Fixes` off). The server has been repaired since; this file
ties the repaired code to the same machine with BOTH switches on (`repaired`), the machine for
which `Props/C29.lean` proves the full property (`last_publish_is_final_fixed`).

What the repaired server does, statement by statement (names as in `server.rs`):

* `Server.latest_versions : Arc<Mutex<HashMap<Uri, i32>>>` — the latest version of each document.
* `handle_open_document` / `handle_change_document` store the text and call `analyze`, whose FIRST
  statement registers the notification's version `v` as the latest one (under the lock); then the
  synchronous part runs as before. `check_grammar` no longer spawns anything: it RETURNS the
  background analysis as a closure (`BackgroundAnalysis`). The handler publishes the synchronous
  result (`notify_analysis_ok` / `notify_analysis_error`) and only THEN spawns the thread
  (`thread::spawn(background_analysis)`), so the thread of `v` cannot publish before the handler
  has (switch `f35`: "the synchronous result is published before the task is spawned").
* the thread publishes through `publish_if_latest`: it takes the lock, publishes only if its
  version is still the registered latest version of its document, and releases the lock after the
  publish (switch `f8`: "a finishing task whose version is not the document's current version
  publishes nothing"). Because the handler registers `v` before everything else, no thread of an
  older version can publish between the registration and the handler's publish: the pair
  "current version := v; publish the synchronous result of v" is atomic as far as the published
  sequence is concerned — exactly the `edit` step of the machine with `f35` on.

Events of a schedule keep their meaning; only `p` (`mainPublish`) no longer changes the published
sequence (the machine with `f35` on has published at the edit), and a task listed between an edit
and its `p`
* is stale there if it belongs to an older edit (the real thread runs to completion inside the
  handler, between `analyze` and the handler's publish, and publishes nothing), and
* cannot exist yet in the real server if it is the edit's own task; the harness runs it directly
  after the handler has returned. For the machine with both repairs the two orders give the same
  published sequence (older tasks in the window publish nothing, and `mainPublish` publishes
  nothing), so the comparison stays exact. Run against the UNREPAIRED server the own task does
  exist inside the window, the gate runs it there, and the sequences differ (finding F38). -/
namespace ParolModel.Ls29

/-- Both repairs on: the machine that mirrors the repaired server. -/
def repaired : Fixes := ⟨true, true⟩

end ParolModel.Ls29

namespace ParolModel
open Ls29

-- @handler ls29r Ls29.handleLs29R
/-- Protocol: `ls29r <docs> <events> <lazy|eager>` → the published trace of the REPAIRED machine
    (`Fixes` = both on), `ill-formed` if the schedule is impossible, `not-quiescent` if it does not
    end with everything finished. Same request syntax as `ls29`. -/
def Ls29.handleLs29R : List String → Option String
  | [ds, es, mode] => do
    if mode != "lazy" && mode != "eager" then none
    let docs ← parseDocs ds
    let evs ← parseSchedule docs.length es
    match run repaired (tableSem docs) evs St.init with
    | none => some "ill-formed"
    | some st => if st.quiescent then some (showTrace docs st.out) else some "not-quiescent"
  | _ => none

-- @handler ls29r-check Ls29.handleLs29RCheck
/-- Property oracle on the implementation's trace, the FULL property, nothing attributed:
    `ls29r-check <docs> <events> <lazy|eager> <published trace>` → `ok` iff the schedule is one of
    the machine's, ends quiescent, and the LAST published notification of the implementation is the
    diagnostics of the final text alone, tagged with the final version (nothing published and no
    notification at all also counts as `ok`). Otherwise
    `fail last=<l> expected=<e> model=<agrees|differs>` (does the repaired machine reproduce the
    implementation's trace?). -/
def Ls29.handleLs29RCheck : List String → Option String
  | [ds, es, _, tr] => do
    let docs ← parseDocs ds
    let evs ← parseSchedule docs.length es
    match run repaired (tableSem docs) evs St.init with
    | none => some "fail ill-formed-schedule"
    | some st =>
      if !st.quiescent then some "fail schedule-not-quiescent"
      else
        let want := lastWanted docs st
        let last := lastOfTrace tr
        if last == want then some "ok"
        else
          let agrees := if showTrace docs st.out == tr then "agrees" else "differs"
          some s!"fail last={last} expected={want} model={agrees}"
  | _ => none

end ParolModel
