import ParolModel.Model.Regex
import ParolModel.Generated.ParLiteralRes
/-! C25 — the part of "render as PAR text, read back" that has an ∀-content, and the comparer.

* `printLit`, `La.toPar`, `formatTerminal`, `formatNonTerminal`: models of what
  `Terminal::format`, `LookaheadExpression::to_par` and `Symbol::format`
  (crates/parol/src/grammar/symbol.rs, parser/parol_grammar.rs) emit — tied to the real functions
  by the differential runs of `checks/c25.py` (requests `fmt-t`, `fmt-n`, `fmt-la`).
* `parModes`: the scanner of the PAR lexer, REGENERATED (`Generated/ParLiteralRes.lean`) from the
  `scanner!` block parol generated for `parser/parol.par`.
* `PCfg`, `parsePCfg`, `configEq`, `normAttrs`: the one-word encoding of everything property C25
  lists and its structural comparer (request `cfg-eq`).
Import-free (core Lean only). -/
namespace ParolModel.Par
open ParolModel

/-- code points of a string literal -/
def str (s : String) : List Nat := s.toList.map Char.toNat

/-! ### Literal printers -/

inductive LitKind where
  | legacy   -- `"…"`  TerminalKind::Legacy
  | raw      -- `'…'`  TerminalKind::Raw
  | regex    -- `/…/`  TerminalKind::Regex
  deriving DecidableEq, Repr

/-- `TerminalKind::delimiter` -/
def LitKind.delim : LitKind → Nat
  | .legacy => 34
  | .raw => 39
  | .regex => 47

/-- token number of the literal's terminal in the PAR lexer -/
def LitKind.tok : LitKind → Nat
  | .legacy => Generated.stringTok
  | .raw => Generated.rawStringTok
  | .regex => Generated.regexTok

/-- `format!("{delimiter}{t}{delimiter}")` -/
def printLit (k : LitKind) (t : List Nat) : List Nat := k.delim :: (t ++ [k.delim])

inductive SymAttr where
  | none | clipped | repAnchor | option
  deriving DecidableEq, Repr

/-- `SymbolAttribute::decorate` -/
def decorate (a : SymAttr) (d : List Nat) : List Nat :=
  match a with
  | .none => d
  | .repAnchor => d ++ str " /* Vec */"
  | .option => d ++ str " /* Option */"
  | .clipped => d ++ str "^ /* Clipped */"

structure La where
  pos : Bool
  kind : LitKind
  pat : List Nat
  deriving DecidableEq, Repr

/-- `LookaheadExpression::to_par` -/
def La.toPar (l : La) : List Nat :=
  str (if l.pos then "?=" else "?!") ++ [32] ++ printLit l.kind l.pat

/-- What `GrammarConfig::get_user_type_resolver` reads: `%user_type` (alias, type) pairs,
    `%nt_type` (non-terminal, type) pairs, the `%t_type`. -/
structure Resolver where
  udefs : List (List Nat × List Nat)
  ntdefs : List (List Nat × List Nat)
  ttype : Option (List Nat)
  deriving Repr

/-- The `HashMap` of the resolver in insertion order: type ↦ alias, then non-terminal ↦ `%nt_type`,
    then the `%t_type` ↦ `%t_type`; a later insertion overwrites an earlier one with the same key. -/
def Resolver.entries (r : Resolver) : List (List Nat × List Nat) :=
  r.udefs.map (fun p => (p.2, p.1)) ++ r.ntdefs.map (fun p => (p.1, str "%nt_type")) ++
    (match r.ttype with | some t => [(t, str "%t_type")] | none => [])

def Resolver.resolve (r : Resolver) (u : List Nat) : Option (List Nat) :=
  (r.entries.reverse.find? (·.1 == u)).map (·.2)

def joinWith (sep : List Nat) : List (List Nat) → List Nat
  | [] => []
  | [x] => x
  | x :: xs => x ++ sep ++ joinWith sep xs

/-- `Terminal::format` for `Terminal::Trm(t, k, s, a, u, m, l)`; `names` are the scanner names the
    scanner-state resolver indexes (`none` where the real code panics on a bad index). -/
def formatTerminal (r : Resolver) (names : List (List Nat)) (t : List Nat) (k : LitKind) (states : List Nat)
    (a : SymAttr) (u m : Option (List Nat)) (la : Option La) : Option (List Nat) :=
  let d := decorate a (printLit k t)
  let d := match la with
    | some l => d ++ [32] ++ l.toPar
    | none => d
  let d := match m with
    | some mm => d ++ (if la.isSome then [32] else []) ++ [64] ++ mm
    | none => d
  let d := match u with
    | some ut =>
      let x := (r.resolve ut).getD ut
      if x ≠ str "%t_type" then d ++ str " : " ++ x else d
    | none => d
  if states = [0] then some d
  else do
    let ns ← states.mapM fun s => names[s]?
    some ([60] ++ joinWith (str ", ") ns ++ [62] ++ d)

/-- `Symbol::format` for `Symbol::N(n, a, u, m)`. -/
def formatNonTerminal (r : Resolver) (n : List Nat) (a : SymAttr) (u m : Option (List Nat)) : List Nat :=
  let s := decorate a n
  let s := match m with
    | some mm => s ++ [64] ++ mm
    | none => s
  match u with
  | some ut =>
    let alias := match r.resolve ut with
      | some al => al
      | none => match r.resolve n with
        | some nt => nt
        | none => str "%nt_type"
    if alias ≠ str "%nt_type" ∧ alias ≠ str "%t_type" then s ++ str " : " ++ alias else s
  | none => s

/-! ### The PAR lexer -/

/-- the scanner of the PAR lexer: one mode, terminals in declaration order, no transitions -/
def parModes : List ScanMode := [{ terms := Generated.parTerms, trans := [] }]

/-- the text between the first and the last character of a token (`trim_quotes`) -/
def tokBody (w : List Nat) (t : ScanTok) : List Nat :=
  (((w.take t.stop).drop t.start).drop 1).dropLast

/-- `cat (cls [d]) (cat (star body) (cls [d]))`: delimiter and body regex of a literal terminal -/
def splitLit : Re → Option (Nat × Re)
  | .cat (.cls ⟨[(a, b)], false⟩) (.cat (.star body) (.cls ⟨[(c, d)], false⟩)) =>
    if a = b ∧ c = d ∧ a = c then some (a, body) else none
  | _ => none

def reOfTok (tok : Nat) : Re :=
  ((Generated.parTerms.find? (·.tok == tok)).map (·.re)).getD .empty

/-- the regex of the literal's terminal in the PAR lexer -/
def LitKind.re (k : LitKind) : Re := reOfTok k.tok

/-- the body regex `(\\.|[^d])` under the star of the literal's terminal -/
def LitKind.bodyRe (k : LitKind) : Re := ((splitLit k.re).map (·.2)).getD .empty

/-- `(\\.|[^d])`: the class after the backslash and the class of plain characters -/
def bodyClasses : Re → Option (Cls × Cls)
  | .alt (.cat (.cls ⟨[(92, 92)], false⟩) (.cls any)) (.cls nd) => some (any, nd)
  | _ => none

def LitKind.anyCls (k : LitKind) : Cls := ((bodyClasses k.bodyRe).map (·.1)).getD ⟨[], false⟩
def LitKind.ndCls (k : LitKind) : Cls := ((bodyClasses k.bodyRe).map (·.2)).getD ⟨[], false⟩

/-- `t` is a possible body of a literal of kind `k`: `t ∈ L((\\.|[^d])*)`. -/
def isBody (k : LitKind) (t : List Nat) : Bool := matchesRe (.star k.bodyRe) t

/-- no terminal declared before the literal's terminal matches the whole printed literal
    (for `/…/`: it is neither a line comment nor a block comment) -/
def notShadowed (k : LitKind) (t : List Nat) : Bool :=
  (Generated.parTerms.takeWhile (·.tok != k.tok)).all fun u => !matchesRe u.re (printLit k t)

/-- The exact condition under which the printed literal, alone, is read back as one literal token
    of its kind with the same body. -/
def litOk (k : LitKind) (t : List Nat) : Bool := isBody k t && notShadowed k t

/-- The condition under which the printed literal is read back as one literal token of its kind
    with the same body IN EVERY CONTEXT (whatever text follows): a body that does not end in a
    backslash; a `/…/` body moreover is not empty and does not start with `*` (`//…` and `/*…` are
    comments). -/
def litOkCtx (k : LitKind) (t : List Nat) : Bool :=
  isBody k t && t.getLast? != some 92 && (k != .regex || (t != [] && t.head? != some 42))

/-! ### Protocol: printers -/

def kindOf : String → Option LitKind
  | "l" => some .legacy
  | "w" => some .raw
  | "r" => some .regex
  | _ => none

def attrOf : String → Option SymAttr
  | "0" => some .none
  | "1" => some .clipped
  | "2" => some .repAnchor
  | "3" => some .option
  | _ => none

/-- `~` = absent, else a comma list of code points -/
def optCps (s : String) : Option (Option (List Nat)) :=
  if s == "~" then some none else (Proto.parseNats s).map some

/-- `~` | `<p|n><kind>:<cps>` -/
def laOf (s : String) : Option (Option La) :=
  if s == "~" then some none else
  match s.splitOn ":" with
  | [h, pat] =>
    match h.toList with
    | [p, k] => do
      let pos ← if p = 'p' then some true else if p = 'n' then some false else none
      let kind ← kindOf (String.singleton k)
      let pat ← Proto.parseNats pat
      some (some ⟨pos, kind, pat⟩)
    | _ => none
  | _ => none

def strList (s : String) : Option (List (List Nat)) :=
  if s == "~" then some [] else (s.splitOn ";").mapM Proto.parseNats

def pairList (s : String) : Option (List (List Nat × List Nat)) :=
  if s == "~" then some [] else
  (s.splitOn ";").mapM fun p =>
    match p.splitOn "=" with
    | [a, b] => do some (← Proto.parseNats a, ← Proto.parseNats b)
    | _ => none

-- @handler fmt-la Par.handleFmtLa
/-- `fmt-la <p|n><kind>:<cps>` → code points of `LookaheadExpression::to_par` -/
def handleFmtLa : List String → Option String
  | [la] => do
    let l ← laOf la
    let l ← l
    some (Proto.showNats l.toPar)
  | _ => none

-- @handler fmt-t Par.handleFmtT
/-- `fmt-t <kind> <body> <attr> <la> <member> <utype> <states> <names> <udefs> <ntdefs> <ttype>` -/
def handleFmtT : List String → Option String
  | [k, body, a, la, m, u, st, names, ud, nd, tt] => do
    let names ← strList names
    let states ← Proto.parseNats st
    let r : Resolver := ⟨← pairList ud, ← pairList nd, ← optCps tt⟩
    let out ← formatTerminal r names (← Proto.parseNats body) (← kindOf k) states (← attrOf a) (← optCps u) (← optCps m) (← laOf la)
    some (Proto.showNats out)
  | _ => none

-- @handler fmt-n Par.handleFmtN
/-- `fmt-n <name> <attr> <member> <utype> <udefs> <ntdefs> <ttype>` -/
def handleFmtN : List String → Option String
  | [n, a, m, u, ud, nd, tt] => do
    let r : Resolver := ⟨← pairList ud, ← pairList nd, ← optCps tt⟩
    some (Proto.showNats (formatNonTerminal r (← Proto.parseNats n) (← attrOf a) (← optCps u) (← optCps m)))
  | _ => none

-- @handler la-check Par.handleLaCheck
/-- `la-check <p|n><kind>:<cps> <reply>`: decides, on the text the REAL printer produced, that the
    literal after the three characters `?= ` is read back by the PAR lexer as exactly one literal
    token of its kind whose body is the pattern — whenever the pattern satisfies `litOk`. -/
def handleLaCheck : List String → Option String
  | [la, reply] => do
    let l ← laOf la
    let l ← l
    let out ← Proto.parseNats reply
    if !litOk l.kind l.pat then some "ok"      -- not a body a literal of this kind can have
    else
      let w := out.drop 3
      match tokenizeSpec parModes w with
      | some [t] =>
        if t.tok = l.kind.tok ∧ t.start = 0 ∧ t.stop = w.length ∧ tokBody w t = l.pat ∧ out.take 3 = str (if l.pos then "?= " else "?! ")
        then some "ok" else some "fail one-token-but-wrong"
      | some ts => some s!"fail {ts.length}-tokens"
      | none => some "fuel-exhausted"
  | _ => none

/-! ### The comparer encoding

```
cfg     := start '|' opt '|' opt '|' ('ll'|'lr') '|' pairs '|' pairs '|' opt '|' prods '|' scanners
opt     := '-' | 'x' hex                      (title, comment, %t_type)
pairs   := '-' | hex '=' hex (';' …)*         (%user_type alias = type, %nt_type nt = type)
prods   := '-' | prod (';' prod)*
prod    := hex(lhs) ':' pattr ':' ('-' | sym (',' sym)*)          pattr 0..4 (ProductionAttribute)
sym     := kind '.' hex(text) '.' sattr '.' opt(member) '.' opt(user type) '.' states '.' la
           kind n|l|r|w (non-terminal, "…", /…/, '…'); sattr 0 none 1 clipped 2 repetition anchor 3 option
           states '-' | nat ('+' nat)* ;  la '-' | ('p'|'n') kind 'x' hex
scanners:= scanner ('/' scanner)*
scanner := hex(name) '!' lcs '!' bcs '!' b '!' b '!' b '!' skips '!' trans
           lcs '-' | 'x' hex (',' …)* ; bcs '-' | 'x' hex '+' 'x' hex (',' …)* ; b = auto_newline, auto_ws, allow_unmatched
           skips '-' | term (',' term)* ; trans '-' | term '>' ('e' hex | 'p' hex | 'o') (',' …)*
           term = index '~' (kind 'x' hex | '?') '~' la    (the terminal the index denotes in the grammar)
```
Strings are kept as the hex words (the encoding is injective), numbers and flags are decoded. -/

structure PSym where
  kind : String
  text : String
  attr : Nat
  member : String
  utype : String
  states : String
  la : String
  deriving DecidableEq, Repr

structure PProd where
  lhs : String
  attr : Nat
  rhs : List PSym
  deriving DecidableEq, Repr

structure PScanner where
  name : String
  lineComments : List String
  blockComments : List String
  autoNewline : Bool
  autoWs : Bool
  allowUnmatched : Bool
  skips : List String
  trans : List String
  deriving DecidableEq, Repr

structure PCfg where
  start : String
  title : String
  comment : String
  gtype : String
  utypes : List String
  nttypes : List String
  ttype : String
  prods : List PProd
  scanners : List PScanner
  deriving DecidableEq, Repr

def parseList {α} (sep : String) (f : String → Option α) (s : String) : Option (List α) :=
  if s == "-" then some [] else (s.splitOn sep).mapM f

def parsePSym (s : String) : Option PSym :=
  match s.splitOn "." with
  | [k, t, a, m, u, st, la] => do some ⟨k, t, ← a.toNat?, m, u, st, la⟩
  | _ => none

def parsePProd (s : String) : Option PProd :=
  match s.splitOn ":" with
  | [l, a, r] => do some ⟨l, ← a.toNat?, ← parseList "," parsePSym r⟩
  | _ => none

def parsePScanner (s : String) : Option PScanner :=
  match s.splitOn "!" with
  | [n, lc, bc, an, aw, au, sk, tr] => do
    some ⟨n, ← parseList "," some lc, ← parseList "," some bc, ← Proto.parseBool an, ← Proto.parseBool aw,
          ← Proto.parseBool au, ← parseList "," some sk, ← parseList "," some tr⟩
  | _ => none

def parsePCfg (s : String) : Option PCfg :=
  match s.splitOn "|" with
  | [st, ti, co, gt, ut, nt, tt, pr, sc] => do
    some ⟨st, ti, co, gt, ← parseList ";" some ut, ← parseList ";" some nt, tt, ← parseList ";" parsePProd pr,
          ← parseList "/" parsePScanner sc⟩
  | _ => none

/-- first position at which `f` reports a difference; lists of different length differ -/
def firstDiff {α} (f : α → α → Option String) : List α → List α → Nat → Option String
  | [], [], _ => none
  | a :: as, b :: bs, i =>
    match f a b with
    | some why => some s!"[{i}].{why}"
    | none => firstDiff f as bs (i + 1)
  | _, _, i => some s!"[{i}].length"

def neq {α} [DecidableEq α] (what : String) (a b : α) : Option String := if a = b then none else some what

def orElse' (a : Option String) (b : Option String) : Option String :=
  match a with
  | some x => some x
  | none => b

def symEq (a b : PSym) : Option String :=
  orElse' (neq "kind" a.kind b.kind) <| orElse' (neq "text" a.text b.text) <| orElse' (neq "clipping" a.attr b.attr) <|
  orElse' (neq "member" a.member b.member) <| orElse' (neq "user-type" a.utype b.utype) <|
  orElse' (neq "scanner-states" a.states b.states) (neq "lookahead" a.la b.la)

def prodEq (a b : PProd) : Option String :=
  orElse' (neq "lhs" a.lhs b.lhs) <| orElse' (neq "attribute" a.attr b.attr) <|
  (firstDiff symEq a.rhs b.rhs 0).map ("rhs" ++ ·)

def strEq (a b : String) : Option String := neq "differs" a b

def scannerEq (a b : PScanner) : Option String :=
  orElse' (neq "name" a.name b.name) <|
  orElse' ((firstDiff strEq a.lineComments b.lineComments 0).map ("line_comment" ++ ·)) <|
  orElse' ((firstDiff strEq a.blockComments b.blockComments 0).map ("block_comment" ++ ·)) <|
  orElse' (neq "auto_newline" a.autoNewline b.autoNewline) <| orElse' (neq "auto_ws" a.autoWs b.autoWs) <|
  orElse' (neq "allow_unmatched" a.allowUnmatched b.allowUnmatched) <|
  orElse' ((firstDiff strEq a.skips b.skips 0).map ("skip" ++ ·)) ((firstDiff strEq a.trans b.trans 0).map ("transition" ++ ·))

/-- The structural comparer: `none` = equal on everything the property lists, else where the first
    difference is. -/
def configEq (a b : PCfg) : Option String :=
  orElse' (neq "start" a.start b.start) <| orElse' (neq "title" a.title b.title) <| orElse' (neq "comment" a.comment b.comment) <|
  orElse' (neq "grammar_type" a.gtype b.gtype) <|
  orElse' ((firstDiff strEq a.utypes b.utypes 0).map ("user_type" ++ ·)) <|
  orElse' ((firstDiff strEq a.nttypes b.nttypes 0).map ("nt_type" ++ ·)) <|
  orElse' (neq "t_type" a.ttype b.ttype) <|
  orElse' ((firstDiff prodEq a.prods b.prods 0).map ("production" ++ ·)) ((firstDiff scannerEq a.scanners b.scanners 0).map ("scanner" ++ ·))

/-- The annotations PAR syntax cannot express and that are printed as comments only: production
    attributes, and the symbol attributes `RepetitionAnchor` (2) and `Option` (3). -/
def normSym (s : PSym) : PSym := { s with attr := if s.attr = 2 ∨ s.attr = 3 then 0 else s.attr }
def normProd (p : PProd) : PProd := { p with attr := 0, rhs := p.rhs.map normSym }
def normAttrs (c : PCfg) : PCfg := { c with prods := c.prods.map normProd }

/-- does the configuration carry any annotation that `normAttrs` removes? -/
def hasDerivedAttrs (c : PCfg) : Bool :=
  c.prods.any fun p => p.attr != 0 || p.rhs.any fun s => s.attr == 2 || s.attr == 3

-- @handler cfg-eq Par.handleCfgEq
/-- `cfg-eq <enc1> <enc2>` → `ok` | `fail <where>`: the round-trip oracle. `<enc2>` may be
    `!render:…` / `!reparse:…` (the second stage failed). Derived annotations are excluded
    (`normAttrs`); a second word tells whether the first configuration had any (`full` = nothing was
    excluded). -/
def handleCfgEq : List String → Option String
  | [a, b] => do
    let ca ← parsePCfg a
    if b.startsWith "!" then some s!"fail {b}"
    else
      let cb ← parsePCfg b
      match configEq (normAttrs ca) (normAttrs cb) with
      | none => some "ok"
      | some why => some s!"fail {why}"
  | _ => none

-- @handler cfg-derived Par.handleCfgDerived
/-- `cfg-derived <enc>` → `1` if `normAttrs` removes something from it, else `0` -/
def handleCfgDerived : List String → Option String
  | [a] => do
    let ca ← parsePCfg a
    some (if hasDerivedAttrs ca then "1" else "0")
  | _ => none

-- @handler lit-lex Par.handleLitLex
/-- `lit-lex <kind> <cps>` → `<litOk> <tokens of the printed literal>` (experiments, replay) -/
def handleLitLex : List String → Option String
  | [k, t] => do
    let k ← kindOf k
    let t ← Proto.parseNats t
    let w := printLit k t
    match tokenizeSpec parModes w with
    | none => some "fuel-exhausted"
    | some ts => some ((if litOk k t then "1 " else "0 ") ++ showToks w ts)
  | _ => none

end ParolModel.Par
