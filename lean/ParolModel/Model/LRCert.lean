import ParolModel.Model.LRCheck
/-! Translation validation of LR COMPLETENESS (C03, "if" direction), in the style of Jourdan, Pottier
& Leroy, *Validating LR(1) Parsers* (ESOP 2012).

The table comes from the external crate `lalry`; nothing about its construction is modelled.
Instead `lrCompleteCertB T gprods` COMPUTES a certificate — an assignment of LR(1) item sets to the
states of the table (the least solution of "state 0 holds the start items; closure; items move
along the table's own shift/goto transitions"), together with a nullable set and FIRST sets — and
then VERIFIES it (`lcCheck`). Only the verification is used by the proof
(`lr_complete`, Props/C03b.lean): a table with a verified certificate accepts every sentence.

Items are `(production index, dot position, lookahead terminal)`, `0` = end of input; a state's item
set is stored as a list of `(p, d, mask)` where bit `a` of `mask` says that `(p, d, a)` is present.

parol's tables have no separate augmented production: `Accept` is the action on terminal 0 in the
state reached after the right-hand side of the production of the start symbol `T.start`, and the
parser then calls the semantic action of the FIRST production whose left-hand side is `T.start`.
The verified conditions are:

* `lcAlignB`    production tables are index-aligned: same number, `len` = length of the rhs;
* `lcIsolatedB` the start symbol does not occur on any right-hand side (parol augments otherwise);
* `lcNullOkB`, `lcFirstOkB`  the nullable set / FIRST sets are CLOSED under their defining
  equations (hence over-approximate the real ones — larger is harmless);
* `lcInitB`     state 0 holds `(p, 0, 0)` for every production `p` of the start symbol;
* per state `q` and entry `(p, d, m)` of its item set (`lcEntryOk`):
  - dot at the end: for every `a ∈ m` the action of `q` on `a` is `Reduce(lhs p, p')` where `p'` is
    `p` or a production with the SAME left- and right-hand side (lalry keeps one of several
    identical productions) — or `Accept` if `lhs p` is the start symbol and `a = 0`, and then the
    production whose action `Accept` reports is (a copy of) `p`;
  - dot before a terminal `x`: the action of `q` on `x` is `Shift q'` and `(p, d+1, m) ⊆ I(q')`;
  - dot before a non-terminal `B`: `goto(q, B) = g`, `(p, d+1, m) ⊆ I(g)`, and for every
    production `p'` of `B`: `(p', 0, FIRST(β m)) ⊆ I(q)` where `β` is the rest after `B`. -/
namespace ParolModel

/-- Item set of one state: entries `(production, dot, lookahead bit mask)`. -/
abbrev LcSet := List (Nat × Nat × Nat)

/-- Bit-mask inclusion. -/
def lcSub (m1 m2 : Nat) : Bool := (m1 ||| m2) == m2

/-- Lookahead mask of the item core `(p, d)` in a set (first matching entry). -/
def lcLaOf (s : LcSet) (p d : Nat) : Nat :=
  match s.find? (fun e => e.1 == p && e.2.1 == d) with
  | some e => e.2.2
  | none => 0

/-- `(p, d, a) ∈ I(q)`. -/
def lcMem (I : List LcSet) (q p d a : Nat) : Bool := (lcLaOf (I.getD q []) p d).testBit a

/-- FIRST mask and nullability of a symbol string, relative to a nullable mask (bit per
    non-terminal) and FIRST masks (list indexed by non-terminal). -/
def lcFirstSeq (null : Nat) (first : List Nat) : List Sym → Nat × Bool
  | [] => (0, true)
  | .t x :: _ => (2 ^ x, false)
  | .n b :: ss =>
    if null.testBit b then
      (first.getD b 0 ||| (lcFirstSeq null first ss).1, (lcFirstSeq null first ss).2)
    else (first.getD b 0, false)

/-- FIRST(β la) for a lookahead mask `la`. -/
def lcFirstLA (null : Nat) (first : List Nat) (ss : List Sym) (la : Nat) : Nat :=
  if (lcFirstSeq null first ss).2 then (lcFirstSeq null first ss).1 ||| la
  else (lcFirstSeq null first ss).1

/-- Iterate until stable (at most `fuel` times). -/
def lcIter {α : Type} [BEq α] (f : α → α) : Nat → α → α
  | 0, x => x
  | n + 1, x => if f x == x then x else lcIter f n (f x)

def lcNullStep (gprods : List Rule) (null : Nat) : Nat :=
  gprods.foldl (fun acc r => if (lcFirstSeq acc [] r.rhs).2 then acc ||| 2 ^ r.lhs else acc) null

def lcNull (gprods : List Rule) : Nat := lcIter (lcNullStep gprods) (gprods.length + 1) 0

def lcSymMax : List Sym → Nat × Nat
  | [] => (0, 0)
  | .t x :: ss => (Nat.max x (lcSymMax ss).1, (lcSymMax ss).2)
  | .n b :: ss => ((lcSymMax ss).1, Nat.max b (lcSymMax ss).2)

/-- One more than the largest terminal number on a right-hand side (bit 0 = end of input). -/
def lcTermBound (gprods : List Rule) : Nat :=
  gprods.foldl (fun acc r => Nat.max acc ((lcSymMax r.rhs).1 + 1)) 1

/-- One more than the largest non-terminal number. -/
def lcNtBound (gprods : List Rule) : Nat :=
  gprods.foldl (fun acc r => Nat.max acc (Nat.max (r.lhs + 1) ((lcSymMax r.rhs).2 + 1))) 0

def lcFirstStep (gprods : List Rule) (null : Nat) (first : List Nat) : List Nat :=
  first.zipIdx.map fun (m, b) =>
    gprods.foldl (fun acc r => if r.lhs == b then acc ||| (lcFirstSeq null first r.rhs).1 else acc) m

def lcFirst (gprods : List Rule) (null : Nat) : List Nat :=
  lcIter (lcFirstStep gprods null) (lcNtBound gprods * lcTermBound gprods + 1)
    (List.replicate (lcNtBound gprods) 0)

/-- Add the lookaheads `m` to the entry `(p, d)` of a set. -/
def lcAdd : LcSet → Nat → Nat → Nat → LcSet
  | [], p, d, m => [(p, d, m)]
  | e :: rest, p, d, m =>
    if e.1 == p && e.2.1 == d then (p, d, e.2.2 ||| m) :: rest else e :: lcAdd rest p d m

def lcClosePass (gprods : List Rule) (null : Nat) (first : List Nat) (s : LcSet) : LcSet :=
  s.foldl (fun acc e =>
    match gprods[e.1]? with
    | none => acc
    | some r =>
      match r.rhs[e.2.1]? with
      | some (.n b) =>
        let m := lcFirstLA null first (r.rhs.drop (e.2.1 + 1)) e.2.2
        gprods.zipIdx.foldl (fun acc2 rp => if rp.1.lhs == b then lcAdd acc2 rp.2 0 m else acc2) acc
      | _ => acc) s

def lcItemCount (gprods : List Rule) : Nat := gprods.foldl (fun acc r => acc + r.rhs.length + 1) 0

def lcClose (gprods : List Rule) (null : Nat) (first : List Nat) (s : LcSet) : LcSet :=
  lcIter (lcClosePass gprods null first) (lcItemCount gprods * lcTermBound gprods + 1) s

/-- The table's transition on a symbol. -/
def lcTarget (row : LRRow) : Sym → Option Nat
  | .t x => match findAct row x with
    | some (.shift q') => some q'
    | _ => none
  | .n b => findGoto row b

def lcPropagate (T : LRTables) (gprods : List Rule) (I : List LcSet) (q : Nat) : List LcSet :=
  match T.rows[q]? with
  | none => I
  | some row =>
    (I.getD q []).foldl (fun J e =>
      match gprods[e.1]? with
      | none => J
      | some r =>
        match r.rhs[e.2.1]? with
        | none => J
        | some X =>
          match lcTarget row X with
          | none => J
          | some q' => J.modify q' (fun s => lcAdd s e.1 (e.2.1 + 1) e.2.2)) I

def lcRound (T : LRTables) (gprods : List Rule) (null : Nat) (first : List Nat) (I : List LcSet) :
    List LcSet :=
  (List.range T.rows.length).foldl (fun J q =>
    lcPropagate T gprods (J.modify q (lcClose gprods null first)) q) I

def lcInit (T : LRTables) (gprods : List Rule) : List LcSet :=
  (List.replicate T.rows.length []).modify 0 (fun _ =>
    gprods.zipIdx.filterMap fun rp => if rp.1.lhs == T.start then some (rp.2, 0, 1) else none)

/-- The computed certificate: least item sets reachable from the start items of state 0. -/
def lcItems (T : LRTables) (gprods : List Rule) (null : Nat) (first : List Nat) : List LcSet :=
  lcIter (lcRound T gprods null first)
    (T.rows.length * lcItemCount gprods * lcTermBound gprods + 1) (lcInit T gprods)

-- ---------------------------------------------------------------------------------------------
-- verification

def lcAlignB (T : LRTables) (gprods : List Rule) : Bool :=
  gprods.length == T.prods.length &&
  ((gprods.zip T.prods).all fun rp => rp.1.rhs.length == rp.2.len)

def lcIsolatedB (T : LRTables) (gprods : List Rule) : Bool :=
  gprods.all fun r => !r.rhs.contains (Sym.n T.start)

def lcNullOkB (gprods : List Rule) (null : Nat) : Bool :=
  gprods.all fun r => !(lcFirstSeq null [] r.rhs).2 || null.testBit r.lhs

def lcFirstOkB (gprods : List Rule) (null : Nat) (first : List Nat) : Bool :=
  gprods.all fun r => lcSub (lcFirstSeq null first r.rhs).1 (first.getD r.lhs 0)

def lcInitB (T : LRTables) (gprods : List Rule) (I : List LcSet) : Bool :=
  gprods.zipIdx.all fun rp => rp.1.lhs != T.start || lcMem I 0 rp.2 0 0

/-- Condition (d) for a complete item with lookahead `a` of the production `r`. -/
def lcCompleteOk (T : LRTables) (gprods : List Rule) (row : LRRow) (r : Rule) (a : Nat) : Bool :=
  if r.lhs == T.start && a == 0 then
    findAct row 0 == some .accept &&
    match T.prods.findIdx? (·.lhs == T.start) with
    | some p0 => gprods[p0]? == some r
    | none => false
  else
    match findAct row a with
    | some (.reduce A p') => A == r.lhs && gprods[p']? == some r
    | _ => false

def lcEntryOk (T : LRTables) (gprods : List Rule) (null : Nat) (first : List Nat) (tb : Nat)
    (I : List LcSet) (row : LRRow) (s : LcSet) (e : Nat × Nat × Nat) : Bool :=
  match gprods[e.1]? with
  | none => false
  | some r =>
    if e.2.1 == r.rhs.length then
      e.2.2 >>> tb == 0 &&
      (List.range tb).all fun a => !e.2.2.testBit a || lcCompleteOk T gprods row r a
    else
      match r.rhs[e.2.1]? with
      | none => false
      | some (.t x) =>
        match findAct row x with
        | some (.shift q') => lcSub e.2.2 (lcLaOf (I.getD q' []) e.1 (e.2.1 + 1))
        | _ => false
      | some (.n b) =>
        match findGoto row b with
        | some g =>
          lcSub e.2.2 (lcLaOf (I.getD g []) e.1 (e.2.1 + 1)) &&
          gprods.zipIdx.all fun rp =>
            rp.1.lhs != b ||
            lcSub (lcFirstLA null first (r.rhs.drop (e.2.1 + 1)) e.2.2) (lcLaOf s rp.2 0)
        | none => false

def lcStatesOkB (T : LRTables) (gprods : List Rule) (null : Nat) (first : List Nat)
    (I : List LcSet) : Bool :=
  I.zipIdx.all fun sq =>
    match T.rows[sq.2]? with
    | none => false
    | some row => sq.1.all (lcEntryOk T gprods null first (lcTermBound gprods) I row sq.1)

/-- Verification of a certificate `(null, first, I)` — the only part the proof relies on. -/
def lcCheck (T : LRTables) (gprods : List Rule) (null : Nat) (first : List Nat) (I : List LcSet) :
    Bool :=
  lcAlignB T gprods && lcIsolatedB T gprods && lcNullOkB gprods null &&
  lcFirstOkB gprods null first && lcInitB T gprods I && lcStatesOkB T gprods null first I

/-- **The completeness validator**: compute the certificate, then verify it. -/
def lrCompleteCertB (T : LRTables) (gprods : List Rule) : Bool :=
  lcCheck T gprods (lcNull gprods) (lcFirst gprods (lcNull gprods))
    (lcItems T gprods (lcNull gprods) (lcFirst gprods (lcNull gprods)))

-- ---------------------------------------------------------------------------------------------
-- protocol

/-- Name of the first failing part of the verification (for the handler's `fail <why>`). -/
def lcWhy (T : LRTables) (gprods : List Rule) : String :=
  let null := lcNull gprods
  let first := lcFirst gprods null
  let I := lcItems T gprods null first
  if !lcAlignB T gprods then "prods-not-aligned" else
  if !lcIsolatedB T gprods then "start-on-rhs" else
  if !lcNullOkB gprods null then "nullable-not-closed" else
  if !lcFirstOkB gprods null first then "first-not-closed" else
  if !lcInitB T gprods I then "no-start-item" else
  match I.zipIdx.find? (fun sq =>
    match T.rows[sq.2]? with
    | none => true
    | some row => !sq.1.all (lcEntryOk T gprods null first (lcTermBound gprods) I row sq.1)) with
  | none => "none"
  | some sq =>
    match T.rows[sq.2]? with
    | none => s!"state-{sq.2}-missing"
    | some row =>
      match sq.1.find? (fun e => !lcEntryOk T gprods null first (lcTermBound gprods) I row sq.1 e) with
      | none => s!"state-{sq.2}"
      | some e =>
        let la := (List.range (lcTermBound gprods)).filter e.2.2.testBit
        s!"state-{sq.2}-item-{e.1}.{e.2.1}-la-{Proto.showNats la}"

-- @handler lr-cert-ok handleLRCertOk
/-- `lr-cert-ok <start> <prods> <rows> <gprods>` → `ok` iff `lrCompleteCertB`, else `fail <why>`. -/
def handleLRCertOk : List String → Option String
  | [st, ps, rs, gps] => do
    let st ← st.toNat?
    let ps ← parseLRProds ps
    let rs ← parseLRRows rs
    let gps ← parseRules gps
    if lrCompleteCertB ⟨st, ps, rs⟩ gps then some "ok" else some s!"fail {lcWhy ⟨st, ps, rs⟩ gps}"
  | _ => none

end ParolModel
