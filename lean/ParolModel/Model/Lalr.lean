import ParolModel.Model.CfgProto
/-! Reference LALR(1) construction (C04): canonical LR(1) item sets of the properly augmented
grammar, merged by core; a grammar is LALR(1) iff no merged state has a shift/reduce,
reduce/reduce or accept conflict. This executable definition is the REFERENCE against which
parol's (lalry's) conflict reports are compared; it is deliberately written as the textbook
construction and is not proved against another definition (see DESIGN.md §9). -/
namespace ParolModel.Lalr

open ParolModel

/-- LR(1) item: production index, dot position, lookahead terminal (0 = end of input). -/
abbrev Item := Nat × Nat × Nat

def insertSorted (x : Item) : List Item → List Item
  | [] => [x]
  | y :: ys => if x == y then y :: ys else if lexLt x y then x :: y :: ys else y :: insertSorted x ys
where
  lexLt (a b : Item) : Bool :=
    a.1 < b.1 || (a.1 == b.1 && (a.2.1 < b.2.1 || (a.2.1 == b.2.1 && a.2.2 < b.2.2)))

def mkSet (l : List Item) : List Item := l.foldl (fun acc x => insertSorted x acc) []

def unionSet (a b : List Item) : List Item := b.foldl (fun acc x => insertSorted x acc) a

structure AG where
  prods : List Rule          -- augmented: the LAST production is S' → S
  nts : List Nat
  deriving Repr

def augmentG (G : Grammar) : AG :=
  let nts := (G.start :: G.prods.flatMap (fun r => r.lhs :: r.rhs.filterMap (fun s => match s with
    | .n a => some a
    | .t _ => none))).eraseDups
  let fresh := (nts.foldl Nat.max 0) + 1
  -- productions form a SET: a production written twice is one production
  ⟨G.prods.eraseDups ++ [⟨fresh, [.n G.start]⟩], fresh :: nts⟩

def iterN {α : Type} [BEq α] (f : α → α) : Nat → α → α
  | 0, x => x
  | n + 1, x => let y := f x; if y == x then x else iterN f n y

def nullableSet (A : AG) : List Nat :=
  iterN (fun (ns : List Nat) =>
    A.prods.foldl (fun acc r =>
      if !acc.contains r.lhs && r.rhs.all (fun s => match s with
        | .n a => acc.contains a
        | .t _ => false) then r.lhs :: acc else acc) ns) (A.nts.length + 1) []

def firstSeq (nul : List Nat) (fs : List (Nat × List Nat)) : List Sym → List Nat
  | [] => []
  | .t a :: _ => [a]
  | .n a :: rest =>
    let fa := ((fs.find? (·.1 == a)).map (·.2)).getD []
    if nul.contains a then fa ++ firstSeq nul fs rest else fa

/-- FIRST sets of the non-terminals as an association list. -/
def firstSets (A : AG) : List (Nat × List Nat) :=
  let nul := nullableSet A
  iterN (fun fs =>
    A.nts.map (fun a =>
      let cur := ((fs.find? (·.1 == a)).map (·.2)).getD []
      let add := (A.prods.filter (·.lhs == a)).flatMap (fun r => firstSeq nul fs r.rhs)
      (a, (cur ++ add).eraseDups.mergeSort (· ≤ ·))))
    (A.nts.length * 8 + 8) (A.nts.map (fun a => (a, [])))

/-- FIRST of a symbol string followed by the lookahead terminal `la`. -/
def firstOf (A : AG) (fs : List (Nat × List Nat)) (nul : List Nat) : List Sym → Nat → List Nat
  | [], la => [la]
  | .t a :: _, _ => [a]
  | .n a :: rest, la =>
    let fa := ((fs.find? (·.1 == a)).map (·.2)).getD []
    if nul.contains a then (fa ++ firstOf A fs nul rest la).eraseDups else fa

def closure (A : AG) (fs : List (Nat × List Nat)) (nul : List Nat) (fuel : Nat) (I : List Item) : List Item :=
  iterN (fun (I : List Item) =>
    I.foldl (fun acc (it : Item) =>
      match A.prods[it.1]? with
      | none => acc
      | some r =>
        match r.rhs[it.2.1]? with
        | some (.n b) =>
          let las := firstOf A fs nul (r.rhs.drop (it.2.1 + 1)) it.2.2
          A.prods.zipIdx.foldl (fun acc2 (q, qi) =>
            if q.lhs == b then las.foldl (fun acc3 la => insertSorted (qi, 0, la) acc3) acc2 else acc2) acc
        | _ => acc) I) fuel I

def gotoSet (A : AG) (fs : List (Nat × List Nat)) (nul : List Nat) (fuel : Nat) (I : List Item) (X : Sym) : List Item :=
  let moved := I.filterMap (fun (it : Item) =>
    match A.prods[it.1]? with
    | some r => if r.rhs[it.2.1]? == some X then some (it.1, it.2.1 + 1, it.2.2) else none
    | none => none)
  if moved.isEmpty then [] else closure A fs nul fuel (mkSet moved)

def symbolsAfterDot (A : AG) (I : List Item) : List Sym :=
  (I.filterMap (fun (it : Item) => (A.prods[it.1]?).bind (fun r => r.rhs[it.2.1]?))).eraseDups

/-- Canonical LR(1) collection by worklist (fuel-bounded); `none` if the fuel runs out. -/
def collection (A : AG) (fs : List (Nat × List Nat)) (nul : List Nat) (cfuel : Nat) :
    Nat → List (List Item) → List (List Item) → Option (List (List Item))
  | _, done, [] => some done
  | 0, _, _ :: _ => none
  | fuel + 1, done, I :: todo =>
    if done.contains I then collection A fs nul cfuel fuel done todo else
    let succs := (symbolsAfterDot A I).map (gotoSet A fs nul cfuel I)
    collection A fs nul cfuel fuel (I :: done) (todo ++ succs.filter (fun s => !s.isEmpty))

def core (I : List Item) : List (Nat × Nat) := (I.map (fun it => (it.1, it.2.1))).eraseDups

/-- Merge LR(1) states with equal cores. -/
def mergeByCore (states : List (List Item)) : List (List Item) :=
  states.foldl (fun acc I =>
    match acc.findIdx? (fun J => core J == core I) with
    | some i => acc.set i (unionSet (acc[i]?.getD []) I)
    | none => acc ++ [I]) []

/-- Conflicts of one (merged) state: (terminal, description). -/
def stateConflicts (A : AG) (I : List Item) : List (Nat × String) :=
  let complete := I.filter (fun (it : Item) => match A.prods[it.1]? with
    | some r => it.2.1 == r.rhs.length
    | none => false)
  let shifts := (I.filterMap (fun (it : Item) => match (A.prods[it.1]?).bind (fun r => r.rhs[it.2.1]?) with
    | some (.t a) => some a
    | _ => none)).eraseDups
  let sr := complete.filterMap (fun it => if shifts.contains it.2.2 then some (it.2.2, s!"shift/reduce-p{it.1}") else none)
  let rr := complete.flatMap (fun a => complete.filterMap (fun b =>
    if a.1 < b.1 && a.2.2 == b.2.2 then some (a.2.2, s!"reduce/reduce-p{a.1}-p{b.1}") else none))
  sr ++ rr

/-- `some true` iff the grammar is LALR(1); `none` if the construction ran out of fuel. -/
def isLALR1 (G : Grammar) : Option Bool :=
  let A := augmentG G
  let nul := nullableSet A
  let fs := firstSets A
  let nterm := ((A.prods.flatMap (fun r => r.rhs.filterMap (fun s => match s with
    | .t a => some a
    | .n _ => none))).eraseDups.length + 1)
  let nitems := (A.prods.foldl (fun n r => n + r.rhs.length + 1) 0) * nterm + 2
  let start := closure A fs nul nitems [(A.prods.length - 1, 0, 0)]
  match collection A fs nul nitems 4000 [] [start] with
  | none => none
  | some states =>
    let merged := mergeByCore states
    some (merged.all (fun I => (stateConflicts A I).isEmpty))

-- @handler lalr1 ParolModel.Lalr.handleLalr1
/-- `lalr1 <start> <prods> …` → `lalr1` | `conflict` | `fuel-exhausted` (reference verdict). -/
def handleLalr1 : List String → Option String
  | st :: ps :: _ => do
    let G ← parseGrammar st ps
    match isLALR1 G with
    | some true => some "lalr1"
    | some false => some "conflict"
    | none => some "fuel-exhausted"
  | _ => none

-- @handler lalr1-check ParolModel.Lalr.handleLalr1Check
/-- `lalr1-check <start> <prods> <real-verdict>`: clause (a) of C04 on the real verdict (`lalr1` =
    table without any reported conflict): `ok` unless the reference says the grammar is not LALR(1). -/
def handleLalr1Check : List String → Option String
  | [st, ps, v] => do
    let G ← parseGrammar st ps
    match isLALR1 G with
    | none => some "fail reference-fuel-exhausted"
    | some true => if v == "panic" then some "fail crashed" else some "ok"
    | some false =>
      if v == "lalr1" then some "fail conflict-not-reported"
      else if v == "panic" then some "fail crashed-instead-of-rejecting-or-reporting"
      else some "ok"
  | _ => none

end ParolModel.Lalr
