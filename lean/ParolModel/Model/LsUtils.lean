import ParolModel.Model.Proto
/-! # L12 (part) — position/offset conversion of the language server

Mirror of `crates/parol-ls/src/utils.rs`: `pos_to_offset` and `extract_text_range`.

A Rust `&str` is modelled as its list of characters (`List Char`); byte offsets are sums of
`Char.utf8Size`. `str::lines()` is modelled as the standard library implements it:
`split_inclusive('\n')` followed by `strip_suffix('\n')` and then (only if a `\n` was stripped)
one `strip_suffix('\r')`; a final empty piece after a trailing `\n` does not exist.
`str::split_at` panics when the offset is past the end or not on a character boundary; panics are
the result `none`. `usize` values are unbounded `Nat` (texts are far below 2^64 bytes), the only
place where machine arithmetic matters is `end - start` in `extract_text_range` (see there).

`posToOffset fixed`: `fixed = true` is the code as it is now (after the `fix:` commit for finding
F9), `fixed = false` the pre-repair function, kept for the counterexamples in `Props/C30`. -/
namespace ParolModel

namespace LsUtils

/-- `str::len` of a character list: number of UTF-8 bytes. -/
def utf8Len : List Char → Nat
  | [] => 0
  | c :: cs => c.utf8Size + utf8Len cs

/-- `str::split_inclusive('\n')`: pieces end with their `\n`; the last one may lack it; no empty
    piece after a trailing `\n`. -/
def splitInclusive : List Char → List (List Char)
  | [] => []
  | c :: cs =>
    if c = '\n' then [c] :: splitInclusive cs
    else match splitInclusive cs with
      | [] => [[c]]
      | p :: ps => (c :: p) :: ps

/-- `str::strip_suffix(ch)`. -/
def stripSuffixChar (ch : Char) : List Char → Option (List Char)
  | [] => none
  | [c] => if c = ch then some [] else none
  | c :: d :: ds => (stripSuffixChar ch (d :: ds)).map (c :: ·)

/-- `LinesMap` of the standard library: strip `\n`, then (only then) one `\r`. -/
def linesMap (piece : List Char) : List Char :=
  match stripSuffixChar '\n' piece with
  | none => piece
  | some l =>
    match stripSuffixChar '\r' l with
    | none => l
    | some l' => l'

/-- `str::lines()`. -/
def lines (input : List Char) : List (List Char) :=
  (splitInclusive input).map linesMap

/-- `input.split_at(n)`: `none` (panic) if `n` is past the end or inside a character. -/
def splitAtBytes : List Char → Nat → Option (List Char × List Char)
  | [], n => if n = 0 then some ([], []) else none
  | c :: cs, n =>
    if n = 0 then some ([], c :: cs)
    else if c.utf8Size ≤ n then
      (splitAtBytes cs (n - c.utf8Size)).map (fun (a, b) => (c :: a, b))
    else none

/-- `str::starts_with(&str)`. -/
def startsWith : List Char → List Char → Bool
  | _, [] => true
  | [], _ :: _ => false
  | c :: cs, p :: ps => c == p && startsWith cs ps

/-- `line.char_indices().nth(n).map(|(p, _)| p)`: byte index of the n-th character. -/
def charIndexNth (line : List Char) (n : Nat) : Option Nat :=
  if n < line.length then some (utf8Len (line.take n)) else none

/-- `line.char_indices().last().unwrap().0` (pre-repair code only; the line is non-empty there). -/
def lastCharIndex (line : List Char) : Nat :=
  utf8Len line.dropLast

/-- The `for line in input.lines().take(pos.line)` loop: `ls` are the lines still to be consumed,
    `off` the running offset. -/
def advance (fixed : Bool) (input : List Char) : List (List Char) → Nat → Option Nat
  | [], off => some off
  | line :: rest, off =>
    let off := off + utf8Len line
    match splitAtBytes input off with
    | none => none                      -- split_at panicked
    | some (_, lineEnd) =>
      let off :=
        if startsWith lineEnd ['\r', '\n'] then off + 2
        else if fixed then
          (if startsWith lineEnd ['\n'] then off + 1 else off)
        else off + 1
      advance fixed input rest off

/-- `pos_to_offset(input, Position { line, character })`; `none` = panic. -/
def posToOffset (fixed : Bool) (input : List Char) (line character : Nat) : Option Nat :=
  match advance fixed input ((lines input).take line) 0 with
  | none => none
  | some off =>
    match (lines input)[line]? with
    | none => some off
    | some lastLine =>
      if lastLine.isEmpty then some off
      else
        match charIndexNth lastLine character with
        | some p => some (off + p)
        | none =>
          if fixed then some (off + utf8Len lastLine)
          else some (off + lastCharIndex lastLine + 1)

/-- `extract_text_range(input, Range { start: (sl, sc), end: (el, ec) })`; `none` = panic.
    `end - start` on `usize`: a debug build panics on underflow; a release build wraps to a value
    ≥ 2^63 > `len`, on which the second `split_at` panics — so `end < start` is a panic either way. -/
def extractTextRange (fixed : Bool) (input : List Char) (sl sc el ec : Nat) : Option (List Char) :=
  match posToOffset fixed input sl sc, posToOffset fixed input el ec with
  | some s, some e =>
    match splitAtBytes input s with
    | none => none
    | some (_, tail) =>
      if e < s then none
      else
        match splitAtBytes tail (e - s) with
        | none => none
        | some (res, _) => some res
  | _, _ => none

/-- Decidable form of "byte offset `off` is a character boundary of `t`" (`str::is_char_boundary`):
    `off` is the byte length of some prefix of `t`. -/
def isCharBoundaryB : List Char → Nat → Bool
  | [], n => n == 0
  | c :: cs, n => n == 0 || (c.utf8Size ≤ n && isCharBoundaryB cs (n - c.utf8Size))

/-! ## Line protocol -/

def hexVal (c : Char) : Option Nat :=
  if '0' ≤ c ∧ c ≤ '9' then some (c.toNat - '0'.toNat)
  else if 'a' ≤ c ∧ c ≤ 'f' then some (c.toNat - 'a'.toNat + 10)
  else none

def hexBytes : List Char → Option (List UInt8)
  | [] => some []
  | [_] => none
  | a :: b :: r => do
    let x ← hexVal a
    let y ← hexVal b
    let rest ← hexBytes r
    some (UInt8.ofNat (x * 16 + y) :: rest)

/-- `-` is the empty text; otherwise lower-case hex of the UTF-8 bytes. -/
def parseHexText (s : String) : Option (List Char) :=
  if s == "-" then some [] else do
    let bs ← hexBytes s.toList
    let str ← String.fromUTF8? (ByteArray.mk bs.toArray)
    some str.toList

def hexDigit (n : Nat) : Char :=
  if n < 10 then Char.ofNat ('0'.toNat + n) else Char.ofNat ('a'.toNat + (n - 10))

def showHexText (t : List Char) : String :=
  if t.isEmpty then "-" else
  String.ofList ((String.ofList t).toUTF8.toList.flatMap
    (fun b => [hexDigit (b.toNat / 16), hexDigit (b.toNat % 16)]))

def showOff : Option Nat → String
  | none => "panic"
  | some n => toString n

end LsUtils

open LsUtils in
-- @handler ls-pos handleLsPos
/-- Protocol: `ls-pos <hex text> <line> <character>` → `<offset>` | `panic` (current code). -/
def handleLsPos : List String → Option String
  | [t, l, c] => do
    let t ← parseHexText t
    some (showOff (posToOffset true t (← l.toNat?) (← c.toNat?)))
  | _ => none

open LsUtils in
-- @handler ls-pos-old handleLsPosOld
/-- Protocol: `ls-pos-old <hex text> <line> <character>` → `<offset>` | `panic` (pre-repair code). -/
def handleLsPosOld : List String → Option String
  | [t, l, c] => do
    let t ← parseHexText t
    some (showOff (posToOffset false t (← l.toNat?) (← c.toNat?)))
  | _ => none

open LsUtils in
-- @handler ls-extract handleLsExtract
/-- Protocol: `ls-extract <hex text> <sl> <sc> <el> <ec>` → `<hex of the extracted text>` | `panic`. -/
def handleLsExtract : List String → Option String
  | [t, sl, sc, el, ec] => do
    let t ← parseHexText t
    match extractTextRange true t (← sl.toNat?) (← sc.toNat?) (← el.toNat?) (← ec.toNat?) with
    | none => some "panic"
    | some r => some (showHexText r)
  | _ => none

open LsUtils in
-- @handler ls-pos-check handleLsPosCheck
/-- Property oracle for one implementation reply of `ls-pos`:
    `ls-pos-check <hex text> <line> <character> <reply>` → `ok` iff the reply is an offset that
    lies within the text and on a character boundary (the last clause of property C30). -/
def handleLsPosCheck : List String → Option String
  | [t, _, _, r] => do
    let t ← parseHexText t
    match r.toNat? with
    | none => some s!"fail reply-is-not-an-offset:{r}"
    | some off =>
      if utf8Len t < off then some "fail offset-beyond-text"
      else if !isCharBoundaryB t off then some "fail offset-inside-a-character"
      else some "ok"
  | _ => none

open LsUtils in
-- @handler ls-extract-check handleLsExtractCheck
/-- Oracle for one implementation reply of `ls-extract`:
    `ls-extract-check <hex text> <sl> <sc> <el> <ec> <reply>`. A panic is accepted exactly when the
    end offset lies before the start offset (`extract_no_panic_iff`; such ranges are not produced
    by the server); any other reply must be the text between the two offsets. -/
def handleLsExtractCheck : List String → Option String
  | [t, sl, sc, el, ec, r] => do
    let t ← parseHexText t
    let s := posToOffset true t (← sl.toNat?) (← sc.toNat?)
    let e := posToOffset true t (← el.toNat?) (← ec.toNat?)
    match s, e with
    | some s, some e =>
      if r == "panic" then
        (if e < s then some "ok" else some "fail panic-on-ordered-range")
      else do
        let res ← parseHexText r
        match splitAtBytes t s with
        | some (_, tail) =>
          if e < s then some "fail no-panic-on-reversed-range"
          else match splitAtBytes tail (e - s) with
            | some (mid, _) => if mid == res then some "ok" else some "fail wrong-text"
            | none => some "fail end-offset-not-a-boundary"
        | none => some "fail start-offset-not-a-boundary"
    | _, _ => some "fail offset-conversion-panics"
  | _ => none

end ParolModel
