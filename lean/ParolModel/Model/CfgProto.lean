import ParolModel.Spec.Cfg
import ParolModel.Model.Proto
/-! Line-protocol encoding of plain context-free grammars: `<start> <prods>` where `<prods>` is `-`
or `lhs:sym,sym;lhs:;…` with `sym` = `t<nat>` | `n<nat>`. -/
namespace ParolModel

def parseSym (s : String) : Option Sym :=
  if s.startsWith "t" then (s.drop 1).toNat?.map Sym.t
  else if s.startsWith "n" then (s.drop 1).toNat?.map Sym.n
  else none

def parseRule (s : String) : Option Rule :=
  match s.splitOn ":" with
  | [l, r] => do
    let l ← l.toNat?
    let r ← if r == "" then some [] else (r.splitOn ",").mapM parseSym
    some ⟨l, r⟩
  | _ => none

def parseRules (s : String) : Option (List Rule) :=
  if s == "-" then some [] else (s.splitOn ";").mapM parseRule

def parseGrammar (st prods : String) : Option Grammar := do
  let st ← st.toNat?
  let ps ← parseRules prods
  some ⟨st, ps⟩

def showSym : Sym → String
  | .t a => s!"t{a}"
  | .n a => s!"n{a}"

def showRule (r : Rule) : String :=
  s!"{r.lhs}:{",".intercalate (r.rhs.map showSym)}"

def showRules (ps : List Rule) : String :=
  if ps.isEmpty then "-" else ";".intercalate (ps.map showRule)

end ParolModel
