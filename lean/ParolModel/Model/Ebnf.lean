import ParolModel.Spec.Cfg
import ParolModel.Model.Proto
/-! EBNF grammars as parol's front end builds them (`parser/parol_grammar.rs`: `Factor`,
`Alternation`, `Alternations`, `Production`), their sequence-level semantics `YieldE` (DESIGN.md
Appendix B.6, extended by names and attributes), plain productions with names (`RuleN`, the image
of `Pr`), and the one-word protocol encoding of both.

Names are strings (`List Char`): the helper names that canonicalisation and left factoring
introduce are computed from the text of existing names, and clashes are clashes of texts.

Modelling assumptions (checked by the differential ties, stated in the evidence):
* a terminal is identified by one natural number (text, kind, scanner states, attribute, user type,
  member name and lookahead of `Factor::Terminal` together);
* non-terminal factors carry their `SymbolAttribute`; user type and member name are absent;
* alternations nested in groups/optionals/repetitions carry the default `ProductionAttribute`
  (the front end never builds anything else, and the transformation only sets attributes on the
  alternations of productions). -/
namespace ParolModel

abbrev Name := List Char

/-- `SymbolAttribute` -/
inductive SAttr | none | repAnchor | option | clipped
  deriving DecidableEq, Repr

/-- `ProductionAttribute` -/
inductive PAttr | none | collStart | addToColl | optSome | optNone
  deriving DecidableEq, Repr

inductive Factor
  | t (a : Nat)
  | n (A : Name) (sa : SAttr)
  | group (alts : List (List Factor))
  | opt (alts : List (List Factor))
  | rep (alts : List (List Factor))
  deriving Repr

abbrev Alt := List Factor
abbrev Alts := List (List Factor)

/-- `Alternation(Vec<Factor>, ProductionAttribute)` at the level of a production. -/
structure EAlt where
  fs : List Factor
  attr : PAttr := .none
  deriving Repr

/-- `Production { lhs, rhs: Alternations }` -/
structure EProd where
  lhs : Name
  alts : List EAlt
  deriving Repr

/-- Sequence-level semantics of EBNF right-hand sides over a production list. Attributes do not
    influence the language. -/
inductive YieldE (G : List EProd) : List Factor → List Nat → Prop
  | nil : YieldE G [] []
  | term (a) {fs w} : YieldE G fs w → YieldE G (.t a :: fs) (a :: w)
  | nonterm (p : EProd) (alt : EAlt) (sa : SAttr) {fs u v} : p ∈ G → alt ∈ p.alts →
      YieldE G alt.fs u → YieldE G fs v → YieldE G (.n p.lhs sa :: fs) (u ++ v)
  | group (alts : Alts) (alt : Alt) {fs u v} : alt ∈ alts →
      YieldE G alt u → YieldE G fs v → YieldE G (.group alts :: fs) (u ++ v)
  | optSome (alts : Alts) (alt : Alt) {fs u v} : alt ∈ alts →
      YieldE G alt u → YieldE G fs v → YieldE G (.opt alts :: fs) (u ++ v)
  | optNone (alts : Alts) {fs v} : YieldE G fs v → YieldE G (.opt alts :: fs) v
  | repStop (alts : Alts) {fs v} : YieldE G fs v → YieldE G (.rep alts :: fs) v
  | repStep (alts : Alts) (alt : Alt) {fs u v} : alt ∈ alts →
      YieldE G alt u → YieldE G (.rep alts :: fs) v → YieldE G (.rep alts :: fs) (u ++ v)

/-- The language of an EBNF grammar with start symbol `st`. -/
def LangE (G : List EProd) (st : Name) (w : List Nat) : Prop := YieldE G [.n st .none] w

/-! ## Names occurring in a grammar (`variable_names` of canonicalization.rs, as repaired: nested
non-terminals included). The Rust function sorts and dedups; its only consumer is a membership
test, so the model keeps the collection order. -/

mutual
def Factor.vars : Factor → List Name
  | .t _ => []
  | .n A _ => [A]
  | .group as => altsVars as
  | .opt as => altsVars as
  | .rep as => altsVars as
def altsVars : List (List Factor) → List Name
  | [] => []
  | a :: as => altVars a ++ altsVars as
def altVars : List Factor → List Name
  | [] => []
  | f :: fs => f.vars ++ altVars fs
end

def EProd.vars (p : EProd) : List Name := p.lhs :: altsVars (p.alts.map (·.fs))

def variableNames (ps : List EProd) : List Name := ps.flatMap EProd.vars

/-! ## Plain productions with names (`Pr(Symbol::N(lhs), Vec<Symbol>, ProductionAttribute)`) -/

inductive SymN
  | t (a : Nat)
  | n (A : Name) (sa : SAttr)
  deriving DecidableEq, Repr

structure RuleN where
  lhs : Name
  rhs : List SymN
  attr : PAttr := .none
  deriving DecidableEq, Repr

def SymN.toFactor : SymN → Factor
  | .t a => .t a
  | .n A sa => .n A sa

def RuleN.toEProd (r : RuleN) : EProd := ⟨r.lhs, [⟨r.rhs.map SymN.toFactor, r.attr⟩]⟩

/-- Numbering of names → the shared `Grammar` type of `Spec/Cfg`. -/
def SymN.toSym (ν : Name → Nat) : SymN → Sym
  | .t a => .t a
  | .n A _ => .n (ν A)

def RuleN.toRule (ν : Name → Nat) (r : RuleN) : Rule := ⟨ν r.lhs, r.rhs.map (SymN.toSym ν)⟩

def toGrammar (ν : Name → Nat) (st : Name) (rs : List RuleN) : Grammar :=
  ⟨ν st, rs.map (RuleN.toRule ν)⟩

/-- Names of a plain grammar (left-hand sides and right-hand-side non-terminals). -/
def RuleN.names (r : RuleN) : List Name :=
  r.lhs :: r.rhs.filterMap fun | .n A _ => some A | .t _ => none

def namesN (rs : List RuleN) : List Name := rs.flatMap RuleN.names

/-- Position of a name in a table (= table length if absent): an injective numbering on the
    table's entries, used by the oracles to reach `member`. -/
def indexIn (tbl : List Name) (x : Name) : Nat := tbl.findIdx (· == x)

/-! ## Protocol encoding (one word, no spaces)

```
grammar  := prod (';' prod)*            prod := name ':' alts
alts     := alt ('|' alt)*              alt  := '' | factor (',' factor)*
factor   := nat                          terminal
          | name attr?                   non-terminal; attr: '^' clipped, '*' repetition anchor, '?' option
          | '(' alts ')' | '[' alts ']' | '{' alts '}'
name     := [A-Za-z_][A-Za-z0-9_]*
```
Plain productions are printed as `lhs:sym,sym@k;…` where `@k` (k = 1..4) is the production
attribute (omitted for none); `-` is the empty list. -/

def isNameStart (c : Char) : Bool := c.isAlpha || c == '_'
def isNameChar (c : Char) : Bool := c.isAlphanum || c == '_'

def takeWhileC (p : Char → Bool) : List Char → List Char × List Char
  | [] => ([], [])
  | c :: cs => if p c then let (a, b) := takeWhileC p cs; (c :: a, b) else ([], c :: cs)

def digitsToNatE (ds : List Char) : Nat := ds.foldl (fun acc c => acc * 10 + (c.toNat - 48)) 0

def parseSAttr : List Char → SAttr × List Char
  | '^' :: cs => (.clipped, cs)
  | '*' :: cs => (.repAnchor, cs)
  | '?' :: cs => (.option, cs)
  | cs => (.none, cs)

mutual
/-- fuel-bounded recursive descent; `none` = malformed. -/
def parseFactor : Nat → List Char → Option (Factor × List Char)
  | 0, _ => none
  | f+1, cs =>
    match cs with
    | '(' :: r => match parseAlts f r with
        | some (as, ')' :: r') => some (.group as, r')
        | _ => none
    | '[' :: r => match parseAlts f r with
        | some (as, ']' :: r') => some (.opt as, r')
        | _ => none
    | '{' :: r => match parseAlts f r with
        | some (as, '}' :: r') => some (.rep as, r')
        | _ => none
    | c :: r =>
      if c.isDigit then
        let (ds, r') := takeWhileC Char.isDigit (c :: r)
        some (.t (digitsToNatE ds), r')
      else if isNameStart c then
        let (nm, r') := takeWhileC isNameChar (c :: r)
        let (sa, r'') := parseSAttr r'
        some (.n nm sa, r'')
      else none
    | [] => none
def parseAlt : Nat → List Char → Option (List Factor × List Char)
  | 0, _ => none
  | f+1, cs =>
    match cs with
    | [] => some ([], [])
    | c :: r =>
      if c == '|' || c == ')' || c == ']' || c == '}' || c == ';' then some ([], c :: r)
      else match parseFactor f (c :: r) with
        | some (x, ',' :: r') => match parseAlt f r' with
            | some (xs, r'') => if xs.isEmpty then none else some (x :: xs, r'')
            | none => none
        | some (x, r') => some ([x], r')
        | none => none
def parseAlts : Nat → List Char → Option (List (List Factor) × List Char)
  | 0, _ => none
  | f+1, cs =>
    match parseAlt f cs with
    | some (a, '|' :: r) => match parseAlts f r with
        | some (as, r') => some (a :: as, r')
        | none => none
    | some (a, r) => some ([a], r)
    | none => none
end

def parseEProd (s : String) : Option EProd :=
  let cs := s.toList
  let (nm, r) := takeWhileC isNameChar cs
  match nm, r with
  | c :: _, ':' :: r' =>
    if isNameStart c then
      match parseAlts (3 * r'.length + 6) r' with
      | some (as, []) => some ⟨nm, as.map (fun a => ⟨a, .none⟩)⟩
      | _ => none
    else none
  | _, _ => none

def parseEGrammar (s : String) : Option (List EProd) :=
  if s == "-" then some [] else (s.splitOn ";").mapM parseEProd

def parseName (s : String) : Option Name :=
  match s.toList with
  | c :: cs => if isNameStart c && cs.all isNameChar then some (c :: cs) else none
  | [] => none

def showSAttr : SAttr → String
  | .none => "" | .clipped => "^" | .repAnchor => "*" | .option => "?"

def showPAttr : PAttr → String
  | .none => "" | .collStart => "@1" | .addToColl => "@2" | .optSome => "@3" | .optNone => "@4"

def parsePAttrDigit : String → Option PAttr
  | "1" => some .collStart | "2" => some .addToColl | "3" => some .optSome | "4" => some .optNone
  | _ => none

def showSymN : SymN → String
  | .t a => toString a
  | .n A sa => String.ofList A ++ showSAttr sa

def showRuleN (r : RuleN) : String :=
  String.ofList r.lhs ++ ":" ++ ",".intercalate (r.rhs.map showSymN) ++ showPAttr r.attr

def showRulesN (rs : List RuleN) : String :=
  if rs.isEmpty then "-" else ";".intercalate (rs.map showRuleN)

def parseSymN (s : String) : Option SymN :=
  match s.toList with
  | [] => none
  | c :: cs =>
    if c.isDigit then (if cs.all Char.isDigit then some (.t (digitsToNatE (c :: cs))) else none)
    else if isNameStart c then
      let (nm, r) := takeWhileC isNameChar (c :: cs)
      match parseSAttr r with
      | (sa, []) => some (.n nm sa)
      | _ => none
    else none

def parseRuleN (s : String) : Option RuleN :=
  match s.splitOn ":" with
  | [l, r] => do
    let l ← parseName l
    let (body, attr) ← match r.splitOn "@" with
      | [b] => some (b, PAttr.none)
      | [b, k] => (parsePAttrDigit k).map fun a => (b, a)
      | _ => none
    let rhs ← if body == "" then some [] else (body.splitOn ",").mapM parseSymN
    some ⟨l, rhs, attr⟩
  | _ => none

def parseRulesN (s : String) : Option (List RuleN) :=
  if s == "-" then some [] else (s.splitOn ";").mapM parseRuleN

end ParolModel
