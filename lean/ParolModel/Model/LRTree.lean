import ParolModel.Model.LRCheck
import ParolModel.Model.TreeCheck
/-! Derivation trees with attached skipped tokens (C03, tree/action half): the object the LR parser
model `lrRun` is proved to build (Props/C03c.lean). Executable and core-only, so that concrete trees
can be evaluated by `decide`.

A `DTree` is a token leaf (significant or skipped — skipped tokens are kept in the tree as children
that do not count as grammar symbols) or one production application `node p lhs kids`. -/
namespace ParolModel

inductive DTree
  | leaf (t : MTok)
  | node (p lhs : Nat) (kids : List DTree)
  deriving Repr

/-- One production application: production index, its left-hand side, the children in order
    (skipped tokens included). -/
structure ProdApp where
  prod : Nat
  lhs : Nat
  kids : List DTree

namespace DTree

/-- Does the subtree count as a grammar symbol of its parent's right-hand side? -/
def sig : DTree → Bool
  | leaf t => !t.skip
  | node _ _ _ => true

/-- The argument a subtree contributes to its parent's semantic action. -/
def arg : DTree → PTItem
  | leaf t => .tok t.id t.ty
  | node _ lhs _ => .nt lhs

/-- The grammar symbol at the root of a subtree. -/
def sym : DTree → Sym
  | leaf t => .t t.ty
  | node _ lhs _ => .n lhs

/-- The subtree as a child entry in the format `treeCheck` reads. -/
def child : DTree → Child
  | leaf t => .tok t.id
  | node _ lhs _ => .nt lhs

mutual
/-- Pre-order event rendering (what `build_tree` emits for the subtree). -/
def events : DTree → List TreeEv
  | leaf t => [.tok t.id]
  | node _ lhs kids => .open_ (some lhs) :: eventsL kids ++ [.close]
def eventsL : List DTree → List TreeEv
  | [] => []
  | k :: ks => events k ++ eventsL ks
end

mutual
/-- All token leaves, left to right (skipped ones included). -/
def leaves : DTree → List MTok
  | leaf t => [t]
  | node _ _ kids => leavesL kids
def leavesL : List DTree → List MTok
  | [] => []
  | k :: ks => leaves k ++ leavesL ks
end

mutual
/-- The production applications of the tree in POST-ORDER (children before parents, left to right). -/
def nodes : DTree → List ProdApp
  | leaf _ => []
  | node p lhs kids => nodesL kids ++ [⟨p, lhs, kids⟩]
def nodesL : List DTree → List ProdApp
  | [] => []
  | k :: ks => nodes k ++ nodesL ks
end

end DTree

/-- The counting children of a production application, as grammar symbols. -/
def ProdApp.syms (n : ProdApp) : List Sym := (n.kids.filter DTree.sig).map DTree.sym

/-- The semantic-action call of a production application: production index and the counting children
    in order (terminals with token id and type, non-terminals with their left-hand side). -/
def ProdApp.action (n : ProdApp) : Nat × List PTItem := (n.prod, (n.kids.filter DTree.sig).map DTree.arg)

/-- The application uses production `prod` of `gprods`: same left-hand side, and the counting children
    are exactly its right-hand side in order. -/
def ProdApp.ok (gprods : List Rule) (n : ProdApp) : Bool :=
  match gprods[n.prod]? with
  | some r => r.lhs == n.lhs && n.syms == r.rhs
  | none => false

namespace DTree

/-- `d` is a derivation tree for the productions `gprods`: every inner node is one production with
    its right-hand side as counting children in order. -/
def wf (gprods : List Rule) (d : DTree) : Bool := d.nodes.all (ProdApp.ok gprods)

/-- Post-order action trace of the tree. -/
def postActs (d : DTree) : List (Nat × List PTItem) := d.nodes.map ProdApp.action

/-- Significant token types at the leaves: the sentence derived by the tree. -/
def frontier (d : DTree) : List Nat := (sigToks d.leaves).map (·.ty)

end DTree

def tokEvOf (t : MTok) : TreeEv := .tok t.id

/-- Arguments as `treeCheck` reads them from the protocol (`t<id>` / `n<lhs>`). -/
def childOfItem : PTItem → Child
  | .tok id _ => .tok id
  | .nt l => .nt l

def actionsAsChildren (a : List (Nat × List PTItem)) : List (Nat × List Child) :=
  a.map fun x => (x.1, x.2.map childOfItem)

/-- Right-hand-side symbols in the form `treeCheck` takes (same map as in `handleLRTreeCheck`). -/
def lrSymPT : Sym → PT
  | .t a => .t a
  | .n a => .n a

/-- `treeCheck` instantiated as in the handler `lr-tree-check`. -/
def lrTreeCheck (start : Nat) (gprods : List Rule) (toks : List MTok) (acts : List (Nat × List PTItem))
    (tree : List TreeEv) : Option String :=
  treeCheck start (fun p => gprods[p]?.map (·.lhs)) (fun p => gprods[p]?.map (fun r => r.rhs.map lrSymPT))
    toks (actionsAsChildren acts) tree

end ParolModel
