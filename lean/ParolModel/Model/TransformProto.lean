import ParolModel.Model.LeftFactor
import ParolModel.Model.MemberProto
/-! Protocol handlers for C09 (canonicalisation), C10 (left factoring) and the model side of C24
(order independence of left factoring). The oracles (`canon-check`, `lf-check`) decide the
property statements on the implementation's output with the verified recogniser `member`
(`member_iff`); membership in the EBNF grammar is decided through the model's canonical form,
which is language-equivalent by `canon_preserves_lang` (Props/C09). -/
namespace ParolModel

def parseGType : String → Option GType
  | "ll" => some .ll
  | "lr" => some .lr
  | _ => none

def canonFuel (ps : List EProd) : Nat := 4 * grammarSize ps + 10

/-- all strings over `alpha` of length ≤ `n`, shortest first -/
def allStringsT (alpha : List Nat) : Nat → List (List Nat)
  | 0 => [[]]
  | n+1 =>
    let prev := allStringsT alpha n
    prev ++ (prev.filter (fun w => w.length == n)).flatMap fun w => alpha.map fun a => w ++ [a]

def termsN (rs : List RuleN) : List Nat :=
  (rs.flatMap fun r => r.rhs.filterMap fun | .t a => some a | .n _ _ => none).eraseDups

/-- plain grammar over the numbering given by a name table -/
def toGrammarTbl (tbl : List Name) (st : Name) (rs : List RuleN) : Grammar :=
  toGrammar (indexIn tbl) st rs

/-- compares two plain grammars on all strings of length ≤ n over their terminals plus one
    foreign terminal; `none` = equal, `some w` = first difference, `some [..]` with fuel flag -/
def firstLangDiff (tbl : List Name) (st : Name) (g1 g2 : List RuleN) (n : Nat) : Except String (Option (List Nat)) :=
  let ts := (termsN g1 ++ termsN g2).eraseDups
  let foreign := ts.foldl (fun m a => max m (a + 1)) 0
  let G1 := toGrammarTbl tbl st g1
  let G2 := toGrammarTbl tbl st g2
  let rec go : List (List Nat) → Except String (Option (List Nat))
    | [] => .ok none
    | w :: ws =>
      match memberB G1 w, memberB G2 w with
      | some a, some b => if a == b then go ws else .ok (some w)
      | _, _ => .error "member-fuel-exhausted"
  go (allStringsT (ts ++ [foreign]) n)

def showCanonRes : CanonRes → String
  | .ok rs => "ok " ++ showRulesN rs
  | .fuel => "fuel-exhausted"
  | .panic => "panic"
  | .finalizeError => "finalize-error"

/-- The front end (`try_to_convert`, after the `fix:` for finding F23) also rejects a grammar whose
    start symbol has no production, before any transformation. -/
def runCanon (ty : GType) (st : Name) (ps : List EProd) : String :=
  if frontEndRejects ps || !(ps.any (fun p => p.lhs == st)) then "rejected"
  else showCanonRes (canon ty (canonFuel ps) ps)

-- @handler canon handleCanon
/-- `canon <ll|lr> <start> <ebnf>` → `rejected` | `ok <rules>` | `fuel-exhausted` | `panic` |
    `finalize-error` -/
def handleCanon : List String → Option String
  | [ty, st, g] => do
    let ty ← parseGType ty
    let st ← parseName st
    let ps ← parseEGrammar g
    some (runCanon ty st ps)
  | _ => none

/-- a left-hand side of `rs` that is not a left-hand side of the input but a name of it -/
def helperClash (inputLhs inputNames : List Name) (rs : List RuleN) : Option Name :=
  (rs.find? fun r => !inputLhs.contains r.lhs && inputNames.contains r.lhs).map (·.lhs)

-- @handler canon-check handleCanonCheck
/-- `canon-check <ll|lr> <start> <ebnf> <n> <impl reply words…>` → `ok` | `fail <why>`.
    Decides C09 on the implementation's output `B`: same strings of length ≤ n as the EBNF grammar
    (through the model's verified canonical form), and no helper left-hand side is a name of the
    grammar as written (start symbol included). -/
def handleCanonCheck : List String → Option String
  | ty :: st :: g :: n :: reply => do
    let ty ← parseGType ty
    let st ← parseName st
    let ps ← parseEGrammar g
    let n ← n.toNat?
    match reply with
    | ["ok", rs] =>
      let bi ← parseRulesN rs
      match canon ty (canonFuel ps) ps with
      | .ok bm =>
        let tbl := (st :: namesN bm ++ namesN bi).eraseDups
        match helperClash (ps.map (·.lhs)) (st :: variableNames ps) bi with
        | some x => some s!"fail helper-name-clash {String.ofList x}"
        | none =>
          match firstLangDiff tbl st bm bi n with
          | .ok none => some "ok"
          | .ok (some w) => some s!"fail language-differs-on {Proto.showNats w}"
          | .error e => some s!"fail {e}"
      | r => some s!"fail model-not-ok {showCanonRes r}"
    | ["panic"] => some "fail panic"
    | _ => some "ok"
  | _ => none

/-! ## C10 -/

def lfFuel (rs : List RuleN) : Nat :=
  (rs.foldl (fun acc r => acc + r.rhs.length + 1) 0) * (rs.length + 1) + 10

def idOrd : GroupOrd := id

def showLf : Option (List RuleN) → String
  | some rs => "ok " ++ showRulesN rs
  | none => "fuel-exhausted"

-- @handler lf handleLf
/-- `lf <rules>` → `ok <rules>` | `fuel-exhausted` -/
def handleLf : List String → Option String
  | [g] => do
    let rs ← parseRulesN g
    some (showLf (leftFactor idOrd (lfFuel rs) rs))
  | _ => none

-- @handler lf-check handleLfCheck
/-- `lf-check <n> <start> <rules> <impl reply…>` → `ok` | `fail <why>`: same strings of length ≤ n
    from `start`, no two non-empty alternatives of a non-terminal with the same first symbol, no
    new left-hand side that is a name of the input. -/
def handleLfCheck : List String → Option String
  | n :: st :: g :: reply => do
    let n ← n.toNat?
    let st ← parseName st
    let rs ← parseRulesN g
    match reply with
    | ["ok", out] =>
      let bi ← parseRulesN out
      let tbl := (st :: namesN rs ++ namesN bi).eraseDups
      match firstClash bi with
      | some (a, s) => some s!"fail common-first-symbol {String.ofList a} {showSymN s}"
      | none =>
        match helperClash (rs.map (·.lhs)) (st :: namesN rs) bi with
        | some x => some s!"fail helper-name-clash {String.ofList x}"
        | none =>
          match firstLangDiff tbl st rs bi n with
          | .ok none => some "ok"
          | .ok (some w) => some s!"fail language-differs-on {Proto.showNats w}"
          | .error e => some s!"fail {e}"
    | _ => some "fail no-result"
  | _ => none

/-! ## C24, model side: the result under several drain orders of `group_by` -/

def rotate {α} (k : Nat) (l : List α) : List α := l.drop (k % (l.length + 1)) ++ l.take (k % (l.length + 1))

def sampleOrds : List GroupOrd := [id, List.reverse, rotate 1, rotate 2, fun l => (rotate 1 l).reverse]

-- @handler lf-orders handleLfOrders
/-- `lf-orders <rules>` → `same <rules>` if every sampled drain order gives the same result,
    `differ` otherwise. -/
def handleLfOrders : List String → Option String
  | [g] => do
    let rs ← parseRulesN g
    let res := sampleOrds.map fun o => showLf (leftFactor o (lfFuel rs) rs)
    match res with
    | r :: more => if more.all (· == r) then some ("same " ++ r) else some "differ"
    | [] => none
  | _ => none

-- @handler find-prefix handleFindPrefix
/-- `find-prefix <rules>` (right-hand sides are the candidates) → the prefix as one rule body -/
def handleFindPrefix : List String → Option String
  | [g] => do
    let rs ← parseRulesN g
    some (showRuleN ⟨"P".toList, findPrefix (rs.map (·.rhs)), .none⟩)
  | _ => none

end ParolModel
