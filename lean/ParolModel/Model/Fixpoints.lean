import ParolModel.Spec.Cfg
import ParolModel.Model.CfgProto
/-! # L6 — the four fixpoint computations behind parol's grammar well-formedness checks (C11)

Executable mirrors of

* `Cfg::calculate_nullable_non_terminals`      (crates/parol/src/grammar/cfg.rs)
* `non_productive_non_terminals`               (analysis/productivity.rs)
* `reachable_non_terminals`, `unreachable_non_terminals` (analysis/reachability.rs)
* `detect_left_recursive_non_terminals`        (analysis/left_recursion.rs)
* `check_and_transform_grammar_with_ignored`   (generators/grammar_trans.rs; order and payload of the
  three errors — the transformations behind the `Ok` branch belong to C10/C12)

Non-terminals are numbers; the harness names number `i` `N<ii>`, so the alphabetical order of the
code's `BTreeSet<String>`/`BTreeMap<String, _>` is the numeric order here.

*Sets.* A `HashSet`/`BTreeSet` that the code only inserts into and asks `contains`/`len` of is a
duplicate-free list in insertion order (`ins`); its `len()` is the list length. Wherever the code
hands a set out (or iterates a `BTreeSet`/`BTreeMap`), the model produces the numerically sorted
list. Loops of the form "sweep; repeat while something was inserted" compare lengths before and
after the sweep (`iterG`): an insert returns `true` exactly when it makes the set longer, so the
`changed` flags of `left_recursion.rs` and the size comparisons of `cfg.rs`/`reachability.rs` are
the same test. Every loop takes fuel; `none` means "fuel exhausted" (reported by the driver, never
defaulted). `Proofs/Fixpoints.lean` shows that the fuel handed out below always suffices. -/
namespace ParolModel

/-! ## Generic set machinery -/

/-- `HashSet::insert` / `BTreeSet::insert` on the insertion-ordered representation. -/
def ins {α : Type} [DecidableEq α] (a : α) (S : List α) : List α :=
  if a ∈ S then S else S ++ [a]

/-- `extend` / a run of inserts. -/
def insAll {α : Type} [DecidableEq α] : List α → List α → List α
  | [], S => S
  | a :: as, S => insAll as (ins a S)

/-- One in-place (Gauss–Seidel) sweep over `items`: item `x` inserts `cand x S` where `S` is the
    set as it is when `x` is visited. -/
def sweepG {α β : Type} [DecidableEq α] (cand : β → List α → List α) : List β → List α → List α
  | [], S => S
  | x :: xs, S => sweepG cand xs (insAll (cand x S) S)

/-- `loop { sweep; if nothing was inserted { break } }`. -/
def iterG {α : Type} (sweep : List α → List α) : Nat → List α → Option (List α)
  | 0, _ => none
  | fuel + 1, S =>
    let S' := sweep S
    if S.length < S'.length then iterG sweep fuel S' else some S'

/-- `BTreeSet<String>::insert`: sorted, duplicate-free. -/
def sinsert (a : Nat) : List Nat → List Nat
  | [] => [a]
  | b :: l => if a < b then a :: b :: l else if a = b then b :: l else b :: sinsert a l

/-- Collecting an unordered set into a `BTreeSet`. -/
def sortSet : List Nat → List Nat
  | [] => []
  | a :: l => sinsert a (sortSet l)

/-! ## Grammar accessors -/

/-- Non-terminals of a right-hand side, left to right. -/
def rhsNts : List Sym → List Nat
  | [] => []
  | .t _ :: r => rhsNts r
  | .n a :: r => a :: rhsNts r

/-- All occurrences of non-terminals in the production list, in textual order. -/
def occNts : List Rule → List Nat
  | [] => []
  | p :: ps => p.lhs :: (rhsNts p.rhs ++ occNts ps)

/-- `Cfg::get_non_terminal_set`: start symbol, left-hand sides and right-hand-side non-terminals,
    as a `BTreeSet` (sorted, duplicate-free). -/
def nts (G : Grammar) : List Nat := sortSet (G.start :: occNts G.prods)

/-- `Cfg::matching_productions`. -/
def matching (G : Grammar) (A : Nat) : List Rule := G.prods.filter (fun p => p.lhs = A)

/-- `get_start_symbol_position().is_some()`: the start symbol has a production. -/
def startHasProd (G : Grammar) : Bool := G.prods.any (fun p => p.lhs = G.start)

/-- Tail of `Cfg::get_non_terminal_ordering` (names only): every occurrence of a non-terminal in
    textual order — the code de-duplicates on (name, position) pairs, and the only pair met twice
    is the left-hand side of the start symbol's first production, which heads the list. -/
def orderingAux (st : Nat) : List Rule → Bool → List Nat
  | [], _ => []
  | p :: ps, seen =>
    (if !seen && p.lhs = st then [] else [p.lhs]) ++ rhsNts p.rhs
      ++ orderingAux st ps (seen || p.lhs = st)

/-- `get_non_terminal_ordering().map(|(n, _)| n)`; the code panics (`expect`) when the start symbol
    has no production — see `nullableCode`. -/
def ntOrdering (G : Grammar) : List Nat := G.start :: orderingAux G.start G.prods false

/-! ## Nullable non-terminals (`calculate_nullable_non_terminals`) -/

/-- `is_already_nullable`. -/
def symNullableIn (N : List Nat) : Sym → Bool
  | .n a => decide (a ∈ N)
  | .t _ => false

/-- `has_nullable_alt`. -/
def hasNullableAlt (G : Grammar) (N : List Nat) (v : Nat) : Bool :=
  (matching G v).any (fun p => p.rhs.all (symNullableIn N))

/-- `initial_nullables`: the variables with an empty production. -/
def initialNullables (G : Grammar) (vars : List Nat) : List Nat :=
  insAll (vars.filter (fun v => (matching G v).any (fun p => p.rhs.isEmpty))) []

/-- One call of `collect_nullables` (the set is updated in place while `vars` is traversed). -/
def nullableSweep (G : Grammar) (vars : List Nat) (N : List Nat) : List Nat :=
  sweepG (fun v N => if hasNullableAlt G N v then [v] else []) vars N

/-- `while collect_nullables(…) {}` followed by the move into a `BTreeSet`. -/
def nullableCore (G : Grammar) (fuel : Nat) : Option (List Nat) :=
  (iterG (nullableSweep G (ntOrdering G)) fuel (initialNullables G (ntOrdering G))).map sortSet

/-- Fuel that always suffices (`nullableCore_isSome`): one sweep per non-terminal plus one. -/
def nullableFuel (G : Grammar) : Nat := (nts G).length + 1

def nullableSet (G : Grammar) : Option (List Nat) := nullableCore G (nullableFuel G)

/-- Outcome of a call that may panic. -/
inductive Outcome (α : Type) where
  | ok (a : α)
  | panic
  | fuel
  deriving DecidableEq, Repr

def Outcome.ofOption {α : Type} : Option α → Outcome α
  | some a => .ok a
  | none => .fuel

/-- `calculate_nullable_non_terminals` as callable from outside: `get_non_terminal_ordering`
    panics on a grammar whose start symbol has no production. -/
def nullableCode (G : Grammar) : Outcome (List Nat) :=
  if startHasProd G then .ofOption (nullableSet G) else .panic

/-! ## Productive non-terminals (`non_productive_non_terminals`) -/

/-- `result_vector[non_terminal_index(nt)]`: position of the first equal name, then indexing. -/
def lookupB : List Nat → List Bool → Nat → Bool
  | n :: ns, b :: bs, a => if n = a then b else lookupB ns bs a
  | _, _, _ => false

def isTerm : Sym → Bool
  | .t _ => true
  | .n _ => false

/-- `combine_production_equation`, evaluated: no alternative → `false`; an alternative consisting
    of terminals only (the empty one included) → `true`; otherwise the disjunction over the
    alternatives of the conjunction over their non-terminals (the short-cut combinators are pure,
    so they are `any`/`all`). -/
def prodEq (G : Grammar) (ntl : List Nat) (rv : List Bool) (A : Nat) : Bool :=
  let ms := matching G A
  if ms.isEmpty then false
  else if ms.any (fun p => p.rhs.all isTerm) then true
  else ms.any (fun p => (rhsNts p.rhs).all (lookupB ntl rv))

/-- `step_function`: all equations are evaluated on the *old* vector (Jacobi). -/
def prodStep (G : Grammar) (ntl : List Nat) (rv : List Bool) : List Bool :=
  ntl.map (prodEq G ntl rv)

/-- `loop { new = step(old); if new == old { break }; old = new }`. -/
def prodIter (G : Grammar) (ntl : List Nat) : Nat → List Bool → Option (List Bool)
  | 0, _ => none
  | fuel + 1, rv =>
    let rv' := prodStep G ntl rv
    if rv' = rv then some rv else prodIter G ntl fuel rv'

/-- The final fold: names whose entry is `false`. -/
def falseNames : List Nat → List Bool → List Nat
  | n :: ns, b :: bs => if b then falseNames ns bs else n :: falseNames ns bs
  | _, _ => []

def nonProductiveCore (G : Grammar) (fuel : Nat) : Option (List Nat) :=
  (prodIter G (nts G) fuel ((nts G).map (fun _ => false))).map (falseNames (nts G))

def nonProductiveFuel (G : Grammar) : Nat := (nts G).length + 1

def nonProductiveSet (G : Grammar) : Option (List Nat) := nonProductiveCore G (nonProductiveFuel G)

/-! ## Reachable non-terminals (`reachable_non_terminals`, `unreachable_non_terminals`) -/

/-- `insert_reachable`: one pass over the productions, set updated in place. -/
def reachSweep (G : Grammar) (R : List Nat) : List Nat :=
  sweepG (fun (p : Rule) R => if p.lhs ∈ R then rhsNts p.rhs else []) G.prods R

/-- `while current_size < reachable.len() { current_size = reachable.len(); reachable = sweep }`
    starting from `{start}` with `current_size = 0`. -/
def reachableCore (G : Grammar) (fuel : Nat) : Option (List Nat) :=
  iterG (reachSweep G) fuel [G.start]

def reachFuel (G : Grammar) : Nat := (nts G).length + 1

def reachableSet (G : Grammar) : Option (List Nat) := (reachableCore G (reachFuel G)).map sortSet

/-- `get_non_terminal_set().difference(&reachable)`. -/
def unreachableSet (G : Grammar) : Option (List Nat) :=
  (reachableCore G (reachFuel G)).map (fun R => (nts G).filter (fun a => a ∉ R))

/-! ## Left-recursive non-terminals (`detect_left_recursive_non_terminals`)

`can_start_with : BTreeMap<String, HashSet<String>>` is the set of pairs `(key, element)`. -/

/-- The inner `for s in &p.1` loop: insert `(lhs, n)` for the leading non-terminals, going on past
    a non-terminal only if it is nullable, stopping at the first terminal. -/
def startsOf (N : List Nat) (lhs : Nat) : List Sym → List (Nat × Nat)
  | [] => []
  | .t _ :: _ => []
  | .n a :: r => (lhs, a) :: (if a ∈ N then startsOf N lhs r else [])

def startSweep (G : Grammar) (N : List Nat) (S : List (Nat × Nat)) : List (Nat × Nat) :=
  sweepG (fun (p : Rule) _ => startsOf N p.lhs p.rhs) G.prods S

/-- `can_start_with.get(a)`. -/
def row (S : List (Nat × Nat)) (a : Nat) : List Nat := (S.filter (fun x => x.1 = a)).map (·.2)

/-- Closure pass: for every key `nt` (in key order) and every `e` in a snapshot of its row, the
    current row of `e` is added to the row of `nt`. (For `e = nt` the code reads the row while it
    is growing; adding a row to itself changes nothing, so the snapshot describes it too. The order
    in which the `HashSet` snapshot is traversed does not influence the resulting set.) -/
def closeSweep (keys : List Nat) (S : List (Nat × Nat)) : List (Nat × Nat) :=
  sweepG (fun nt S => (row S nt).flatMap (fun e => (row S e).map (fun c => (nt, c)))) keys S

/-- Both loops only ever hold pairs of non-terminals of the grammar, so `|N|² + 1` sweeps suffice
    (`leftRecSet_isSome`). -/
def closeFuel (G : Grammar) : Nat := (nts G).length * (nts G).length + 1
def startFuel (G : Grammar) : Nat := closeFuel G

def leftRecCoreWith (G : Grammar) (N : List Nat) : Option (List Nat) := do
  let S1 ← iterG (startSweep G N) (startFuel G) []
  let S2 ← iterG (closeSweep (nts G)) (closeFuel G) S1
  some ((nts G).filter (fun k => (k, k) ∈ S2))

def leftRecSet (G : Grammar) : Option (List Nat) := do
  let N ← nullableSet G
  leftRecCoreWith G N

/-- `detect_left_recursive_non_terminals` as callable from outside (inherits the panic of
    `calculate_nullable_non_terminals`). -/
def leftRecCode (G : Grammar) : Outcome (List Nat) :=
  if startHasProd G then .ofOption (leftRecSet G) else .panic

/-! ## `check_and_transform_grammar_with_ignored`: order and payload of the errors -/

inductive CheckRes where
  | nonProductive (names : List Nat)
  | unreachable (names : List Nat)
  | leftRecursion (names : List Nat)
  | passed
  deriving DecidableEq, Repr

/-- `ll = true`: `GrammarType::LLK`, else `LALR1`. `ignored`: `unreachable_to_ignore`. -/
def checkGrammar (G : Grammar) (ll : Bool) (ignored : List Nat) : Outcome CheckRes :=
  match nonProductiveSet G with
  | none => .fuel
  | some np =>
    if !np.isEmpty then .ok (.nonProductive np) else
    match unreachableSet G with
    | none => .fuel
    | some ur =>
      let ur' := ur.filter (fun a => a ∉ ignored)
      if !ur'.isEmpty then .ok (.unreachable ur') else
      if ll then
        match leftRecCode G with
        | .ok lr => if !lr.isEmpty then .ok (.leftRecursion lr) else .ok .passed
        | .panic => .panic
        | .fuel => .fuel
      else .ok .passed

/-! ## Protocol -/

def showOutcomeSet : Outcome (List Nat) → String
  | .ok l => Proto.showNats l
  | .panic => "panic"
  | .fuel => "fuel-exhausted"

def showCheck : Outcome CheckRes → String
  | .ok (.nonProductive l) => "np:" ++ Proto.showNats l
  | .ok (.unreachable l) => "ur:" ++ Proto.showNats l
  | .ok (.leftRecursion l) => "lr:" ++ Proto.showNats l
  | .ok .passed => "ok"
  | .panic => "panic"
  | .fuel => "fuel-exhausted"

def wfReply (G : Grammar) (ign : List Nat) : List String :=
  [ showOutcomeSet (nullableCode G),
    showOutcomeSet (.ofOption (nonProductiveSet G)),
    showOutcomeSet (.ofOption (unreachableSet G)),
    showOutcomeSet (leftRecCode G),
    showCheck (checkGrammar G true ign),
    showCheck (checkGrammar G false ign) ]

-- @handler wf handleWf
/-- `wf <ignored> <start> <prods>` → six words, see harness/src/c11.rs. -/
def handleWf : List String → Option String
  | [ign, st, ps] => do
    let G ← parseGrammar st ps
    let ign ← Proto.parseNats ign
    some (" ".intercalate (wfReply G ign))
  | _ => none

-- @handler wf-check handleWfCheck
/-- Property oracle for C11: `wf-check <ignored> <start> <prods> <six words of the implementation>`.
    The four sets must be the ones computed by the verified functions (`nullable_eq`,
    `productive_eq`, `reachable_eq`, `leftRec_eq` in Props/C11), and the two check verdicts must be
    what `check_rejects_iff`/`check_error_names` prescribe for those sets. On a grammar whose start
    symbol has no production the two functions that go through `get_non_terminal_ordering` give no
    set at all (`panic`); that reply is accepted here for exactly those grammars and counted
    separately by checks/c11.py. -/
def handleWfCheck : List String → Option String
  | [ign, st, ps, nu, np, ur, lr, cll, clr] => do
    let G ← parseGrammar st ps
    let ign ← Proto.parseNats ign
    let npS ← nonProductiveSet G
    let urS ← unreachableSet G
    let nuS ← nullableSet G
    let lrS ← leftRecSet G
    let has := startHasProd G
    let expSet (s : List Nat) : String := if has then Proto.showNats s else "panic"
    let urS' := urS.filter (fun a => a ∉ ign)
    let verdict (ll : Bool) : String :=
      if !npS.isEmpty then "np:" ++ Proto.showNats npS
      else if !urS'.isEmpty then "ur:" ++ Proto.showNats urS'
      else if ll && !lrS.isEmpty then "lr:" ++ Proto.showNats lrS
      else "ok"
    if nu ≠ expSet nuS then some s!"fail nullable expected={expSet nuS}"
    else if np ≠ Proto.showNats npS then some s!"fail nonproductive expected={Proto.showNats npS}"
    else if ur ≠ Proto.showNats urS then some s!"fail unreachable expected={Proto.showNats urS}"
    else if lr ≠ expSet lrS then some s!"fail leftrec expected={expSet lrS}"
    else if cll ≠ verdict true then some s!"fail check-ll expected={verdict true}"
    else if clr ≠ verdict false then some s!"fail check-lr expected={verdict false}"
    else some "ok"
  | _ => none

end ParolModel
