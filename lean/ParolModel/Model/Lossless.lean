import ParolModel.Model.TreeCheck
/-! Executable losslessness statement for delivered token sequences (C14) and the comment-trace
statement (C17), evaluated on the REAL runtime's output. -/
namespace ParolModel

/-- A located token as the harness reports it: byte offsets, 1-based line and column (in characters)
    of its first character. -/
structure LocTok where
  start : Nat
  stop : Nat
  line : Nat
  col : Nat
  deriving Repr

/-- Line/column of byte offset `off` in a UTF-8 text (scnr2's convention: a line ends at `\n`
    only; columns count characters from 1). `bytes` is the text. -/
def lineColAt (bytes : List Nat) (off : Nat) : Nat × Nat :=
  let pre := bytes.take off
  let line := 1 + (pre.filter (· == 10)).length
  let lastLine := (pre.reverse.takeWhile (· != 10))
  -- characters = bytes that are not UTF-8 continuation bytes (10xxxxxx)
  let chars := (lastLine.filter (fun b => b / 64 != 2)).length
  (line, chars + 1)

/-- The decidable losslessness statement for a delivered token sequence. -/
def tokensContiguous (bytes : List Nat) (toks : List LocTok) : Bool :=
  let rec go (pos : Nat) : List LocTok → Bool
    | [] => pos == bytes.length
    | t :: rest => t.start == pos && t.start ≤ t.stop && lineColAt bytes t.start == (t.line, t.col) && go t.stop rest
  go 0 toks

def firstBadTok (bytes : List Nat) : Nat → Nat → List LocTok → Option String
  | pos, _, [] => if pos == bytes.length then none else some s!"tokens-end-at-{pos}-but-input-has-{bytes.length}-bytes"
  | pos, i, t :: rest =>
    if t.start != pos then some s!"token-{i}-starts-at-{t.start}-expected-{pos}"
    else if t.stop < t.start then some s!"token-{i}-has-negative-length"
    else if lineColAt bytes t.start != (t.line, t.col) then
      some s!"token-{i}-line-col-{t.line}:{t.col}-expected-{(lineColAt bytes t.start).1}:{(lineColAt bytes t.start).2}"
    else firstBadTok bytes t.stop (i + 1) rest

def parseHexBytes (s : String) : Option (List Nat) :=
  if s == "-" then some [] else
  let cs := s.toList
  let rec go : List Char → Option (List Nat)
    | [] => some []
    | a :: b :: rest => do
      let x ← hexVal a; let y ← hexVal b
      let r ← go rest
      some ((x * 16 + y) :: r)
    | _ => none
  go cs
where
  hexVal (c : Char) : Option Nat :=
    if '0' ≤ c && c ≤ '9' then some (c.toNat - '0'.toNat)
    else if 'a' ≤ c && c ≤ 'f' then some (c.toNat - 'a'.toNat + 10)
    else none

-- @handler tokens-lossless handleTokensLossless
/-- `tokens-lossless <texthex> <type:start:stop:line:col,…|->` → `ok` iff `tokensContiguous`. -/
def handleTokensLossless : List String → Option String
  | [hex, toks] => do
    let bytes ← parseHexBytes hex
    let toks ← if toks == "-" then some [] else (toks.splitOn ",").mapM (fun x =>
      match x.splitOn ":" with
      | [_ty, a, b, c, d] => do
        let a ← a.toNat?; let b ← b.toNat?; let c ← c.toNat?; let d ← d.toNat?
        some (⟨a, b, c, d⟩ : LocTok)
      | _ => none)
    match firstBadTok bytes 0 0 toks with
    | none => if tokensContiguous bytes toks then some "ok" else some "fail not-contiguous"
    | some why => some s!"fail {why}"
  | _ => none

-- @handler toks14 handleToks14
/-- Token-stream cases have no parser-level model (the scanner model is C13's): the differential
    comparison is skipped for them, only the property oracle judges the real output. -/
def handleToks14 : List String → Option String
  | _ => some "no-model"

-- @handler comments-check handleCommentsCheck
/-- `comments-check <tokens> <comment-ids>`: the comment callback trace must be exactly the ids of the
    comment tokens (flag 2) of the delivered sequence, in order, each once. -/
def handleCommentsCheck : List String → Option String
  | [toks, cm] => do
    let toks ← parseToks toks
    let cm ← Proto.parseNats cm
    let expected := (toks.filter (·.comment)).map (·.id)
    if cm == expected then some "ok" else some s!"fail comment-trace-{Proto.showNats cm}-expected-{Proto.showNats expected}"
  | _ => none

end ParolModel
