import ParolModel.Model.TransformProto
import ParolModel.Model.Pipeline
import ParolModel.Model.Fixpoints
import ParolModel.Model.LLOracle
import ParolModel.Model.LLTermCheck
/-! # parol's LL(k) path as ONE function, from the EBNF grammar as written to the parser tables (C01d)

`parolLL E st K fuel` composes the EXISTING models in the order in which parol composes the real
functions for a grammar of type LL(k):

1. `GrammarConfig::try_from(ParolGrammar)` (`parser/parol_grammar.rs`, `generators/grammar_config.rs`,
   reached through `obtain_grammar_config`): the front end refuses empty brackets, two aliases of
   one terminal and a start symbol without production (`frontEndRejects`, as `runCanon` of
   Model/TransformProto.lean), then `transform_productions(productions, LLK)` = `canon .ll`
   (Model/Canon.lean) gives the plain productions of the `Cfg`;
2. `check_and_transform_grammar_with_ignored(cfg, LLK, {})` (`generators/grammar_trans.rs`):
   `non_productive_non_terminals`, `unreachable_non_terminals`, `detect_left_recursive_non_terminals`
   in this order, the first non-empty set is the error = `checkGrammar · true []`
   (Model/Fixpoints.lean) on the grammar numbered as below; then `left_factor(cfg)` = `leftFactor`
   (Model/LeftFactor.lean; the drain order of `group_by`'s hash map is irrelevant:
   `leftFactor_group_order_indep`, Props/C24.lean — the identity is used here).
   **There is no second check after left factoring in the code**, so there is none here.
3. `GrammarConfig::update_cfg`, `calculate_lookahead_dfas(grammar_config, K)` and
   `generate_parser_export_model` = `genTables` (Model/Pipeline.lean) on the left-factored grammar
   in parol's numbering (`numberG`):
   * non-terminals: position in `Cfg::get_non_terminal_set()` — a `BTreeSet<String>` of the start
     symbol, the left-hand sides and the right-hand-side non-terminals, i.e. the distinct names in
     ascending `String` order (byte-wise = code-point-wise lexicographic): `ntNames`;
   * terminals: `FIRST_USER_TOKEN (5) +` position in `Cfg::get_ordered_terminals()` — the distinct
     terminals in order of first occurrence in the productions: `termOrder`. (In the EBNF model a
     terminal is one natural number standing for text, kind, lookahead …; the tie renders terminal
     `n` as the string literal `"t<n>"`.)
   * `is_push_production` of a generated production = its `ProductionAttribute` is
     `AddToCollection` (`generators/parser_model.rs`): `applyPush`.

Errors carry the stage: `rejected` (front end), `finalize` (`Expected one alternation per
production`), `check r` (the verdict of the three checks), `gen e` (lookahead calculation), `panic`
(a path on which the Rust code would panic), `fuel` (model only). -/
namespace ParolModel
open KS

/-! ## numbering of names and terminals -/

/-- `String::cmp` on names: lexicographic by code point (= byte-wise on the UTF-8 encoding) -/
def nameLt : Name → Name → Bool
  | [], [] => false
  | [], _ :: _ => true
  | _ :: _, [] => false
  | a :: as, b :: bs => a.toNat < b.toNat || (a == b && nameLt as bs)

def insertName (x : Name) : List Name → List Name
  | [] => [x]
  | y :: ys => if nameLt y x then y :: insertName x ys else x :: y :: ys

/-- insertion sort by `nameLt` (a permutation, whatever `nameLt` is) -/
def sortNames (l : List Name) : List Name := l.foldr insertName []

/-- distinct elements in order of first occurrence -/
def fbDedup {α} [DecidableEq α] : List α → List α
  | [] => []
  | a :: l => a :: (fbDedup l).filter (fun b => b ≠ a)

/-- `Cfg::get_non_terminal_set()` as a sorted vector: the table of non-terminal names -/
def ntNames (B : List RuleN) (st : Name) : List Name := sortNames (fbDedup (st :: namesN B))

/-- terminal occurrences in textual order -/
def termOccsN (B : List RuleN) : List Nat :=
  B.flatMap fun r => r.rhs.filterMap fun | .t a => some a | .n _ _ => none

/-- `Cfg::get_ordered_terminals()`: distinct terminals in order of first occurrence -/
def termOrder (B : List RuleN) : List Nat := fbDedup (termOccsN B)

/-- the terminal index parol assigns: `FIRST_USER_TOKEN + position` -/
def termNum (tt : List Nat) (a : Nat) : Nat := 5 + tt.idxOf a

def Sym.mapT (τ : Nat → Nat) : Sym → Sym
  | .t a => .t (τ a)
  | .n A => .n A

/-- the grammar with every terminal `a` replaced by `τ a` -/
def mapTerms (τ : Nat → Nat) (G : Grammar) : Grammar :=
  ⟨G.start, G.prods.map fun p => ⟨p.lhs, p.rhs.map (Sym.mapT τ)⟩⟩

/-- **parol's numbering** of a plain grammar with names: non-terminal = position in the sorted
    name table, terminal = 5 + position in order of first occurrence. -/
def numberG (B : List RuleN) (st : Name) : Grammar :=
  mapTerms (termNum (termOrder B)) (toGrammar (indexIn (ntNames B st)) st B)

/-! ## `is_push_production` -/

def applyPush : List LLProd → List Bool → List LLProd
  | p :: ps, b :: bs => { p with push := b } :: applyPush ps bs
  | ps, _ => ps

def pushFlags (B : List RuleN) : List Bool := B.map fun r => decide (r.attr = .addToColl)

def withPush (T : LLTables) (B : List RuleN) : LLTables :=
  ⟨T.start, applyPush T.prods (pushFlags B), T.dfas⟩

/-! ## the pipeline -/

inductive FbErr
  | rejected
  | finalize
  | check (r : CheckRes)
  | gen (e : GenErr)
  | panic
  | fuel
  deriving DecidableEq, Repr

/-- the plain productions `obtain_grammar_config` puts into the `Cfg` -/
def fbFront (E : List EProd) (st : Name) (fuel : Nat) : Except FbErr (List RuleN) :=
  if frontEndRejects E || !(E.any (fun p => p.lhs == st)) then .error .rejected else
  match canon .ll fuel E with
  | .ok B => .ok B
  | .fuel => .error .fuel
  | .panic => .error .panic
  | .finalizeError => .error .finalize

/-- `check_and_transform_grammar(cfg, LLK)` -/
def fbTransform (B0 : List RuleN) (st : Name) (fuel : Nat) : Except FbErr (List RuleN) :=
  match checkGrammar (numberG B0 st) true [] with
  | .fuel => .error .fuel
  | .panic => .error .panic
  | .ok .passed =>
    match leftFactor id fuel B0 with
    | none => .error .fuel
    | some B1 => .ok B1
  | .ok r => .error (.check r)

/-- `calculate_lookahead_dfas` + `generate_parser_export_model` on the transformed `Cfg` -/
def fbGenerate (B1 : List RuleN) (st : Name) (K fuel : Nat) : Except FbErr LLTables :=
  match genTables (numberG B1 st) K fuel with
  | .ok T => .ok (withPush T B1)
  | .error e => .error (.gen e)

/-- **The whole LL(k) path of parol**: EBNF productions as written (with start symbol `st`),
    lookahead limit `K` → parser tables. -/
def parolLL (E : List EProd) (st : Name) (K fuel : Nat) : Except FbErr LLTables :=
  match fbFront E st fuel with
  | .error e => .error e
  | .ok B0 =>
    match fbTransform B0 st fuel with
    | .error e => .error e
    | .ok B1 => fbGenerate B1 st K fuel

/-- the left-factored plain productions on the way (what `update_cfg` stores) -/
def parolLLGrammar (E : List EProd) (st : Name) (fuel : Nat) : Except FbErr (List RuleN) :=
  match fbFront E st fuel with
  | .error e => .error e
  | .ok B0 => fbTransform B0 st fuel

/-- the terminal numbering of the generated parser: `E`'s terminal `a` is token type
    `parolTermNum E st fuel a` -/
def parolTermNum (E : List EProd) (st : Name) (fuel : Nat) (a : Nat) : Nat :=
  match parolLLGrammar E st fuel with
  | .ok B1 => termNum (termOrder B1) a
  | .error _ => 0

/-- The one hypothesis of the end-to-end theorem that the code does not establish by a check of its
    own: the LEFT-FACTORED grammar (still) passes the three grammar checks. Decidable. -/
def finalCheckB (E : List EProd) (st : Name) (fuel : Nat) : Bool :=
  match parolLLGrammar E st fuel with
  | .ok B1 => decide (checkGrammar (numberG B1 st) true [] = .ok .passed)
  | .error _ => false

/-! ## protocol -/

def showNamesOf (tbl : List Name) (l : List Nat) : String :=
  ",".intercalate (l.map fun i => String.ofList (tbl.getD i "?".toList))

def showFbErr (tbl : List Name) : FbErr → String
  | .rejected => "err rejected"
  | .finalize => "err finalize"
  | .check (.nonProductive l) => "err np:" ++ showNamesOf tbl l
  | .check (.unreachable l) => "err ur:" ++ showNamesOf tbl l
  | .check (.leftRecursion l) => "err lr:" ++ showNamesOf tbl l
  | .check .passed => "panic"
  | .gen e => showGenErr e
  | .panic => "panic"
  | .fuel => "fuel-exhausted"

/-- the name table the check errors refer to (that of the canonicalised, not yet left-factored
    grammar) -/
def fbCheckTable (E : List EProd) (st : Name) (fuel : Nat) : List Name :=
  match fbFront E st fuel with
  | .ok B0 => ntNames B0 st
  | .error _ => []

-- @handler parol-ll handleParolLL
/-- `parol-ll <start> <ebnf> <K>` → `<start> <prods> <dfas>` (the generated tables in the encoding
    of `gen-tables`) | `err <kind>[:<names>]` | `panic` | `fuel-exhausted` -/
def handleParolLL : List String → Option String
  | [st, g, maxk] => do
    let st ← parseName st
    let ps ← parseEGrammar g
    let maxk ← maxk.toNat?
    if maxk > 10 then none else
    match parolLL ps st maxk driverFuel with
    | .ok T => some (showLLTables T)
    | .error e => some (showFbErr (fbCheckTable ps st driverFuel) e)
  | _ => none

-- @handler parol-ll-grammar handleParolLLGrammar
/-- `parol-ll-grammar <start> <ebnf>` → `ok <rules> <names> <terminals>`: the transformed plain
    productions with the two numbering tables | the error as `parol-ll` prints it -/
def handleParolLLGrammar : List String → Option String
  | [st, g] => do
    let st ← parseName st
    let ps ← parseEGrammar g
    match parolLLGrammar ps st driverFuel with
    | .ok B1 =>
      some s!"ok {showRulesN B1} {",".intercalate ((ntNames B1 st).map String.ofList)} {Proto.showNats (termOrder B1)}"
    | .error e => some (showFbErr (fbCheckTable ps st driverFuel) e)
  | _ => none

/-- first word on which the parser tables `T` (tokens numbered by `τ`) and the plain grammar `G`
    (the model's canonical form of the EBNF grammar, language-equivalent by `canon_preserves_lang`)
    disagree -/
def fbFirstDiff (T : LLTables) (τ : Nat → Nat) (G : Grammar) :
    List (List Nat) → Except String (Option (List Nat))
  | [] => .ok none
  | w :: ws =>
    let toks : List MTok := (w.map τ).zipIdx.map fun (t, i) => ⟨t, false, false, i⟩
    match (llRun T ⟨false, false, none⟩ (llFuelBound T w.length + 10) toks).res, memberB G w with
    | .fuel, _ => .error "parser-fuel-exhausted"
    | .internal, _ => .error "parser-internal-error"
    | r, some b => if (r == .ok) == b then fbFirstDiff T τ G ws else .ok (some w)
    | _, none => .error "member-fuel-exhausted"

-- @handler parol-ll-check handleParolLLCheck
/-- `parol-ll-check <n> <start> <ebnf> <K> <impl reply…>` → `ok` | `fail <why>`: the statement of
    `parol_ll_end_to_end` decided on the tables the REAL pipeline produced. For a table reply:
    the model pipeline succeeds too, its decidable hypothesis `finalCheckB` holds (the left-factored
    grammar still passes the grammar checks), the real tables pass `tablesSoundB`, `tablesInRangeB`
    and the termination certificate `noLeftRecB`, and for every word `w` of length ≤ n over the
    grammar's terminals plus one foreign terminal the model of `LLKParser::parse_into` on the real
    tables accepts the token types `w.map parolTermNum` iff `w` is a sentence of the EBNF grammar as
    written (verified recogniser `member` on the model's canonical form, `canon_preserves_lang`).
    Error replies: `ok` (the theorem claims nothing), `panic`: `fail`. -/
def handleParolLLCheck : List String → Option String
  | n :: st :: g :: maxk :: reply => do
    let n ← n.toNat?
    let st ← parseName st
    let ps ← parseEGrammar g
    let maxk ← maxk.toNat?
    match reply with
    | [rst, rps, rds] => do
      let rst ← rst.toNat?
      let rps ← parseLLProds rps
      let rds ← parseDfas rds
      let T : LLTables := ⟨rst, rps, rds⟩
      match parolLL ps st maxk driverFuel, canon .ll driverFuel ps, parolLLGrammar ps st driverFuel with
      | .ok _, .ok B0, .ok B1 =>
        let tt := termOrder B1   -- `parolTermNum ps st driverFuel = termNum tt`
        if !finalCheckB ps st driverFuel then some "fail left-factored-grammar-fails-the-checks" else
        if !tablesSoundB T then some "fail tables-not-sound" else
        if !tablesInRangeB T then some "fail tables-index-out-of-range-or-unsorted" else
        if !noLeftRecB T then some "fail tables-left-recursive" else
        let ts := termsN B0
        let foreign := ts.foldl (fun m a => max m (a + 1)) 0
        let G := toGrammarTbl (st :: namesN B0).eraseDups st B0
        match fbFirstDiff T (termNum tt) G (allStringsT (ts ++ [foreign]) n) with
        | .ok none => some "ok"
        | .ok (some w) => some s!"fail language-differs-on {Proto.showNats w}"
        | .error e => some s!"fail {e}"
      | .error e, _, _ =>
        some s!"fail model-pipeline-answers:{(showFbErr (fbCheckTable ps st driverFuel) e).replace " " "-"}"
      | _, _, _ => some "fail model-canon-not-ok"
    | ["panic"] => some "fail panic"
    | _ => some "ok"
  | _ => none

end ParolModel
