import ParolModel.Model.KDecProto
import ParolModel.Model.LaBuild
import ParolModel.Model.LLProto
import ParolModel.Model.Fixpoints
/-! # The LL(k) table generator as ONE function (C01c)

`genTables G K fuel` composes the existing model functions exactly as parol's generator composes
the real ones for a plain BNF grammar `G` (already transformed; no production attributes):

1. `crates/parol/src/analysis/k_decision.rs::calculate_lookahead_dfas`
   * first `calculate_k_tuples` (`KS.calculateKTuples`): non-terminals in alphabetical order
     (`KS.ntsOf`), per non-terminal `decidable` (`KS.decidableM`: `Ok(0)` for one alternative, else
     the least `k ∈ 1..K` with pairwise disjoint FIRST_k(production) ⊙_k FOLLOW_k(non-terminal)),
     `try_fold` stops at the first failing non-terminal and its error is the result;
   * then the `try_fold` over the `BTreeMap<production index, KTuples>`: ascending production index,
     `LookaheadDFA::from_k_tuples(t, i)` united into the automaton of the production's left-hand
     side. Per non-terminal this is `uniteAll true k sets` (Model/LaBuild.lean) on that
     non-terminal's entries of the map, in ascending production order — the entries
     `calculate_tuples_for_non_terminal` inserted for it, i.e. `KS.laSets G fuel A k` at the decided
     `k` (the caches make the second read return the same value: C06 `cache_order_irrelevant`).
     The `k` handed to `fromKTuples` is the `k` the `KTuples` were built with (it decides
     Complete/Incomplete, hence the order of `KTuples::sorted()`).
2. `generators/parser_model.rs::build_lookahead_automata_model`: non-terminals in alphabetical order
   (`ordered_non_terminal_names` = `get_non_terminal_set`), `CompiledDFA::from_lookahead_dfa`
   (`compileDfa … []`: conversion + `AdjacencyList::minimize`; the hash-map iteration order does
   not matter, C07 `compiled_order_indep`).
3. `build_production_model`: productions in grammar order, `lhs_index` / `NonTerminal(index)` =
   position in the alphabetical non-terminal list (`ntIndex`), terminals keep their index;
   `parser_generator.rs::Production::from_ir` reverses the right-hand side (`rhsRev`);
   `is_push_production` is `false` (no `AddToCollection` attribute in a plain BNF grammar).
   `find_start_symbol_index` = position of the start symbol.

Errors: `maxk` (`MaxKExceeded`), `notpart` (a non-terminal without production), `conflict`
(`unite`), `panic` (a path on which the Rust code would panic), `fuel` (model only). -/
namespace ParolModel
open KS

deriving instance DecidableEq for LLProd
deriving instance DecidableEq for LLTables

inductive GenErr
  | maxK
  | notPart
  | conflict
  | panic
  | fuel
  deriving DecidableEq, Repr

def GenErr.ofDec : DecRes → GenErr
  | .errMaxK => .maxK
  | .errNotPart => .notPart
  | .fuel => .fuel
  | .ok _ => .panic

def GenErr.ofLa : Err → GenErr
  | .conflict => .conflict
  | .panic => .panic
  | .fuel => .fuel

/-- `non_terminal_names.iter().position(|n| n == nt)` -/
def ntIndex (G : Grammar) (A : Nat) : Nat := (ntsOf G).idxOf A

def genSym (G : Grammar) : Sym → PT
  | .t a => .t a
  | .n B => .n (ntIndex G B)

/-- one entry of the generated `PRODUCTIONS` -/
def genProd (G : Grammar) (r : Rule) : LLProd :=
  ⟨ntIndex G r.lhs, (r.rhs.map (genSym G)).reverse, false⟩

/-- the compiled lookahead automaton of non-terminal `A` -/
def genAuto (G : Grammar) (fuel K A : Nat) : Except GenErr LaDfa :=
  match decidableM G fuel A K with
  | .ok k =>
    match laSets G fuel A k with
    | none => .error .fuel
    | some sets =>
      match uniteAll true k sets with
      | none => .error .panic
      | some (.error e) => .error (GenErr.ofLa e)
      | some (.ok d) =>
        match compileDfa d [] with
        | none => .error .panic
        | some c => .ok c
  | e => .error (GenErr.ofDec e)

def genAutos (G : Grammar) (fuel K : Nat) : List Nat → Except GenErr (List LaDfa)
  | [] => .ok []
  | A :: rest =>
    match genAuto G fuel K A with
    | .error e => .error e
    | .ok c =>
      match genAutos G fuel K rest with
      | .error e => .error e
      | .ok cs => .ok (c :: cs)

/-- **The generator**: `calculate_lookahead_dfas` followed by the table layout of
    `generate_parser_export_model` / `generate_parser_source`. -/
def genTables (G : Grammar) (K fuel : Nat) : Except GenErr LLTables :=
  match calculateKTuples G fuel K with
  | .err _ e => .error (GenErr.ofDec e)
  | .ok _ =>
    match genAutos G fuel K (ntsOf G) with
    | .error e => .error e
    | .ok ds => .ok ⟨ntIndex G G.start, G.prods.map (genProd G), ds⟩

/-! ## decidable well-formedness hypotheses of the pipeline theorems -/

/-- no terminal is numbered 0 (parol numbers user terminals from 5) -/
def noEoiB (G : Grammar) : Bool := G.prods.all fun p => !(p.rhs.contains (Sym.t 0))

/-- the non-terminals are `0..n-1` (then `ntIndex` is the identity and the tables denote `G` itself) -/
def ntsDenseB (G : Grammar) : Bool := ntsOf G == List.range (ntsOf G).length

/-- the executable form of the hypotheses of the pipeline theorems (`PipelineHyp`, Props/C01c.lean):
    the model of `check_and_transform_grammar`'s checks passes (productive, reachable, no left
    recursion), no terminal 0, dense non-terminal numbers -/
def pipelineHypB (G : Grammar) : Bool :=
  decide (checkGrammar G true [] = .ok .passed) && noEoiB G && ntsDenseB G

/-! ## protocol -/

def showPT : PT → String
  | .t a => s!"t{a}"
  | .n a => s!"n{a}"
  | .e p => s!"e{p}"

/-- `lhs:push:sym,sym` (right-hand side reversed, as stored) — `parseLLProd` -/
def showLLProd (p : LLProd) : String :=
  s!"{p.lhs}:{if p.push then 1 else 0}:{",".intercalate (p.rhsRev.map showPT)}"

/-- `prod0/k/from:term:to:prod+…` — `parseDfa` -/
def showLaDfa (d : LaDfa) : String :=
  let tr := if d.trans.isEmpty then "-" else
    "+".intercalate (d.trans.map fun t => s!"{t.src}:{t.term}:{t.dst}:{t.prod}")
  s!"{d.prod0}/{d.k}/{tr}"

/-- `<start> <prods> <dfas>`: the encoding of `harness/src/parsegen.rs::enc_ll_tables` -/
def showLLTables (T : LLTables) : String :=
  let ps := if T.prods.isEmpty then "-" else ";".intercalate (T.prods.map showLLProd)
  let ds := if T.dfas.isEmpty then "-" else ";".intercalate (T.dfas.map showLaDfa)
  s!"{T.start} {ps} {ds}"

def showGenErr : GenErr → String
  | .maxK => "err maxk"
  | .notPart => "err notpart"
  | .conflict => "err conflict"
  | .panic => "panic"
  | .fuel => "fuel-exhausted"

/-- terminals in order of first occurrence (`Cfg::get_ordered_terminals`) -/
def orderedTerms (G : Grammar) : List Nat :=
  dedupNat (G.prods.flatMap fun p => p.rhs.filterMap fun s => match s with | .t a => some a | .n _ => none)

/-- The request's terminal numbers are parol's terminal indices: the i-th terminal in order of
    first occurrence is `5 + i` (`FIRST_USER_TOKEN`). Anything else is `bad-op` on both sides. -/
def termsCanonical (G : Grammar) : Bool :=
  orderedTerms G == (List.range (orderedTerms G).length).map (· + 5)

-- @handler gen-tables handleGenTables
/-- `gen-tables <start> <prods> <K>` → `<start> <prods> <dfas>` (the generated tables in the
    encoding the C01 case lines use for the real tables) | `err <kind>` -/
def handleGenTables : List String → Option String
  | [st, ps, maxk] => do
    let G ← parseGrammar st ps
    let maxk ← maxk.toNat?
    if G.prods.isEmpty || maxk > 10 || !termsCanonical G then none else
    match genTables G maxk driverFuel with
    | .ok T => some (showLLTables T)
    | .error e => some (showGenErr e)
  | _ => none

-- @handler gen-tables-match handleGenTablesMatch
/-- `gen-tables-match <start> <tprods> <K> <rstart> <rprods> <rdfas>` → `ok` | `fail <why>`:
    the tables parol REALLY generated (`<rstart> <rprods> <rdfas>`, e.g. words 1–3 of a C01 case
    line) are the tables `genTables` computes from the transformed grammar `<start> <tprods>` (in
    parol's own numbering, word 13 of a C01 case line) with the same lookahead limit. The
    `is_push_production` flags are not compared (they come from production attributes, which a
    plain `Grammar` does not carry). -/
def handleGenTablesMatch : List String → Option String
  | [st, ps, maxk, rst, rps, rds] => do
    let G ← parseGrammar st ps
    let maxk ← maxk.toNat?
    let rst ← rst.toNat?
    let rps ← parseLLProds rps
    let rds ← parseDfas rds
    if G.prods.isEmpty || maxk > 10 then none else
    match genTables G maxk driverFuel with
    | .error e => some s!"fail model-generator-answers:{(showGenErr e).replace " " "-"}"
    | .ok T =>
      if T.start != rst then some "fail start-symbol-index" else
      if T.prods.map (fun p => (p.lhs, p.rhsRev)) != rps.map (fun p => (p.lhs, p.rhsRev)) then
        some "fail productions-differ" else
      if T.dfas != rds then
        some s!"fail automata-differ:model={";".intercalate (T.dfas.map showLaDfa)}" else some "ok"
  | _ => none

end ParolModel
