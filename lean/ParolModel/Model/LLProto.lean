import ParolModel.Model.LL
import ParolModel.Model.CfgProto
/-! Line protocol for the LL(k) parser model.

`ll <start> <prods> <dfas> <opts> <depth> <tokens> …` (further words are ignored by this handler):
* prods: `lhs:push:sym,sym;…` with the right-hand side REVERSED as in the generated tables,
  sym = `t<n>` | `n<n>`; an empty right-hand side is `lhs:push:`
* dfas: `prod0/k/trans;…` with trans = `-` | `from:term:to:prod+…`
* opts: two bits `<trim><recovery>`; depth: `-` | `<n>`
* tokens: `-` | `ty:flag,…` with flag 0 = significant, 1 = skipped, 2 = skipped comment
Reply: `<res> <actions> <tree> <comments>`; with recovery on and a result other than ok: `err`. -/
namespace ParolModel

def parsePTSym (s : String) : Option PT :=
  if s.startsWith "t" then (s.drop 1).toNat?.map PT.t
  else if s.startsWith "n" then (s.drop 1).toNat?.map PT.n
  else none

def parseLLProd (s : String) : Option LLProd :=
  match s.splitOn ":" with
  | [l, p, r] => do
    let l ← l.toNat?
    let p ← Proto.parseBool p
    let r ← if r == "" then some [] else (r.splitOn ",").mapM parsePTSym
    some ⟨l, r, p⟩
  | _ => none

def parseLLProds (s : String) : Option (List LLProd) :=
  if s == "-" then some [] else (s.splitOn ";").mapM parseLLProd

def parseDfa (s : String) : Option LaDfa :=
  match s.splitOn "/" with
  | [p0, k, tr] => do
    let p0 ← Proto.parseInt p0
    let k ← k.toNat?
    let tr ← if tr == "-" then some [] else parseTrans (tr.replace "+" ";")
    some ⟨p0, tr, k⟩
  | _ => none

def parseDfas (s : String) : Option (List LaDfa) :=
  if s == "-" then some [] else (s.splitOn ";").mapM parseDfa

def parseOpts (bits depth : String) : Option Opts :=
  match bits.toList with
  | [a, b] => do
    let t ← Proto.parseBool (String.ofList [a])
    let r ← Proto.parseBool (String.ofList [b])
    let d ← if depth == "-" then some none else depth.toNat?.map some
    some ⟨t, r, d⟩
  | _ => none

def parseToks (s : String) : Option (List MTok) :=
  if s == "-" then some [] else do
    let items ← (s.splitOn ",").mapM (fun x =>
      match x.splitOn ":" with
      | [ty, fl] => do
        let ty ← ty.toNat?
        let fl ← fl.toNat?
        if fl > 2 then none else some (ty, fl)
      | _ => none)
    some (items.zipIdx.map (fun ((ty, fl), i) => ⟨ty, fl != 0, fl == 2, i⟩))

def showItem : PTItem → String
  | .tok id _ => s!"t{id}"
  | .nt l => s!"n{l}"

def showActions (a : List (Nat × List PTItem)) : String :=
  if a.isEmpty then "-" else
  ";".intercalate (a.map (fun (p, ch) => s!"{p}({",".intercalate (ch.map showItem)})"))

def showTree (t : List TreeEv) : String :=
  if t.isEmpty then "-" else
  ",".intercalate (t.map (fun
    | .open_ none => "or"
    | .open_ (some n) => s!"o{n}"
    | .close => "c"
    | .tok id => s!"t{id}"))

def showLLRes : Res → String
  | .ok => "ok"
  | .syntax (some i) => s!"syntax:{i}"
  | .syntax none => "syntax:eoi"
  | .unprocessed => "unprocessed"
  | .depth d => s!"depth:{d}"
  | .recoveryFailed => "recovery-failed"
  | .internal => "internal"
  | .fuel => "fuel-exhausted"

def showOut (o : Opts) (r : LLOut) : String :=
  if o.recovery && r.res != .ok then "err" else
  s!"{showLLRes r.res} {showActions r.actions} {showTree r.tree} {Proto.showNats r.comments}"

/-- Enough fuel for every terminating run we explore; exhaustion is reported, never defaulted. -/
def llFuel (T : LLTables) (toks : List MTok) : Nat :=
  (toks.length + 2) * (T.prods.length + 2) * 64 + 1000

-- @handler ll handleLL
def handleLL : List String → Option String
  | st :: ps :: ds :: bits :: depth :: toks :: _ => do
    let st ← st.toNat?
    let ps ← parseLLProds ps
    let ds ← parseDfas ds
    let o ← parseOpts bits depth
    let toks ← parseToks toks
    let T : LLTables := ⟨st, ps, ds⟩
    some (showOut o (llRun T o (llFuel T toks) toks))
  | _ => none

end ParolModel
